"""C12 (bounded, T3): Chebyshev interpolation is exact on polynomials of degree below the grid size.

Oracle (independent of teneva): f(x) = sum_{t<R} prod_k p_{t,k}(tau_k(x_k)), tau_k(x) = (2x - a_k - b_k)/(b_k - a_k),
every p_{t,k} given by explicit monomial coefficients of degree < n_k (integers in [-3, 3] or Gaussian); values,
integrals (sum_j c_j (1+(-1)^j)/(j+1) (b-a)/2) and derivatives come from numpy.polynomial, exact Chebyshev
coefficients from poly2cheb; own Chebyshev nodes x_i = cos(pi i/(n-1)) (b-a)/2 + (b+a)/2 (index 0 <-> b).
The grid values are handed to teneva as a TT-tensor of rank R (diagonal cores) and as a dense array.

Clauses (statement -> clause):
  coefficients reproduce f at any point of the box          C12.tt.get / C12.full.get   (batch, single point, box corners)
  points outside receive the fill value z                   C12.tt.outside / C12.full.outside (three-valued skip_out)
  re-sampling on any new grid                               C12.tt.gets / C12.full.gets
  exact integral, TT for any box                            C12.tt.sum
  dense integral on symmetric boxes, ValueError otherwise   C12.full.sum / C12.full.sum.reject
  differentiation matrices exact at the nodes (orders 1,2,3) C12.diff_matrix
  the coefficient tensors are the exact Chebyshev coefficients; TT == dense     C12.tt.coeffs / C12.full.coeffs
  transform linear and inverted by re-sampling on the same grid                 C12.linear_inverse
  sine kind: transform / re-sampling pair                   C12.sin.pair
  custom basis fitted by least squares reproduces its span  C12.func_int_general.runs  (KNOWN DEFECT: TypeError for every input)
                                                            C12.func_int_general.span  (coefficients of a function in the span
                                                            of monomials / Legendre / shifted Chebyshev / exponentials at arbitrary
                                                            nodes, shared 1-D or per-mode 2-D X, array or list, rcond given or not,
                                                            function scale 1e-8 .. 1e8, and func_get(funcs=...) at arbitrary points;
                                                            X also float32 / Fortran order / tuple, rcond positionally)
  three-term recurrence of the basis                        C12.func_basis.values (m = 1.., 1-D / 2-D / 3-D X, end points)

Parameter coverage (audit): d = 4 and 5 for the TT routines (interior cores beyond the neighbours of the boundary
cores) and d = 4 dense; function scales 1e-4^d and 1e+4^d (kinds 'tiny' / 'huge'; the statement is homogeneous);
boxes of width 4e-7, 4e-6 (one-sided), 8e6, far from the origin (3e5, 7e5) - absolute tolerances on points or
bounds show there; argument forms: points as list of lists / single point as list, bounds as ndarray / list / number,
new grid m as ndarray / list / int / float (coarser and finer than n), func_sum with ndarray bounds and explicit kind.

Input forms (audit f3-forms; the reference is always the float64 image of what is passed):
  C12.forms.eval        func_get / func_gets / func_sum / func_get_full / func_gets_full / func_sum_full on an integer-valued
                        coefficient tensor: cores float32 / int64 / int32 / mixed dtypes / Fortran order / strided view / read-only /
                        tuple of cores; points list / tuple / float32 / integer / Fortran / strided / read-only, single point; bounds
                        float list / array / tuple / int list / int64, int32, float32 array / Python int / float / numpy.float64;
                        new grid list / tuple / int64, int32, float array / int / float; calls positional (documented order) /
                        keyword / mixed / defaults left out; result float64, arguments untouched
  C12.forms.transform   func_int (cheb and sin, kind positionally / by keyword), func_int_full, func_gets(m=None) on integer-valued
                        grid values in the same core / array forms (float32 data: float32 tolerance - scipy's dct and numpy's fft run in
                        single precision on it); the result is a float tensor
  C12.forms.diff_basis  func_diff_matrix with a, b, n, m as Python int / float / numpy int64 / int32 / float64 / float32 numbers (float32
                        bounds: float32 tolerance), func_basis with float32 / integer / Fortran / strided / read-only points, numpy m
  C12.forms.numpy_scalar_args  DOUBTFUL, replay only: numpy.int64 / int32 / float32 / 0-d scalars as bounds or grid size raise
                        TypeError / IndexError in grid_prep_opt (numpy.float64 works: subclass of float)

Tolerance (scale-aware): every quantity is bounded by S = sum_t prod_k sum_j |c_{t,k,j}|; rounding of the scaled
argument tau is amplified by |p'| <= n^2 S and by kappa = max(|a|,|b|)/(b-a), hence
|error| <= 64 eps d n_max^2 (1 + kappa) S  (values, coefficients, integrals times the box volume);
derivatives of order q: 64 eps n^(2q+2) (2/(b-a))^q S.
"""
import numpy as np
import teneva
from rtc.api import clause, PASS, FAIL, TRIVIAL, SKIP, check
from rtc import gen

BUDGET = (100, 800)
BOUNDS = ('d = 1..4 (dense) / 2..5 (TT), n_k in 2..6 (quick) / 2..8 (thorough), R = 1..3 product terms, integer and '
          'Gaussian monomial coefficients, function scales 1e-4^d .. 1e4^d, 13 boxes (symmetric, one-sided, far from the origin, '
          'wide, widths 4e-7 .. 8e6), <= 12 evaluation '
          'points per case, new grids m_k in 2..9; diff matrices n = 2..8 (12 thorough), orders 1..3; custom bases: 4 families, '
          'd = 2..4, 2..5 nodes per mode, cond <= 0.01 / rcond; func_basis m = 1..10; input forms: 9 core / array forms x 8 point forms x 10 bound forms '
          'x 7 grid forms x 5 call forms in rotation on integer-valued tensors of 3 shapes (6 thorough), d = 2..5, numbers of 6 types for diff matrices')

EPS = np.finfo(float).eps
Pm = np.polynomial.polynomial
Pc = np.polynomial.chebyshev

BOXES = [(-1., 1.), (-2.5, 2.5), (0., 1.), (-3., -1.), (1e-3, 5.), (-1e3, 2e3), (10., 10.5), (-0.25, 0.25), (-1., 3.),
         (-1e-6, 3e-6), (-4e6, 4e6), (-2e-7, 2e-7), (3e5, 7e5)]        # 9..12: tiny / huge boxes (appended: audit)
SYM = [0, 1, 7, 10, 11]


def _coefs(n, R, seed, kind):
    """C[t][k]: monomial coefficients (low power first) of p_{t,k}, exactly n[k] of them (degree < n_k)."""
    g = gen.rng('C12.coefs', n, R, seed, kind)
    C = []
    for t in range(R):
        row = []
        for nk in n:
            c = g.integers(-3, 4, size=nk).astype(float) if kind == 'int' else g.normal(size=nk)
            if not np.any(c):
                c[0] = 1.
            if kind in ('tiny', 'huge'):        # function scale (per factor 1e-4 / 1e+4): the statement is homogeneous
                c = c * (1e-4 if kind == 'tiny' else 1e4)
            row.append(c)
        C.append(row)
    return C


def _tau(x, a, b):
    return (2. * np.asarray(x, dtype=float) - a - b) / (b - a)


def _nodes_t(n):
    return np.cos(np.pi * np.arange(n) / (n - 1))


def _nodes_x(n, a, b):
    return _nodes_t(n) * (b - a) / 2. + (b + a) / 2.


def _f(X, C, a, b):
    X = np.atleast_2d(np.asarray(X, dtype=float))
    out = np.zeros(X.shape[0])
    for row in C:
        term = np.ones(X.shape[0])
        for k, c in enumerate(row):
            term = term * Pm.polyval(_tau(X[:, k], a[k], b[k]), c)
        out += term
    return out


def _values_tt(C, n):
    """TT-tensor (rank R, diagonal cores) of the values on the Chebyshev grid; needs d >= 2."""
    R, d = len(C), len(n)
    Y = []
    for k in range(d):
        V = np.array([Pm.polyval(_nodes_t(n[k]), C[t][k]) for t in range(R)])        # (R, n_k)
        if k == 0:
            G = V.T[None, :, :]
        elif k == d - 1:
            G = V[:, :, None]
        else:
            G = np.zeros((R, n[k], R))
            for t in range(R):
                G[t, :, t] = V[t]
        Y.append(np.ascontiguousarray(G))
    return Y


def _outer_sum(vecs):
    """sum_t outer(vecs[t][0], ..., vecs[t][d-1])."""
    out = 0.
    for row in vecs:
        term = np.ones(())
        for v in row:
            term = np.multiply.outer(term, v)
        out = out + term
    return out


def _values_dense(C, n):
    return _outer_sum([[Pm.polyval(_nodes_t(nk), c) for c, nk in zip(row, n)] for row in C])


def _cheb_dense(C, n):
    vecs = []
    for row in C:
        r = []
        for c, nk in zip(row, n):
            cc = Pc.poly2cheb(c)
            r.append(np.concatenate([cc, np.zeros(nk - len(cc))]))
        vecs.append(r)
    return _outer_sum(vecs)


def _integral(C, a, b):
    tot = 0.
    for row in C:
        term = 1.
        for k, c in enumerate(row):
            j = np.arange(len(c))
            term *= (b[k] - a[k]) / 2. * np.sum(c * (1. + (-1.) ** j) / (j + 1.))
        tot += term
    return tot


def _S(C):
    return float(sum(np.prod([np.abs(c).sum() for c in row]) for row in C))


def _kappa(a, b):
    return float(max(max(abs(x), abs(y)) / (y - x) for x, y in zip(a, b)))


def _tol(C, n, a, b):
    return 64. * EPS * len(n) * max(n) ** 2 * (1. + _kappa(a, b)) * _S(C)


def _points(a, b, m, seed, margin=1e-9):
    g = gen.rng('C12.points', a, b, m, seed)
    a, b = np.asarray(a), np.asarray(b)
    u = g.uniform(margin, 1. - margin, size=(m, len(a)))
    return a + u * (b - a)


def _setup(n, a, b, R, seed, kind):
    n = [int(k) for k in n]
    a = [float(x) for x in a]
    b = [float(x) for x in b]
    C = _coefs(n, R, seed, kind)
    return n, a, b, C


def _cmp(got, want, tol, what):
    got, want = np.asarray(got, dtype=float), np.asarray(want, dtype=float)
    if got.shape != want.shape:
        return f'{what}: shape {got.shape} != {want.shape}'
    if not np.all(np.isfinite(got)):
        return f'{what}: non-finite'
    err = float(np.abs(got - want).max()) if got.size else 0.
    if not err <= tol:
        return f'{what}: error {err:.3e} > tol {tol:.3e}'
    return None


# ------------------------------------------------------------------ TT routines

@clause('C12.tt.coeffs', funcs=('func.func_int',))
def tt_coeffs(n, a, b, R, seed, kind):
    """func_int returns a TT-tensor of the same shape whose entries are the exact Chebyshev coefficients of f."""
    n, a, b, C = _setup(n, a, b, R, seed, kind)
    A = teneva.func_int(_values_tt(C, n))
    msg = gen.wf(A, n)
    if msg:
        return FAIL('func_int result not well-formed: ' + msg)
    msg = _cmp(gen.dense(A), _cheb_dense(C, n), _tol(C, n, [-1.] * len(n), [1.] * len(n)), 'coefficients')
    return FAIL(msg) if msg else PASS


@clause('C12.tt.get', funcs=('func.func_get', 'func.func_int', 'func.func_basis', 'grid.poi_scale'))
def tt_get(n, a, b, R, seed, kind, m):
    """func_get reproduces f at random points of the box (batch), at a single point (float result) and at the
    corners a / b of the box (which belong to the box)."""
    n, a, b, C = _setup(n, a, b, R, seed, kind)
    A = teneva.func_int(_values_tt(C, n))
    tol = _tol(C, n, a, b)
    X = _points(a, b, m, seed)
    y = teneva.func_get(X, A, a, b, z=-7.5)
    if not isinstance(y, np.ndarray) or y.shape != (m,):
        return FAIL(f'batch result has shape {getattr(y, "shape", None)}')
    msg = _cmp(y, _f(X, C, a, b), tol, 'func_get(batch)')
    if msg:
        return FAIL(msg)
    y1 = teneva.func_get(X[0], A, a, b, z=-7.5)
    if np.ndim(y1) != 0:
        return FAIL(f'single point returns ndim {np.ndim(y1)}')
    if not abs(y1 - y[0]) <= tol:
        return FAIL(f'single point {y1!r} differs from the batch value {y[0]!r}')
    # scalar bounds when all dimensions share them
    if len(set(a)) == 1 and len(set(b)) == 1:
        msg = _cmp(teneva.func_get(X, A, a[0], b[0], z=-7.5), y, tol, 'scalar bounds vs list bounds')
        if msg:
            return FAIL(msg)
    # other argument forms: points as a list of lists, bounds as arrays, a single point as a list
    msg = _cmp(teneva.func_get(X.tolist(), A, np.array(a), np.array(b), -7.5), y, tol, 'list points / array bounds')
    if msg:
        return FAIL(msg)
    y1 = teneva.func_get(X[-1].tolist(), A, np.array(a), b, skip_out=True)
    if not (np.ndim(y1) == 0 and abs(y1 - y[-1]) <= tol):
        return FAIL(f'single point given as a list: {y1!r} vs batch value {y[-1]!r}')
    g = gen.rng('C12.corner', seed)
    Xc = np.array([[(a[k], b[k])[int(g.integers(2))] for k in range(len(n))] for _ in range(4)])
    msg = _cmp(teneva.func_get(Xc, A, a, b, z=-7.5), _f(Xc, C, a, b), tol, 'func_get(corners of the box)')
    return FAIL(msg) if msg else PASS


@clause('C12.tt.outside', funcs=('func.func_get',))
def tt_outside(n, a, b, R, seed, kind, z):
    """Points with a coordinate outside [a_k, b_k] receive the fill value z when skip_out is True or left at
    None with explicit bounds; points inside are unaffected; with skip_out=False (or None with a / b omitted,
    box [-1, 1]) nothing is skipped (the value is then f at the point clipped to the box, see grid.poi_scale)."""
    n, a, b, C = _setup(n, a, b, R, seed, kind)
    d = len(n)
    A = teneva.func_int(_values_tt(C, n))
    tol = _tol(C, n, a, b)
    g = gen.rng('C12.outside', seed)
    Xin = _points(a, b, 3, seed)
    Xout = _points(a, b, 2 * d + 1, seed + 1)
    for k in range(d):                              # one coordinate below a_k / above b_k, the others inside
        w = b[k] - a[k]
        Xout[2 * k, k] = a[k] - w * float(g.choice([1e-9, 0.5, 30.]))
        Xout[2 * k + 1, k] = b[k] + w * float(g.choice([1e-9, 0.5, 30.]))
    Xout[-1] = np.array(b) + np.array(b) - np.array(a)        # all coordinates outside
    X = np.vstack([Xin, Xout])
    want_in = _f(Xin, C, a, b)
    clipped = np.clip(X, a, b)
    for skip in (None, True):
        y = teneva.func_get(X, A, a, b, z=z, skip_out=skip)
        if not np.all(y[3:] == z):
            return FAIL(f'skip_out={skip}: outside points got {y[3:].tolist()} instead of z={z}')
        msg = _cmp(y[:3], want_in, tol, f'skip_out={skip}: inside points')
        if msg:
            return FAIL(msg)
        for i in (3, len(X) - 1):
            y1 = teneva.func_get(X[i], A, a, b, z=z, skip_out=skip)
            if not (np.ndim(y1) == 0 and y1 == z):
                return FAIL(f'skip_out={skip}: single outside point got {y1!r}')
    y = teneva.func_get(X, A, a, b, z=z, skip_out=False)
    msg = _cmp(y, _f(clipped, C, a, b), tol, 'skip_out=False: value at the clipped point')
    if msg:
        return FAIL(msg)
    if all(x == -1. for x in a) and all(x == 1. for x in b):
        for kw in (dict(), dict(a=-1.), dict(b=1.)):
            y = teneva.func_get(X, A, z=z, **kw)
            msg = _cmp(y, _f(clipped, C, a, b), tol, f'bounds omitted {sorted(kw)}: nothing is skipped')
            if msg:
                return FAIL(msg)
        y = teneva.func_get(X, A, z=z, skip_out=True)
        if not np.all(y[3:] == z):
            return FAIL('bounds omitted, skip_out=True: outside points not filled')
    return PASS


@clause('C12.tt.gets', funcs=('func.func_gets', 'func.func_int', 'grid.ind_to_poi'))
def tt_gets(n, a, b, R, seed, kind, m):
    """func_gets on a new grid m (list, or int for all modes) returns the values of f at the new Chebyshev nodes."""
    n, a, b, C = _setup(n, a, b, R, seed, kind)
    A = teneva.func_int(_values_tt(C, n))
    tol = _tol(C, n, [-1.] * len(n), [1.] * len(n))
    mm = [int(m)] * len(n) if isinstance(m, int) else [int(k) for k in m]
    Z = teneva.func_gets(A, m)
    msg = gen.wf(Z, mm)
    if msg:
        return FAIL('func_gets result not well-formed: ' + msg)
    msg = _cmp(gen.dense(Z), _values_dense(C, mm), tol, f'values on the new grid {mm}')
    if msg:
        return FAIL(msg)
    # other forms of the grid argument: array for a list, float for an int
    Z2 = teneva.func_gets(A, float(m) if isinstance(m, int) else np.array(mm))
    msg = gen.wf(Z2, mm) or _cmp(gen.dense(Z2), gen.dense(Z), 0., 'array / float form of m')
    return FAIL(msg) if msg else PASS


@clause('C12.tt.sum', funcs=('func.func_sum', 'func.func_int'))
def tt_sum(n, a, b, R, seed, kind):
    """func_sum returns the exact integral of f over the box (any box)."""
    n, a, b, C = _setup(n, a, b, R, seed, kind)
    A = teneva.func_int(_values_tt(C, n))
    vol = float(np.prod([y - x for x, y in zip(a, b)]))
    v = teneva.func_sum(A, a, b)
    msg = _cmp(v, _integral(C, a, b), _tol(C, n, [-1.] * len(n), [1.] * len(n)) * vol, 'integral')
    if msg:
        return FAIL(msg)
    if len(set(a)) == 1 and len(set(b)) == 1:
        msg = _cmp(teneva.func_sum(A, a[0], b[0]), v, _tol(C, n, [-1.] * len(n), [1.] * len(n)) * vol, 'scalar bounds vs list bounds')
        if msg:
            return FAIL(msg)
    msg = _cmp(teneva.func_sum(A, np.array(a), np.array(b), 'cheb'), v, 0., 'array bounds vs list bounds')
    return FAIL(msg) if msg else PASS


# ------------------------------------------------------------------ dense routines

@clause('C12.full.coeffs', funcs=('func_full.func_int_full', 'func.func_int'))
def full_coeffs(n, a, b, R, seed, kind):
    """func_int_full returns the exact Chebyshev coefficients and (d >= 2) agrees with the TT routine."""
    n, a, b, C = _setup(n, a, b, R, seed, kind)
    V = _values_dense(C, n)
    Af = teneva.func_int_full(V.copy())
    tol = _tol(C, n, [-1.] * len(n), [1.] * len(n))
    msg = _cmp(Af, _cheb_dense(C, n), tol, 'dense coefficients')
    if msg:
        return FAIL(msg)
    if len(n) >= 2:
        msg = _cmp(gen.dense(teneva.func_int(_values_tt(C, n))), Af, tol, 'TT vs dense coefficients')
        if msg:
            return FAIL(msg)
    return PASS


@clause('C12.full.get', funcs=('func_full.func_get_full', 'func_full.func_int_full'))
def full_get(n, a, b, R, seed, kind, m):
    """func_get_full reproduces f at random points and corners of the box and agrees with func_get (d >= 2)."""
    n, a, b, C = _setup(n, a, b, R, seed, kind)
    Af = teneva.func_int_full(_values_dense(C, n))
    tol = _tol(C, n, a, b)
    X = _points(a, b, m, seed)
    g = gen.rng('C12.corner', seed)
    Xc = np.array([[(a[k], b[k])[int(g.integers(2))] for k in range(len(n))] for _ in range(3)])
    X = np.vstack([X, Xc])
    y = teneva.func_get_full(X, Af, a, b, z=-7.5)
    msg = _cmp(y, _f(X, C, a, b), tol, 'func_get_full')
    if msg:
        return FAIL(msg)
    if len(n) >= 2:
        A = teneva.func_int(_values_tt(C, n))
        msg = _cmp(teneva.func_get(X, A, a, b, z=-7.5), y, tol, 'TT vs dense evaluation')
        if msg:
            return FAIL(msg)
    return PASS


@clause('C12.full.outside', funcs=('func_full.func_get_full',))
def full_outside(n, a, b, R, seed, kind, z):
    """func_get_full: outside points receive z (skip_out default / True), inside points are unaffected."""
    n, a, b, C = _setup(n, a, b, R, seed, kind)
    d = len(n)
    Af = teneva.func_int_full(_values_dense(C, n))
    Xin = _points(a, b, 2, seed)
    Xout = _points(a, b, 2 * d, seed + 1)
    for k in range(d):
        w = b[k] - a[k]
        Xout[2 * k, k] = a[k] - w * (1e-9, 0.5)[k % 2]
        Xout[2 * k + 1, k] = b[k] + w * (30., 1e-9)[k % 2]
    X = np.vstack([Xin, Xout])
    tol = _tol(C, n, a, b)
    for kw in (dict(), dict(skip_out=True)):
        y = teneva.func_get_full(X, Af, a, b, z=z, **kw)
        if not np.all(y[2:] == z):
            return FAIL(f'{kw}: outside points got {y[2:].tolist()} instead of z={z}')
        msg = _cmp(y[:2], _f(Xin, C, a, b), tol, 'inside points')
        if msg:
            return FAIL(msg)
    y = teneva.func_get_full(X, Af, a, b, z=z, skip_out=False)
    msg = _cmp(y, _f(np.clip(X, a, b), C, a, b), tol, 'skip_out=False: value at the clipped point')
    return FAIL(msg) if msg else PASS


@clause('C12.full.gets', funcs=('func_full.func_gets_full', 'func_full.func_int_full', 'grid.grid_flat'))
def full_gets(n, a, b, R, seed, kind, m):
    """func_gets_full on a new grid m returns the values of f at the new Chebyshev nodes (array of shape m);
    m = None re-samples on the original grid."""
    n, a, b, C = _setup(n, a, b, R, seed, kind)
    Af = teneva.func_int_full(_values_dense(C, n))
    tol = _tol(C, n, [-1.] * len(n), [1.] * len(n))
    mm = n if m is None else ([int(m)] * len(n) if isinstance(m, int) else [int(k) for k in m])
    Z = teneva.func_gets_full(Af, a, b, m)
    msg = _cmp(Z, _values_dense(C, mm), tol, f'dense values on the new grid {mm}')
    return FAIL(msg) if msg else PASS


@clause('C12.full.sum', funcs=('func_full.func_sum_full', 'func.func_sum'))
def full_sum(n, a, b, R, seed, kind):
    """func_sum_full on a symmetric box returns the exact integral and agrees with func_sum (d >= 2)."""
    n, a, b, C = _setup(n, a, b, R, seed, kind)
    if any(x != -y for x, y in zip(a, b)):
        return SKIP('box not symmetric')
    Af = teneva.func_int_full(_values_dense(C, n))
    vol = float(np.prod([y - x for x, y in zip(a, b)]))
    tol = _tol(C, n, [-1.] * len(n), [1.] * len(n)) * vol
    v = teneva.func_sum_full(Af, a, b)
    msg = _cmp(v, _integral(C, a, b), tol, 'dense integral')
    if msg:
        return FAIL(msg)
    if len(n) >= 2:
        msg = _cmp(teneva.func_sum(teneva.func_int(_values_tt(C, n)), a, b), v, tol, 'TT vs dense integral')
        if msg:
            return FAIL(msg)
    return PASS


@clause('C12.full.sum.reject', funcs=('func_full.func_sum_full',))
def full_sum_reject(n, a, b, seed):
    """func_sum_full raises ValueError iff some dimension has |b_k| != |a_k| (difference above 1e-16)."""
    n = [int(k) for k in n]
    Af = gen.rng('C12.reject', n, seed).normal(size=n)
    bad = any(abs(abs(y) - abs(x)) > 1.E-16 for x, y in zip(a, b))
    try:
        v = teneva.func_sum_full(Af, list(a), list(b))
        raised = False
    except ValueError:
        raised = True
    if raised != bad:
        return FAIL(f'a={a} b={b}: raised={raised}, non-symmetric={bad}')
    if not raised and not np.isfinite(v):
        return FAIL(f'non-finite integral {v!r}')
    return PASS


# ------------------------------------------------------------------ differentiation matrices

@clause('C12.diff_matrix', funcs=('func.func_diff_matrix',))
def diff_matrix(n, a, b, order, seed, kind):
    """func_diff_matrix(a, b, n, m=order): D_q applied to the node values of a polynomial of degree < n gives its
    q-th derivative at the nodes, q = 1..order; m = 1 returns the matrix itself, m > 1 a list."""
    a, b = float(a), float(b)
    c = _coefs([n], 1, seed, kind)[0][0]
    t = _nodes_t(n)
    v = Pm.polyval(t, c)
    D = teneva.func_diff_matrix(a, b, n, m=order)
    if order == 1:
        if not (isinstance(D, np.ndarray) and D.shape == (n, n)):
            return FAIL(f'm=1 returns {type(D).__name__}')
        D = [D]
    elif not (isinstance(D, list) and len(D) == order and all(M.shape == (n, n) for M in D)):
        return FAIL(f'm={order} does not return a list of {order} matrices')
    S = np.abs(c).sum()
    for q in range(1, order + 1):
        dc = Pm.polyder(c, q) if q < len(c) else np.zeros(1)
        want = Pm.polyval(t, dc) * (2. / (b - a)) ** q
        tol = 64. * EPS * n ** (2 * q + 2) * (2. / (b - a)) ** q * S
        msg = _cmp(D[q - 1] @ v, want, tol, f'derivative of order {q}')
        if msg:
            return FAIL(msg)
    return PASS


# ------------------------------------------------------------------ linearity / inversion / sine kind / custom basis

@clause('C12.linear_inverse', funcs=('func.func_int', 'func.func_gets', 'func_full.func_int_full', 'func_full.func_gets_full'))
def linear_inverse(n, R, seed, kind, alpha, beta):
    """func_int(alpha Y1 + beta Y2) = alpha func_int(Y1) + beta func_int(Y2) (dense comparison) and
    func_gets(func_int(Y)) on the same grid returns Y, for the TT and the dense pair (arbitrary grid values)."""
    n = [int(k) for k in n]
    d = len(n)
    Y1, Y2 = gen.tt(n, R, seed, kind), gen.tt(n, max(1, R - 1), seed + 1, kind)
    V1, V2 = gen.dense(Y1), gen.dense(Y2)
    sc = (abs(alpha) * gen.absdense(Y1) + abs(beta) * gen.absdense(Y2)).max() + np.abs(V1).max()
    tol = 64. * EPS * d * max(n) ** 2 * sc * float(np.prod(n))
    # Y = alpha Y1 + beta Y2 as a TT-tensor built by hand (block cores)
    Ya = [G.copy() for G in Y1]
    Ya[0] = Ya[0] * alpha
    Yb = [G.copy() for G in Y2]
    Yb[0] = Yb[0] * beta
    Y = []
    for k in range(d):
        G1, G2 = Ya[k], Yb[k]
        if k == 0:
            Y.append(np.concatenate([G1, G2], axis=2))
        elif k == d - 1:
            Y.append(np.concatenate([G1, G2], axis=0))
        else:
            G = np.zeros((G1.shape[0] + G2.shape[0], n[k], G1.shape[2] + G2.shape[2]))
            G[:G1.shape[0], :, :G1.shape[2]] = G1
            G[G1.shape[0]:, :, G1.shape[2]:] = G2
            Y.append(G)
    A, A1, A2 = teneva.func_int(Y), teneva.func_int(Y1), teneva.func_int(Y2)
    msg = _cmp(gen.dense(A), alpha * gen.dense(A1) + beta * gen.dense(A2), tol, 'linearity (TT)')
    if msg:
        return FAIL(msg)
    msg = _cmp(gen.dense(teneva.func_gets(A1)), V1, tol, 'func_gets(func_int(Y)) on the same grid (TT)')
    if msg:
        return FAIL(msg)
    F = teneva.func_int_full(alpha * V1 + beta * V2)
    F1, F2 = teneva.func_int_full(V1), teneva.func_int_full(V2)
    msg = _cmp(F, alpha * F1 + beta * F2, tol, 'linearity (dense)')
    if msg:
        return FAIL(msg)
    msg = _cmp(teneva.func_gets_full(F1, -1., 1.), V1, tol, 'func_gets_full(func_int_full(Y)) on the same grid')
    if msg:
        return FAIL(msg)
    msg = _cmp(F1, gen.dense(A1), tol, 'TT vs dense coefficients of arbitrary data')
    return FAIL(msg) if msg else PASS


@clause('C12.sin.pair', funcs=('func.func_int', 'func.func_gets'))
def sin_pair(n, R, seed, m):
    """Sine kind: for f = sum_t prod_k sum_{j<=n_k} s_{t,k,j} sin(j x_k) sampled at x_i = pi (i+1)/(n_k+1),
    func_int(., 'sin') returns the s_{t,k,j} and func_gets(., m, 'sin') the values at pi (i+1)/(m_k+1)."""
    n = [int(k) for k in n]
    d = len(n)
    Cs = _coefs(n, R, seed, 'int')

    def vals(c, size):
        x = np.pi * np.arange(1, size + 1) / (size + 1)
        return np.sin(np.outer(x, np.arange(1, len(c) + 1))) @ c
    # TT of values (diagonal cores)
    Y = []
    for k in range(d):
        V = np.array([vals(Cs[t][k], n[k]) for t in range(R)])
        if k == 0:
            G = V.T[None, :, :]
        elif k == d - 1:
            G = V[:, :, None]
        else:
            G = np.zeros((R, n[k], R))
            for t in range(R):
                G[t, :, t] = V[t]
        Y.append(np.ascontiguousarray(G))
    S = _S(Cs)
    tol = 64. * EPS * d * max(n) ** 2 * S
    A = teneva.func_int(Y, kind='sin')
    msg = gen.wf(A, n) or _cmp(gen.dense(A), _outer_sum(Cs), tol, 'sine coefficients')
    if msg:
        return FAIL(msg)
    mm = [int(m)] * d if isinstance(m, int) else [int(k) for k in m]
    Z = teneva.func_gets(A, m, kind='sin')
    want = _outer_sum([[vals(c, mk) for c, mk in zip(row, mm)] for row in Cs])
    msg = gen.wf(Z, mm) or _cmp(gen.dense(Z), want, tol * max(mm), 'sine re-sampling')
    if msg:
        return FAIL(msg)
    msg = _cmp(gen.dense(teneva.func_gets(A, None, kind='sin')), gen.dense(Y), tol, 'sine re-sampling on the same grid')
    return FAIL(msg) if msg else PASS


@clause('C12.func_int_general.runs', funcs=('func.func_int_general',))
def func_int_general_runs(n, R, seed, basis, shared):
    """func_int_general with a custom basis phi_0..phi_{n-1} (monomials or shifted Legendre-like polynomials) and
    n points per mode returns cores A with sum_j A[:, j, :] phi_j(x_i) = Y[:, i, :]  (functions in the span are
    reproduced).  On the pinned tree the call raises TypeError for every input (lstsq has no `rcond`)."""
    n = [int(k) for k in n]
    d = len(n)
    if shared and len(set(n)) != 1:
        return SKIP('shared points need equal mode sizes')
    Y = gen.tt(n, R, seed, 'gauss')
    Y_in = [G.copy() for G in Y]

    def phi(x):
        x = np.asarray(x, dtype=float)
        m = len(x)
        if basis == 'mono':
            return np.array([x ** j for j in range(m)])
        return np.array([np.cos(j * np.arccos(np.clip(x, -1, 1))) + (0.5 if j else 0.) for j in range(m)])
    pts = [np.linspace(-0.9, 0.8, nk) + 0.05 * np.sin(np.arange(nk) + k) for k, nk in enumerate(n)]
    X = pts[0] if shared else (np.array(pts) if len(set(n)) == 1 else None)
    if X is None:
        return SKIP('per-mode point sets need equal mode sizes (2-D array argument)')
    A = teneva.func_int_general(Y_in, X, phi)
    msg = gen.wf(A, n)
    if msg:
        return FAIL('result not well-formed: ' + msg)
    for k in range(d):
        H = phi(pts[0] if shared else pts[k])                        # (basis, points)
        back = np.einsum('rjq,ji->riq', A[k], H)
        tol = 1e-9 * np.linalg.cond(H) * np.abs(Y[k]).max()
        if not np.abs(back - Y[k]).max() <= tol:
            return FAIL(f'core {k}: basis expansion does not reproduce the data: {np.abs(back - Y[k]).max():.3e} > {tol:.3e}')
    return PASS


def _phi(basis, nb):
    """custom basis phi_0..phi_{nb-1}: callable x (1-D) -> array (nb, len(x))"""
    def phi(x):
        x = np.asarray(x, dtype=float)
        if basis == 'mono':
            return np.array([x ** j for j in range(nb)])
        if basis == 'legendre':
            return np.array([np.polynomial.legendre.legval(x, [0.] * j + [1.]) for j in range(nb)])
        if basis == 'expo':         # not polynomial: 1, e^{x/2}, e^{x}, ...
            return np.array([np.exp(0.5 * j * x) for j in range(nb)])
        return np.array([np.cos(j * np.arccos(np.clip(x, -1, 1))) + (0.5 if j else 0.) for j in range(nb)])
    return phi


@clause('C12.func_int_general.span', funcs=('func.func_int_general', 'func.func_get'))
def func_int_general_span(d, nb, R, seed, basis, shared, form, rcond, scale, lo, hi):
    """A function in the span of a custom basis, f = sum_t prod_k sum_j c_{t,k,j} phi_j(x_k), sampled at nb arbitrary
    distinct nodes per mode (shared 1-D X, per-mode 2-D X as array or list of lists; interval [lo, hi] not symmetric):
    func_int_general returns a coefficient tensor equal to sum_t outer(c_{t,1}, ..., c_{t,d}) and
    func_get(., funcs=basis) reproduces f at arbitrary points.  Inputs whose collocation matrix has a condition
    number above 0.01 / rcond are skipped (the least-squares cut-off would drop basis directions)."""
    n = [nb] * d
    g = gen.rng('C12.span', d, nb, R, seed, basis, shared)
    phi = _phi(basis, nb)
    C = [[c * scale ** (1. / d) for c in row] for row in _coefs(n, R, seed, 'gauss')]
    nodes = []
    for k in range(1 if shared else d):
        x = np.sort(g.uniform(lo, hi, size=nb))
        x = lo + (hi - lo) * (np.arange(nb) + 0.5 + 0.3 * g.uniform(-1, 1, size=nb)) / nb     # distinct, irregular
        x = x[g.permutation(nb)]
        nodes.append(x.astype(np.float32).astype(float) if form == 'f32' else x)      # reference: float64 image of what is passed
    nodes = nodes * d if shared else nodes
    H = [phi(x) for x in nodes]                                  # (basis, points)
    cond = max(np.linalg.cond(h) for h in H)
    rc = 1e-6 if rcond is None else rcond
    if not cond * rc <= 0.01:
        return SKIP(f'collocation matrix too ill-conditioned for rcond={rc}: {cond:.2e}')
    Y = []
    for k in range(d):
        V = np.array([C[t][k] @ H[k] for t in range(R)])         # (R, points)
        if k == 0:
            G = V.T[None, :, :]
        elif k == d - 1:
            G = V[:, :, None]
        else:
            G = np.zeros((R, nb, R))
            for t in range(R):
                G[t, :, t] = V[t]
        Y.append(np.ascontiguousarray(G))
    X = nodes[0] if shared else np.array(nodes)
    if form == 'list':
        X = X.tolist()
    elif form == 'f32':
        X = X.astype(np.float32)
    elif form == 'F':
        X = np.asfortranarray(X)
        Y = [np.asfortranarray(G) for G in Y]
    elif form == 'tuple':
        X = tuple(X.tolist()) if shared else tuple(tuple(x) for x in X.tolist())
    kw = {} if rcond is None else dict(rcond=rcond)
    if form in ('f32', 'F', 'tuple') and rcond is not None:
        A = teneva.func_int_general(Y, X, phi, rcond)                   # rcond positionally (documented 4th parameter)
    else:
        A = teneva.func_int_general(Y, X, phi, **kw)
    msg = gen.wf(A, n)
    if msg:
        return FAIL('result not well-formed: ' + msg)
    M = [max(1., float(np.abs(h).max())) for h in H]
    Sv = float(sum(np.prod([np.abs(c).sum() * M[k] for k, c in enumerate(row)]) for row in C))
    tol = 64. * EPS * d * nb * cond * Sv
    msg = _cmp(gen.dense(A), _outer_sum(C), tol, f'coefficient tensor (cond {cond:.1e})')
    if msg:
        return FAIL(msg)
    Xt = g.uniform(lo, hi, size=(5, d))
    want = np.zeros(5)
    for row in C:
        term = np.ones(5)
        for k, c in enumerate(row):
            term = term * (c @ phi(Xt[:, k]))
        want += term
    got = teneva.func_get(Xt, A, funcs=[phi] * d)
    msg = _cmp(got, want, tol, 'func_get with the custom basis')
    if msg:
        return FAIL(msg)
    got1 = teneva.func_get(Xt[0], A, funcs=phi)          # one callable for all modes, single point
    if not (np.ndim(got1) == 0 and abs(got1 - want[0]) <= tol):
        return FAIL(f'func_get(single point, funcs=callable) = {got1!r}, expected {want[0]!r}')
    return PASS


@clause('C12.func_basis.values', funcs=('func.func_basis',))
def func_basis_values(m, shape, seed):
    """func_basis(X, m)[k] = T_k(X) = cos(k arccos X) for k < m, array of shape (m,) + X.shape, for 1-D / 2-D / 3-D X
    in [-1, 1] (end points included); the argument is not modified."""
    g = gen.rng('C12.basis', m, shape, seed)
    X = g.uniform(-1, 1, size=shape)
    X.flat[0], X.flat[-1] = -1., 1.
    X0 = X.copy()
    T = teneva.func_basis(X, m)
    if not (isinstance(T, np.ndarray) and T.shape == (m,) + tuple(shape)):
        return FAIL(f'shape {getattr(T, "shape", None)}')
    if not np.array_equal(X, X0):
        return FAIL('argument modified')
    for k in range(m):
        want = Pc.chebval(X, [0.] * k + [1.])
        err = float(np.abs(T[k] - want).max())
        if not err <= 64. * EPS * (k + 1) ** 2:
            return FAIL(f'T_{k}: error {err:.3e}')
    return PASS


# ------------------------------------------------------------------ input forms (audit f3-forms)
# The statement quantifies over every coefficient / value tensor, point, box and grid; the clauses above hand them over as
# fresh float64 C-ordered arrays, Python floats and keyword calls.  Here the SAME quantities arrive in the other forms a
# caller may use; the reference is always computed from the float64 image of what is passed.

CORE_FORMS = ('f64', 'f32', 'i64', 'i32', 'mixed', 'F', 'V', 'ro', 'tuple')
POINT_FORMS = ('arr', 'list', 'tuple', 'f32', 'i64', 'F', 'V', 'ro')
BOUND_FORMS = ('list', 'arr', 'tuple', 'intlist', 'intarr', 'i32arr', 'f32arr', 'int', 'float', 'npf64')
GRID_FORMS = ('list', 'arr', 'tuple', 'i32arr', 'farr', 'int', 'float')
CALL_FORMS = ('kw', 'pos', 'mix:2', 'min', 'kwmin')
FBOXES = [(-1, 1), (-3, 5), (0, 2), (-2, -1), (-3, 3)]          # integer-valued bounds: every form can carry them
REQ = gen.call_form.REQ


def _arr_form(G, form, k=0):
    """the integer-valued float64 array G with the same values in another dtype / memory layout"""
    if form == 'mixed':
        form = ('f32', 'i64', 'f64', 'i32')[k % 4]
    if form in ('f64', 'tuple'):
        return G.copy()
    if form in ('f32', 'i64', 'i32'):
        H = G.astype({'f32': np.float32, 'i64': np.int64, 'i32': np.int32}[form])
        assert np.array_equal(H.astype(float), G)
        return H
    if form == 'F':
        return np.asfortranarray(G)
    if form == 'V':                                  # non-contiguous view into a larger buffer
        big = np.full([2 * s for s in G.shape], 9.75)
        sl = tuple(slice(None, None, 2) for _ in G.shape)
        big[sl] = G
        return big[sl]
    if form == 'ro':
        H = G.copy()
        H.setflags(write=False)
        return H
    raise ValueError(form)


def _cores_form(Y, form):
    Z = [_arr_form(G, form, k) for k, G in enumerate(Y)]
    return tuple(Z) if form == 'tuple' else Z


def _points_form(X, form):
    if form == 'list':
        return X.tolist()
    if form == 'tuple':
        return tuple(tuple(float(v) for v in row) for row in X)
    if form == 'arr':
        return X.copy()
    return _arr_form(X, form)


def _bounds_form(a, b, form):
    """a, b: lists of Python ints (equal entries for the scalar forms)"""
    if form in ('int', 'float', 'npf64'):
        t = {'int': int, 'float': float, 'npf64': np.float64}[form]
        return t(a[0]), t(b[0])
    f = {'list': lambda v: [float(x) for x in v], 'arr': lambda v: np.array(v, dtype=float), 'tuple': lambda v: tuple(float(x) for x in v),
         'intlist': lambda v: [int(x) for x in v], 'intarr': lambda v: np.array(v, dtype=np.int64),
         'i32arr': lambda v: np.array(v, dtype=np.int32), 'f32arr': lambda v: np.array(v, dtype=np.float32)}[form]
    return f(a), f(b)


def _grid_form(mm, form):
    if form in ('int', 'float'):
        return int(mm[0]) if form == 'int' else float(mm[0])
    return {'list': list, 'tuple': tuple, 'arr': lambda v: np.array(v), 'i32arr': lambda v: np.array(v, dtype=np.int32),
            'farr': lambda v: np.array(v, dtype=float)}[form](mm)


def _cheb_eval_dense(D, taus):
    """sum_j D[j] prod_k T_{j_k}(taus[k][i]) for every point i (direct definition, numpy.polynomial)"""
    Vd = [Pc.chebvander(np.asarray(t, dtype=float), D.shape[k] - 1) for k, t in enumerate(taus)]
    out = np.zeros(len(taus[0]))
    for i in range(len(out)):
        T = D
        for k in range(D.ndim):
            T = np.tensordot(Vd[k][i], T, axes=(0, 0))
        out[i] = T
    return out


def _cheb_resample_dense(D, mm):
    T = D
    for k, mk in enumerate(mm):
        T = np.moveaxis(np.tensordot(Pc.chebvander(_nodes_t(mk), D.shape[k] - 1), T, axes=(1, k)), 0, k)
    return T


def _cheb_integral_dense(D, a, b):
    T = D
    for k in range(D.ndim):
        w = np.array([np.diff(Pc.chebval([-1., 1.], Pc.chebint([0.] * j + [1.])))[0] for j in range(D.shape[k])])
        T = np.tensordot(w * (b[k] - a[k]) / 2., T, axes=(0, 0))
    return float(T)


def _forms_setup(n, R, seed, bounds):
    n = [int(k) for k in n]
    d = len(n)
    g = gen.rng('C12.forms', n, R, seed, bounds)
    if bounds in ('int', 'float', 'npf64', 'npi64', 'npf32', '0d'):
        bx = [FBOXES[(1, 4)[seed % 2]]] * d                   # one box for all modes: (-3, 5) or the symmetric (-3, 3)
    else:
        bx = [FBOXES[int(g.integers(len(FBOXES)))] for _ in range(d)]
    return n, d, g, [x[0] for x in bx], [x[1] for x in bx]


@clause('C12.forms.eval', funcs=('func.func_get', 'func.func_gets', 'func.func_sum', 'func_full.func_get_full',
                                 'func_full.func_gets_full', 'func_full.func_sum_full', 'grid.grid_prep_opts', 'grid.poi_scale'))
def forms_eval(n, R, seed, cores, points, bounds, grid, call):
    """Evaluation, re-sampling and integration of the polynomial with an integer-valued Chebyshev coefficient tensor, the
    arguments in other input forms: coefficient cores float32 / int64 / int32 / mixed dtypes / Fortran order / non-contiguous /
    read-only views / a tuple of cores (the dense routines: the array in that dtype / layout), points as list / tuple / float32 /
    integer / Fortran-ordered / strided / read-only array (and one point alone), bounds as float / int list, tuple, float64 /
    int64 / int32 / float32 array, Python int / float / numpy.float64 number, new grid as list / tuple / array (int64, int32,
    float) / int / float, and every argument positionally in the documented order / by keyword / mixed.  Reference: dense
    contraction of the float64 image of the coefficients with numpy.polynomial.chebyshev Vandermonde matrices."""
    n, d, g, a, b = _forms_setup(n, R, seed, bounds)
    A = gen.tt(n, R, seed, 'int')
    D = gen.dense(A)
    S = float(gen.absdense(A).sum())
    if S == 0:
        return SKIP('zero coefficient tensor')
    tol = 64. * EPS * d * max(n) ** 2 * (1. + _kappa(a, b)) * S
    tol1 = 64. * EPS * d * max(n) ** 2 * S
    Af = _cores_form(A, cores)
    Df = _arr_form(D, 'f64' if cores in ('mixed', 'tuple') else cores)
    af, bf = _bounds_form(a, b, bounds)
    m = 5
    if points == 'i64':
        X = np.array([[int(g.integers(a[k], b[k] + 1)) for k in range(d)] for _ in range(m)], dtype=float)
    else:
        X = np.array(a, dtype=float) + g.uniform(0.01, 0.99, size=(m, d)) * (np.array(b, dtype=float) - np.array(a, dtype=float))
        if points == 'f32':
            X = np.clip(X.astype(np.float32).astype(float), a, b)
    X[-1, seed % d] = b[seed % d] + (1.0 if points == 'i64' else 0.5)        # one point outside the box: receives the fill value
    Xf = _points_form(X, points)
    snap = gen.snapshot([list(Af), Df, Xf if isinstance(Xf, np.ndarray) else None, af, bf])
    taus = [_tau(X[:-1, k], a[k], b[k]) for k in range(d)]
    want = np.concatenate([_cheb_eval_dense(D, taus), [-7.5]])
    y = gen.call_form(teneva.func_get, ('X', 'A', 'a', 'b', 'z', 'funcs', 'kind', 'skip_out'),
                      (Xf, Af, af, bf, -7.5, None, 'cheb', None), (REQ, REQ, None, None, 0., None, 'cheb', None), call)
    msg = _cmp(y, want, tol, 'func_get')
    if msg:
        return FAIL(msg)
    if not (isinstance(y, np.ndarray) and y.dtype == np.float64 and y[-1] == -7.5):
        return FAIL(f'func_get: result dtype {getattr(y, "dtype", None)}, outside point {y[-1]!r} (z = -7.5)')
    x1 = Xf[1] if not isinstance(Xf, tuple) else Xf[1]
    y1 = gen.call_form(teneva.func_get, ('X', 'A', 'a', 'b', 'z'), (x1, Af, af, bf, -7.5), (REQ, REQ, None, None, 0.), call)
    if not (np.ndim(y1) == 0 and abs(float(y1) - want[1]) <= tol):
        return FAIL(f'func_get(single point as {points}) = {y1!r}, expected {want[1]!r}')
    if isinstance(Xf, np.ndarray):                            # the dense routine documents ndarray points only
        yd = gen.call_form(teneva.func_get_full, ('X', 'A', 'a', 'b', 'z', 'skip_out'), (Xf, Df, af, bf, -7.5, True),
                           (REQ, REQ, REQ, REQ, 0., True), call)
        msg = _cmp(yd, want, tol, 'func_get_full')
        if msg:
            return FAIL(msg)
    mm = [2 + int(g.integers(0, 5)) for _ in range(d)]
    if grid in ('int', 'float'):
        mm = [mm[0]] * d
    mf = _grid_form(mm, grid)
    wantZ = _cheb_resample_dense(D, mm)
    Z = gen.call_form(teneva.func_gets, ('A', 'm', 'kind'), (Af, mf, 'cheb'), (REQ, None, 'cheb'), call)
    msg = gen.wf(Z, mm) or _cmp(gen.dense(Z), wantZ, tol1, f'func_gets on the grid {mm} given as {grid}')
    if msg:
        return FAIL(msg)
    Zd = gen.call_form(teneva.func_gets_full, ('A', 'a', 'b', 'm'), (Df, af, bf, mf), (REQ, REQ, REQ, None), call)
    msg = _cmp(Zd, wantZ, tol1, f'func_gets_full on the grid {mm} given as {grid}')
    if msg:
        return FAIL(msg)
    vol = float(np.prod([y_ - x_ for x_, y_ in zip(a, b)]))
    wantI = _cheb_integral_dense(D, a, b)
    v = gen.call_form(teneva.func_sum, ('A', 'a', 'b', 'kind'), (Af, af, bf, 'cheb'), (REQ, REQ, REQ, 'cheb'), call)
    msg = _cmp(v, wantI, tol1 * vol, 'func_sum')
    if msg:
        return FAIL(msg)
    if all(x_ == -y_ for x_, y_ in zip(a, b)):
        v = gen.call_form(teneva.func_sum_full, ('A', 'a', 'b'), (Df, af, bf), (REQ, REQ, REQ), call)
        msg = _cmp(v, wantI, tol1 * vol, 'func_sum_full')
        if msg:
            return FAIL(msg)
    if gen.snapshot([list(Af), Df, Xf if isinstance(Xf, np.ndarray) else None, af, bf]) != snap:
        return FAIL('an argument was modified')
    return PASS


def _dct1_matrix(nk):
    """c = M v: Chebyshev coefficients of the values v at the nodes cos(pi i / (nk - 1)) (direct definition)"""
    i = np.arange(nk)
    w = np.where((i == 0) | (i == nk - 1), 0.5, 1.0)
    return (2. / (nk - 1)) * w[:, None] * np.cos(np.pi * np.outer(i, i) / (nk - 1)) * w[None, :]


def _dst1_matrix(nk):
    i = np.arange(1, nk + 1)
    return (2. / (nk + 1)) * np.sin(np.pi * np.outer(i, i) / (nk + 1))


def _apply_modes(V, mats):
    T = V
    for k, M in enumerate(mats):
        T = np.moveaxis(np.tensordot(M, T, axes=(1, k)), 0, k)
    return T


@clause('C12.forms.transform', funcs=('func.func_int', 'func.func_gets', 'func_full.func_int_full'))
def forms_transform(n, R, seed, cores, call):
    """The coefficient transform of integer-valued grid values handed over as float32 / int64 / int32 / mixed-dtype /
    Fortran-ordered / strided / read-only cores or a tuple of cores (dense: the array in that form), kind positionally or by
    keyword: Chebyshev and sine coefficients equal the direct cosine / sine sums of the float64 image (float32 data: to
    float32 accuracy - the transform of the library runs in single precision then), the result is a float tensor, re-sampling
    on the same grid returns the values, the argument is not modified."""
    n = [int(k) for k in n]
    d = len(n)
    Y = gen.tt(n, R, seed, 'int')
    V = gen.dense(Y)
    S = float(gen.absdense(Y).sum())
    if S == 0:
        return SKIP('zero tensor')
    single = cores in ('f32', 'mixed')
    tol = 64. * (np.finfo(np.float32).eps if single else EPS) * d * max(n) ** 2 * S
    Yf = _cores_form(Y, cores)
    Vf = _arr_form(V, 'f64' if cores in ('mixed', 'tuple') else cores)
    snap = gen.snapshot([list(Yf), Vf])
    for kind, mats in (('cheb', [_dct1_matrix(k) for k in n]), ('sin', [_dst1_matrix(k) for k in n])):
        want = _apply_modes(V, mats)
        A = gen.call_form(teneva.func_int, ('Y', 'kind'), (Yf, kind), (REQ, 'cheb'), call)
        if not isinstance(A, list) or len(A) != d or any(not isinstance(G, np.ndarray) or G.dtype.kind != 'f' for G in A):
            return FAIL(f'func_int({kind}) of {cores} cores: not a list of float arrays: {[getattr(G, "dtype", None) for G in A]}')
        msg = gen.wf([np.asarray(G, dtype=float) for G in A], n) or _cmp(gen.dense(A), want, tol, f'{kind} coefficients')
        if msg:
            return FAIL(msg)
        B = gen.call_form(teneva.func_gets, ('A', 'm', 'kind'), (A, None, kind), (REQ, None, 'cheb'), call)
        msg = _cmp(gen.dense(B), V, tol * max(n), f'{kind}: re-sampling on the same grid')
        if msg:
            return FAIL(msg)
    F = teneva.func_int_full(Vf)
    if not (isinstance(F, np.ndarray) and F.dtype.kind == 'f'):
        return FAIL(f'func_int_full of a {cores} array returns dtype {getattr(F, "dtype", None)}')
    msg = _cmp(F, _apply_modes(V, [_dct1_matrix(k) for k in n]), tol, 'dense coefficients')
    if msg:
        return FAIL(msg)
    if gen.snapshot([list(Yf), Vf]) != snap:
        return FAIL('the argument was modified')
    return PASS


@clause('C12.forms.diff_basis', funcs=('func.func_diff_matrix', 'func.func_basis'))
def forms_diff_basis(n, order, seed, num, call):
    """func_diff_matrix with the bounds / the grid size / the order as Python int, float, numpy.int64 / int32 / float64 / float32
    numbers, positionally or by keyword: exact derivatives of an integer polynomial at the nodes; func_basis with float32 /
    integer / Fortran-ordered / strided points and a numpy integer m: T_k of the float64 image of the points."""
    a, b = FBOXES[seed % len(FBOXES)]
    tn = {'int': int, 'float': float, 'npi64': np.int64, 'npi32': np.int32, 'npf64': np.float64, 'npf32': np.float32}[num]
    ti = tn if num in ('int', 'npi64', 'npi32') else int
    c = _coefs([n], 1, seed, 'int')[0][0]
    t = _nodes_t(n)
    v = Pm.polyval(t, c)
    D = gen.call_form(teneva.func_diff_matrix, ('a', 'b', 'n', 'm', 'kind'), (tn(a), tn(b), tn(n), ti(order), 'cheb'),
                      (REQ, REQ, REQ, 1, 'cheb'), call)
    D = [D] if order == 1 and isinstance(D, np.ndarray) else D
    if not (isinstance(D, list) and len(D) == order and all(isinstance(M, np.ndarray) and M.shape == (n, n) for M in D)):
        return FAIL(f'm={order}: not {order} matrices of shape ({n}, {n})')
    S = np.abs(c).sum()
    for q in range(1, order + 1):
        dc = Pm.polyder(c, q) if q < len(c) else np.zeros(1)
        want = Pm.polyval(t, dc) * (2. / (b - a)) ** q
        # numpy.float32 bounds: the scale factor 2 / (b - a) is then formed in single precision by the library
        msg = _cmp(D[q - 1] @ v, want, 64. * (np.finfo(np.float32).eps if num == 'npf32' else EPS) * n ** (2 * q + 2) * (2. / (b - a)) ** q * S,
                   f'derivative of order {q} ({num} numbers)')
        if msg:
            return FAIL(msg)
    g = gen.rng('C12.forms.basis', n, seed)
    X = g.uniform(-1, 1, size=(4, 3)).astype(np.float32).astype(float)
    for form, Xf in (('f32', X.astype(np.float32)), ('F', np.asfortranarray(X)), ('V', _arr_form(X, 'V')), ('ro', _arr_form(X, 'ro')),
                     ('i64', np.array([[-1, 0, 1], [1, 1, -1]]))):
        X0 = Xf.copy()
        T = gen.call_form(teneva.func_basis, ('X', 'm', 'kind'), (Xf, ti(n), 'cheb'), (REQ, 10, 'cheb'), call)
        if not (isinstance(T, np.ndarray) and T.shape == (n,) + Xf.shape and T.dtype == np.float64):
            return FAIL(f'func_basis({form} points): shape {getattr(T, "shape", None)} dtype {getattr(T, "dtype", None)}')
        if not np.array_equal(Xf, X0):
            return FAIL(f'func_basis({form} points): argument modified')
        for k in range(n):
            err = float(np.abs(T[k] - Pc.chebval(Xf.astype(float), [0.] * k + [1.])).max())
            if not err <= 64. * EPS * (k + 1) ** 2:
                return FAIL(f'func_basis({form} points): T_{k} error {err:.3e}')
    return PASS


# DOUBTFUL (not yielded, replay only): bounds a / b and the grid size m as NumPy scalars that are not Python numbers
# (numpy.int64, numpy.int32, numpy.float32, 0-d arrays).  The docstrings say "float" resp. "int, float"; grid.grid_prep_opt
# tests isinstance(opt, (int, float)), so numpy.float64 (a float subclass) works and numpy.int64(4) - what n.max() or
# len-arithmetic on shapes returns - becomes a 0-d array: func_get / func_sum / func_gets raise TypeError / IndexError.
@clause('C12.forms.numpy_scalar_args', funcs=('grid.grid_prep_opt', 'func.func_get', 'func.func_gets', 'func.func_sum'), replay_only=True)
def forms_numpy_scalar_args(n, R, seed, num):
    """func_get / func_sum with bounds given as one NumPy scalar for all modes and func_gets with the grid size as a NumPy
    integer scalar give what the Python numbers of the same value give."""
    n = [int(k) for k in n]
    tn = {'npi64': np.int64, 'npi32': np.int32, 'npf32': np.float32, '0d': np.array}[num]
    A = gen.tt(n, R, seed, 'int')
    X = gen.rng('C12.forms.scalar', seed).uniform(-3, 5, size=(4, len(n)))
    try:
        y = teneva.func_get(X, A, tn(-3), tn(5))
        v = teneva.func_sum(A, tn(-3), tn(5))
        Z = teneva.func_gets(A, tn(4))
    except (TypeError, IndexError) as e:
        return FAIL(f'{num} scalar rejected: {type(e).__name__}: {e}')
    msg = _cmp(y, teneva.func_get(X, A, -3., 5.), 0., 'func_get') or _cmp(v, teneva.func_sum(A, -3., 5.), 0., 'func_sum') \
        or _cmp(gen.dense(Z), gen.dense(teneva.func_gets(A, 4)), 0., 'func_gets')
    return FAIL(msg) if msg else PASS


# ------------------------------------------------------------------ case list

def _box(idx):
    return [BOXES[i][0] for i in idx], [BOXES[i][1] for i in idx]


def cases(tier, seed):
    big = tier == 'thorough'
    g = gen.rng('C12.cases', seed)
    nmax = 8 if big else 6

    def s():
        return int(g.integers(1 << 30))

    # systematic: every n (equal modes) x d x a few boxes, plus ragged mode sizes
    grids = []
    for d in (1, 2, 3):
        for nk in range(2, nmax + 1):
            grids.append([nk] * d)
        grids += [list(range(2, 2 + d)), [nmax] + [2] * (d - 1), [3] * (d - 1) + [nmax]]
    box_sets = {1: [[0], [2], [5], [6]], 2: [[0, 0], [1, 7], [2, 3], [4, 5], [6, 8]],
                3: [[0, 0, 0], [7, 1, 0], [3, 4, 8], [5, 6, 2]]}
    j = 0
    for n in grids:
        d = len(n)
        for bi in box_sets[d]:
            a, b = _box(bi)
            for R in (1, 2, 3) if big else (1, 3):
                for kind in ('int', 'gauss'):
                    j += 1
                    p = dict(n=n, a=a, b=b, R=R, seed=j, kind=kind)
                    yield 'C12.full.coeffs', p
                    yield 'C12.full.get', dict(p, m=6)
                    yield 'C12.full.gets', dict(p, m=[2 + (j + k) % 7 for k in range(d)])
                    yield 'C12.full.gets', dict(p, m=None)
                    yield 'C12.full.outside', dict(p, z=[0., -7.5, 1e300][j % 3])
                    if all(i in SYM for i in bi):
                        yield 'C12.full.sum', p
                    if d >= 2:
                        yield 'C12.tt.coeffs', p
                        yield 'C12.tt.get', dict(p, m=6)
                        yield 'C12.tt.outside', dict(p, z=[0., -7.5, 1e300][j % 3])
                        yield 'C12.tt.gets', dict(p, m=[2 + (j + 2 * k) % 8 for k in range(d)])
                        yield 'C12.tt.gets', dict(p, m=2 + j % 6)
                        yield 'C12.tt.sum', p
    # ---- parameter-coverage additions: d = 4, 5; function scale 1e-4^d / 1e+4^d; tiny / huge / far boxes; array forms
    j = 0
    for n, bis in (([2, 3, 2, 3], [[0, 0, 0, 0], [3, 4, 8, 2]]), ([3, 3, 3, 3], [[7, 1, 0, 7], [5, 6, 2, 12]]),
                   ([4, 2, 3, 2], [[9, 10, 11, 12]]), ([2, 2, 2, 2, 2], [[0] * 5, [2, 3, 4, 6, 8]]),
                   ([3, 2, 3], [[9, 10, 12], [11, 10, 0]]), ([5, 4], [[9, 12], [10, 11], [11, 11]]),
                   ([6], [[9], [10], [12]]), ([2, 5, 3], [[1, 7, 0], [8, 5, 6]])):
        d = len(n)
        for bi in bis:
            a, b = _box(bi)
            for R, kind in ((1, 'int'), (3, 'gauss'), (2, 'tiny'), (2, 'huge')) if big or d >= 4 else ((2, 'tiny'), (3, 'huge')):
                j += 1
                p = dict(n=n, a=a, b=b, R=R, seed=1000 + j, kind=kind)
                if d <= 4:
                    yield 'C12.full.coeffs', p
                    yield 'C12.full.get', dict(p, m=4)
                    yield 'C12.full.gets', dict(p, m=[2 + (j + k) % 3 for k in range(d)] if d == 4 else None)
                    yield 'C12.full.outside', dict(p, z=[0., -7.5, 1e300][j % 3])
                    if all(i in SYM for i in bi):
                        yield 'C12.full.sum', p
                if d >= 2:
                    yield 'C12.tt.coeffs', p
                    yield 'C12.tt.get', dict(p, m=5)
                    yield 'C12.tt.outside', dict(p, z=[0., -7.5, 1e300][j % 3])
                    yield 'C12.tt.gets', dict(p, m=[2 + (j + 2 * k) % 8 for k in range(d)])
                    yield 'C12.tt.gets', dict(p, m=2 + j % 6)
                    yield 'C12.tt.sum', p
    for d in (1, 2, 3):
        for bi in ([9] * d, [10] * d, [11] * d, [12] * d, [11, 10, 9][:d]):
            a, b = _box(bi)
            yield 'C12.full.sum.reject', dict(n=[3] * d, a=a, b=b, seed=1)
    # custom bases: span reproduced (coefficients and evaluation)
    j = 0
    for d in (2, 3, 4):
        for nb in (2, 3, 4, 5) if d < 4 else (2, 3):
            for basis in ('mono', 'cheb+', 'legendre', 'expo'):
                for shared in (True, False):
                    j += 1
                    if not big and (j + d) % 2:
                        continue
                    lo, hi = [(-0.9, 0.8), (-1., 0.2), (0.1, 1.), (-0.5, 1.)][j % 4]
                    yield 'C12.func_int_general.span', dict(d=d, nb=nb, R=1 + j % 3, seed=j, basis=basis, shared=shared,
                                                            form=('array', 'list')[j % 3 == 0], rcond=[None, 1e-10, 1e-6][j % 3],
                                                            scale=[1., 1e-8, 1e8, 1.][j % 4], lo=lo, hi=hi)
    for m in (1, 2, 3, 6, 10):
        for shape in ([1], [7], [5, 3], [2, 1], [3, 2, 2]):
            yield 'C12.func_basis.values', dict(m=m, shape=shape, seed=m)
    # acceptance test of the dense integral
    for d in (1, 2, 3):
        for bi in ([[i] * d for i in range(len(BOXES))] + [[0, 2, 1][:d], [1, 7, 0][:d], [7, 7, 3][:d]]):
            a, b = _box(bi)
            yield 'C12.full.sum.reject', dict(n=[3] * d, a=a, b=b, seed=1)
        yield 'C12.full.sum.reject', dict(n=[3] * d, a=[-1.] * d, b=[1. + 4e-16] * d, seed=1)
    # differentiation matrices
    for n in range(2, (13 if big else 9)):
        for (a, b) in BOXES[:6] if big else (BOXES[0], BOXES[2], BOXES[3], BOXES[5]):
            for order in (1, 2, 3):
                for kind in ('int', 'gauss'):
                    yield 'C12.diff_matrix', dict(n=n, a=a, b=b, order=order, seed=n, kind=kind)
    # linearity / inversion, sine kind
    for d in (2, 3):
        for nk in range(2, nmax + 1):
            for R in (1, 3):
                yield 'C12.linear_inverse', dict(n=[nk] * d, R=R, seed=nk, kind='int', alpha=2., beta=-3.)
                yield 'C12.linear_inverse', dict(n=list(range(nk, nk + d)), R=R, seed=nk + 1, kind='gauss',
                                                 alpha=-0.37, beta=1e3)
                yield 'C12.sin.pair', dict(n=[nk] * d, R=R, seed=nk, m=[1 + (nk + k) % 7 for k in range(d)])
                yield 'C12.sin.pair', dict(n=list(range(max(1, nk - 1), nk - 1 + d)), R=R, seed=nk + 1, m=nk + 2)
    # the known defect: a handful of inputs
    for n in ([3, 3], [4, 4, 4], [2, 2]):
        for basis in ('mono', 'cheb+'):
            for shared in (True, False):
                yield 'C12.func_int_general.runs', dict(n=n, R=2, seed=1, basis=basis, shared=shared)
    # random part
    for rep in range(400 if big else 80):
        d = int(g.integers(1, 4))
        n = [int(g.integers(2, nmax + 1)) for _ in range(d)]
        bi = [int(g.integers(len(BOXES))) for _ in range(d)]
        a, b = _box(bi)
        p = dict(n=n, a=a, b=b, R=int(g.integers(1, 4)), seed=s(), kind=('int', 'gauss')[rep % 2])
        yield 'C12.full.get', dict(p, m=8)
        yield 'C12.full.gets', dict(p, m=[int(g.integers(2, 10)) for _ in range(d)])
        if d >= 2:
            yield 'C12.tt.get', dict(p, m=8)
            yield 'C12.tt.gets', dict(p, m=[int(g.integers(2, 10)) for _ in range(d)])
            yield 'C12.tt.sum', p
            yield 'C12.tt.outside', dict(p, z=float(g.choice([0., 3.25, -1e10])))
    # ---- input forms (audit f3-forms): every form of every argument at least once in quick, the full cross rotation in thorough
    fshapes = [[3, 4], [2, 3, 2], [4, 2, 3, 2]] + ([[5, 5], [2, 2, 2, 2, 2], [6, 3, 4]] if big else [])
    j = 0
    for rnd in range(6 if big else 2):
        for cf in CORE_FORMS:
            for n in fshapes:
                j += 1
                if not big and (j + rnd) % 3 and len(n) != 3:
                    continue
                yield 'C12.forms.eval', dict(n=n, R=1 + j % 3, seed=j, cores=cf, points=POINT_FORMS[(j + rnd) % len(POINT_FORMS)],
                                             bounds=BOUND_FORMS[(j // 2 + 3 * rnd) % len(BOUND_FORMS)],
                                             grid=GRID_FORMS[(j + 2 * rnd) % len(GRID_FORMS)], call=CALL_FORMS[(j + rnd) % len(CALL_FORMS)])
                yield 'C12.forms.transform', dict(n=n, R=1 + j % 3, seed=j, cores=cf, call=CALL_FORMS[(j + rnd) % len(CALL_FORMS)])
    j = 0
    for pf in POINT_FORMS:                           # each point / bound / grid form against plain float64 cores as well
        for bf in BOUND_FORMS if big else (BOUND_FORMS[j % 2::2]):
            j += 1
            yield 'C12.forms.eval', dict(n=[3, 2, 4][:2 + j % 2], R=2, seed=100 + j, cores='f64', points=pf, bounds=bf,
                                         grid=GRID_FORMS[j % len(GRID_FORMS)], call=CALL_FORMS[j % len(CALL_FORMS)])
    j = 0
    for num in ('int', 'float', 'npi64', 'npi32', 'npf64', 'npf32'):
        for n in (2, 3, 5, 8) if big else (3, 6):
            for order in (1, 2, 3):
                j += 1
                yield 'C12.forms.diff_basis', dict(n=n, order=order, seed=j, num=num, call=CALL_FORMS[j % len(CALL_FORMS)])
    j = 0
    for d in (2, 3):
        for basis in ('mono', 'legendre', 'expo'):
            for shared in (True, False):
                for form in ('f32', 'F', 'tuple'):
                    j += 1
                    if not big and j % 2:
                        continue
                    yield 'C12.func_int_general.span', dict(d=d, nb=2 + j % 3, R=1 + j % 2, seed=200 + j, basis=basis, shared=shared,
                                                            form=form, rcond=[None, 1e-10, 1e-6][j % 3], scale=1., lo=-0.75, hi=0.5)
