"""C01 (bounded, T3): TT evaluation and algebra agree elementwise with dense tensor algebra.

Covered clauses of the statement (every clause runs the real teneva function against an own dense /
exact-integer evaluation of the core chain, `gen.dense` / `gen.dense_exact`):

* element access `get` (list / array / 2-D batch / list of lists), `get_many` (incl. batch of one and the
  empty batch) on EVERY multi-index of the tensor, export `full`;
* `sum`, `mean` (plain, norm flag, weighted with P as list of lists / list of arrays, P longer than the
  mode), `mul_scalar`, `norm`, `accuracy` (TT and ndarray arguments), `accuracy_on_data` (incl. the
  None sentinel and the e_trunc path);
* `add` / `sub` / `mul` for tensor-tensor (unequal rank profiles), tensor-number, number-tensor and
  number-number operands, `outer`, `outer_many`;
* `interface` (both directions x {None,'linalg','l','natural','n'} x {plain, P per mode, one P for all
  modes, multi-index i, i with P}), `get_and_grad` (value and the exact gradient: val is linear in each
  core, so d val / d G_k[a,m,b] is the value of the train with core k replaced by the unit core);
* `shape`, `ranks`, `size`, `erank` (defining quadratic), `copy`;
* random expression trees over add / sub / mul / outer / copy / number operands (depth <= 3 quick, <= 4
  thorough) against the same tree evaluated on dense arrays.

Equality regime: integer-valued cores in [-3,3] are compared with the exact Python-integer oracle by `==`
whenever every partial sum is below 2^53 (then any evaluation order is exact); otherwise, and for Gaussian
cores, the tolerance is c*eps*S with S the same expression evaluated on |cores| (sum of |products|).
Number operands of add/sub enter through const (cores |v|^(1/d)), which is exact only for v in {-1,0,1};
other numbers are compared with the scale-aware tolerance.
"""
import itertools, math
import numpy as np
import teneva
from rtc.api import clause, PASS, FAIL, TRIVIAL, SKIP
from rtc import gen


BUDGET = (55, 560)
BOUNDS = ('d in {2,3,4} (thorough: 5), mode sizes 1..4 incl. all-ones and leading/trailing 1, rank profiles 1 / 2 / 4 / '
          'ragged / over-ranked, memory orders C/F/V, integer cores in [-3,3] (exact ==) and Gaussian cores '
          '(c*eps*sum|products|); every multi-index of every tensor; expression trees depth <= 3 (thorough 4); '
          'per clause ~ 150 systematic + 120 seeded cases quick, ~ 700 + 600 thorough; reductions also for d = 28 .. 130 '
          '(2^63 .. 3^100 entries) against exact rational arithmetic')

EPS = np.finfo(float).eps
LIM = 2 ** 53
ORDERS = ('C', 'F', 'V')


# ----------------------------------------------------------------------------- oracles

def _ref(Y, kind):
    """(D, B): dense reference and dense bound (same chain on |cores|); exact object arrays for kind 'int'."""
    if kind == 'int':
        return gen.dense_exact(Y), gen.dense_exact([np.abs(G) for G in Y])
    return gen.dense(Y), gen.absdense(Y)


def _exact(D):
    return isinstance(D, int) or (isinstance(D, np.ndarray) and D.dtype == object)


def _flt(D):
    return np.asarray(D, dtype=float) if not isinstance(D, np.ndarray) or D.dtype != float else D


def _maxabs(B):
    B = np.asarray(B, dtype=object)
    return max([abs(x) for x in B.flat], default=0)


def _agree(got, D, B, c=64.0, what=''):
    """None if `got` agrees with the reference D (bound B), else a message.  Exact `==` when D is exact
    (Python ints) and the bound stays below 2^53, else |got-D| <= c*eps*B."""
    try:
        got = np.asarray(got, dtype=float)
    except Exception as e:
        return f'{what}: result not numeric ({type(got).__name__}: {e})'
    shp = np.shape(D)
    if got.shape != shp:
        return f'{what}: shape {got.shape} != {shp}'
    if _exact(D) and _maxabs(B) < LIM:
        Df = np.asarray(D, dtype=object).astype(float)
        if np.array_equal(got, Df):
            return None
        bad = np.argwhere(np.atleast_1d(got != Df))
        j = tuple(bad[0]) if len(bad) else ()
        return f'{what}: exact integer mismatch at {j}: got {np.atleast_1d(got)[j] if j else got} want {np.atleast_1d(Df)[j] if j else Df}'
    Df, Bf = _flt(np.asarray(D, dtype=object).astype(float) if _exact(D) else D), \
        np.asarray(np.asarray(B, dtype=object).astype(float) if _exact(B) else B, dtype=float)
    if not np.all(np.isfinite(got)):
        return f'{what}: non-finite result'
    if gen.close(got, Df, Bf, c):
        return None
    ratio = np.max(np.abs(got - Df) / (EPS * Bf + 1e-300))
    return f'{what}: |got-ref| = {ratio:.3g} eps*scale > {c} eps*scale'


def _val(Y, i):
    """Element by explicit Python loops (exact for object cores)."""
    v = [Y[0][0, i[0], b] for b in range(Y[0].shape[2])]
    for k in range(1, len(Y)):
        G = Y[k]
        v = [sum(v[a] * G[a, i[k], b] for a in range(G.shape[0])) for b in range(G.shape[2])]
    return v[0]


def _obj(Y):
    return [np.vectorize(int, otypes=[object])(G) for G in Y]


def _wsum(D, W):
    """sum_i D[i] * prod_k W[k][i_k] by Python loops (exact on object arrays)."""
    tot = 0
    for idx in itertools.product(*[range(s) for s in D.shape]):
        w = 1
        for k, j in enumerate(idx):
            w = w * W[k][j]
        tot = tot + D[idx] * w
    return tot


def _weights(n, seed, kind, extra=0):
    g = gen.rng('w', n, seed, kind)
    if kind == 'int':
        return [[int(x) for x in g.integers(-2, 3, size=k + extra)] for k in n]
    return [[float(x) for x in g.uniform(-1, 1, size=k + extra)] for k in n]


def _tt_pair(n, r, seed, kind, order):
    Y = gen.tt(n, r, seed, kind, order=order)
    D, B = _ref(Y, kind)
    return Y, D, B


def _other_ranks(n, r, seed):
    """A second rank profile for the same shape, different from r where possible."""
    g = gen.rng('r2', n, r, seed)
    return [1] + [int(x) for x in g.integers(1, 4, size=len(n) - 1)] + [1]


# ----------------------------------------------------------------------------- element access, export

@clause('C01.get.all_indices', funcs=('act_one.get', 'act_one.get_many'))
def get_all(n, r, seed, kind, order):
    """get (single index as list / array, 2-D batch, list of lists), get_many (batch, batch of one, empty
    batch) return val(Y, i) for every multi-index i."""
    Y, D, B = _tt_pair(n, r, seed, kind, order)
    snap = gen.snapshot(Y)
    I = gen.all_indices(n)
    want, bnd = D[tuple(I.T)], B[tuple(I.T)]
    for name, got in (('get_many(array)', teneva.get_many(Y, I)), ('get(2-D array)', teneva.get(Y, I)),
                      ('get_many(list of lists)', teneva.get_many(Y, I.tolist())),
                      ('get(list of lists)', teneva.get(Y, I.tolist()))):
        if not isinstance(got, np.ndarray) or got.ndim != 1:
            return FAIL(f'{name}: result is not a 1-D array')
        msg = _agree(got, want, bnd, what=name)
        if msg:
            return FAIL(msg)
    step = max(1, len(I) // 24)
    for s in list(range(0, len(I), step)) + [len(I) - 1]:
        for name, i in (('get(list)', I[s].tolist()), ('get(array)', I[s]), ('get(tuple)', tuple(I[s].tolist()))):
            got = teneva.get(Y, i)
            if np.ndim(got) != 0:
                return FAIL(f'{name}: single index does not give a scalar')
            msg = _agree(got, want[s], bnd[s], what=f'{name} i={I[s].tolist()}')
            if msg:
                return FAIL(msg)
        one = teneva.get_many(Y, I[s:s + 1])
        msg = _agree(one, want[s:s + 1], bnd[s:s + 1], what='get_many(batch of one)')
        if msg:
            return FAIL(msg)
    # a permuted batch with repetitions
    g = gen.rng('perm', n, seed)
    sel = g.integers(0, len(I), size=min(40, 2 * len(I)))
    msg = _agree(teneva.get_many(Y, I[sel]), want[sel], bnd[sel], what='get_many(permuted batch)')
    if msg:
        return FAIL(msg)
    emp = teneva.get_many(Y, np.zeros((0, len(n)), dtype=int))
    if np.shape(emp) != (0,):
        return FAIL(f'empty batch gives shape {np.shape(emp)}')
    if gen.snapshot(Y) != snap:
        return FAIL('input changed')
    return PASS


@clause('C01.full.dense', funcs=('transformation.full',))
def full_dense(n, r, seed, kind, order):
    """full(Y) is the dense tensor of shape n_1 x ... x n_d (also when boundary modes have size 1)."""
    Y, D, B = _tt_pair(n, r, seed, kind, order)
    Z = teneva.full(Y)
    if not isinstance(Z, np.ndarray) or Z.shape != tuple(n):
        return FAIL(f'full has shape {getattr(Z, "shape", None)} for mode sizes {n}')
    msg = _agree(Z, D, B, what='full')
    return FAIL(msg) if msg else PASS


# ----------------------------------------------------------------------------- reductions

@clause('C01.sum_mean.weights', funcs=('act_one.sum', 'act_one.mean'))
def sum_mean(n, r, seed, kind, order):
    """sum = total of all entries; mean = total / number of entries; mean(norm=False) = sum; mean(P) = weighted
    total with P as list of lists / list of arrays, also when P[k] is longer than the mode (first n_k used)."""
    Y, D, B = _tt_pair(n, r, seed, kind, order)
    tot, btot = D.sum(), B.sum()
    msg = _agree(teneva.sum(Y), tot, btot, what='sum') or _agree(teneva.mean(Y, norm=False), tot, btot, what='mean(norm=False)')
    if msg:
        return FAIL(msg)
    N = int(np.prod(n))
    got = teneva.mean(Y)
    if all(k in (1, 2, 4) for k in n) and _exact(D) and btot < LIM:
        if float(got) != float(tot) / N:     # scaling by powers of two is exact
            return FAIL(f'mean (power-of-two modes): {got} != {tot}/{N}')
    else:
        msg = _agree(got, float(tot) / N, float(btot) / N, what='mean')
        if msg:
            return FAIL(msg)
    for extra in (0, 2):
        P = _weights(n, seed, kind, extra)
        want = _wsum(D, P)
        bnd = _wsum(B, [[abs(x) for x in p] for p in P])
        for name, PP in (('list of lists', P), ('list of arrays', [np.array(p, dtype=float) for p in P])):
            msg = _agree(teneva.mean(Y, PP), want, bnd, what=f'mean(P {name}, extra={extra})')
            if msg:
                return FAIL(msg)
    return PASS


@clause('C01.reductions.many_modes', funcs=('act_one.sum', 'act_one.mean', 'act_one.get', 'act_two.mul_scalar', 'act_one.norm'))
def many_modes(d, nk, seed):
    """Tensors with far more entries than any integer type can count (2^63 .. 3^100): sum, mean (plain and weighted),
    get, mul_scalar and norm against exact rational arithmetic on the core chain (non-negative integer cores, so every
    floating-point result has relative error <= c * d * eps)."""
    from fractions import Fraction
    g = gen.rng('C01.many', seed)
    r = [1] + [int(x) for x in g.integers(1, 3, size=d - 1)] + [1]
    Y = [g.integers(0, 3, size=(r[k], nk, r[k + 1])).astype(float) for k in range(d)]
    for G in Y:
        G[0, 0, 0] = 1.                                   # keeps the total positive
    snap = gen.snapshot(Y)

    def chain(mats):
        v = [[1]]
        for Mx in mats:
            v = [[sum(v[0][a] * Mx[a][b] for a in range(len(Mx))) for b in range(len(Mx[0]))]]
        return v[0][0]

    ints = [[[[int(G[a, j, b]) for b in range(G.shape[2])] for a in range(G.shape[0])] for j in range(nk)] for G in Y]
    summed = [[[sum(S[j][a][b] for j in range(nk)) for b in range(len(S[0][0]))] for a in range(len(S[0]))] for S in ints]
    tot = chain(summed)
    N = nk ** d
    tol = 64 * d * EPS

    def close(got, want, what):
        want = Fraction(want)
        if not np.isfinite(got) or abs(Fraction(float(got)) - want) > Fraction(tol) * abs(want):
            return f'{what}: got {got!r}, exact value {float(want)!r} (d={d}, mode size {nk}, {N} entries)'
        return None

    P = [[int(x) for x in g.integers(0, 3, size=nk)] for _ in range(d)]
    wsummed = [[[sum(P[k][j] * ints[k][j][a][b] for j in range(nk)) for b in range(len(ints[k][0][0]))]
                for a in range(len(ints[k][0]))] for k in range(d)]
    i = [int(x) for x in g.integers(0, nk, size=d)]
    sq = []
    for k in range(d):                                     # <Y, Y> through the exact Kronecker chain
        r1, r2 = len(ints[k][0]), len(ints[k][0][0])
        sq.append([[sum(ints[k][j][a][b] * ints[k][j][a2][b2] for j in range(nk)) for b in range(r2) for b2 in range(r2)]
                   for a in range(r1) for a2 in range(r1)])
    yy = chain(sq)
    msg = (close(teneva.sum(Y), tot, 'sum') or close(teneva.mean(Y), Fraction(tot, N), 'mean')
           or close(teneva.mean(Y, norm=False), tot, 'mean(norm=False)')
           or close(teneva.mean(Y, [np.array(p, dtype=float) for p in P]), chain(wsummed), 'mean(P)')
           or close(teneva.get(Y, i), chain([ints[k][i[k]] for k in range(d)]), 'get')
           or close(teneva.mul_scalar(Y, Y), yy, 'mul_scalar(Y, Y)')
           or close(teneva.norm(Y) ** 2, yy, 'norm(Y)^2'))
    if msg:
        return FAIL(msg)
    if gen.snapshot(Y) != snap:
        return FAIL('argument cores were modified')
    return PASS


@clause('C01.mul_scalar_norm.dense', funcs=('act_two.mul_scalar', 'act_one.norm'))
def dot_norm(n, r, seed, kind, order):
    """mul_scalar(Y1, Y2) = sum of the element-wise product (unequal rank profiles), norm(Y)^2 = sum of squares."""
    Y1, D1, B1 = _tt_pair(n, r, seed, kind, order)
    Y2, D2, B2 = _tt_pair(n, _other_ranks(n, r, seed), seed + 1, kind, ORDERS[(ORDERS.index(order) + 1) % 3])
    msg = _agree(teneva.mul_scalar(Y1, Y2), (D1 * D2).sum(), (B1 * B2).sum(), c=256, what='mul_scalar') \
        or _agree(teneva.mul_scalar(Y2, Y1), (D1 * D2).sum(), (B1 * B2).sum(), c=256, what='mul_scalar swapped')
    if msg:
        return FAIL(msg)
    v = teneva.mul_scalar(Y1, Y2)
    if np.ndim(v) != 0:
        return FAIL('mul_scalar does not return a scalar')
    for Y, D, B in ((Y1, D1, B1), (Y2, D2, B2)):
        s2, b2 = (D * D).sum(), (B * B).sum()
        got = teneva.norm(Y)
        if np.ndim(got) != 0 or not np.isfinite(got) or got < 0:
            return FAIL(f'norm = {got}')
        if _exact(D) and b2 < LIM:
            if float(got) != math.sqrt(s2):
                return FAIL(f'norm {got} != sqrt({s2}) (exact integer sum of squares)')
        else:
            # compare the squares: the rounding of <Y,Y> is c*eps*sum B^2
            msg = _agree(float(got) ** 2, float(s2), float(b2), c=512, what='norm^2')
            if msg:
                return FAIL(msg)
    return PASS


@clause('C01.accuracy.dense', funcs=('act_two.accuracy', 'data.accuracy_on_data'))
def accuracy_dense(n, r, seed, kind, order, near):
    """accuracy(Y1, Y2) = ||D1-D2|| / ||D2|| for TT and ndarray arguments; accuracy_on_data = relative
    residual on the data set, -1 without data, e_trunc path within the truncation accuracy."""
    Y1, D1, B1 = _tt_pair(n, r, seed, kind, order)
    if near == 'copy':
        Y2 = [G.copy() for G in Y1]
        D2, B2 = D1, B1
    elif near == 'scaled':          # Y2 = 2 * Y1 through the first core: accuracy exactly 1/2
        Y2 = [G.copy() for G in Y1]
        Y2[0] = Y2[0] * 2
        D2, B2 = D1 * 2, B1 * 2
    else:
        Y2, D2, B2 = _tt_pair(n, _other_ranks(n, r, seed), seed + 1, kind, ORDERS[(ORDERS.index(order) + 2) % 3])
    S1, S2 = ((D1 - D2) ** 2).sum(), (D2 ** 2).sum()
    T1, T2 = float(((B1 + B2) ** 2).sum()), float((B2 ** 2).sum())
    if float(S2) <= 1e-6 * T2 or T2 == 0:
        return SKIP('||Y2|| is zero or ill-conditioned (documented sentinel region)')
    got = teneva.accuracy(Y1, Y2)
    want = math.sqrt(float(S1) / float(S2))
    # got^2 * S2 must agree with S1 up to the rounding of the two scalar products
    c = 1024 if not (_exact(D1) and T1 < LIM) else 64
    tol = c * EPS * (T1 + T2 * float(S1) / float(S2)) + 64 * EPS * float(S1)
    if not np.isfinite(got) or got < 0 or abs(float(got) ** 2 * float(S2) - float(S1)) > tol:
        return FAIL(f'accuracy {got} vs {want} (|got^2 S2 - S1| = {abs(float(got) ** 2 * float(S2) - float(S1)):.3e} > {tol:.3e})')
    if near == 'copy' and _exact(D1) and T1 < LIM and got != 0:
        return FAIL(f'accuracy of an integer tensor with its copy is {got}, not 0')
    if near == 'scaled' and _exact(D1) and T1 < LIM and abs(got - 0.5) > 8 * EPS:
        return FAIL(f'accuracy(Y, 2Y) = {got}, not 0.5')
    # ndarray arguments
    A1, A2 = _flt(np.asarray(D1, dtype=object).astype(float) if _exact(D1) else D1), \
        _flt(np.asarray(D2, dtype=object).astype(float) if _exact(D2) else D2)
    gn = teneva.accuracy(A1, A2)
    if not abs(gn - want) <= 64 * EPS * (want + math.sqrt(T1 / float(S2))):
        return FAIL(f'accuracy(ndarray) {gn} vs {want}')
    # data set: all indices (or a seeded subset), data = other tensor
    I = gen.all_indices(n)
    g = gen.rng('data', n, seed)
    if len(I) > 6:
        I = I[g.permutation(len(I))[: max(3, len(I) // 2)]]
    y = A2[tuple(I.T)]
    ny = float(np.sqrt((y ** 2).sum()))
    if teneva.accuracy_on_data(Y1, None, y) != -1 or teneva.accuracy_on_data(Y1, I, None) != -1:
        return FAIL('accuracy_on_data without data does not return -1')
    if ny > 0:
        res = A1[tuple(I.T)] - y
        wd = float(np.sqrt((res ** 2).sum())) / ny
        bd = float(np.sqrt(((B1 + B2)[tuple(I.T)].astype(float) ** 2).sum())) / ny
        for name, II, yy in (('arrays', I, y), ('lists', I.tolist(), y.tolist())):
            gd = teneva.accuracy_on_data(Y1, II, yy)
            if not abs(gd - wd) <= 256 * EPS * bd + 8 * EPS * wd:
                return FAIL(f'accuracy_on_data({name}) {gd} vs {wd}')
        if kind != 'int':          # e_trunc path (rounding of exactly-zero tensors is C11's business)
            e = 1e-9
            gd = teneva.accuracy_on_data(Y1, I, y, e_trunc=e)
            slack = 2 * e * float(np.sqrt((A1 ** 2).sum())) / ny + 1e-12 * bd
            if not abs(gd - wd) <= slack:
                return FAIL(f'accuracy_on_data(e_trunc) {gd} vs {wd} slack {slack:.2e}')
    return PASS


# ----------------------------------------------------------------------------- algebra

def _dense_of(Z, n, what):
    msg = gen.wf(Z, n)
    if msg:
        return None, f'{what}: result not a well-formed TT of shape {n}: {msg}'
    return gen.dense(Z), None


@clause('C01.add_sub_mul.tensor_tensor', funcs=('act_two.add', 'act_two.sub', 'act_two.mul'))
def algebra_tt(n, r, seed, kind, order):
    """add / sub / mul of two tensors with unequal rank profiles act element-wise; inputs untouched."""
    Y1, D1, B1 = _tt_pair(n, r, seed, kind, order)
    Y2, D2, B2 = _tt_pair(n, _other_ranks(n, r, seed), seed + 1, kind, ORDERS[(ORDERS.index(order) + 1) % 3])
    snap = gen.snapshot([Y1, Y2])
    rmax = max(max(G.shape) for G in Y1) * max(max(G.shape) for G in Y2)
    c = 16.0 * len(n) * max(4, rmax)
    for name, fn, D, B in (('add', teneva.add, D1 + D2, B1 + B2), ('sub', teneva.sub, D1 - D2, B1 + B2),
                           ('mul', teneva.mul, D1 * D2, B1 * B2), ('add swapped', lambda a, b: teneva.add(b, a), D1 + D2, B1 + B2),
                           ('sub swapped', lambda a, b: teneva.sub(b, a), D2 - D1, B1 + B2),
                           ('mul swapped', lambda a, b: teneva.mul(b, a), D1 * D2, B1 * B2),
                           ('add self', lambda a, b: teneva.add(a, a), D1 + D1, B1 + B1),
                           ('sub self', lambda a, b: teneva.sub(a, a), D1 - D1, B1 + B1),
                           ('mul self', lambda a, b: teneva.mul(a, a), D1 * D1, B1 * B1)):
        Z = fn(Y1, Y2)
        A, msg = _dense_of(Z, n, name)
        msg = msg or _agree(A, D, B, c=c, what=name)
        if msg:
            return FAIL(msg)
        if gen.snapshot([Y1, Y2]) != snap:
            return FAIL(f'{name}: an input changed')
    return PASS


NUMS = [2, -3, 1, -1, 0, 0.5, -1.5, 2.0, 1.0, -1.0, 0.0, 3]


@clause('C01.add_sub_mul.number_operands', funcs=('act_two.add', 'act_two.sub', 'act_two.mul'))
def algebra_num(n, r, seed, kind, order):
    """tensor (+,-,*) number, number (+,-,*) tensor act element-wise with the number broadcast; number with
    number is plain Python arithmetic."""
    Y, D, B = _tt_pair(n, r, seed, kind, order)
    snap = gen.snapshot(Y)
    d = len(n)
    rmax = max(max(G.shape) for G in Y) + 1
    c = 16.0 * d * max(4, rmax)
    Df = np.asarray(D, dtype=object).astype(float) if _exact(D) else D
    Bf = np.asarray(B, dtype=object).astype(float) if _exact(B) else B
    for v in NUMS:
        isint = float(v).is_integer()
        unit = v in (-1, 0, 1)
        iv = int(v) if isint else v
        table = (
            ('add(Y,v)', teneva.add(Y, v), (D + iv) if unit else Df + v, (B + abs(iv)) if unit else Bf + abs(v)),
            ('add(v,Y)', teneva.add(v, Y), (D + iv) if unit else Df + v, (B + abs(iv)) if unit else Bf + abs(v)),
            ('sub(Y,v)', teneva.sub(Y, v), (D - iv) if unit else Df - v, (B + abs(iv)) if unit else Bf + abs(v)),
            ('sub(v,Y)', teneva.sub(v, Y), (iv - D) if unit else v - Df, (B + abs(iv)) if unit else Bf + abs(v)),
            ('mul(Y,v)', teneva.mul(Y, v), (D * iv) if isint else Df * v, (B * abs(iv)) if isint else Bf * abs(v)),
            ('mul(v,Y)', teneva.mul(v, Y), (D * iv) if isint else Df * v, (B * abs(iv)) if isint else Bf * abs(v)),
        )
        for name, Z, W, WB in table:
            A, msg = _dense_of(Z, n, f'{name} v={v!r}')
            msg = msg or _agree(A, W, WB, c=c, what=f'{name} v={v!r}')
            if msg:
                return FAIL(msg)
        if gen.snapshot(Y) != snap:
            return FAIL(f'input changed (v={v!r})')
    for a, b in itertools.product(NUMS[:8], NUMS[:8]):
        for name, fn, want in (('add', teneva.add, a + b), ('sub', teneva.sub, a - b), ('mul', teneva.mul, a * b)):
            got = fn(a, b)
            if isinstance(got, (list, np.ndarray)) or got != want:
                return FAIL(f'{name}({a!r},{b!r}) = {got!r}, want {want!r}')
    return PASS


@clause('C01.outer.dense', funcs=('act_two.outer', 'act_many.outer_many'))
def outer_dense(n, r, seed, kind, order, n2):
    """outer(Y1, Y2)[i,j] = Y1[i] Y2[j]; outer_many of 1, 2, 3 tensors; inputs untouched."""
    Y1, D1, B1 = _tt_pair(n, r, seed, kind, order)
    Y2, D2, B2 = _tt_pair(n2, _other_ranks(n2, [1] * (len(n2) + 1), seed), seed + 1, kind, ORDERS[(ORDERS.index(order) + 1) % 3])
    Y3, D3, B3 = _tt_pair(n[::-1], r[::-1], seed + 2, kind, order)
    snap = gen.snapshot([Y1, Y2, Y3])
    mo = np.multiply.outer
    table = (('outer(Y1,Y2)', teneva.outer(Y1, Y2), mo(D1, D2), mo(B1, B2), n + n2),
             ('outer(Y2,Y1)', teneva.outer(Y2, Y1), mo(D2, D1), mo(B2, B1), n2 + n),
             ('outer_many([Y1])', teneva.outer_many([Y1]), D1, B1, n),
             ('outer_many([Y1,Y2])', teneva.outer_many([Y1, Y2]), mo(D1, D2), mo(B1, B2), n + n2),
             ('outer_many([Y1,Y2,Y3])', teneva.outer_many([Y1, Y2, Y3]), mo(mo(D1, D2), D3), mo(mo(B1, B2), B3), n + n2 + n[::-1]),
             ('outer_many([Y2,Y1,Y2])', teneva.outer_many([Y2, Y1, Y2]), mo(mo(D2, D1), D2), mo(mo(B2, B1), B2), n2 + n + n2))
    for name, Z, W, WB, shp in table:
        A, msg = _dense_of(Z, shp, name)
        msg = msg or _agree(A, W, WB, c=64.0 * len(shp), what=name)
        if msg:
            return FAIL(msg)
    if gen.snapshot([Y1, Y2, Y3]) != snap:
        return FAIL('an input changed')
    return PASS


# ----------------------------------------------------------------------------- interfaces and gradients

def _unnormalised(Yo, W, ltr, exact):
    """Interface vectors without normalisation from dense sub-trains: u[k][a] = weighted total of the
    sub-train right of bond k started in rank index a (rtl), resp. left of bond k ended in a (ltr).
    Returns (u, ub): lists of d+1 vectors (values, bounds)."""
    d = len(Yo)
    Ya = [np.abs(G) for G in Yo]
    Wa = [[abs(x) for x in w] for w in W]
    dn = gen.dense_exact if exact else gen.dense
    u, ub = [None] * (d + 1), [None] * (d + 1)
    one = np.array([1], dtype=object) if exact else np.ones(1)
    if not ltr:
        u[d], ub[d] = one, one
        for k in range(d):
            vals, bnds = [], []
            for a in range(Yo[k].shape[0]):
                vals.append(_wsum(dn([Yo[k][a:a + 1]] + list(Yo[k + 1:])), W[k:]))
                bnds.append(_wsum(dn([Ya[k][a:a + 1]] + list(Ya[k + 1:])), Wa[k:]))
            u[k], ub[k] = np.array(vals, dtype=object if exact else float), np.array(bnds, dtype=object if exact else float)
    else:
        u[0], ub[0] = one, one
        for k in range(1, d + 1):
            vals, bnds = [], []
            for a in range(Yo[k - 1].shape[2]):
                vals.append(_wsum(dn(list(Yo[:k - 1]) + [Yo[k - 1][:, :, a:a + 1]]), W[:k]))
                bnds.append(_wsum(dn(list(Ya[:k - 1]) + [Ya[k - 1][:, :, a:a + 1]]), Wa[:k]))
            u[k], ub[k] = np.array(vals, dtype=object if exact else float), np.array(bnds, dtype=object if exact else float)
    return u, ub


@clause('C01.interface.vectors', funcs=('act_one.interface',))
def interface_vectors(n, r, seed, kind, order, mode, norm, ltr):
    """interface(Y, P, i, norm, ltr): d+1 vectors, the k-th is the (weighted / indexed) total of the sub-train
    on one side of bond k; 'natural' divides by the product of the mode sizes passed, 'linalg' normalises to
    unit length, None leaves the totals.  SKIP when a 'linalg' vector is (numerically) zero."""
    Y, D, B = _tt_pair(n, r, seed, kind, order)
    d = len(n)
    exact = kind == 'int'
    g = gen.rng('iface', n, r, seed, mode)
    i = [int(g.integers(0, k)) for k in n]
    P = i_arg = None
    if mode == 'plain':
        W = [[1] * k for k in n]
    elif mode in ('P', 'Parr'):
        P = _weights(n, seed, kind)
        W = P
        if mode == 'Parr':
            P = [np.array(p, dtype=float) for p in P]
    elif mode == 'Pflat':
        if len(set(n)) != 1:
            return SKIP('one weight vector for all modes needs equal mode sizes')
        p = _weights(n[:1], seed, kind)[0]
        P, W = [float(x) for x in p], [p] * d
    elif mode in ('i', 'iarr'):
        W = [[1 if j == i[k] else 0 for j in range(n[k])] for k in range(d)]
        i_arg = i if mode == 'i' else np.array(i)
    elif mode == 'iP':
        P = _weights(n, seed, kind)
        W = [[P[k][j] if j == i[k] else 0 for j in range(n[k])] for k in range(d)]
        i_arg = i
    else:
        raise ValueError(mode)
    snap = gen.snapshot([Y, P, i_arg])
    phi = teneva.interface(Y, P=P, i=i_arg, norm=norm, ltr=ltr)
    if gen.snapshot([Y, P, i_arg]) != snap:
        return FAIL('an argument changed')
    if not isinstance(phi, list) or len(phi) != d + 1:
        return FAIL(f'{len(phi)} interface vectors for d = {d}')
    u, ub = _unnormalised([np.asarray(G) for G in Y], W, ltr, exact)
    rk = [1] + [G.shape[2] for G in Y]
    inner = range(0, d) if not ltr else range(1, d + 1)
    for k in range(d + 1):
        v = np.asarray(phi[k], dtype=float)
        if v.shape != (rk[k],):
            return FAIL(f'phi[{k}] has shape {v.shape}, rank {rk[k]}')
        if k not in inner:
            if v[0] != 1:
                return FAIL(f'boundary vector phi[{k}] = {v}')
            continue
        if norm is None:
            msg = _agree(v, u[k], ub[k], c=64.0 * d, what=f'phi[{k}]')
        elif norm.startswith('n'):
            N = int(np.prod(n[k:] if not ltr else n[:k]))
            if exact and (N & (N - 1)) == 0 and _maxabs(ub[k]) < LIM:
                msg = None if np.array_equal(v, u[k].astype(float) / N) else f'phi[{k}] natural: {v} != {u[k]}/{N}'
            else:
                msg = _agree(v, u[k].astype(float) / N, ub[k].astype(float) / N, c=64.0 * d, what=f'phi[{k}] natural')
        else:
            uf, bf = u[k].astype(float), ub[k].astype(float)
            nu, nb = np.linalg.norm(uf), np.linalg.norm(bf)
            if nu <= 1e-3 * nb or nu == 0:
                return SKIP(f'interface vector {k} is zero or ill-conditioned (|u| = {nu:.2e}, scale {nb:.2e})')
            cond = nb / nu
            msg = None if np.all(np.abs(v - uf / nu) <= 256.0 * d * EPS * cond * cond * (k + 1 + d)) else \
                f'phi[{k}] linalg: {v} vs {uf / nu}'
        if msg:
            return FAIL(f'mode={mode} norm={norm} ltr={ltr}: {msg}')
    return PASS


@clause('C01.get_and_grad.exact', funcs=('act_one.get_and_grad',))
def get_and_grad_exact(n, r, seed, kind, order):
    """value = val(Y, i); the gradient tensor has the core shapes, its slice at i_k is the derivative of val
    w.r.t. the core entries (= value of the train with core k replaced by a unit core), zero elsewhere."""
    Y, D, B = _tt_pair(n, r, seed, kind, order)
    d = len(n)
    exact = kind == 'int'
    Yo = _obj(Y) if exact else [np.asarray(G) for G in Y]
    Ya = [np.abs(G) for G in Yo]
    I = gen.all_indices(n)
    g = gen.rng('gag', n, r, seed)
    sel = sorted(set([0, len(I) - 1] + [int(x) for x in g.integers(0, len(I), size=4)]))
    snap = gen.snapshot(Y)
    for s in sel:
        i = I[s]
        for i_arg in (i.tolist(), i):
            val, grad = teneva.get_and_grad(Y, i_arg)
            if np.ndim(val) != 0:
                return FAIL('value is not a scalar')
            msg = _agree(val, D[tuple(i)], B[tuple(i)], c=64.0 * d, what=f'value at {i.tolist()}')
            if msg:
                return FAIL(msg)
            if not isinstance(grad, list) or len(grad) != d:
                return FAIL('gradient is not a list of d cores')
            for k in range(d):
                Gk = np.asarray(grad[k])
                if Gk.shape != Y[k].shape:
                    return FAIL(f'grad[{k}] shape {Gk.shape} != core shape {Y[k].shape}')
                mask = np.ones(n[k], dtype=bool)
                mask[i[k]] = False
                if np.any(Gk[:, mask, :] != 0):
                    return FAIL(f'grad[{k}] is non-zero off the index slice')
                want = np.empty((Y[k].shape[0], Y[k].shape[2]), dtype=object if exact else float)
                bnd = np.empty_like(want)
                for a in range(Y[k].shape[0]):
                    for b in range(Y[k].shape[2]):
                        E = np.zeros(Y[k].shape, dtype=object if exact else float)
                        E[...] = 0
                        E[a, i[k], b] = 1
                        want[a, b] = _val(Yo[:k] + [E] + Yo[k + 1:], i)
                        bnd[a, b] = _val(Ya[:k] + [E] + Ya[k + 1:], i)
                msg = _agree(Gk[:, i[k], :], want, bnd, c=64.0 * d, what=f'grad[{k}] at {i.tolist()}')
                if msg:
                    return FAIL(msg)
        if gen.snapshot(Y) != snap:
            return FAIL('input changed')
    return PASS


# ----------------------------------------------------------------------------- structure

@clause('C01.props.shape_ranks_size_erank', funcs=('props.shape', 'props.ranks', 'props.size', 'props.erank'))
def props_struct(n, r, seed, kind, order):
    """shape = mode sizes, ranks = (1, r_1, ..., r_{d-1}, 1), size = number of core entries, erank = the
    non-negative root of a r^2 + b r = sum_k n_k r_{k-1} r_k (d >= 3), r_1 for d = 2."""
    Y = gen.tt(n, r, seed, kind, order=order)
    d = len(n)
    sh, rk, sz = teneva.shape(Y), teneva.ranks(Y), teneva.size(Y)
    if not isinstance(sh, np.ndarray) or sh.dtype.kind not in 'iu' or sh.shape != (d,) or sh.tolist() != list(n):
        return FAIL(f'shape {sh!r} for {n}')
    if not isinstance(rk, np.ndarray) or rk.dtype.kind not in 'iu' or rk.shape != (d + 1,) or rk.tolist() != list(r):
        return FAIL(f'ranks {rk!r} for {r}')
    tot = sum(r[k] * n[k] * r[k + 1] for k in range(d))
    if sz != tot or float(sz) != int(sz):
        return FAIL(f'size {sz!r} != {tot}')
    er = teneva.erank(Y)
    if d == 2:
        return PASS if er == r[1] else FAIL(f'erank {er} != r_1 {r[1]} for d = 2')
    a, b = sum(n[1:d - 1]), n[0] + n[d - 1]
    if not (np.isfinite(er) and er >= 0):
        return FAIL(f'erank {er}')
    if abs(a * er * er + b * er - tot) > 64 * EPS * (a * er * er + b * er + tot):
        return FAIL(f'erank {er}: {a} r^2 + {b} r = {a * er * er + b * er} != {tot}')
    if len(set(r[1:-1])) == 1 and abs(er - r[1]) > 64 * EPS * r[1]:
        return FAIL(f'uniform rank {r[1]} but erank {er}')
    return PASS


@clause('C01.copy.independent', funcs=('act_one.copy',))
def copy_independent(n, r, seed, kind, order):
    """copy(Y) denotes the same tensor core by core and shares nothing; numbers / None are returned as they
    are, arrays are copied."""
    Y = gen.tt(n, r, seed, kind, order=order)
    snap = gen.snapshot(Y)
    Z = teneva.copy(Y)
    if not isinstance(Z, list) or Z is Y or len(Z) != len(Y):
        return FAIL('copy is not a new list of d cores')
    for k, (G, H) in enumerate(zip(Y, Z)):
        if H is G or H.shape != G.shape or not np.array_equal(G, H):
            return FAIL(f'core {k} differs or is the same object')
    if gen.shares(Y, Z):
        return FAIL('copy shares memory with the input')
    for H in Z:
        H += 1.0
    if gen.snapshot(Y) != snap:
        return FAIL('writing into the copy changed the input')
    for v in (3, -2.5, 0, None):
        w = teneva.copy(v)
        if not (w is v or w == v):
            return FAIL(f'copy({v!r}) = {w!r}')
    A = np.asarray(Y[0])
    C = teneva.copy(A)
    if not isinstance(C, np.ndarray) or not np.array_equal(A, C) or np.shares_memory(A, C):
        return FAIL('copy(ndarray) is not an independent equal array')
    return PASS


# ----------------------------------------------------------------------------- expression trees

class _Node:
    __slots__ = ('val', 'D', 'B', 'rank', 'text')

    def __init__(self, val, D, B, rank, text):
        self.val, self.D, self.B, self.rank, self.text = val, D, B, rank, text

    @property
    def num(self):
        return not isinstance(self.val, list)


def _tofloat(D):
    if isinstance(D, np.ndarray):
        return D.astype(float) if D.dtype == object else D
    return float(D)


def _leaf(g, n, kind):
    d = len(n)
    r = [1] + [int(x) for x in g.integers(1, 3, size=d - 1)] + [1]
    if g.random() < 0.15:
        r = [1] + [3] * (d - 1) + [1]
    order = ORDERS[int(g.integers(0, 3))]
    Y = gen.tt(n, r, int(g.integers(1 << 30)), kind, order=order)
    D, B = _ref(Y, kind)
    return _Node(Y, D, B, max(r), f'T{r}{order}')


def _number(g):
    v = NUMS[int(g.integers(0, len(NUMS)))]
    if float(v).is_integer():
        return _Node(v, int(v), abs(int(v)), 0, repr(v))
    return _Node(v, v, abs(v), 0, repr(v))


def _combine(op, a, b):
    """Reference (D, B) of op(a, b) on dense arrays, staying in exact integers when the operation is exact."""
    exa, exb = _exact(a.D), _exact(b.D)
    if a.num and b.num:
        D = {'add': a.val + b.val, 'sub': a.val - b.val, 'mul': a.val * b.val}[op]
        Dx = int(D) if float(D).is_integer() else D
        return Dx, abs(a.B) + abs(b.B) if op != 'mul' else abs(a.B) * abs(b.B)
    keep = exa and exb
    if keep and op in ('add', 'sub'):
        for x in (a, b):
            if x.num and x.val not in (-1, 0, 1):
                keep = False          # const(n, v) has cores |v|^(1/d): inexact
    Da, Db, Ba, Bb = (a.D, b.D, a.B, b.B) if keep else (_tofloat(a.D), _tofloat(b.D), _tofloat(a.B), _tofloat(b.B))
    if op == 'add':
        return Da + Db, Ba + Bb
    if op == 'sub':
        return Da - Db, Ba + Bb
    if op == 'mul':
        return Da * Db, Ba * Bb
    if op == 'outer':
        return np.multiply.outer(Da, Db), np.multiply.outer(Ba, Bb)
    raise ValueError(op)


def _tree(g, n, depth, kind, tensor):
    """Random expression tree of mode sizes n evaluated simultaneously by teneva and on dense arrays."""
    if depth == 0 or g.random() < 0.12:
        if not tensor and g.random() < 0.5:
            return _number(g)
        return _leaf(g, n, kind)
    ops = ['add', 'sub', 'mul', 'copy'] + (['outer', 'outer'] if len(n) >= 4 else [])
    op = ops[int(g.integers(0, len(ops)))]
    if op == 'copy':
        a = _tree(g, n, depth - 1, kind, tensor)
        val = teneva.copy(a.val)
        return _Node(val, a.D, a.B, a.rank, f'copy({a.text})')
    if op == 'outer':
        j = int(g.integers(2, len(n) - 1))
        a, b = _tree(g, n[:j], depth - 1, kind, True), _tree(g, n[j:], depth - 1, kind, True)
        D, B = _combine('outer', a, b)
        return _Node(teneva.outer(a.val, b.val), D, B, max(a.rank, b.rank), f'outer({a.text},{b.text})')
    first_tensor = tensor and g.random() < 0.5
    a = _tree(g, n, depth - 1, kind, first_tensor)
    b = _tree(g, n, depth - 1, kind, tensor and a.num)
    if op == 'mul' and a.rank * b.rank > 36:
        op = 'add'
    fn = {'add': teneva.add, 'sub': teneva.sub, 'mul': teneva.mul}[op]
    D, B = _combine(op, a, b)
    rank = 0 if (a.num and b.num) else (a.rank * max(1, b.rank) if op == 'mul' and not (a.num or b.num)
                                        else (max(a.rank, b.rank) if op == 'mul' else max(a.rank, 1) + max(b.rank, 1)))
    return _Node(fn(a.val, b.val), D, B, rank, f'{op}({a.text},{b.text})')


@clause('C01.tree.random', funcs=('act_two.add', 'act_two.sub', 'act_two.mul', 'act_two.outer', 'act_one.copy'))
def tree_random(n, seed, depth, kind, tensor):
    """A random expression tree over add / sub / mul / outer / copy / number operands denotes the same tensor
    as the tree evaluated on dense arrays (exact == while all partial sums are integers below 2^53)."""
    g = gen.rng('tree', n, seed, depth, kind)
    t = _tree(g, list(n), depth, kind, tensor)
    if t.num:
        want = t.D
        if isinstance(t.val, (list, np.ndarray)) or not (t.val == want or abs(t.val - want) <= 8 * EPS * abs(t.B)):
            return FAIL(f'{t.text} = {t.val!r}, want {want!r}')
        return PASS
    msg = gen.wf(t.val, n)
    if msg:
        return FAIL(f'{t.text}: result not well-formed: {msg}')
    rmax = max(max(G.shape) for G in t.val)
    A = gen.dense(t.val)
    msg = _agree(A, t.D, t.B, c=16.0 * (len(n) * rmax + depth + 4), what=t.text)
    return FAIL(msg) if msg else PASS


# ----------------------------------------------------------------------------- case list

def _configs(big):
    out = []
    for n in gen.shapes(dmax=5 if big else 4, nmax=4):
        for r in gen.rank_profiles(n, rmax=4):
            out.append((n, r))
    return out


def _rand_config(g, big):
    d = int(g.integers(2, 6 if big else 5))
    n = [int(x) for x in g.integers(1, 5, size=d)]
    r = [1] + [int(x) for x in g.integers(1, 6 if big else 5, size=d - 1)] + [1]
    return n, r


def cases(tier, seed):
    big = tier == 'thorough'
    g = gen.rng('C01', seed)
    cfgs = _configs(big)
    std = ['C01.get.all_indices', 'C01.full.dense', 'C01.sum_mean.weights', 'C01.mul_scalar_norm.dense',
           'C01.add_sub_mul.tensor_tensor', 'C01.add_sub_mul.number_operands', 'C01.get_and_grad.exact',
           'C01.props.shape_ranks_size_erank', 'C01.copy.independent']
    # systematic part: every shape x rank profile x value kind; memory order cycles (thorough: all three)
    for j, (n, r) in enumerate(cfgs):
        for kind in ('int', 'gauss'):
            for order in (ORDERS if big else (ORDERS[j % 3],)):
                base = dict(n=n, r=r, seed=j, kind=kind, order=order)
                for cid in std:
                    yield cid, dict(base)
                for near in ('other', 'copy', 'scaled'):
                    yield 'C01.accuracy.dense', dict(base, near=near)
                yield 'C01.outer.dense', dict(base, n2=[[2, 3], [1, 2], [3, 1, 2]][j % 3])
    # interface: all settings on a sub-list of configurations
    sub = cfgs if big else cfgs[::3]
    for j, (n, r) in enumerate(sub):
        for kind in ('int', 'gauss'):
            for mode in ('plain', 'P', 'Parr', 'Pflat', 'i', 'iarr', 'iP'):
                for norm in (None, 'linalg', 'natural', 'l', 'n'):
                    if norm in ('l', 'n') and mode not in ('plain', 'iP'):
                        continue
                    for ltr in (False, True):
                        yield 'C01.interface.vectors', dict(n=n, r=r, seed=j, kind=kind, order=ORDERS[(j + ltr) % 3],
                                                            mode=mode, norm=norm, ltr=ltr)
    # seeded random part
    for _ in range(600 if big else 120):
        n, r = _rand_config(g, big)
        if int(np.prod(n)) > 400:
            continue
        kind = ('int', 'gauss')[int(g.integers(0, 2))]
        base = dict(n=n, r=r, seed=int(g.integers(1 << 30)), kind=kind, order=ORDERS[int(g.integers(0, 3))])
        for cid in std:
            yield cid, dict(base)
        yield 'C01.accuracy.dense', dict(base, near='other')
        yield 'C01.outer.dense', dict(base, n2=[int(x) for x in g.integers(1, 4, size=2)])
        yield 'C01.interface.vectors', dict(base, mode=('plain', 'P', 'i', 'iP')[int(g.integers(0, 4))],
                                            norm=(None, 'linalg', 'natural')[int(g.integers(0, 3))],
                                            ltr=bool(g.integers(0, 2)))
    # many modes: more entries than int64 can count
    for d_, nk_ in ((40, 3), (63, 2), (64, 2), (65, 2), (80, 2), (28, 5)) + (((100, 3), (130, 2)) if big else ()):
        for s in range(3 if big else 2):
            yield 'C01.reductions.many_modes', dict(d=d_, nk=nk_, seed=s)
    # expression trees
    roots = [[2, 3], [3, 1], [2, 1, 3], [1, 1, 1], [2, 2, 2], [3, 2, 2, 2], [1, 2, 2, 1], [2, 3, 1, 2]]
    if big:
        roots += [[2, 2, 3, 2, 2], [4, 3], [1, 3, 1, 2, 2]]
    for n in roots:
        for kind in ('int', 'gauss'):
            for depth in ((1, 2, 3, 4) if big else (1, 2, 3)):
                for s in range(40 if big else 12):
                    yield 'C01.tree.random', dict(n=n, seed=s, depth=depth, kind=kind, tensor=True)
                for _ in range(40 if big else 10):
                    yield 'C01.tree.random', dict(n=n, seed=int(g.integers(1 << 30)), depth=depth, kind=kind, tensor=True)
            for s in range(4 if big else 2):
                yield 'C01.tree.random', dict(n=n, seed=s, depth=2, kind=kind, tensor=False)
