"""C01 (bounded, T3): TT evaluation and algebra agree elementwise with dense tensor algebra.

Covered clauses of the statement (every clause runs the real teneva function against an own dense /
exact-integer evaluation of the core chain, `gen.dense` / `gen.dense_exact`):

* element access `get` (list / array / 2-D batch / list of lists), `get_many` (incl. batch of one and the
  empty batch) on EVERY multi-index of the tensor, export `full`;
* `sum`, `mean` (plain, norm flag, weighted with P as list of lists / list of arrays, P longer than the
  mode), `mul_scalar`, `norm`, `accuracy` (TT and ndarray arguments), `accuracy_on_data` (incl. the
  None sentinel and the e_trunc path);
* `add` / `sub` / `mul` for tensor-tensor (unequal rank profiles), tensor-number, number-tensor and
  number-number operands, `outer`, `outer_many`;
* `interface` (both directions x {None,'linalg','l','natural','n'} x {plain, P per mode, one P for all
  modes, multi-index i, i with P}), `get_and_grad` (value and the exact gradient: val is linear in each
  core, so d val / d G_k[a,m,b] is the value of the train with core k replaced by the unit core);
* `shape`, `ranks`, `size`, `erank` (defining quadratic), `copy`;
* random expression trees over add / sub / mul / outer / copy / number operands (depth <= 3 quick, <= 4
  thorough) against the same tree evaluated on dense arrays.

Parameter / regime coverage added by the audit of the signatures (every case family below is in the quick tier):
* overall scale: every clause above also with all cores multiplied by 1e-2 / 1e2 / 1e-20 / 1e20 / 2^-10 / 1e-5 (totals
  1e-100 .. 1e+100), add / sub / mul with operands of unequal magnitude (scale, 1/scale) - absolute thresholds would show;
* `norm` / `mul_scalar` with use_stab=True (pair result, per-core factors 2^-80 .. 2^240: `C01.mul_scalar_norm.stab_pair`);
* number operands 1e-20 .. 1e+20 on both sides of the magnitude switch of the constant tensor, numpy.float64 numbers
  (`C01.add_sub_mul.number_forms`);
* index batches of dtype int32 / uint16, F-ordered and non-contiguous, lists of numpy integers; weights as one 2-D array,
  one flat list of Python ints / floats / one 1-D array for all modes;
* mode sizes 256 .. 1030 (thorough 2048) in every standard clause;
* d = 28 .. 130 without any dense reference (`C01.reductions.many_modes`, `C01.algebra.many_modes`): get / get_many /
  add / sub / mul / outer / interface (all norms, directions, P, i) / get_and_grad / mul_scalar / accuracy / shape /
  ranks / size / erank against exact integer arithmetic on the core chain.
* repeated core objects (`alias=` parameter of every clause above, `gen.tt_aliased`): well-formed tensors whose core LIST
  holds one array object at several positions - [g, g, g, g], [A, G, G, G, B], [A, B, A, B], mode size 1, over-ranked -
  with the repetition including / excluding core 0 ('all' / 'first' / 'rest') and two operands that share core objects
  with each other ('cross', another list of the very same cores for accuracy); every standard clause, number operands of
  every kind, accuracy, outer, interface, and expression trees whose leaves are such tensors (`alias=True`).  A routine
  that copies / caches / rescales "by object" (deepcopy memo, id-keyed caches, in-place scaling of a shared core) shows here.
* other INPUT FORMS of the core list (`C01.forms.std`, which re-runs the reference checks of every standard clause, of
  accuracy / outer / interface and of expression trees; `form=` of `_tt_pair`): cores of dtype float32 / int64 / int32,
  dtypes mixed between the cores (float64 + int64 with non-integer values in the float cores, float64 + float32), read-only
  cores, read-only non-contiguous views, the core list as a tuple (also tuple + float32 + read-only).  The reference is
  the float64 image of what is passed; float32 cores are compared in float32 accuracy where the unchanged library computes
  in float32 (exact == below 2^24 for integer values).  `C01.forms.mixed_operands`: binary operations of such a tensor with a
  float64 Gaussian tensor / non-integer numbers in float64 accuracy (a result allocated "like the first operand" shows),
  keyword calls with the documented names, outer_many of a tuple, a bool number operand.  Optional arguments passed
  positionally: interface through `gen.call_form` (`call=` of `C01.interface.vectors`: pos / mix:2 / mix:3 / min / kwmin),
  mean(Y, None, False), mul_scalar(Y1, Y2, True), norm(Y, True), accuracy_on_data(Y, I, y, e); get_and_grad with the index
  as tuple / int32 array / list of numpy ints.
  DOUBTFUL, disabled (`C01.forms.int_first_core_inplace`, replay only): a first core of INTEGER dtype makes sub(Y, X),
  sub(number, X), mul(float, X), accuracy(Y, X) raise (in-place scaling of the copied first core).
Not covered on purpose: numpy.int64 / numpy.float32 / 0-d array NUMBER operands (the docstrings say "int, float"; `_is_num`
accepts Python int / float and their subclasses only), `get_and_grad(check_phi=True)` (documented "should be False"; raises NameError on the pinned
tree), the private `_to_item` flag, `getter` (needs numba, deprecated).

Equality regime: integer-valued cores in [-3,3] are compared with the exact Python-integer oracle by `==`
whenever every partial sum is below 2^53 (then any evaluation order is exact); otherwise, and for Gaussian
cores, the tolerance is c*eps*S with S the same expression evaluated on |cores| (sum of |products|).
Number operands of add/sub enter through const (cores |v|^(1/d)), which is exact only for v in {-1,0,1};
other numbers are compared with the scale-aware tolerance.
"""
import itertools, math
import numpy as np
import teneva
from rtc.api import clause, PASS, FAIL, TRIVIAL, SKIP
from rtc import gen


BUDGET = (55, 560)
BOUNDS = ('d in {2,3,4} (thorough: 5), mode sizes 1..4 incl. all-ones and leading/trailing 1, rank profiles 1 / 2 / 4 / '
          'ragged / over-ranked, memory orders C/F/V, integer cores in [-3,3] (exact ==) and Gaussian cores '
          '(c*eps*sum|products|); every multi-index of every tensor; expression trees depth <= 3 (thorough 4); '
          'per clause ~ 150 systematic + 120 seeded cases quick, ~ 700 + 600 thorough; reductions also for d = 28 .. 130 '
          '(2^63 .. 3^100 entries) against exact rational arithmetic; element access / algebra / interface / get_and_grad / '
          'accuracy / erank for the same d against exact integers; per-core scales 1e-20 .. 1e20 and mixed magnitudes; '
          'mode sizes up to 1030 (thorough 2048); stabilised pair results with per-core 2^-80 .. 2^240; number operands '
          '1e-150 .. 1e20 and numpy.float64; index dtypes int32 / uint16 / views; tensors with repeated core objects '
          '(12 quick / 18 thorough shape x rank configurations x {all, first, rest, cross} sharing patterns, every clause; '
          '270 / 1430 expression trees with such leaves); input forms of the core list: 11 forms (float32 / int64 / int32 / '
          'mixed dtypes / read-only / views / tuple) x 6 (thorough 10) shape x rank configurations through every standard '
          'clause, 160 / 1360 expression trees with leaves in such forms, float64-accuracy binary operations with a Gaussian '
          'partner; interface in 5 positional / mixed call forms')

EPS = np.finfo(float).eps
LIM = 2 ** 53
ORDERS = ('C', 'F', 'V')
SCALES = (1e-2, 1e2, 1e-20, 1e20, 2.0 ** -10, 1e-5)


# ----------------------------------------------------------------------------- input forms of the core list

EPS32 = float(np.finfo(np.float32).eps)
# comparison regime of `_agree`: (rounding unit, limit below which integer arithmetic is exact).  Only `forms_std` changes it
# (and restores it): tensors with float32 cores are, on the unchanged library, evaluated in float32 by get / full / mul /
# mul_scalar, so their regime is (eps32, 2^24); every other form keeps (eps, 2^53).
_CTX = {'eps': EPS, 'lim': LIM, 'form': None}
FORMS = ('f32', 'i64', 'i32', 'mix_fi', 'mix_if', 'mix_f32a', 'mix_f32b', 'ro', 'ro_view', 'tuple', 'tuple_f32_ro')
INT_FIRST = ('i64', 'i32', 'mix_if')            # forms whose FIRST core has an integer dtype


_as_form, _image = gen.tt_form1, gen.tt_image1          # (shared with the other suites)


# ----------------------------------------------------------------------------- oracles

def _ref(Y, kind):
    """(D, B): dense reference and dense bound (same chain on |cores|); exact object arrays for kind 'int'."""
    if kind == 'int':
        return gen.dense_exact(Y), gen.dense_exact([np.abs(G) for G in Y])
    return gen.dense(Y), gen.absdense(Y)


def _exact(D):
    return isinstance(D, int) or (isinstance(D, np.ndarray) and D.dtype == object)


def _flt(D):
    return np.asarray(D, dtype=float) if not isinstance(D, np.ndarray) or D.dtype != float else D


def _maxabs(B):
    B = np.asarray(B, dtype=object)
    return max([abs(x) for x in B.flat], default=0)


def _agree(got, D, B, c=64.0, what=''):
    """None if `got` agrees with the reference D (bound B), else a message.  Exact `==` when D is exact
    (Python ints) and the bound stays below 2^53, else |got-D| <= c*eps*B."""
    try:
        got = np.asarray(got, dtype=float)
    except Exception as e:
        return f'{what}: result not numeric ({type(got).__name__}: {e})'
    shp = np.shape(D)
    if got.shape != shp:
        return f'{what}: shape {got.shape} != {shp}'
    if _exact(D) and _maxabs(B) < _CTX['lim']:
        Df = np.asarray(D, dtype=object).astype(float)
        if np.array_equal(got, Df):
            return None
        bad = np.argwhere(np.atleast_1d(got != Df))
        j = tuple(bad[0]) if len(bad) else ()
        return f'{what}: exact integer mismatch at {j}: got {np.atleast_1d(got)[j] if j else got} want {np.atleast_1d(Df)[j] if j else Df}'
    Df, Bf = _flt(np.asarray(D, dtype=object).astype(float) if _exact(D) else D), \
        np.asarray(np.asarray(B, dtype=object).astype(float) if _exact(B) else B, dtype=float)
    if not np.all(np.isfinite(got)):
        return f'{what}: non-finite result'
    if gen.close(got, Df, Bf, c * (_CTX['eps'] / EPS)):
        return None
    ratio = np.max(np.abs(got - Df) / (_CTX['eps'] * Bf + 1e-300))
    return f'{what}: |got-ref| = {ratio:.3g} eps*scale > {c} eps*scale'


def _val(Y, i):
    """Element by explicit Python loops (exact for object cores)."""
    v = [Y[0][0, i[0], b] for b in range(Y[0].shape[2])]
    for k in range(1, len(Y)):
        G = Y[k]
        v = [sum(v[a] * G[a, i[k], b] for a in range(G.shape[0])) for b in range(G.shape[2])]
    return v[0]


def _obj(Y):
    return [np.vectorize(int, otypes=[object])(G) for G in Y]


def _wsum(D, W):
    """sum_i D[i] * prod_k W[k][i_k] by Python loops (exact on object arrays)."""
    tot = 0
    for idx in itertools.product(*[range(s) for s in D.shape]):
        w = 1
        for k, j in enumerate(idx):
            w = w * W[k][j]
        tot = tot + D[idx] * w
    return tot


def _weights(n, seed, kind, extra=0):
    g = gen.rng('w', n, seed, kind)
    if kind == 'int':
        return [[int(x) for x in g.integers(-2, 3, size=k + extra)] for k in n]
    return [[float(x) for x in g.uniform(-1, 1, size=k + extra)] for k in n]


def _tt_pair(n, r, seed, kind, order, scale=1.0, alias=None, form=None):
    """(Y, D, B).  form: Y is handed out in the input form `form` (`_as_form`; D, B are those of its float64 image).  scale != 1 multiplies EVERY core (total factor scale^d); the reference is then the float chain.
    alias ('all' | 'first' | 'rest' | 'cross'): the core LIST holds one array object at several positions
    (`gen.tt_aliased`; 'cross' = 'all' here, the sharing BETWEEN two operands is made by `_second`)."""
    if form:
        Y, D, B = _tt_pair(n, r, seed, kind, order, scale, alias)
        if kind != 'int' or scale != 1.0:       # values that float32 holds exactly (the reference is their float64 image)
            Y = [G.astype(np.float32).astype(float) for G in Y]
            if form in ('mix_fi', 'mix_if'):    # the cores that get the integer dtype hold integers, the others do not
                Y = [np.rint(2 * G) if k % 2 == (form == 'mix_fi') else G for k, G in enumerate(Y)]
            D, B = gen.dense(Y), gen.absdense(Y)
        return _as_form(Y, form), D, B
    if alias:
        Y = gen.tt_aliased(n, r, seed, kind, scale=float(scale), order=order, which='all' if alias == 'cross' else alias)
        if scale != 1.0:
            return Y, gen.dense(Y), gen.absdense(Y)
        D, B = _ref(Y, kind)
        return Y, D, B
    if scale != 1.0:
        Y = gen.tt(n, r, seed, kind, scale=float(scale), order=order)
        return Y, gen.dense(Y), gen.absdense(Y)
    Y = gen.tt(n, r, seed, kind, order=order)
    D, B = _ref(Y, kind)
    return Y, D, B


def _second(Y1, n, r, seed, kind, order, scale=1.0, alias=None):
    """Second operand (Y2, D2, B2) of a binary clause.  Without alias: another rank profile (as before).  With alias:
    the same rank profile with repeated core objects; alias = 'cross': a tensor that shares the core OBJECTS of Y1 at the
    even positions (and repeats its own core objects at the other ones)."""
    if not alias:
        return _tt_pair(n, _other_ranks(n, r, seed), seed + 1, kind, order, scale)
    if alias != 'cross':
        return _tt_pair(n, r, seed + 1, kind, order, scale, alias)
    Y2 = gen.tt_aliased(n, r, seed + 1, kind, scale=float(scale), order=order, which='all')
    for k in range(0, len(n), 2):
        Y2[k] = Y1[k]
    if scale != 1.0 or kind != 'int' or not all(np.all(G == np.rint(G)) for G in Y2):     # Y1 may carry another scale
        return Y2, gen.dense(Y2), gen.absdense(Y2)
    D, B = _ref(Y2, kind)
    return Y2, D, B


def _other_ranks(n, r, seed):
    """A second rank profile for the same shape, different from r where possible."""
    g = gen.rng('r2', n, r, seed)
    return [1] + [int(x) for x in g.integers(1, 4, size=len(n) - 1)] + [1]


# ----------------------------------------------------------------------------- element access, export

@clause('C01.get.all_indices', funcs=('act_one.get', 'act_one.get_many'))
def get_all(n, r, seed, kind, order, scale=1.0, alias=None, form=None):
    """get (single index as list / array, 2-D batch, list of lists), get_many (batch, batch of one, empty
    batch; index arrays of dtype int64 / int32 / uint16, non-contiguous / F-ordered) return val(Y, i) for
    every multi-index i."""
    Y, D, B = _tt_pair(n, r, seed, kind, order, scale, alias, form)
    snap = gen.snapshot(Y)
    I = gen.all_indices(n)
    want, bnd = D[tuple(I.T)], B[tuple(I.T)]
    Iv = np.zeros((I.shape[0], 2 * I.shape[1]), dtype=int)
    Iv[:, ::2] = I
    for name, got in (('get_many(array)', teneva.get_many(Y, I)), ('get(2-D array)', teneva.get(Y, I)),
                      ('get_many(list of lists)', teneva.get_many(Y, I.tolist())),
                      ('get(list of lists)', teneva.get(Y, I.tolist())),
                      ('get_many(int32 array)', teneva.get_many(Y, I.astype(np.int32))),
                      ('get(uint16 array)', teneva.get(Y, I.astype(np.uint16))),
                      ('get_many(non-contiguous view)', teneva.get_many(Y, Iv[:, ::2])),
                      ('get_many(F-ordered array)', teneva.get_many(Y, np.asfortranarray(I)))):
        if not isinstance(got, np.ndarray) or got.ndim != 1:
            return FAIL(f'{name}: result is not a 1-D array')
        msg = _agree(got, want, bnd, what=name)
        if msg:
            return FAIL(msg)
    step = max(1, len(I) // 24)
    for s in list(range(0, len(I), step)) + [len(I) - 1]:
        for name, i in (('get(list)', I[s].tolist()), ('get(array)', I[s]), ('get(tuple)', tuple(I[s].tolist())),
                        ('get(int32 array)', I[s].astype(np.int32)), ('get(list of numpy ints)', list(I[s]))):
            got = teneva.get(Y, i)
            if np.ndim(got) != 0:
                return FAIL(f'{name}: single index does not give a scalar')
            msg = _agree(got, want[s], bnd[s], what=f'{name} i={I[s].tolist()}')
            if msg:
                return FAIL(msg)
        one = teneva.get_many(Y, I[s:s + 1])
        msg = _agree(one, want[s:s + 1], bnd[s:s + 1], what='get_many(batch of one)')
        if msg:
            return FAIL(msg)
    # a permuted batch with repetitions
    g = gen.rng('perm', n, seed)
    sel = g.integers(0, len(I), size=min(40, 2 * len(I)))
    msg = _agree(teneva.get_many(Y, I[sel]), want[sel], bnd[sel], what='get_many(permuted batch)')
    if msg:
        return FAIL(msg)
    emp = teneva.get_many(Y, np.zeros((0, len(n)), dtype=int))
    if np.shape(emp) != (0,):
        return FAIL(f'empty batch gives shape {np.shape(emp)}')
    if gen.snapshot(Y) != snap:
        return FAIL('input changed')
    return PASS


@clause('C01.full.dense', funcs=('transformation.full',))
def full_dense(n, r, seed, kind, order, scale=1.0, alias=None, form=None):
    """full(Y) is the dense tensor of shape n_1 x ... x n_d (also when boundary modes have size 1)."""
    Y, D, B = _tt_pair(n, r, seed, kind, order, scale, alias, form)
    Z = teneva.full(Y)
    if not isinstance(Z, np.ndarray) or Z.shape != tuple(n):
        return FAIL(f'full has shape {getattr(Z, "shape", None)} for mode sizes {n}')
    msg = _agree(Z, D, B, what='full')
    return FAIL(msg) if msg else PASS


# ----------------------------------------------------------------------------- reductions

@clause('C01.sum_mean.weights', funcs=('act_one.sum', 'act_one.mean'))
def sum_mean(n, r, seed, kind, order, scale=1.0, alias=None, form=None):
    """sum = total of all entries; mean = total / number of entries; mean(norm=False) = sum; mean(P) = weighted
    total with P as list of lists / list of arrays / one 2-D array (equal modes), also when P[k] is
    longer than the mode (first n_k used)."""
    Y, D, B = _tt_pair(n, r, seed, kind, order, scale, alias, form)
    tot, btot = D.sum(), B.sum()
    msg = _agree(teneva.sum(Y), tot, btot, what='sum') or _agree(teneva.mean(Y, norm=False), tot, btot, what='mean(norm=False)') \
        or _agree(teneva.mean(Y, None, False), tot, btot, what='mean(Y, None, False)') \
        or _agree(teneva.mean(Y, None, np.bool_(False)), tot, btot, what='mean(Y, None, numpy.bool_(False))')
    if msg:
        return FAIL(msg)
    N = int(np.prod(n))
    got = teneva.mean(Y)
    if all(k in (1, 2, 4) for k in n) and _exact(D) and btot < _CTX['lim']:
        if float(got) != float(tot) / N:     # scaling by powers of two is exact
            return FAIL(f'mean (power-of-two modes): {got} != {tot}/{N}')
    else:
        msg = _agree(got, float(tot) / N, float(btot) / N, what='mean')
        if msg:
            return FAIL(msg)
    for extra in (0, 2):
        P = _weights(n, seed, kind, extra)
        want = _wsum(D, P)
        bnd = _wsum(B, [[abs(x) for x in p] for p in P])
        forms = [('list of lists', P), ('list of arrays', [np.array(p, dtype=float) for p in P])]
        if len(set(n)) == 1:
            forms.append(('2-D array', np.array(P, dtype=float)))
        for name, PP in forms:
            msg = _agree(teneva.mean(Y, PP), want, bnd, what=f'mean(P {name}, extra={extra})')
            if msg:
                return FAIL(msg)
    return PASS


@clause('C01.reductions.many_modes', funcs=('act_one.sum', 'act_one.mean', 'act_one.get', 'act_two.mul_scalar', 'act_one.norm'))
def many_modes(d, nk, seed):
    """Tensors with far more entries than any integer type can count (2^63 .. 3^100): sum, mean (plain and weighted),
    get, mul_scalar and norm against exact rational arithmetic on the core chain (non-negative integer cores, so every
    floating-point result has relative error <= c * d * eps)."""
    from fractions import Fraction
    g = gen.rng('C01.many', seed)
    r = [1] + [int(x) for x in g.integers(1, 3, size=d - 1)] + [1]
    Y = [g.integers(0, 3, size=(r[k], nk, r[k + 1])).astype(float) for k in range(d)]
    for G in Y:
        G[0, 0, 0] = 1.                                   # keeps the total positive
    snap = gen.snapshot(Y)

    def chain(mats):
        v = [[1]]
        for Mx in mats:
            v = [[sum(v[0][a] * Mx[a][b] for a in range(len(Mx))) for b in range(len(Mx[0]))]]
        return v[0][0]

    ints = [[[[int(G[a, j, b]) for b in range(G.shape[2])] for a in range(G.shape[0])] for j in range(nk)] for G in Y]
    summed = [[[sum(S[j][a][b] for j in range(nk)) for b in range(len(S[0][0]))] for a in range(len(S[0]))] for S in ints]
    tot = chain(summed)
    N = nk ** d
    tol = 64 * d * EPS

    def close(got, want, what):
        want = Fraction(want)
        if not np.isfinite(got) or abs(Fraction(float(got)) - want) > Fraction(tol) * abs(want):
            return f'{what}: got {got!r}, exact value {float(want)!r} (d={d}, mode size {nk}, {N} entries)'
        return None

    P = [[int(x) for x in g.integers(0, 3, size=nk)] for _ in range(d)]
    wsummed = [[[sum(P[k][j] * ints[k][j][a][b] for j in range(nk)) for b in range(len(ints[k][0][0]))]
                for a in range(len(ints[k][0]))] for k in range(d)]
    i = [int(x) for x in g.integers(0, nk, size=d)]
    sq = []
    for k in range(d):                                     # <Y, Y> through the exact Kronecker chain
        r1, r2 = len(ints[k][0]), len(ints[k][0][0])
        sq.append([[sum(ints[k][j][a][b] * ints[k][j][a2][b2] for j in range(nk)) for b in range(r2) for b2 in range(r2)]
                   for a in range(r1) for a2 in range(r1)])
    yy = chain(sq)
    msg = (close(teneva.sum(Y), tot, 'sum') or close(teneva.mean(Y), Fraction(tot, N), 'mean')
           or close(teneva.mean(Y, norm=False), tot, 'mean(norm=False)')
           or close(teneva.mean(Y, [np.array(p, dtype=float) for p in P]), chain(wsummed), 'mean(P)')
           or close(teneva.get(Y, i), chain([ints[k][i[k]] for k in range(d)]), 'get')
           or close(teneva.mul_scalar(Y, Y), yy, 'mul_scalar(Y, Y)')
           or close(teneva.norm(Y) ** 2, yy, 'norm(Y)^2'))
    if msg:
        return FAIL(msg)
    if gen.snapshot(Y) != snap:
        return FAIL('argument cores were modified')
    return PASS


@clause('C01.mul_scalar_norm.dense', funcs=('act_two.mul_scalar', 'act_one.norm'))
def dot_norm(n, r, seed, kind, order, scale=1.0, alias=None, form=None):
    """mul_scalar(Y1, Y2) = sum of the element-wise product (unequal rank profiles), norm(Y)^2 = sum of squares."""
    Y1, D1, B1 = _tt_pair(n, r, seed, kind, order, scale, alias, form)
    Y2, D2, B2 = _second(Y1, n, r, seed, kind, ORDERS[(ORDERS.index(order) + 1) % 3], scale, alias)
    msg = _agree(teneva.mul_scalar(Y1, Y2), (D1 * D2).sum(), (B1 * B2).sum(), c=256, what='mul_scalar') \
        or _agree(teneva.mul_scalar(Y2, Y1), (D1 * D2).sum(), (B1 * B2).sum(), c=256, what='mul_scalar swapped')
    if msg:
        return FAIL(msg)
    v = teneva.mul_scalar(Y1, Y2)
    if np.ndim(v) != 0:
        return FAIL('mul_scalar does not return a scalar')
    for Y, D, B in ((Y1, D1, B1), (Y2, D2, B2)):
        s2, b2 = (D * D).sum(), (B * B).sum()
        got = teneva.norm(Y)
        if np.ndim(got) != 0 or not np.isfinite(got) or got < 0:
            return FAIL(f'norm = {got}')
        if got == 0 and float(s2) > 0:
            return FAIL(f'norm = 0 for a tensor with sum of squares {float(s2)!r}')
        if _exact(D) and b2 < _CTX['lim']:
            if float(got) != math.sqrt(s2):
                return FAIL(f'norm {got} != sqrt({s2}) (exact integer sum of squares)')
        else:
            # compare the squares: the rounding of <Y,Y> is c*eps*sum B^2
            msg = _agree(float(got) ** 2, float(s2), float(b2), c=512, what='norm^2')
            if msg:
                return FAIL(msg)
    return PASS


@clause('C01.mul_scalar_norm.stab_pair', funcs=('act_two.mul_scalar', 'act_one.norm'))
def dot_norm_stab(n, r, seed, kind, order, ex):
    """use_stab=True: mul_scalar returns (v, p) with v 2^p = <Y1, Y2>, norm returns (m, q) with m 2^q = ||Y||, also
    when every core carries the factor 2^ex (the totals 2^(2 d ex) may leave the double range; the reference is taken
    from the unscaled cores and exact exponent arithmetic)."""
    Y1, D1, B1 = _tt_pair(n, r, seed, kind, order)
    Y2, D2, B2 = _tt_pair(n, _other_ranks(n, r, seed), seed + 1, kind, ORDERS[(ORDERS.index(order) + 1) % 3])
    d = len(n)
    S1, S2 = [np.ldexp(G, ex) for G in Y1], [np.ldexp(G, ex) for G in Y2]
    snap = gen.snapshot([S1, S2])
    out = teneva.mul_scalar(S1, S2, use_stab=True)
    if not isinstance(out, tuple) or len(out) != 2:
        return FAIL('mul_scalar(use_stab=True) does not return a pair')
    if gen.snapshot(teneva.mul_scalar(S1, S2, True)) != gen.snapshot(out) or gen.snapshot(teneva.norm(S1, True)) != gen.snapshot(teneva.norm(S1, use_stab=True)):
        return FAIL('mul_scalar / norm: use_stab passed positionally gives another result than by keyword')
    v, p = out
    if isinstance(p, bool) or not isinstance(p, (int, np.integer)) or np.ndim(v) != 0:
        return FAIL(f'mul_scalar(use_stab=True) = ({v!r}, {p!r}): exponent not an integer / value not a scalar')
    want, bnd = float((D1 * D2).sum()), float((B1 * B2).sum())
    got = math.ldexp(float(v), int(p) - 2 * d * ex)
    if not (np.isfinite(got) and abs(got - want) <= 256 * d * EPS * bnd):
        return FAIL(f'mul_scalar stab: v 2^p = {got!r} (v = {v!r}, p = {p}, ex = {ex}), want {want!r}')
    for Y, D, B in ((S1, D1, B1), (S2, D2, B2)):
        out = teneva.norm(Y, use_stab=True)
        if not isinstance(out, tuple) or len(out) != 2:
            return FAIL('norm(use_stab=True) does not return a pair')
        m, q = out
        s2, b2 = float((D * D).sum()), float((B * B).sum())
        if not (np.ndim(m) == 0 and np.isfinite(m) and m >= 0 and np.isfinite(q)):
            return FAIL(f'norm stab = ({m!r}, {q!r})')
        got2 = (float(m) * 2.0 ** (float(q) - d * ex)) ** 2
        if not abs(got2 - s2) <= 512 * d * EPS * b2:
            return FAIL(f'norm stab: (m 2^q)^2 = {got2!r} (m = {m!r}, q = {q}, ex = {ex}), want {s2!r}')
        if s2 > 0 and m == 0:
            return FAIL('norm stab: zero mantissa for a non-zero tensor')
    if gen.snapshot([S1, S2]) != snap:
        return FAIL('an input changed')
    return PASS


@clause('C01.accuracy.dense', funcs=('act_two.accuracy', 'data.accuracy_on_data'))
def accuracy_dense(n, r, seed, kind, order, near, scale=1.0, alias=None, form=None):
    """accuracy(Y1, Y2) = ||D1-D2|| / ||D2|| for TT and ndarray arguments; accuracy_on_data = relative
    residual on the data set, -1 without data, e_trunc path within the truncation accuracy."""
    Y1, D1, B1 = _tt_pair(n, r, seed, kind, order, scale, alias, form)
    if near == 'copy':              # alias: another LIST of the very same (repeated) core objects
        Y2 = [G.copy() for G in Y1] if not alias else list(Y1)
        D2, B2 = D1, B1
    elif near == 'scaled':          # Y2 = 2 * Y1 through the first core: accuracy exactly 1/2
        Y2 = [G.copy() for G in Y1] if not alias else list(Y1)
        if not alias:
            Y2[0] = Y2[0] * 2
        else:                       # alias: through the last core, so that the repeated object of core 0 stays repeated
            Y2[-1] = Y2[-1] * 2
        D2, B2 = D1 * 2, B1 * 2
    else:
        Y2, D2, B2 = _second(Y1, n, r, seed, kind, ORDERS[(ORDERS.index(order) + 2) % 3], scale, alias)
    S1, S2 = ((D1 - D2) ** 2).sum(), (D2 ** 2).sum()
    T1, T2 = float(((B1 + B2) ** 2).sum()), float((B2 ** 2).sum())
    if float(S2) <= 1e-6 * T2 or T2 == 0:
        return SKIP('||Y2|| is zero or ill-conditioned (documented sentinel region)')
    got = teneva.accuracy(Y1, Y2)
    want = math.sqrt(float(S1) / float(S2))
    # got^2 * S2 must agree with S1 up to the rounding of the two scalar products
    LIMc, EPSc = _CTX['lim'], _CTX['eps']
    c = 1024 if not (_exact(D1) and T1 < LIMc) else 64
    tol = c * EPSc * (T1 + T2 * float(S1) / float(S2)) + 64 * EPSc * float(S1)
    if not np.isfinite(got) or got < 0 or abs(float(got) ** 2 * float(S2) - float(S1)) > tol:
        return FAIL(f'accuracy {got} vs {want} (|got^2 S2 - S1| = {abs(float(got) ** 2 * float(S2) - float(S1)):.3e} > {tol:.3e})')
    if near == 'copy' and _exact(D1) and T1 < LIMc and got != 0:
        return FAIL(f'accuracy of an integer tensor with its copy is {got}, not 0')
    if near == 'scaled' and _exact(D1) and T1 < LIMc and abs(got - 0.5) > 8 * EPSc:
        return FAIL(f'accuracy(Y, 2Y) = {got}, not 0.5')
    # ndarray arguments
    A1, A2 = _flt(np.asarray(D1, dtype=object).astype(float) if _exact(D1) else D1), \
        _flt(np.asarray(D2, dtype=object).astype(float) if _exact(D2) else D2)
    gn = teneva.accuracy(A1, A2)
    if not abs(gn - want) <= 64 * EPS * (want + math.sqrt(T1 / float(S2))):
        return FAIL(f'accuracy(ndarray) {gn} vs {want}')
    # data set: all indices (or a seeded subset), data = other tensor
    I = gen.all_indices(n)
    g = gen.rng('data', n, seed)
    if len(I) > 6:
        I = I[g.permutation(len(I))[: max(3, len(I) // 2)]]
    y = A2[tuple(I.T)]
    ny = float(np.sqrt((y ** 2).sum()))
    if teneva.accuracy_on_data(Y1, None, y) != -1 or teneva.accuracy_on_data(Y1, I, None) != -1:
        return FAIL('accuracy_on_data without data does not return -1')
    if ny > 0:
        res = A1[tuple(I.T)] - y
        wd = float(np.sqrt((res ** 2).sum())) / ny
        bd = float(np.sqrt(((B1 + B2)[tuple(I.T)].astype(float) ** 2).sum())) / ny
        for name, II, yy in (('arrays', I, y), ('lists', I.tolist(), y.tolist())):
            gd = teneva.accuracy_on_data(Y1, II, yy)
            if not abs(gd - wd) <= 256 * EPSc * bd + 8 * EPSc * wd:
                return FAIL(f'accuracy_on_data({name}) {gd} vs {wd}')
        if kind != 'int' and EPSc == EPS:      # e_trunc path (rounding of exactly-zero tensors is C11's business; float32
                                               # cores are rounded in float32 - C02's business)
            e = 1e-9
            gd = teneva.accuracy_on_data(Y1, I, y, e_trunc=e)
            gp = teneva.accuracy_on_data(Y1, I, y, e)                      # the same call written positionally
            if not gp == gd:
                return FAIL(f'accuracy_on_data(Y, I, y, e) = {gp!r}, with e_trunc=e {gd!r}')
            slack = 2 * e * float(np.sqrt((A1 ** 2).sum())) / ny + 1e-12 * bd
            if not abs(gd - wd) <= slack:
                return FAIL(f'accuracy_on_data(e_trunc) {gd} vs {wd} slack {slack:.2e}')
    return PASS


# ----------------------------------------------------------------------------- algebra

def _dense_of(Z, n, what):
    if _CTX['form'] and isinstance(Z, list) and all(isinstance(G, np.ndarray) and G.dtype.kind in 'fiu' for G in Z):
        Z = _image(Z)               # other input forms: the dtype of the result cores is not part of the property
    msg = gen.wf(Z, n)
    if msg:
        return None, f'{what}: result not a well-formed TT of shape {n}: {msg}'
    return gen.dense(Z), None


@clause('C01.add_sub_mul.tensor_tensor', funcs=('act_two.add', 'act_two.sub', 'act_two.mul'))
def algebra_tt(n, r, seed, kind, order, scale=1.0, scale2=None, alias=None, form=None):
    """add / sub / mul of two tensors with unequal rank profiles (and unequal magnitudes) act element-wise; inputs
    untouched."""
    Y1, D1, B1 = _tt_pair(n, r, seed, kind, order, scale, alias, form)
    Y2, D2, B2 = _second(Y1, n, r, seed, kind, ORDERS[(ORDERS.index(order) + 1) % 3], scale if scale2 is None else scale2, alias)
    if _exact(D1) != _exact(D2):                        # one operand scaled, the other exact: compare in floats
        D1, B1, D2, B2 = _tofloat(D1), _tofloat(B1), _tofloat(D2), _tofloat(B2)
    snap = gen.snapshot([Y1, Y2])
    rmax = max(max(G.shape) for G in Y1) * max(max(G.shape) for G in Y2)
    c = 16.0 * len(n) * max(4, rmax)
    for name, fn, D, B in (('add', teneva.add, D1 + D2, B1 + B2), ('sub', teneva.sub, D1 - D2, B1 + B2),
                           ('mul', teneva.mul, D1 * D2, B1 * B2), ('add swapped', lambda a, b: teneva.add(b, a), D1 + D2, B1 + B2),
                           ('sub swapped', lambda a, b: teneva.sub(b, a), D2 - D1, B1 + B2),
                           ('mul swapped', lambda a, b: teneva.mul(b, a), D1 * D2, B1 * B2),
                           ('add self', lambda a, b: teneva.add(a, a), D1 + D1, B1 + B1),
                           ('sub self', lambda a, b: teneva.sub(a, a), D1 - D1, B1 + B1),
                           ('mul self', lambda a, b: teneva.mul(a, a), D1 * D1, B1 * B1)):
        Z = fn(Y1, Y2)
        A, msg = _dense_of(Z, n, name)
        msg = msg or _agree(A, D, B, c=c, what=name)
        if msg:
            return FAIL(msg)
        if gen.snapshot([Y1, Y2]) != snap:
            return FAIL(f'{name}: an input changed')
    return PASS


NUMS = [2, -3, 1, -1, 0, 0.5, -1.5, 2.0, 1.0, -1.0, 0.0, 3]


@clause('C01.add_sub_mul.number_operands', funcs=('act_two.add', 'act_two.sub', 'act_two.mul'))
def algebra_num(n, r, seed, kind, order, scale=1.0, alias=None, form=None):
    """tensor (+,-,*) number, number (+,-,*) tensor act element-wise with the number broadcast; number with
    number is plain Python arithmetic."""
    Y, D, B = _tt_pair(n, r, seed, kind, order, scale, alias, form)
    snap = gen.snapshot(Y)
    d = len(n)
    rmax = max(max(G.shape) for G in Y) + 1
    c = 16.0 * d * max(4, rmax)
    Df = np.asarray(D, dtype=object).astype(float) if _exact(D) else D
    Bf = np.asarray(B, dtype=object).astype(float) if _exact(B) else B
    for v in NUMS:
        isint = float(v).is_integer()
        unit = v in (-1, 0, 1)
        iv = int(v) if isint else v
        table = (
            ('add(Y,v)', teneva.add(Y, v), (D + iv) if unit else Df + v, (B + abs(iv)) if unit else Bf + abs(v)),
            ('add(v,Y)', teneva.add(v, Y), (D + iv) if unit else Df + v, (B + abs(iv)) if unit else Bf + abs(v)),
            ('sub(Y,v)', teneva.sub(Y, v), (D - iv) if unit else Df - v, (B + abs(iv)) if unit else Bf + abs(v)),
            ('sub(v,Y)', teneva.sub(v, Y), (iv - D) if unit else v - Df, (B + abs(iv)) if unit else Bf + abs(v)),
            ('mul(Y,v)', teneva.mul(Y, v), (D * iv) if isint else Df * v, (B * abs(iv)) if isint else Bf * abs(v)),
            ('mul(v,Y)', teneva.mul(v, Y), (D * iv) if isint else Df * v, (B * abs(iv)) if isint else Bf * abs(v)),
        )
        for name, Z, W, WB in table:
            A, msg = _dense_of(Z, n, f'{name} v={v!r}')
            msg = msg or _agree(A, W, WB, c=c, what=f'{name} v={v!r}')
            if msg:
                return FAIL(msg)
        if gen.snapshot(Y) != snap:
            return FAIL(f'input changed (v={v!r})')
    for a, b in itertools.product(NUMS[:8], NUMS[:8]):
        for name, fn, want in (('add', teneva.add, a + b), ('sub', teneva.sub, a - b), ('mul', teneva.mul, a * b)):
            got = fn(a, b)
            if isinstance(got, (list, np.ndarray)) or got != want:
                return FAIL(f'{name}({a!r},{b!r}) = {got!r}, want {want!r}')
    return PASS


NUMS_FORMS = [1e-20, -1e-20, 1e-16, -1e-16, 3e-16, 1e-12, 1e20, -1e20, 1e-150]


@clause('C01.add_sub_mul.number_forms', funcs=('act_two.add', 'act_two.sub', 'act_two.mul'))
def algebra_num_forms(n, r, seed, kind, order, scale=1.0, alias=None, form=None):
    """Number operands of tiny / huge modulus (on both sides of every magnitude switch of the constant tensor) and
    of type numpy.float64 act element-wise like the plain number."""
    Y, D, B = _tt_pair(n, r, seed, kind, order, scale, alias, form)
    snap = gen.snapshot(Y)
    d = len(n)
    rmax = max(max(G.shape) for G in Y) + 1
    c = 16.0 * d * max(4, rmax)
    Df, Bf = _tofloat(D), _tofloat(B)
    for v in NUMS_FORMS + [np.float64(2.5), np.float64(-1.0), np.float64(1e-18)]:
        a = abs(float(v))
        table = (('add(Y,v)', teneva.add(Y, v), Df + float(v), Bf + a), ('add(v,Y)', teneva.add(v, Y), Df + float(v), Bf + a),
                 ('sub(Y,v)', teneva.sub(Y, v), Df - float(v), Bf + a), ('sub(v,Y)', teneva.sub(v, Y), float(v) - Df, Bf + a),
                 ('mul(Y,v)', teneva.mul(Y, v), Df * float(v), Bf * a), ('mul(v,Y)', teneva.mul(v, Y), Df * float(v), Bf * a))
        for name, Z, W, WB in table:
            A, msg = _dense_of(Z, n, f'{name} v={v!r}')
            msg = msg or _agree(A, W, WB, c=c, what=f'{name} v={v!r}')
            if msg:
                return FAIL(msg)
        if gen.snapshot(Y) != snap:
            return FAIL(f'input changed (v={v!r})')
    return PASS


@clause('C01.outer.dense', funcs=('act_two.outer', 'act_many.outer_many'))
def outer_dense(n, r, seed, kind, order, n2, scale=1.0, alias=None, form=None):
    """outer(Y1, Y2)[i,j] = Y1[i] Y2[j]; outer_many of 1, 2, 3 tensors; inputs untouched."""
    Y1, D1, B1 = _tt_pair(n, r, seed, kind, order, scale, alias, form)
    Y2, D2, B2 = _tt_pair(n2, _other_ranks(n2, [1] * (len(n2) + 1), seed) if not alias else [1] * (len(n2) + 1), seed + 1, kind,
                          ORDERS[(ORDERS.index(order) + 1) % 3], scale, alias)
    Y3, D3, B3 = _tt_pair(n[::-1], r[::-1], seed + 2, kind, order, scale, alias)
    snap = gen.snapshot([Y1, Y2, Y3])
    mo = np.multiply.outer
    table = (('outer(Y1,Y2)', teneva.outer(Y1, Y2), mo(D1, D2), mo(B1, B2), n + n2),
             ('outer(Y2,Y1)', teneva.outer(Y2, Y1), mo(D2, D1), mo(B2, B1), n2 + n),
             ('outer_many([Y1])', teneva.outer_many([Y1]), D1, B1, n),
             ('outer_many([Y1,Y2])', teneva.outer_many([Y1, Y2]), mo(D1, D2), mo(B1, B2), n + n2),
             ('outer_many([Y1,Y2,Y3])', teneva.outer_many([Y1, Y2, Y3]), mo(mo(D1, D2), D3), mo(mo(B1, B2), B3), n + n2 + n[::-1]),
             ('outer_many([Y2,Y1,Y2])', teneva.outer_many([Y2, Y1, Y2]), mo(mo(D2, D1), D2), mo(mo(B2, B1), B2), n2 + n + n2))
    for name, Z, W, WB, shp in table:
        A, msg = _dense_of(Z, shp, name)
        msg = msg or _agree(A, W, WB, c=64.0 * len(shp), what=name)
        if msg:
            return FAIL(msg)
    if gen.snapshot([Y1, Y2, Y3]) != snap:
        return FAIL('an input changed')
    return PASS


# ----------------------------------------------------------------------------- interfaces and gradients

def _unnormalised(Yo, W, ltr, exact):
    """Interface vectors without normalisation from dense sub-trains: u[k][a] = weighted total of the
    sub-train right of bond k started in rank index a (rtl), resp. left of bond k ended in a (ltr).
    Returns (u, ub): lists of d+1 vectors (values, bounds)."""
    d = len(Yo)
    Ya = [np.abs(G) for G in Yo]
    Wa = [[abs(x) for x in w] for w in W]
    dn = gen.dense_exact if exact else gen.dense
    u, ub = [None] * (d + 1), [None] * (d + 1)
    one = np.array([1], dtype=object) if exact else np.ones(1)
    if not ltr:
        u[d], ub[d] = one, one
        for k in range(d):
            vals, bnds = [], []
            for a in range(Yo[k].shape[0]):
                vals.append(_wsum(dn([Yo[k][a:a + 1]] + list(Yo[k + 1:])), W[k:]))
                bnds.append(_wsum(dn([Ya[k][a:a + 1]] + list(Ya[k + 1:])), Wa[k:]))
            u[k], ub[k] = np.array(vals, dtype=object if exact else float), np.array(bnds, dtype=object if exact else float)
    else:
        u[0], ub[0] = one, one
        for k in range(1, d + 1):
            vals, bnds = [], []
            for a in range(Yo[k - 1].shape[2]):
                vals.append(_wsum(dn(list(Yo[:k - 1]) + [Yo[k - 1][:, :, a:a + 1]]), W[:k]))
                bnds.append(_wsum(dn(list(Ya[:k - 1]) + [Ya[k - 1][:, :, a:a + 1]]), Wa[:k]))
            u[k], ub[k] = np.array(vals, dtype=object if exact else float), np.array(bnds, dtype=object if exact else float)
    return u, ub


@clause('C01.interface.vectors', funcs=('act_one.interface',))
def interface_vectors(n, r, seed, kind, order, mode, norm, ltr, scale=1.0, alias=None, form=None, call='kw'):
    """interface(Y, P, i, norm, ltr): d+1 vectors, the k-th is the (weighted / indexed) total of the sub-train
    on one side of bond k; 'natural' divides by the product of the mode sizes passed, 'linalg' normalises to
    unit length, None leaves the totals.  SKIP when a 'linalg' vector is (numerically) zero."""
    Y, D, B = _tt_pair(n, r, seed, kind, order, scale, alias, form)
    d = len(n)
    exact = kind == 'int' and scale == 1.0
    g = gen.rng('iface', n, r, seed, mode)
    i = [int(g.integers(0, k)) for k in n]
    P = i_arg = None
    if mode == 'plain':
        W = [[1] * k for k in n]
    elif mode in ('P', 'Parr'):
        P = _weights(n, seed, kind)
        W = P
        if mode == 'Parr':
            P = [np.array(p, dtype=float) for p in P]
    elif mode in ('Pflat', 'PflatI', 'PflatA', 'P2d'):
        if len(set(n)) != 1:
            return SKIP('one weight vector for all modes needs equal mode sizes')
        if mode == 'P2d':                   # one 2-D array: row k = weights of mode k
            W = _weights(n, seed, kind)
            P = np.array(W, dtype=float)
        else:
            p = _weights(n[:1], seed, 'int' if mode == 'PflatI' else kind)[0]
            W = [p] * d
            # the same weights for all modes as a list of floats / of Python ints / as a 1-D float array
            P = [float(x) for x in p] if mode == 'Pflat' else ([int(x) for x in p] if mode == 'PflatI' else np.array(p, dtype=float))
    elif mode in ('i', 'iarr'):
        W = [[1 if j == i[k] else 0 for j in range(n[k])] for k in range(d)]
        i_arg = i if mode == 'i' else np.array(i)
    elif mode == 'iP':
        P = _weights(n, seed, kind)
        W = [[P[k][j] if j == i[k] else 0 for j in range(n[k])] for k in range(d)]
        i_arg = i
    else:
        raise ValueError(mode)
    snap = gen.snapshot([Y, P, i_arg])
    phi = teneva.interface(Y, P=P, i=i_arg, norm=norm, ltr=ltr) if call == 'kw' else \
        gen.call_form(teneva.interface, ('Y', 'P', 'i', 'norm', 'ltr'), [Y, P, i_arg, norm, ltr],
                      [gen.call_form.REQ, None, None, 'linalg', False], call)
    if gen.snapshot([Y, P, i_arg]) != snap:
        return FAIL('an argument changed')
    if not isinstance(phi, list) or len(phi) != d + 1:
        return FAIL(f'{len(phi)} interface vectors for d = {d}')
    u, ub = _unnormalised(_image(Y) if form else [np.asarray(G) for G in Y], W, ltr, exact)
    rk = [1] + [G.shape[2] for G in Y]
    inner = range(0, d) if not ltr else range(1, d + 1)
    for k in range(d + 1):
        v = np.asarray(phi[k], dtype=float)
        if v.shape != (rk[k],):
            return FAIL(f'phi[{k}] has shape {v.shape}, rank {rk[k]}')
        if k not in inner:
            if v[0] != 1:
                return FAIL(f'boundary vector phi[{k}] = {v}')
            continue
        if norm is None:
            msg = _agree(v, u[k], ub[k], c=64.0 * d, what=f'phi[{k}]')
        elif norm.startswith('n'):
            N = int(np.prod(n[k:] if not ltr else n[:k]))
            if exact and (N & (N - 1)) == 0 and _maxabs(ub[k]) < _CTX['lim']:
                msg = None if np.array_equal(v, u[k].astype(float) / N) else f'phi[{k}] natural: {v} != {u[k]}/{N}'
            else:
                msg = _agree(v, u[k].astype(float) / N, ub[k].astype(float) / N, c=64.0 * d, what=f'phi[{k}] natural')
        else:
            uf, bf = u[k].astype(float), ub[k].astype(float)
            nu, nb = np.linalg.norm(uf), np.linalg.norm(bf)
            if nu <= 1e-3 * nb or nu == 0:
                return SKIP(f'interface vector {k} is zero or ill-conditioned (|u| = {nu:.2e}, scale {nb:.2e})')
            cond = nb / nu
            msg = None if np.all(np.abs(v - uf / nu) <= 256.0 * d * _CTX['eps'] * cond * cond * (k + 1 + d)) else \
                f'phi[{k}] linalg: {v} vs {uf / nu}'
        if msg:
            return FAIL(f'mode={mode} norm={norm} ltr={ltr}: {msg}')
    return PASS


@clause('C01.get_and_grad.exact', funcs=('act_one.get_and_grad',))
def get_and_grad_exact(n, r, seed, kind, order, scale=1.0, alias=None, form=None):
    """value = val(Y, i); the gradient tensor has the core shapes, its slice at i_k is the derivative of val
    w.r.t. the core entries (= value of the train with core k replaced by a unit core), zero elsewhere."""
    Y, D, B = _tt_pair(n, r, seed, kind, order, scale, alias, form)
    d = len(n)
    exact = kind == 'int' and scale == 1.0
    Yo = _obj(Y) if exact else (_image(Y) if form else [np.asarray(G) for G in Y])
    Ya = [np.abs(G) for G in Yo]
    I = gen.all_indices(n)
    g = gen.rng('gag', n, r, seed)
    sel = sorted(set([0, len(I) - 1] + [int(x) for x in g.integers(0, len(I), size=4)]))
    snap = gen.snapshot(Y)
    for s in sel:
        i = I[s]
        for i_arg in (i.tolist(), i) + ((tuple(i.tolist()), i.astype(np.int32), [np.int64(x) for x in i]) if form else ()):
            val, grad = teneva.get_and_grad(Y, i_arg)
            if np.ndim(val) != 0:
                return FAIL('value is not a scalar')
            msg = _agree(val, D[tuple(i)], B[tuple(i)], c=64.0 * d, what=f'value at {i.tolist()}')
            if msg:
                return FAIL(msg)
            if not isinstance(grad, list) or len(grad) != d:
                return FAIL('gradient is not a list of d cores')
            for k in range(d):
                Gk = np.asarray(grad[k])
                if Gk.shape != Y[k].shape:
                    return FAIL(f'grad[{k}] shape {Gk.shape} != core shape {Y[k].shape}')
                mask = np.ones(n[k], dtype=bool)
                mask[i[k]] = False
                if np.any(Gk[:, mask, :] != 0):
                    return FAIL(f'grad[{k}] is non-zero off the index slice')
                want = np.empty((Y[k].shape[0], Y[k].shape[2]), dtype=object if exact else float)
                bnd = np.empty_like(want)
                for a in range(Y[k].shape[0]):
                    for b in range(Y[k].shape[2]):
                        E = np.zeros(Y[k].shape, dtype=object if exact else float)
                        E[...] = 0
                        E[a, i[k], b] = 1
                        want[a, b] = _val(Yo[:k] + [E] + Yo[k + 1:], i)
                        bnd[a, b] = _val(Ya[:k] + [E] + Ya[k + 1:], i)
                msg = _agree(Gk[:, i[k], :], want, bnd, c=64.0 * d, what=f'grad[{k}] at {i.tolist()}')
                if msg:
                    return FAIL(msg)
        if gen.snapshot(Y) != snap:
            return FAIL('input changed')
    return PASS


# ----------------------------------------------------------------------------- many modes (no dense reference)

def _ochain(Yo, i, lo=0, hi=None):
    """Exact product of the slices Yo[k][:, i[k], :], k = lo .. hi-1 (object arrays of Python ints)."""
    hi = len(Yo) if hi is None else hi
    v = None
    for k in range(lo, hi):
        Mx = Yo[k][:, i[k], :]
        v = Mx if v is None else v.dot(Mx)
    return v


def _fchain(Z, i):
    """Own float evaluation of one element of a TT-tensor (row vector times slices)."""
    v = np.asarray(Z[0])[0, i[0], :]
    for k in range(1, len(Z)):
        v = v @ np.asarray(Z[k])[:, i[k], :]
    return float(v[0])


def _oscalar(Ao, Bo):
    """Exact <A, B> of two integer TT-tensors through the chain of Kronecker transfer matrices."""
    v = np.array([[1]], dtype=object)
    for G, H in zip(Ao, Bo):
        T = np.tensordot(G, H, axes=([1], [1]))                     # (a, b, a2, b2)
        T = T.transpose(0, 2, 1, 3).reshape(G.shape[0] * H.shape[0], G.shape[2] * H.shape[2])
        v = v.dot(T)
    return v[0, 0]


@clause('C01.algebra.many_modes', funcs=('act_one.get', 'act_one.get_many', 'act_one.interface', 'act_one.get_and_grad',
                                         'act_two.add', 'act_two.sub', 'act_two.mul', 'act_two.outer', 'act_two.mul_scalar',
                                         'act_two.accuracy', 'props.shape', 'props.ranks', 'props.size', 'props.erank'))
def algebra_many_modes(d, nk, seed):
    """d = 28 .. 130 modes (the number of entries exceeds every integer type; no dense array exists): element access,
    add / sub / mul (tensor and number operands), outer, interface vectors (all norms, both directions, P and i),
    get_and_grad, mul_scalar, accuracy and shape / ranks / size / erank against exact integer arithmetic on the core
    chain.  Y1 has non-negative cores (relative error <= c d eps), Y2 signed ones (error <= c d eps * chain of |cores|)."""
    from fractions import Fraction
    g = gen.rng('C01.manyalg', d, nk, seed)
    r1 = [1] + [int(x) for x in g.integers(1, 4, size=d - 1)] + [1]
    r2 = [1] + [int(x) for x in g.integers(1, 3, size=d - 1)] + [1]
    Y1 = [g.integers(0, 3, size=(r1[k], nk, r1[k + 1])).astype(float) for k in range(d)]
    Y2 = [g.integers(-2, 3, size=(r2[k], nk, r2[k + 1])).astype(float) for k in range(d)]
    for G in Y1:
        G[0, :, 0] = 1.                                  # every element of Y1 is >= 1
    for G in Y2:
        G[0, 0, 0] = 1.
    n = [nk] * d
    snap = gen.snapshot([Y1, Y2])
    O1, O2 = _obj(Y1), _obj(Y2)
    A2 = [abs(G) for G in O2]
    I = np.array([[0] * d, [nk - 1] * d] + [[int(x) for x in g.integers(0, nk, size=d)] for _ in range(4)], dtype=int)
    v1 = [_ochain(O1, i)[0, 0] for i in I]
    v2 = [_ochain(O2, i)[0, 0] for i in I]
    b2 = [_ochain(A2, i)[0, 0] for i in I]
    tol = Fraction(64 * d * EPS)

    def close(got, want, bound, what):
        try:
            gf = float(got)
        except Exception:
            return f'{what}: not a number: {got!r}'
        if not np.isfinite(gf) or abs(Fraction(gf) - Fraction(want)) > tol * Fraction(bound):
            return f'{what}: got {gf!r}, exact value {float(Fraction(want))!r} (d={d}, mode size {nk})'
        return None

    # ---- structure
    sh, rk, sz = teneva.shape(Y1), teneva.ranks(Y1), teneva.size(Y1)
    tot = sum(r1[k] * nk * r1[k + 1] for k in range(d))
    if list(np.asarray(sh).tolist()) != n or list(np.asarray(rk).tolist()) != r1 or sz != tot or float(sz) != int(sz):
        return FAIL(f'shape / ranks / size wrong for d = {d}: size {sz!r} vs {tot}')
    er = teneva.erank(Y1)
    a, b = nk * (d - 2), 2 * nk
    if not (np.isfinite(er) and er >= 0 and abs(a * er * er + b * er - tot) <= 64 * EPS * (a * er * er + b * er + tot)):
        return FAIL(f'erank {er!r}: {a} r^2 + {b} r != {tot}')
    # ---- element access
    for name, got in (('get_many', teneva.get_many(Y1, I)), ('get(2-D)', teneva.get(Y1, I)),
                      ('get_many(lists)', teneva.get_many(Y1, I.tolist()))):
        if np.shape(got) != (len(I),):
            return FAIL(f'{name}: shape {np.shape(got)}')
        for j in range(len(I)):
            msg = close(got[j], v1[j], v1[j], f'{name}[{j}]')
            if msg:
                return FAIL(msg)
    for j in range(len(I)):
        msg = close(teneva.get(Y1, I[j].tolist()), v1[j], v1[j], 'get(list)') or close(teneva.get(Y2, I[j]), v2[j], b2[j], 'get(Y2, array)')
        if msg:
            return FAIL(msg)
    # ---- algebra (the result is evaluated by the own float chain)
    for name, Z, want, bnd in (
            ('add(Y1,Y2)', teneva.add(Y1, Y2), [x + y for x, y in zip(v1, v2)], [x + y for x, y in zip(v1, b2)]),
            ('sub(Y1,Y2)', teneva.sub(Y1, Y2), [x - y for x, y in zip(v1, v2)], [x + y for x, y in zip(v1, b2)]),
            ('sub(Y2,Y1)', teneva.sub(Y2, Y1), [y - x for x, y in zip(v1, v2)], [x + y for x, y in zip(v1, b2)]),
            ('mul(Y1,Y2)', teneva.mul(Y1, Y2), [x * y for x, y in zip(v1, v2)], [x * y for x, y in zip(v1, b2)]),
            ('mul(Y2,Y2)', teneva.mul(Y2, Y2), [y * y for y in v2], [y * y for y in b2]),
            ('add(Y1,1)', teneva.add(Y1, 1), [x + 1 for x in v1], [x + 1 for x in v1]),
            ('sub(3,Y1)', teneva.sub(3, Y1), [3 - x for x in v1], [x + 3 for x in v1]),
            ('add(2.5,Y2)', teneva.add(2.5, Y2), [Fraction(5, 2) + y for y in v2], [y + 3 for y in b2]),
            ('mul(Y1,-2)', teneva.mul(Y1, -2), [-2 * x for x in v1], [2 * x for x in v1]),
            ('mul(0.5,Y2)', teneva.mul(0.5, Y2), [Fraction(y, 2) for y in v2], b2)):
        msg = gen.wf(Z, n)
        if msg:
            return FAIL(f'{name}: result not a well-formed TT: {msg}')
        for j in range(len(I)):
            msg = close(_fchain(Z, I[j]), want[j], 4 * bnd[j], f'{name} at index #{j}')
            if msg:
                return FAIL(msg)
    Z = teneva.outer(Y1, Y2)
    msg = gen.wf(Z, n + n)
    if msg:
        return FAIL(f'outer: {msg}')
    for j in range(len(I)):
        jj = (j + 1) % len(I)
        msg = close(_fchain(Z, list(I[j]) + list(I[jj])), v1[j] * v2[jj], v1[j] * b2[jj], 'outer(Y1,Y2)')
        if msg:
            return FAIL(msg)
    # ---- scalar product, accuracy
    s11, s12, s22 = _oscalar(O1, O1), _oscalar(O1, O2), _oscalar(O2, O2)
    a12, a22 = _oscalar(O1, A2), _oscalar(A2, A2)
    msg = close(teneva.mul_scalar(Y1, Y2), s12, a12, 'mul_scalar(Y1,Y2)') or close(teneva.mul_scalar(Y2, Y1), s12, a12, 'mul_scalar(Y2,Y1)')
    if msg:
        return FAIL(msg)
    sdiff, bdiff = s11 - 2 * s12 + s22, s11 + 2 * a12 + a22
    for name, got, num, nb, den, dbnd in (('accuracy(Y1,Y2)', teneva.accuracy(Y1, Y2), sdiff, bdiff, s22, a22),
                                          ('accuracy(Y2,Y1)', teneva.accuracy(Y2, Y1), sdiff, bdiff, s11, s11)):
        if den <= 0:
            continue
        gf = float(got)
        if not (np.isfinite(gf) and gf >= 0):
            return FAIL(f'{name} = {got!r}')
        lhs = Fraction(gf) ** 2 * den
        if abs(lhs - num) > 16 * tol * (nb + Fraction(gf) ** 2 * dbnd):
            return FAIL(f'{name} = {gf!r}, exact value {math.sqrt(Fraction(num, den))!r}')
    Y3 = [G.copy() for G in Y1]
    Y3[d // 2] = Y3[d // 2] * 4.
    got = teneva.accuracy(Y1, Y3)                          # Y3 = 4 Y1: exactly 3/4
    if not abs(float(got) - 0.75) <= 64 * d * EPS:
        return FAIL(f'accuracy(Y, 4Y) = {got!r}, not 0.75')
    # ---- interface vectors
    P = [[int(x) for x in g.integers(0, 3, size=nk)] for _ in range(d)]
    for p_ in P:
        p_[0] = 1
    ii = [int(x) for x in I[3]]
    for mode in ('plain', 'P', 'i', 'iP'):
        if mode == 'plain':
            Mo = [G.sum(axis=1) for G in O1]
        elif mode == 'P':
            Mo = [sum(P[k][m] * O1[k][:, m, :] for m in range(nk)) for k in range(d)]
        elif mode == 'i':
            Mo = [O1[k][:, ii[k], :] for k in range(d)]
        else:
            Mo = [P[k][ii[k]] * O1[k][:, ii[k], :] for k in range(d)]
        kw = dict(P=[np.array(p_, dtype=float) for p_ in P] if mode in ('P', 'iP') else None, i=ii if mode in ('i', 'iP') else None)
        for ltr in (False, True):
            u = [None] * (d + 1)
            if not ltr:
                u[d] = np.array([1], dtype=object)
                for k in range(d - 1, -1, -1):
                    u[k] = Mo[k].dot(u[k + 1])
            else:
                u[0] = np.array([1], dtype=object)
                for k in range(d):
                    u[k + 1] = u[k].dot(Mo[k])
            for norm in (None, 'natural', 'linalg'):
                phi = teneva.interface(Y1, norm=norm, ltr=ltr, **kw)
                if not isinstance(phi, list) or len(phi) != d + 1:
                    return FAIL(f'interface: {len(phi)} vectors for d = {d}')
                for k in sorted({0, 1, d // 3, d // 2, d - 1, d}):
                    got = np.asarray(phi[k], dtype=float)
                    if got.shape != (len(u[k]),):
                        return FAIL(f'interface({mode}, {norm}, ltr={ltr}): phi[{k}] has shape {got.shape}')
                    inner = (k < d) if not ltr else (k > 0)
                    if not inner:
                        if got[0] != 1:
                            return FAIL(f'boundary vector phi[{k}] = {got}')
                        continue
                    if norm is None:
                        want = [Fraction(x) for x in u[k]]
                    elif norm == 'natural':
                        den = nk ** ((d - k) if not ltr else k)
                        want = [Fraction(x, den) for x in u[k]]
                    else:
                        if all(x == 0 for x in u[k]):
                            continue                        # zero vector: no direction (weights can be zero at i)
                        nu2 = sum(x * x for x in u[k])
                        want = [Fraction(x) / Fraction(math.isqrt(nu2 << 200), 1 << 100) for x in u[k]]
                    top = max(abs(x) for x in want)
                    for j_, w_ in enumerate(want):
                        msg = close(got[j_], w_, 4 * top, f'interface({mode}, norm={norm}, ltr={ltr}) phi[{k}][{j_}]')
                        if msg:
                            return FAIL(msg)
    # ---- get_and_grad
    val, grad = teneva.get_and_grad(Y1, ii)
    msg = close(val, v1[3], v1[3], 'get_and_grad value')
    if msg:
        return FAIL(msg)
    if not isinstance(grad, list) or len(grad) != d:
        return FAIL('gradient is not a list of d cores')
    for k in sorted({0, 1, d // 2, d - 2, d - 1}):
        Gk = np.asarray(grad[k])
        if Gk.shape != Y1[k].shape:
            return FAIL(f'grad[{k}] shape {Gk.shape}')
        mask = np.ones(nk, dtype=bool)
        mask[ii[k]] = False
        if np.any(Gk[:, mask, :] != 0):
            return FAIL(f'grad[{k}] is non-zero off the index slice')
        left = _ochain(O1, ii, 0, k) if k > 0 else np.array([[1]], dtype=object)
        right = _ochain(O1, ii, k + 1, d) if k < d - 1 else np.array([[1]], dtype=object)
        for a_ in range(Y1[k].shape[0]):
            for b_ in range(Y1[k].shape[2]):
                w_ = left[0, a_] * right[b_, 0]
                msg = close(Gk[a_, ii[k], b_], w_, w_, f'grad[{k}][{a_},{ii[k]},{b_}]')
                if msg:
                    return FAIL(msg)
    if gen.snapshot([Y1, Y2]) != snap:
        return FAIL('argument cores were modified')
    return PASS


# ----------------------------------------------------------------------------- structure

@clause('C01.props.shape_ranks_size_erank', funcs=('props.shape', 'props.ranks', 'props.size', 'props.erank'))
def props_struct(n, r, seed, kind, order, alias=None, form=None):
    """shape = mode sizes, ranks = (1, r_1, ..., r_{d-1}, 1), size = number of core entries, erank = the
    non-negative root of a r^2 + b r = sum_k n_k r_{k-1} r_k (d >= 3), r_1 for d = 2."""
    Y = gen.tt(n, r, seed, kind, order=order) if not alias else gen.tt_aliased(n, r, seed, kind, order=order, which=alias)
    if form:
        Y = _tt_pair(n, r, seed, kind, order, 1.0, alias, form)[0]
    d = len(n)
    sh, rk, sz = teneva.shape(Y), teneva.ranks(Y), teneva.size(Y)
    if not isinstance(sh, np.ndarray) or sh.dtype.kind not in 'iu' or sh.shape != (d,) or sh.tolist() != list(n):
        return FAIL(f'shape {sh!r} for {n}')
    if not isinstance(rk, np.ndarray) or rk.dtype.kind not in 'iu' or rk.shape != (d + 1,) or rk.tolist() != list(r):
        return FAIL(f'ranks {rk!r} for {r}')
    tot = sum(r[k] * n[k] * r[k + 1] for k in range(d))
    if sz != tot or float(sz) != int(sz):
        return FAIL(f'size {sz!r} != {tot}')
    er = teneva.erank(Y)
    if d == 2:
        return PASS if er == r[1] else FAIL(f'erank {er} != r_1 {r[1]} for d = 2')
    a, b = sum(n[1:d - 1]), n[0] + n[d - 1]
    if not (np.isfinite(er) and er >= 0):
        return FAIL(f'erank {er}')
    if abs(a * er * er + b * er - tot) > 64 * EPS * (a * er * er + b * er + tot):
        return FAIL(f'erank {er}: {a} r^2 + {b} r = {a * er * er + b * er} != {tot}')
    if len(set(r[1:-1])) == 1 and abs(er - r[1]) > 64 * EPS * r[1]:
        return FAIL(f'uniform rank {r[1]} but erank {er}')
    return PASS


@clause('C01.copy.independent', funcs=('act_one.copy',))
def copy_independent(n, r, seed, kind, order, alias=None, form=None):
    """copy(Y) denotes the same tensor core by core and shares nothing; numbers / None are returned as they
    are, arrays are copied."""
    Y = gen.tt(n, r, seed, kind, order=order) if not alias else gen.tt_aliased(n, r, seed, kind, order=order, which=alias)
    if form:
        Y = _tt_pair(n, r, seed, kind, order, 1.0, alias, form)[0]
    snap = gen.snapshot(Y)
    Z = teneva.copy(Y)
    if not isinstance(Z, list) or Z is Y or len(Z) != len(Y):
        return FAIL('copy is not a new list of d cores')
    for k, (G, H) in enumerate(zip(Y, Z)):
        if H is G or H.shape != G.shape or not np.array_equal(G, H):
            return FAIL(f'core {k} differs or is the same object')
    if gen.shares(Y, Z):
        return FAIL('copy shares memory with the input')
    for H in Z:
        H += 1
    if gen.snapshot(Y) != snap:
        return FAIL('writing into the copy changed the input')
    for v in (3, -2.5, 0, None):
        w = teneva.copy(v)
        if not (w is v or w == v):
            return FAIL(f'copy({v!r}) = {w!r}')
    A = np.asarray(Y[0])
    C = teneva.copy(A)
    if not isinstance(C, np.ndarray) or not np.array_equal(A, C) or np.shares_memory(A, C):
        return FAIL('copy(ndarray) is not an independent equal array')
    return PASS


# ----------------------------------------------------------------------------- expression trees

class _Node:
    __slots__ = ('val', 'D', 'B', 'rank', 'text')

    def __init__(self, val, D, B, rank, text):
        self.val, self.D, self.B, self.rank, self.text = val, D, B, rank, text

    @property
    def num(self):
        return not isinstance(self.val, (list, tuple))


def _tofloat(D):
    if isinstance(D, np.ndarray):
        return D.astype(float) if D.dtype == object else D
    return float(D)


def _leaf(g, n, kind, alias=False):
    d = len(n)
    if alias in ('any64', 'any32'):     # a leaf in another input form (first core float: every operation is defined)
        fs = ('mix_fi', 'ro', 'ro_view', 'tuple') + (('f32', 'mix_f32a', 'mix_f32b', 'tuple_f32_ro') if alias == 'any32' else ())
        r = [1] + [int(x) for x in g.integers(1, 4, size=d - 1)] + [1]
        f = fs[int(g.integers(0, len(fs)))]
        Y, D, B = _tt_pair(n, r, int(g.integers(1 << 30)), kind, ORDERS[int(g.integers(0, 3))], 1.0, None, f)
        return _Node(Y, D, B, max(r), f'F{r}{f}')
    r = [1] + [int(x) for x in g.integers(1, 3, size=d - 1)] + [1]
    if g.random() < 0.15:
        r = [1] + [3] * (d - 1) + [1]
    order = ORDERS[int(g.integers(0, 3))]
    if alias:               # a leaf whose core list repeats array objects (where the mode sizes allow a rank profile for it)
        profs = gen.alias_rank_profiles(n)
        if profs and g.random() < 0.8:
            r = profs[int(g.integers(0, len(profs)))]
            which = ('all', 'first', 'rest')[int(g.integers(0, 3))]
            Y = gen.tt_aliased(n, r, int(g.integers(1 << 30)), kind, order=order, which=which)
            D, B = _ref(Y, kind)
            return _Node(Y, D, B, max(r), f'A{r}{order}{which}')
    Y = gen.tt(n, r, int(g.integers(1 << 30)), kind, order=order)
    D, B = _ref(Y, kind)
    return _Node(Y, D, B, max(r), f'T{r}{order}')


def _number(g):
    v = NUMS[int(g.integers(0, len(NUMS)))]
    if float(v).is_integer():
        return _Node(v, int(v), abs(int(v)), 0, repr(v))
    return _Node(v, v, abs(v), 0, repr(v))


def _combine(op, a, b):
    """Reference (D, B) of op(a, b) on dense arrays, staying in exact integers when the operation is exact."""
    exa, exb = _exact(a.D), _exact(b.D)
    if a.num and b.num:
        D = {'add': a.val + b.val, 'sub': a.val - b.val, 'mul': a.val * b.val}[op]
        Dx = int(D) if float(D).is_integer() else D
        return Dx, abs(a.B) + abs(b.B) if op != 'mul' else abs(a.B) * abs(b.B)
    keep = exa and exb
    if keep and op in ('add', 'sub'):
        for x in (a, b):
            if x.num and x.val not in (-1, 0, 1):
                keep = False          # const(n, v) has cores |v|^(1/d): inexact
    Da, Db, Ba, Bb = (a.D, b.D, a.B, b.B) if keep else (_tofloat(a.D), _tofloat(b.D), _tofloat(a.B), _tofloat(b.B))
    if op == 'add':
        return Da + Db, Ba + Bb
    if op == 'sub':
        return Da - Db, Ba + Bb
    if op == 'mul':
        return Da * Db, Ba * Bb
    if op == 'outer':
        return np.multiply.outer(Da, Db), np.multiply.outer(Ba, Bb)
    raise ValueError(op)


def _tree(g, n, depth, kind, tensor, alias=False):
    """Random expression tree of mode sizes n evaluated simultaneously by teneva and on dense arrays."""
    if depth == 0 or g.random() < 0.12:
        if not tensor and g.random() < 0.5:
            return _number(g)
        return _leaf(g, n, kind, alias)
    ops = ['add', 'sub', 'mul', 'copy'] + (['outer', 'outer'] if len(n) >= 4 else [])
    op = ops[int(g.integers(0, len(ops)))]
    if op == 'copy':
        a = _tree(g, n, depth - 1, kind, tensor, alias)
        val = teneva.copy(a.val)
        return _Node(val, a.D, a.B, a.rank, f'copy({a.text})')
    if op == 'outer':
        j = int(g.integers(2, len(n) - 1))
        a, b = _tree(g, n[:j], depth - 1, kind, True, alias), _tree(g, n[j:], depth - 1, kind, True, alias)
        D, B = _combine('outer', a, b)
        return _Node(teneva.outer(a.val, b.val), D, B, max(a.rank, b.rank), f'outer({a.text},{b.text})')
    first_tensor = tensor and g.random() < 0.5
    a = _tree(g, n, depth - 1, kind, first_tensor, alias)
    b = _tree(g, n, depth - 1, kind, tensor and a.num, alias)
    if op == 'mul' and a.rank * b.rank > 36:
        op = 'add'
    fn = {'add': teneva.add, 'sub': teneva.sub, 'mul': teneva.mul}[op]
    D, B = _combine(op, a, b)
    rank = 0 if (a.num and b.num) else (a.rank * max(1, b.rank) if op == 'mul' and not (a.num or b.num)
                                        else (max(a.rank, b.rank) if op == 'mul' else max(a.rank, 1) + max(b.rank, 1)))
    return _Node(fn(a.val, b.val), D, B, rank, f'{op}({a.text},{b.text})')


@clause('C01.tree.random', funcs=('act_two.add', 'act_two.sub', 'act_two.mul', 'act_two.outer', 'act_one.copy'))
def tree_random(n, seed, depth, kind, tensor, alias=False, form=None):
    """A random expression tree over add / sub / mul / outer / copy / number operands denotes the same tensor
    as the tree evaluated on dense arrays (exact == while all partial sums are integers below 2^53).  alias: the leaves
    are tensors whose core lists repeat array objects, and numbers occur as operands next to them (tensor=False)."""
    g = gen.rng('tree', n, seed, depth, kind)
    t = _tree(g, list(n), depth, kind, tensor, form or alias)
    if t.num:
        want = t.D
        if isinstance(t.val, (list, np.ndarray)) or not (t.val == want or abs(t.val - want) <= 8 * EPS * abs(t.B)):
            return FAIL(f'{t.text} = {t.val!r}, want {want!r}')
        return PASS
    val = _image(t.val) if form and isinstance(t.val, (list, tuple)) else t.val      # (a single leaf may be a tuple)
    msg = gen.wf(val, n)
    if msg:
        return FAIL(f'{t.text}: result not well-formed: {msg}')
    rmax = max(max(G.shape) for G in val)
    A = gen.dense(val)
    msg = _agree(A, t.D, t.B, c=16.0 * (len(n) * rmax + depth + 4), what=t.text)
    return FAIL(msg) if msg else PASS



# ----------------------------------------------------------------------------- other input forms of the core list

_FORM_TARGETS = {}


@clause('C01.forms.std', funcs=('act_one.get', 'act_one.get_many', 'transformation.full', 'act_one.sum', 'act_one.mean',
                                'act_two.mul_scalar', 'act_one.norm', 'act_two.accuracy', 'data.accuracy_on_data', 'act_two.add',
                                'act_two.sub', 'act_two.mul', 'act_two.outer', 'act_many.outer_many', 'act_one.interface',
                                'act_one.get_and_grad', 'props.shape', 'props.ranks', 'props.size', 'props.erank', 'act_one.copy'))
def forms_std(target, form, params):
    """The reference checks of the clause `target` (get / full / sum_mean / dot_norm / accuracy / algebra_tt / algebra_num /
    number_forms / outer / interface / get_and_grad / props / copy / tree) with the (first) tensor argument given in another
    INPUT FORM (`_as_form`): cores of dtype float32 / int64 / int32 / mixed between the cores, read-only cores and
    read-only non-contiguous views, the core list as a tuple.  The reference is the float64 image of what is passed; the
    comparison regime is exact `==` for integer-valued cores below 2^53 (2^24 when float32 cores take part, because the
    unchanged library then evaluates in float32) and c * eps (eps32) * sum|products| otherwise."""
    f32 = form in ('f32', 'mix_f32a', 'mix_f32b', 'tuple_f32_ro', 'any32')
    _CTX.update(eps=EPS32 if f32 else EPS, lim=2 ** 24 if f32 else LIM, form=form)
    try:
        return _FORM_TARGETS[target](form=form, **params)
    finally:
        _CTX.update(eps=EPS, lim=LIM, form=None)


@clause('C01.forms.mixed_operands', funcs=('act_two.add', 'act_two.sub', 'act_two.mul', 'act_two.mul_scalar', 'act_two.outer',
                                           'act_two.accuracy', 'act_many.outer_many'))
def forms_mixed_operands(n, r, seed, form, order):
    """Binary operations of a tensor X in another input form (integer-valued cores: float32 / int64 / int32 / mixed /
    read-only / tuple) with a float64 tensor Y2 of Gaussian cores and with non-integer numbers, in float64 accuracy: the
    result of add / sub / mul / outer / mul_scalar / accuracy is the one of the float64 images of the operands (every such
    operation of the unchanged library promotes to float64; a result allocated in the dtype or the memory of ONE operand
    loses the other one).  Forms whose first core has an integer dtype leave out the calls of
    `C01.forms.int_first_core_inplace`."""
    X, D1, B1 = _tt_pair(n, r, seed, 'int', order, 1.0, None, form)
    Y2 = gen.tt(n, _other_ranks(n, r, seed), seed + 1, 'gauss', order=ORDERS[(ORDERS.index(order) + 1) % 3])
    D1, B1 = _tofloat(D1), _tofloat(B1)
    D2, B2 = gen.dense(Y2), gen.absdense(Y2)
    snap = gen.snapshot([X, Y2])
    d = len(n)
    intfirst = form in INT_FIRST
    rmax = max(max(G.shape) for G in X) * max(max(G.shape) for G in Y2)
    c = 16.0 * d * max(4, rmax)
    mo = np.multiply.outer
    _CTX.update(form=form)
    try:
        table = [('add(X,Y2)', lambda: teneva.add(X, Y2), D1 + D2, B1 + B2, n), ('add(Y2,X)', lambda: teneva.add(Y2, X), D1 + D2, B1 + B2, n),
                 ('add(Y1=X,Y2=Y2)', lambda: teneva.add(Y1=X, Y2=Y2), D1 + D2, B1 + B2, n),
                 ('sub(X,Y2)', lambda: teneva.sub(X, Y2), D1 - D2, B1 + B2, n), ('sub(Y2=Y2,Y1=X)', lambda: teneva.sub(Y2=Y2, Y1=X), D1 - D2, B1 + B2, n),
                 ('mul(X,Y2)', lambda: teneva.mul(X, Y2), D1 * D2, B1 * B2, n), ('mul(Y2,X)', lambda: teneva.mul(Y2, X), D1 * D2, B1 * B2, n),
                 ('outer(X,Y2)', lambda: teneva.outer(X, Y2), mo(D1, D2), mo(B1, B2), n + n),
                 ('outer(Y2,X)', lambda: teneva.outer(Y2, X), mo(D2, D1), mo(B2, B1), n + n),
                 ('outer_many((Y2,X)) [tuple]', lambda: teneva.outer_many((Y2, X)), mo(D2, D1), mo(B2, B1), n + n),
                 ('add(X,2.5)', lambda: teneva.add(X, 2.5), D1 + 2.5, B1 + 2.5, n), ('add(-0.3,X)', lambda: teneva.add(-0.3, X), D1 - 0.3, B1 + 0.3, n),
                 ('sub(X,1.7)', lambda: teneva.sub(X, 1.7), D1 - 1.7, B1 + 1.7, n), ('add(X,True)', lambda: teneva.add(X, True), D1 + 1, B1 + 1, n),
                 ('mul(X,3)', lambda: teneva.mul(X, 3), D1 * 3, B1 * 3, n), ('mul(-2,X)', lambda: teneva.mul(-2, X), D1 * -2, B1 * 2, n)]
        if not intfirst:
            table += [('sub(Y2,X)', lambda: teneva.sub(Y2, X), D2 - D1, B1 + B2, n), ('sub(0.7,X)', lambda: teneva.sub(0.7, X), 0.7 - D1, B1 + 0.7, n),
                      ('mul(X,0.3)', lambda: teneva.mul(X, 0.3), D1 * 0.3, B1 * 0.3, n), ('mul(-1.7,X)', lambda: teneva.mul(-1.7, X), D1 * -1.7, B1 * 1.7, n)]
        f32first = np.asarray(X[0]).dtype == np.float32
        for name, fn, W, WB, shp in table:
            if f32first and name in ('mul(X,0.3)', 'mul(-1.7,X)'):
                continue                    # the unchanged library multiplies the float32 core in place: float32 rounding
            A, msg = _dense_of(fn(), shp, name)
            msg = msg or _agree(A, W, WB, c=c, what=name)
            if msg:
                return FAIL(f'form {form}: {msg}')
            if gen.snapshot([X, Y2]) != snap:
                return FAIL(f'form {form}: {name}: an operand changed')
        want, bnd = float((D1 * D2).sum()), float((B1 * B2).sum())
        for name, got in (('mul_scalar(X,Y2)', teneva.mul_scalar(X, Y2)), ('mul_scalar(Y2,X)', teneva.mul_scalar(Y2, X)),
                          ('mul_scalar(Y1=X,Y2=Y2,use_stab=False)', teneva.mul_scalar(Y1=X, Y2=Y2, use_stab=False))):
            msg = _agree(got, want, bnd, c=256, what=name)
            if msg:
                return FAIL(f'form {form}: {msg}')
        v, p = teneva.mul_scalar(X, Y2, use_stab=True)
        if isinstance(p, bool) or not isinstance(p, (int, np.integer)) or not abs(math.ldexp(float(v), int(p)) - want) <= 256 * d * EPS * bnd:
            return FAIL(f'form {form}: mul_scalar(X, Y2, use_stab=True) = ({v!r}, {p!r}), want {want!r}')
        S1, S2 = float(((D1 - D2) ** 2).sum()), float((D2 ** 2).sum())
        T1, T2 = float(((B1 + B2) ** 2).sum()), float((B2 ** 2).sum())
        if S2 > 1e-6 * T2:
            got = teneva.accuracy(X, Y2)
            tol = 1024 * EPS * (T1 + T2 * S1 / S2) + 64 * EPS * S1
            if not (np.isfinite(got) and got >= 0 and abs(float(got) ** 2 * S2 - S1) <= tol):
                return FAIL(f'form {form}: accuracy(X, Y2) = {got!r}, want {math.sqrt(S1 / S2)!r}')
        if gen.snapshot([X, Y2]) != snap:
            return FAIL(f'form {form}: an operand changed')
    finally:
        _CTX.update(form=None)
    return PASS


# DOUBTFUL (disabled: replay_only, no case is generated).  A TT-tensor whose FIRST core has an integer dtype (a list of
# 3-D numpy arrays holding finite values, e.g. built with np.array([[[1], [2]]])) makes sub(Y, X), sub(number, X),
# mul(non-integer number, X), mul(X, 2.0) and accuracy(Y, X) / accuracy(X, X) raise numpy's UFuncTypeError on the unchanged
# library: act_two.sub / act_two.mul scale the COPY of the first core in place (`Y2[0] *= -1.`, `Y[0] *= Y1`), which numpy
# refuses for an integer array and a float factor.  The property quantifies over "any finite core values", the docstrings
# only say "Y (list): TT-tensor"; whether integer dtypes are inside is not decidable from the documentation.
@clause('C01.forms.int_first_core_inplace', funcs=('act_two.sub', 'act_two.mul', 'act_two.accuracy'), replay_only=True)
def forms_int_first_core(n, r, seed, form, order):
    """sub(Y2, X), sub(number, X), mul(float, X), accuracy(Y2, X), accuracy(X, X) for X with an integer-dtype first core
    act on the float64 image of X (observation outside the documented input forms; see the comment above)."""
    X, D1, B1 = _tt_pair(n, r, seed, 'int', order, 1.0, None, form)
    Y2 = gen.tt(n, _other_ranks(n, r, seed), seed + 1, 'gauss', order=order)
    D1, B1 = _tofloat(D1), _tofloat(B1)
    D2, B2 = gen.dense(Y2), gen.absdense(Y2)
    c = 16.0 * len(n) * max(4, max(max(G.shape) for G in X) * max(max(G.shape) for G in Y2))
    _CTX.update(form=form)
    try:
        for name, fn, W, WB in (('sub(Y2,X)', lambda: teneva.sub(Y2, X), D2 - D1, B1 + B2), ('sub(0.7,X)', lambda: teneva.sub(0.7, X), 0.7 - D1, B1 + 0.7),
                                ('sub(2,X)', lambda: teneva.sub(2, X), 2 - D1, B1 + 2), ('mul(X,0.5)', lambda: teneva.mul(X, 0.5), D1 * 0.5, B1 * 0.5),
                                ('mul(2.0,X)', lambda: teneva.mul(2.0, X), D1 * 2, B1 * 2)):
            try:
                Z = fn()
            except Exception as e:
                return FAIL(f'form {form}: {name} raises {type(e).__name__}: {e}')
            A, msg = _dense_of(Z, n, name)
            msg = msg or _agree(A, W, WB, c=c, what=name)
            if msg:
                return FAIL(f'form {form}: {msg}')
        try:
            a0, a1 = teneva.accuracy(X, list(X)), teneva.accuracy(Y2, X)
        except Exception as e:
            return FAIL(f'form {form}: accuracy raises {type(e).__name__}: {e}')
        S1, S2 = float(((D1 - D2) ** 2).sum()), float((D1 ** 2).sum())
        if S2 > 0 and not (a0 == 0 and abs(float(a1) ** 2 * S2 - S1) <= 1e-9 * (S1 + S2)):
            return FAIL(f'form {form}: accuracy(X, X) = {a0!r}, accuracy(Y2, X) = {a1!r} vs {math.sqrt(S1 / S2)!r}')
    finally:
        _CTX.update(form=None)
    return PASS


_FORM_TARGETS.update(get=get_all, full=full_dense, sum_mean=sum_mean, dot_norm=dot_norm, accuracy=accuracy_dense,
                     algebra_tt=algebra_tt, algebra_num=algebra_num, number_forms=algebra_num_forms, outer=outer_dense,
                     interface=interface_vectors, get_and_grad=get_and_grad_exact, props=props_struct, copy=copy_independent,
                     tree=tree_random)

# ----------------------------------------------------------------------------- case list

def _configs(big):
    out = []
    for n in gen.shapes(dmax=5 if big else 4, nmax=4):
        for r in gen.rank_profiles(n, rmax=4):
            out.append((n, r))
    return out


def _rand_config(g, big):
    d = int(g.integers(2, 6 if big else 5))
    n = [int(x) for x in g.integers(1, 5, size=d)]
    r = [1] + [int(x) for x in g.integers(1, 6 if big else 5, size=d - 1)] + [1]
    return n, r


def cases(tier, seed):
    big = tier == 'thorough'
    g = gen.rng('C01', seed)
    cfgs = _configs(big)
    std = ['C01.get.all_indices', 'C01.full.dense', 'C01.sum_mean.weights', 'C01.mul_scalar_norm.dense',
           'C01.add_sub_mul.tensor_tensor', 'C01.add_sub_mul.number_operands', 'C01.get_and_grad.exact',
           'C01.props.shape_ranks_size_erank', 'C01.copy.independent']
    # systematic part: every shape x rank profile x value kind; memory order cycles (thorough: all three)
    for j, (n, r) in enumerate(cfgs):
        for kind in ('int', 'gauss'):
            for order in (ORDERS if big else (ORDERS[j % 3],)):
                base = dict(n=n, r=r, seed=j, kind=kind, order=order)
                for cid in std:
                    yield cid, dict(base)
                for near in ('other', 'copy', 'scaled'):
                    yield 'C01.accuracy.dense', dict(base, near=near)
                yield 'C01.outer.dense', dict(base, n2=[[2, 3], [1, 2], [3, 1, 2]][j % 3])
    # interface: all settings on a sub-list of configurations
    sub = cfgs if big else cfgs[::3]
    for j, (n, r) in enumerate(sub):
        for kind in ('int', 'gauss'):
            for mode in ('plain', 'P', 'Parr', 'Pflat', 'PflatI', 'PflatA', 'P2d', 'i', 'iarr', 'iP'):
                for norm in (None, 'linalg', 'natural', 'l', 'n'):
                    if norm in ('l', 'n') and mode not in ('plain', 'iP'):
                        continue
                    if mode in ('PflatI', 'PflatA', 'P2d') and (len(set(n)) != 1 or norm == 'linalg'):
                        continue
                    for ltr in (False, True):
                        yield 'C01.interface.vectors', dict(n=n, r=r, seed=j, kind=kind, order=ORDERS[(j + ltr) % 3],
                                                            mode=mode, norm=norm, ltr=ltr)
    # seeded random part
    for _ in range(600 if big else 120):
        n, r = _rand_config(g, big)
        if int(np.prod(n)) > 400:
            continue
        kind = ('int', 'gauss')[int(g.integers(0, 2))]
        base = dict(n=n, r=r, seed=int(g.integers(1 << 30)), kind=kind, order=ORDERS[int(g.integers(0, 3))])
        for cid in std:
            yield cid, dict(base)
        yield 'C01.accuracy.dense', dict(base, near='other')
        yield 'C01.outer.dense', dict(base, n2=[int(x) for x in g.integers(1, 4, size=2)])
        yield 'C01.interface.vectors', dict(base, mode=('plain', 'P', 'i', 'iP')[int(g.integers(0, 4))],
                                            norm=(None, 'linalg', 'natural')[int(g.integers(0, 3))],
                                            ltr=bool(g.integers(0, 2)))
    # many modes: more entries than int64 can count
    for d_, nk_ in ((40, 3), (63, 2), (64, 2), (65, 2), (80, 2), (28, 5)) + (((100, 3), (130, 2)) if big else ()):
        for s in range(3 if big else 2):
            yield 'C01.reductions.many_modes', dict(d=d_, nk=nk_, seed=s)
        for s in range(3 if big else 1):
            yield 'C01.algebra.many_modes', dict(d=d_, nk=nk_, seed=s)
    # overall scale: every core times `scale` (totals 1e-80 .. 1e+100); mixed magnitudes for the binary operations
    scaled = std + ['C01.add_sub_mul.number_forms']
    for j, (n, r) in enumerate(cfgs if big else cfgs[1::4]):
        for si, scale in enumerate(SCALES if big else (SCALES[j % len(SCALES)],)):
            for kind in (('int', 'gauss') if big else (('gauss', 'int')[(j + si) % 2],)):
                base = dict(n=n, r=r, seed=1000 + j, kind=kind, order=ORDERS[(j + si) % 3], scale=scale)
                for cid in scaled:
                    if cid not in ('C01.props.shape_ranks_size_erank', 'C01.copy.independent'):
                        yield cid, dict(base)
                yield 'C01.add_sub_mul.tensor_tensor', dict(base, scale2=1.0 / scale)
                yield 'C01.add_sub_mul.tensor_tensor', dict(base, scale2=1.0)
                for near in ('other', 'copy', 'scaled'):
                    yield 'C01.accuracy.dense', dict(base, near=near)
                yield 'C01.outer.dense', dict(base, n2=[[2, 3], [1, 2], [3, 1, 2]][j % 3])
                yield 'C01.interface.vectors', dict(base, mode=('plain', 'P', 'i', 'iP')[j % 4],
                                                    norm=(None, 'linalg', 'natural')[(j + si) % 3], ltr=bool((j + si) % 2))
    # stabilised scalar product / norm (pair results), number operands of extreme modulus and numpy type
    for j, (n, r) in enumerate(cfgs if big else cfgs[2::5]):
        for kind in ('int', 'gauss'):
            base = dict(n=n, r=r, seed=2000 + j, kind=kind, order=ORDERS[j % 3])
            for ex in ((0, -60, 60, 200, -80, 240) if big else (0, -60, 200)):
                yield 'C01.mul_scalar_norm.stab_pair', dict(base, ex=ex)
            yield 'C01.add_sub_mul.number_forms', dict(base)
    # large mode sizes (index arithmetic beyond one byte / 2^9 / 2^10)
    large = [([513, 2], [1, 3, 1]), ([2, 700, 3], [1, 2, 3, 1]), ([1, 1030], [1, 1, 1]), ([600, 1, 3], [1, 2, 2, 1]),
             ([2, 256], [1, 2, 1]), ([257, 3], [1, 4, 1])]
    if big:
        large += [([1500, 2], [1, 2, 1]), ([3, 2048], [1, 3, 1]), ([2, 512, 2, 2], [1, 2, 3, 2, 1]), ([255, 2, 2], [1, 2, 2, 1])]
    for j, (n, r) in enumerate(large):
        for kind in (('int', 'gauss') if (big or j < 2) else ('gauss',)):
            base = dict(n=n, r=r, seed=3000 + j, kind=kind, order=ORDERS[j % 3])
            for cid in std:
                yield cid, dict(base)
            yield 'C01.accuracy.dense', dict(base, near='other')
            for mode, norm, ltr in (('plain', None, False), ('P', 'natural', True), ('i', 'linalg', False), ('iP', None, True)):
                yield 'C01.interface.vectors', dict(base, mode=mode, norm=norm, ltr=ltr)
    # tensors whose core LIST holds one array object at several positions ([g, g, g, g], [A, G, G, B], [A, B, A, B], ...;
    # 'cross': two operands that share core objects with each other): every clause that takes a tensor
    acfg = [([3, 3], [1, 1, 1]), ([2, 2, 2], [1, 1, 1, 1]), ([3, 3, 3, 3], [1, 1, 1, 1, 1]), ([2, 2, 2, 2], [1, 2, 2, 2, 1]),
            ([2, 2, 2, 2], [1, 2, 1, 2, 1]), ([2, 3, 2, 3], [1, 2, 1, 2, 1]), ([1, 1, 1], [1, 1, 1, 1]),
            ([3, 2, 2, 2, 3], [1, 3, 3, 3, 3, 1]), ([2, 2, 3], [1, 1, 1, 1]), ([3, 2, 2], [1, 1, 1, 1]),
            ([2, 2, 2, 2, 2], [1, 1, 2, 1, 1, 1]), ([4, 4], [1, 1, 1])]
    if big:
        acfg += [([2] * 6, [1] * 7), ([3, 3, 3], [1, 3, 1, 1]), ([2, 2, 2, 2, 2], [1, 4, 4, 4, 4, 1]), ([1, 2, 1, 2], [1, 1, 1, 1, 1]),
                 ([5, 5, 5], [1, 1, 1, 1]), ([2, 2, 2, 2, 2, 2], [1, 2, 1, 2, 1, 2, 1])]
    for j, (n, r) in enumerate(acfg):
        for wi, which in enumerate(('all', 'first', 'rest', 'cross')):
            if not big and wi and wi != 1 + j % 3:
                continue
            for kind in ('int', 'gauss'):
                base = dict(n=n, r=r, seed=4000 + j, kind=kind, order=ORDERS[(j + wi) % 3], alias=which)
                for cid in std + ['C01.add_sub_mul.number_forms']:
                    yield cid, dict(base)
                for near in ('other', 'copy', 'scaled'):
                    yield 'C01.accuracy.dense', dict(base, near=near)
                yield 'C01.outer.dense', dict(base, n2=[[2, 2], [3, 3], [1, 1, 1]][j % 3])
                for mode, norm, ltr in (('plain', None, False), ('P', 'natural', True), ('i', 'linalg', False), ('iP', None, True)):
                    yield 'C01.interface.vectors', dict(base, mode=mode, norm=norm, ltr=ltr)
                if big or wi == 0:
                    yield 'C01.add_sub_mul.tensor_tensor', dict(base, scale=SCALES[j % len(SCALES)], scale2=1.0)
                    yield 'C01.add_sub_mul.number_operands', dict(base, scale=SCALES[(j + 1) % len(SCALES)])
    for n in [[2, 2], [3, 3, 3], [2, 2, 2, 2], [2, 3, 2, 3], [1, 1, 1]] + ([[2] * 5, [3, 2, 2, 3]] if big else []):
        for kind in ('int', 'gauss'):
            for depth in ((1, 2, 3, 4) if big else (1, 2, 3)):
                for s in range(24 if big else 8):
                    yield 'C01.tree.random', dict(n=n, seed=5000 + s, depth=depth, kind=kind, tensor=True, alias=True)
            for s in range(6 if big else 3):
                yield 'C01.tree.random', dict(n=n, seed=5000 + s, depth=2, kind=kind, tensor=False, alias=True)
    # other input forms of the core list (dtypes float32 / int64 / int32 / mixed, read-only, views, tuple): the standard
    # reference checks through `C01.forms.std`, the float64-accuracy binary operations, positional call forms
    fcfg = [([3, 2], [1, 2, 1]), ([2, 3, 2], [1, 2, 3, 1]), ([3, 2, 3, 2], [1, 2, 3, 2, 1]), ([1, 3, 1], [1, 1, 1, 1]),
            ([2, 2, 2], [1, 4, 4, 1]), ([4, 1, 2], [1, 2, 2, 1])]
    if big:
        fcfg += [([2, 2, 2, 2, 2], [1, 2, 2, 2, 2, 1]), ([3, 3], [1, 1, 1]), ([2, 4, 3], [1, 3, 1, 1]), ([1, 1], [1, 1, 1])]
    always = ('get', 'full', 'sum_mean', 'dot_norm', 'outer', 'get_and_grad', 'props', 'copy')
    for j, (n, r) in enumerate(fcfg):
        for fi, form in enumerate(FORMS):
            if not big and (fi + j) % 2 and j >= 2:
                continue
            intform = form in ('i64', 'i32')
            for kind in (('int',) if (intform or not big and (fi + j) % 3) else ('int', 'gauss')):
                base = dict(n=n, r=r, seed=6000 + j, kind=kind, order=ORDERS[(j + fi) % 3])
                targets = list(always)
                if form not in INT_FIRST:
                    targets += ['algebra_tt', 'algebra_num']
                    if form not in ('f32', 'mix_f32a', 'tuple_f32_ro'):      # a float32 first core times 1e-150 underflows
                        targets.append('number_forms')
                for t in targets:
                    yield 'C01.forms.std', dict(target=t, form=form, params=dict(base, n2=[2, 3]) if t == 'outer' else dict(base))
                for near in (('other',) if form in INT_FIRST else ('other', 'copy', 'scaled')):
                    yield 'C01.forms.std', dict(target='accuracy', form=form, params=dict(base, near=near))
                for mode, norm, ltr in (('plain', None, False), ('P', 'natural', True), ('i', 'linalg', False), ('iP', None, True),
                                        ('iarr', 'natural', False), ('Parr', 'linalg', True)):
                    yield 'C01.forms.std', dict(target='interface', form=form, params=dict(base, mode=mode, norm=norm, ltr=ltr))
            yield 'C01.forms.mixed_operands', dict(n=n, r=r, seed=6100 + j, form=form, order=ORDERS[(j + fi) % 3])
    for j, (n, r) in enumerate(fcfg[:3] if not big else fcfg):          # positional / mixed call forms of interface
        for kind in ('int', 'gauss'):
            for ci, call in enumerate(('pos', 'mix:2', 'mix:3', 'min', 'kwmin')):
                for mode, norm, ltr in ((('plain', None, False), ('P', 'natural', True), ('i', 'linalg', False), ('iP', None, True),
                                         ('P', 'linalg', False), ('plain', 'linalg', True)) if big else
                                        (('iP', None, True), ('P', ('natural', 'linalg')[(ci + j) % 2], bool(ci % 2)), ('i', 'linalg', False),
                                         ('plain', 'linalg', True))):
                    yield 'C01.interface.vectors', dict(n=n, r=r, seed=6200 + j, kind=kind, order=ORDERS[j % 3], mode=mode, norm=norm,
                                                        ltr=ltr, call=call)
    for n in [[2, 3], [3, 2, 2], [2, 2, 2, 2], [1, 3, 1]] + ([[2, 3, 2, 2, 2]] if big else []):
        for kind in ('int', 'gauss'):
            for form in ('any64', 'any32'):
                for depth in ((1, 2, 3, 4) if big else (1, 2, 3)):
                    for s_ in range(20 if big else 5):
                        yield 'C01.forms.std', dict(target='tree', form=form, params=dict(n=n, seed=7000 + s_, depth=depth, kind=kind, tensor=True))
                for s_ in range(4 if big else 2):
                    yield 'C01.forms.std', dict(target='tree', form=form, params=dict(n=n, seed=7000 + s_, depth=2, kind=kind, tensor=False))
    # expression trees
    roots = [[2, 3], [3, 1], [2, 1, 3], [1, 1, 1], [2, 2, 2], [3, 2, 2, 2], [1, 2, 2, 1], [2, 3, 1, 2]]
    if big:
        roots += [[2, 2, 3, 2, 2], [4, 3], [1, 3, 1, 2, 2]]
    for n in roots:
        for kind in ('int', 'gauss'):
            for depth in ((1, 2, 3, 4) if big else (1, 2, 3)):
                for s in range(40 if big else 12):
                    yield 'C01.tree.random', dict(n=n, seed=s, depth=depth, kind=kind, tensor=True)
                for _ in range(40 if big else 10):
                    yield 'C01.tree.random', dict(n=n, seed=int(g.integers(1 << 30)), depth=depth, kind=kind, tensor=True)
            for s in range(4 if big else 2):
                yield 'C01.tree.random', dict(n=n, seed=s, depth=2, kind=kind, tensor=False)
