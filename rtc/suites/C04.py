"""C04 (bounded, T3): orthogonalize preserves the tensor and yields orthonormal cores around the pivot.

Oracles: own dense evaluation (`gen.dense`) before / after, Gram matrices of the core unfoldings by einsum,
byte snapshots and object identity for the in-place contract.  Inputs are built from unscaled cores G_k and
exact power-of-two exponents s_k (core k = 2^{s_k} G_k), so that the reference tensor is 2^{sum s} D0 with
D0 computed at moderate scale - this makes 2^{+-600} per core checkable without overflow in the oracle.

* `C04.orthogonalize.same_tensor`   new tensor (nothing shared, input untouched) denoting the same dense tensor:
                                    || 2^p dense(Z) - D || <= c eps prod_k ||G_k||_F  (p = 0 without stab).
* `C04.orthogonalize.orthonormal`   cores left of the pivot: left unfolding has orthonormal columns; right of it:
                                    right unfolding has orthonormal rows (Gram = I to c eps).
* `C04.orthogonalize.pivot_norm`    the pivot core carries the Frobenius norm (times 2^p).
* `C04.orthogonalize.ranks`         no rank increases; left of the pivot r_j <= r_{j-1} n_{j-1}, right of it
                                    r_j <= n_j r_{j+1} (what a core can carry).
* `C04.orthogonalize.stab_pair`     use_stab: pair (Z, p), p an integer, all |entries| <= 2, pivot max-modulus in [1,2).
* `C04.orthogonalize.raises`        pivot -1, d, beyond -> ValueError with the input untouched; None = last mode.
* `C04.step.contract`               orthogonalize_left / _right for one core: same tensor, that core orthonormal, new
                                    rank min(.,.) <= old; inplace=True returns the same list and replaces exactly the two
                                    adjacent elements; inplace=False leaves the input untouched and shares nothing.
* `C04.step.raises`                 out-of-range / None mode -> ValueError, input untouched.

Input families: Gaussian / integer cores, rank profiles 1 / 2 / 4 / ragged / over-ranked, mode sizes incl. 1,
defects (a core with duplicated bond slices = rank deficient, an exactly zero core, a zero slice), memory orders
C / F / V, exponent patterns 0, +-100 per core (plain and stab); stab only: +300 / -150 per core and alternating
+300/-150 (totals up to 2^{+1800} / 2^{-900}, far outside the double range).  The main clauses keep every core and
the product of two ADJACENT cores inside (1e-100, 2^1000): the algorithm forms that product before it rescales,
and core_stab leaves values below its threshold 1e-100 unscaled.  What happens outside that band is isolated in
`C04.orthogonalize.stab_extreme_cores` (per-core 2^-170 / 2^-450 / 2^-600 / 2^+520 / 2^+600 / alternating 2^+-600), which states the property as
written ("huge and tiny scales": input = 2^p Z, moderate entries).
`C04.orthogonalize.stab_tiny_after_scaled` (added after seeded change C04-13): tensor preservation alone for MIXED profiles
(2^10 / 1 / 2^-500 and permutations, every pivot): a core below core_stab's threshold that follows a rescaled one must carry
the accumulated power on.

Parameter / regime coverage added by the audit of the signatures:
* `C04.orthogonalize.many_modes`  d = 30 .. 90 (thorough 130), pivots 0 / 1 / middle / d-2 / d-1 / None, both stab
  settings; reference distance and norm from the cores alone (own block difference + QR sweep); inputs in canonical
  form (rigorous c d eps ||Y|| bound) and plain Gaussian; per-core factors 2^e random in [-40, 40] or all 2^+-40
  (|p| up to 5200 with use_stab).
* single steps (`C04.step.contract`, param `exps`) at per-core factors 2^+-100, 2^+-300 alternating, 2^-250/2^250/1 -
  the step variants were exercised at unit scale only; both in-place settings.
* mode sizes 300 .. 1025 (thorough 2048) in all orthogonalize / step clauses.
* pivots given as numpy.int64 / numpy.int32 (accepted with the same result; out-of-range ones rejected).

Input forms (form audit):
* `C04.forms.orthogonalize`  same_tensor / orthonormal / pivot_norm / ranks / stab_pair with the core list as cores of dtype
  float32 / int64 / int32 / mixed between the cores (int64 next to non-integer float64 cores, float32 next to float64),
  read-only cores, read-only non-contiguous views, a tuple (`gen.tt_form1`); pivot as numpy.int64 / int32 / 0-d int array;
  call written positionally (Y, k, use_stab), by keyword in another order, numpy.bool_ flag.  Reference = float64 image of
  what is passed; float32 cores in float32 accuracy (the unchanged library factorises them in float32).
* `C04.step.contract` `form=` / `iform=`: the single steps on the same forms (in place too - the two adjacent list elements
  are replaced, read-only / integer cores are never written to; a tuple only with inplace=False), step index as numpy
  integers, inplace passed positionally.
"""
import math
import numpy as np
import teneva
from rtc.api import clause, PASS, FAIL, TRIVIAL, SKIP
from rtc import gen


BUDGET = (50, 500)
BOUNDS = ('d in {2,3,4} (thorough up to 6), modes 1..4, ranks 1..4 (thorough 6) incl. over-ranked, 4 defect kinds, '
          'orders C/F/V, EVERY pivot, stab on/off, exponent patterns 0 / +-100 / +300 / -150 / alternating per core (stab); extreme per-core scales in a separate clause, every step '
          'index of the single-step variants x inplace on/off (also at per-core 2^+-100 / 2^+-300); d = 30..90 (thorough 130) with '
          'own QR oracles and |p| up to 5200; mode sizes up to 1025 (thorough 2048); numpy integer pivots; input forms: 11 core-list '
          'forms (float32 / int64 / int32 / mixed / read-only / views / tuple) x 5 (thorough 8) configurations x every pivot x stab, '
          'single steps x inplace on the same forms, pivot / index as numpy.int64 / int32 / 0-d array, positional / keyword calls')

EPS = np.finfo(float).eps
DEFECTS = ('none', 'dup', 'zerocore', 'zeroslice')


def make(n, r, seed, kind, order, defect, exps):
    """(Y, Y0, S): input cores, unscaled cores, total exponent."""
    d = len(n)
    Y0 = gen.tt(n, r, seed, kind, order=order)
    g = gen.rng('C04', n, r, seed, defect)
    j = int(g.integers(0, d))
    if defect == 'dup':            # duplicate bond slices: rank-deficient unfoldings
        G = Y0[j].copy()
        if j < d - 1:
            G[:, :, :] = G[:, :, :1]
        else:
            G[:, :, :] = G[:1, :, :]
        Y0[j] = G
    elif defect == 'zerocore':
        Y0[j] = Y0[j] * 0.0
    elif defect == 'zeroslice':
        G = Y0[j].copy()
        G[:, :, 0] = 0.0
        G[0, :, :] = 0.0
        Y0[j] = G
    ex = [int(exps[k % len(exps)]) for k in range(d)] if exps else [0] * d
    Y = [np.ldexp(G, e) if e else G for G, e in zip(Y0, ex)]
    if order == 'F':
        Y = [np.asfortranarray(G) for G in Y]
    return Y, Y0, sum(ex)


class Case:
    pass


EPS32 = float(np.finfo(np.float32).eps)
# input forms of the call made by run() - set (and restored) by `C04.forms.orthogonalize` only: form of the core list
# (`gen.tt_form1`), of the pivot (`gen.num_form1`), the call form ('pos' / 'kw' / 'npbool'), and the rounding unit of the
# checks (eps32 for float32 cores, which the unchanged library factorises in float32)
_FORM = {'form': None, 'kform': None, 'call': None, 'eps': EPS}
F32_FORMS = ('f32', 'mix_f32a', 'mix_f32b', 'tuple_f32_ro')


def _formed(Y, form):
    """(Y in the input form, its float64 image) - per-core exponents are not combined with forms."""
    Y0 = gen.tt_form1_values(gen.tt_image1(Y), form)
    return gen.tt_form1(Y0, form), Y0


def run(n, r, seed, kind, order, defect, exps, k, stab):
    c = Case()
    c.Y, c.Y0, c.S = make(n, r, seed, kind, order, defect, exps)
    if _FORM['form']:
        if c.S or exps:
            raise ValueError('input forms are used at unit scale')
        c.Y, c.Y0 = _formed(c.Y, _FORM['form'])
    c.d = len(n)
    c.D0 = gen.dense(c.Y0)
    c.scale = float(np.prod([np.linalg.norm(G) for G in c.Y0]))
    c.rin = [1] + [G.shape[2] for G in c.Y]
    c.tol = 64.0 * c.d * max(c.rin) * _FORM['eps'] * c.scale
    snap = gen.snapshot(c.Y)
    kk = gen.num_form1(k, _FORM['kform']) if k is not None else None
    if _FORM['call'] == 'pos':
        out = teneva.orthogonalize(c.Y, kk, stab)
    elif _FORM['call'] == 'kw':
        out = teneva.orthogonalize(use_stab=stab, k=kk, Y=c.Y)
    elif _FORM['call'] == 'npbool':
        out = teneva.orthogonalize(c.Y, kk, np.bool_(stab))
    else:
        out = teneva.orthogonalize(c.Y, kk, use_stab=stab)
    if gen.snapshot(c.Y) != snap:
        return None, FAIL('input changed')
    if stab:
        if not isinstance(out, tuple) or len(out) != 2:
            return None, FAIL('use_stab=True does not return a pair')
        c.Z, c.p = out
    else:
        c.Z, c.p = out, 0
    if _FORM['form'] and isinstance(c.Z, list) and all(isinstance(G, np.ndarray) and G.dtype.kind in 'fiu' for G in c.Z):
        Zi = gen.tt_image1(c.Z)                # the dtype of the result cores is not part of the property
        if gen.shares(c.Z, c.Y):
            return None, FAIL('result shares memory with the input')
        c.Z = Zi
    msg = gen.wf(c.Z, n)
    if msg:
        return None, FAIL('result not well-formed: ' + msg)
    if not gen.finite(c.Z):
        return None, FAIL('non-finite cores')
    c.k = c.d - 1 if k is None else k
    c.rk = [1] + [G.shape[2] for G in c.Z]
    return c, None


def _norm2exp(G):
    """(m, e) with ||G||_F = m 2^e, computed without overflow / underflow of the squares."""
    mx = float(np.abs(G).max())
    if mx == 0:
        return 0.0, 0
    e = math.frexp(mx)[1]
    return float(np.linalg.norm(np.ldexp(G, -e))), e


def _gram_left(G):
    return np.einsum('amb,amc->bc', G, G)


def _gram_right(G):
    return np.einsum('amb,cmb->ac', G, G)


P9 = ('n', 'r', 'seed', 'kind', 'order', 'defect', 'exps', 'k', 'stab')
OF = ('transformation.orthogonalize', 'transformation.orthogonalize_left', 'transformation.orthogonalize_right')


@clause('C04.orthogonalize.same_tensor', funcs=OF)
def same_tensor(n, r, seed, kind, order, defect, exps, k, stab):
    """A new tensor (input untouched, no shared memory) that denotes the same dense tensor (times 2^-p with stab)."""
    c, res = run(n, r, seed, kind, order, defect, exps, k, stab)
    if c is None:
        return res
    if c.Z is c.Y or gen.shares(c.Z, c.Y):
        return FAIL('result shares memory with the input')
    try:
        p = int(c.p)
    except Exception:
        return FAIL(f'exponent {c.p!r}')
    A = np.ldexp(gen.dense(c.Z), p - c.S)
    err = float(np.linalg.norm(A - c.D0))
    if not err <= c.tol:
        return FAIL(f'||2^p dense(Z) - D|| = {err:.3e} > {c.tol:.3e} (scale {c.scale:.3e}, p = {c.p}, S = {c.S})')
    return PASS


@clause('C04.orthogonalize.orthonormal', funcs=OF)
def orthonormal(n, r, seed, kind, order, defect, exps, k, stab):
    """Cores left of the pivot have orthonormal columns in the left unfolding, cores right of it orthonormal rows
    in the right unfolding."""
    c, res = run(n, r, seed, kind, order, defect, exps, k, stab)
    if c is None:
        return res
    for j in range(c.d):
        if j == c.k:
            continue
        G = c.Z[j]
        M = _gram_left(G) if j < c.k else _gram_right(G)
        dev = float(np.abs(M - np.eye(M.shape[0])).max())
        if not dev <= 64 * _FORM['eps'] * max(G.shape[0] * G.shape[1], G.shape[1] * G.shape[2]):
            return FAIL(f'core {j} ({"left" if j < c.k else "right"} of pivot {c.k}): Gram deviates from I by {dev:.3e}')
    return PASS if c.d > 1 else TRIVIAL('')


@clause('C04.orthogonalize.pivot_norm', funcs=OF)
def pivot_norm(n, r, seed, kind, order, defect, exps, k, stab):
    """The pivot core alone carries the Frobenius norm: 2^p ||Z[k]||_F = ||Y||_F."""
    c, res = run(n, r, seed, kind, order, defect, exps, k, stab)
    if c is None:
        return res
    m, e = _norm2exp(c.Z[c.k])
    got = math.ldexp(m, e + int(c.p) - c.S)
    want = float(np.linalg.norm(c.D0))
    if not abs(got - want) <= c.tol:
        return FAIL(f'2^p ||Z[{c.k}]|| = {got:.15e}, ||Y|| = {want:.15e} (tol {c.tol:.2e})')
    return PASS


@clause('C04.orthogonalize.ranks', funcs=OF)
def ranks(n, r, seed, kind, order, defect, exps, k, stab):
    """No rank increases; bonds left of the pivot satisfy r_j <= r_{j-1} n_{j-1}, bonds right of it r_j <= n_j r_{j+1}."""
    c, res = run(n, r, seed, kind, order, defect, exps, k, stab)
    if c is None:
        return res
    for j in range(1, c.d):
        if c.rk[j] > c.rin[j]:
            return FAIL(f'bond {j}: rank {c.rk[j]} > input rank {c.rin[j]}')
        if j <= c.k and c.rk[j] > c.rk[j - 1] * n[j - 1]:
            return FAIL(f'bond {j} (left of pivot {c.k}): rank {c.rk[j]} > r_(j-1) n_(j-1) = {c.rk[j - 1] * n[j - 1]}')
        if j > c.k and c.rk[j] > n[j] * c.rk[j + 1]:
            return FAIL(f'bond {j} (right of pivot {c.k}): rank {c.rk[j]} > n_j r_(j+1) = {n[j] * c.rk[j + 1]}')
    return PASS if c.rk != c.rin else TRIVIAL('ranks unchanged')


@clause('C04.orthogonalize.stab_pair', funcs=('transformation.orthogonalize', 'core.core_stab'))
def stab_pair(n, r, seed, kind, order, defect, exps, k):
    """use_stab=True: pair (Z, p) with integer p, every |entry| <= 2 and the pivot core's max-modulus in [1, 2)
    (unless the tensor is zero); use_stab=False returns the plain list."""
    c, res = run(n, r, seed, kind, order, defect, exps, k, True)
    if c is None:
        return res
    if isinstance(c.p, bool) or not isinstance(c.p, (int, np.integer)):
        return FAIL(f'exponent {c.p!r} is not an integer')
    mx = [float(np.abs(G).max()) for G in c.Z]
    if not all(x <= 2.0 for x in mx):
        return FAIL(f'entries up to {max(mx):.3e}')
    if float(np.linalg.norm(c.D0)) <= 1e-12 * c.scale or c.scale == 0:
        return TRIVIAL('zero (or numerically zero) tensor: no mantissa normalisation expected')
    if not (1.0 <= mx[c.k] < 2.0):
        return FAIL(f'pivot core max-modulus {mx[c.k]!r} not in [1, 2)')
    if abs(sum(exps or [0])) <= 400 and abs(c.S) <= 900:
        plain = teneva.orthogonalize(c.Y, k, use_stab=False)
        if isinstance(plain, tuple) or gen.wf(plain, n):
            return FAIL('use_stab=False does not return a plain TT list')
    return PASS



@clause('C04.forms.orthogonalize', funcs=OF + ('core.core_stab',))
def forms_orthogonalize(check, form, kform, call, params):
    """The clauses same_tensor / orthonormal / pivot_norm / ranks / stab_pair (`check`) with the arguments in other INPUT
    FORMS: core list with cores of dtype float32 / int64 / int32 / mixed between the cores, read-only cores and views, a
    tuple (`gen.tt_form1`); the pivot as numpy.int64 / int32 / 0-d int array; the call written positionally
    (Y, k, use_stab), by keyword in another order, with numpy.bool_ as flag.  Reference: the float64 image of what is
    passed; float32 cores in float32 accuracy (the unchanged library factorises them in float32)."""
    fn = {'same_tensor': same_tensor, 'orthonormal': orthonormal, 'pivot_norm': pivot_norm, 'ranks': ranks, 'stab_pair': stab_pair}[check]
    _FORM.update(form=form, kform=kform, call=call, eps=EPS32 if form in F32_FORMS else EPS)
    try:
        return fn(**params)
    finally:
        _FORM.update(form=None, kform=None, call=None, eps=EPS)


@clause('C04.orthogonalize.stab_extreme_cores', funcs=('transformation.orthogonalize', 'core.core_stab'))
def stab_extreme(n, r, seed, exps, k):
    """Property as written for huge / tiny scales with use_stab=True: finite cores, input = 2^p Z, pivot core of
    moderate size - for per-core scales whose pairwise products leave (1e-100, 2^1023)."""
    c, res = run(n, r, seed, 'gauss', 'C', 'none', exps, k, True)
    if c is None:
        return res
    A = np.ldexp(gen.dense(c.Z), int(c.p) - c.S)
    err = float(np.linalg.norm(A - c.D0))
    if not err <= c.tol:
        return FAIL(f'||2^p dense(Z) - D|| = {err:.3e} > {c.tol:.3e} (p = {c.p}, total exponent {c.S})')
    mx = float(np.abs(c.Z[c.k]).max())
    if not (1.0 <= mx < 2.0):
        return FAIL(f'pivot core max-modulus {mx:.3e} not in [1, 2) (p = {c.p}, total exponent {c.S})')
    return PASS


@clause('C04.orthogonalize.stab_tiny_after_scaled', funcs=('transformation.orthogonalize', 'core.core_stab'))
def stab_tiny_after_scaled(n, r, seed, exps, k):
    """Tensor preservation only (input = 2^p Z) for MIXED per-core scales: a core that is rescaled (non-zero accumulated power)
    followed in the sweep by a weight-receiving core below core_stab's threshold 1e-100, which is passed through unscaled and
    has to carry the accumulated power on (seeded change C04-13; nothing is claimed about the size of the entries here)."""
    c, res = run(n, r, seed, 'gauss', 'C', 'none', exps, k, True)
    if c is None:
        return res
    A = np.ldexp(gen.dense(c.Z), int(c.p) - c.S)
    err = float(np.linalg.norm(A - c.D0))
    if not err <= c.tol:
        return FAIL(f'||2^p dense(Z) - D|| = {err:.3e} > {c.tol:.3e} (p = {c.p}, total exponent {c.S})')
    return PASS


@clause('C04.orthogonalize.raises', funcs=('transformation.orthogonalize',))
def orth_raises(n, r, seed, stab):
    """Pivot -1, d, d+3, -d is rejected with ValueError (input untouched); None means the last mode."""
    Y = gen.tt(n, r, seed, 'gauss')
    d = len(n)
    snap = gen.snapshot(Y)
    for k in (-1, d, d + 3, -d):
        try:
            teneva.orthogonalize(Y, k, use_stab=stab)
            return FAIL(f'pivot {k} accepted for d = {d}')
        except ValueError:
            pass
        if gen.snapshot(Y) != snap:
            return FAIL(f'input changed by the rejected call k = {k}')
    a, b = teneva.orthogonalize(Y, None, use_stab=stab), teneva.orthogonalize(Y, d - 1, use_stab=stab)
    if stab:
        if a[1] != b[1]:
            return FAIL('k=None and k=d-1 give different exponents')
        a, b = a[0], b[0]
    if len(a) != len(b) or any(not np.array_equal(u, v) for u, v in zip(a, b)):
        return FAIL('k=None differs from k=d-1')
    c = teneva.orthogonalize(Y, use_stab=stab)
    c = c[0] if stab else c
    if any(not np.array_equal(u, v) for u, v in zip(a, c)):
        return FAIL('default pivot differs from k=d-1')
    for k in range(d):     # every in-range pivot is accepted, as Python int and as numpy integer, with the same result
        u = teneva.orthogonalize(Y, k, use_stab=stab)
        for kk in (np.int64(k), np.int32(k)):
            v = teneva.orthogonalize(Y, kk, use_stab=stab)
            uu, vv = (u[0], v[0]) if stab else (u, v)
            if (stab and u[1] != v[1]) or len(uu) != len(vv) or any(not np.array_equal(a_, b_) for a_, b_ in zip(uu, vv)):
                return FAIL(f'pivot {k} given as {type(kk).__name__} gives another result than the Python int')
    for k in (np.int64(-1), np.int64(d)):
        try:
            teneva.orthogonalize(Y, k, use_stab=stab)
            return FAIL(f'numpy pivot {k} accepted for d = {d}')
        except ValueError:
            pass
    return PASS


# ----------------------------------------------------------------------------- many modes (no dense array)

def _own_left(Y):
    """Own left-to-right QR sweep (NumPy only): the same tensor with cores 0..d-2 orthonormal."""
    Z = [np.array(G, dtype=float) for G in Y]
    for k in range(len(Z) - 1):
        r1, m, r2 = Z[k].shape
        Q, R = np.linalg.qr(Z[k].reshape(r1 * m, r2))
        Z[k] = Q.reshape(r1, m, Q.shape[1])
        Z[k + 1] = np.einsum('ab,bmc->amc', R, Z[k + 1])
    return Z


def _own_distance(Y, Z):
    """||Y - Z||_F through the block TT of the difference and an own QR sweep."""
    d = len(Y)
    W = []
    for k, (G, H) in enumerate(zip(Y, Z)):
        if k == 0:
            W.append(np.concatenate([G, -H], axis=2))
        elif k == d - 1:
            W.append(np.concatenate([G, H], axis=0))
        else:
            T = np.zeros((G.shape[0] + H.shape[0], G.shape[1], G.shape[2] + H.shape[2]))
            T[:G.shape[0], :, :G.shape[2]] = G
            T[G.shape[0]:, :, G.shape[2]:] = H
            W.append(T)
    return float(np.linalg.norm(_own_left(W)[-1]))


def _many_input(d, nk, r, seed, kind):
    """Unscaled cores.  'canon': canonical form around a random mode (cores left of it with orthonormal columns,
    right of it with orthonormal rows, Gaussian weight core) - every step of any re-orthogonalisation is then an
    orthogonal transformation and the error bound c d eps ||Y|| is rigorous; 'gauss': plain Gaussian cores."""
    g = gen.rng('C04.many', d, nk, r, seed, kind)
    rk = [1] + [min(r, nk ** min(k, d - k)) for k in range(1, d)] + [1]
    Y = [g.normal(size=(rk[k], nk, rk[k + 1])) for k in range(d)]
    if kind == 'canon':
        m = int(g.integers(0, d))
        for k in range(d):
            r1, n1, r2 = Y[k].shape
            if k < m:
                Q, _ = np.linalg.qr(Y[k].reshape(r1 * n1, r2))
                Y[k] = Q.reshape(r1, n1, r2)
            elif k > m:
                Q, _ = np.linalg.qr(Y[k].reshape(r1, n1 * r2).T)
                Y[k] = Q.T.reshape(r1, n1, r2)
    return Y


@clause('C04.orthogonalize.many_modes', funcs=OF + ('core.core_stab',))
def orth_many_modes(d, nk, r, seed, kind, k, stab, emax, epat='rand'):
    """d = 30 .. 90 modes (no dense array exists): same tensor (own block-difference + QR distance), orthonormal cores
    around the pivot, pivot core carrying the norm, ranks not increased; with use_stab the pair (Z, p) with integer p,
    |entries| <= 2 and pivot max-modulus in [1, 2).  Per-core factors 2^e with |e| <= emax, so that the total scale
    leaves the double range for emax >= 16 (then only with use_stab); epat 'up' / 'down' gives every core the same
    factor 2^+emax / 2^-emax (|p| up to 5200)."""
    Y0 = _many_input(d, nk, r, seed, kind)
    g = gen.rng('C04.many.exp', d, seed, emax)
    ex = [int(x) for x in g.integers(-emax, emax + 1, size=d)] if emax else [0] * d
    if epat != 'rand':                      # every core 2^+emax / 2^-emax: |total exponent| = d emax (up to 5200)
        ex = [emax if epat == 'up' else -emax] * d
    S = sum(ex)
    Y = [np.ldexp(G, e) if e else G for G, e in zip(Y0, ex)]
    snap = gen.snapshot(Y)
    out = teneva.orthogonalize(Y, k, use_stab=stab)
    if gen.snapshot(Y) != snap:
        return FAIL('input changed')
    if stab:
        if not isinstance(out, tuple) or len(out) != 2:
            return FAIL('use_stab=True does not return a pair')
        Z, p = out
        if isinstance(p, bool) or not isinstance(p, (int, np.integer)):
            return FAIL(f'exponent {p!r} is not an integer')
    else:
        Z, p = out, 0
    n = [nk] * d
    msg = gen.wf(Z, n)
    if msg:
        return FAIL('result not well-formed: ' + msg)
    if not gen.finite(Z):
        return FAIL('non-finite cores')
    if gen.shares(Z, Y):
        return FAIL('result shares memory with the input')
    kk = d - 1 if k is None else k
    rin, rk = [1] + [G.shape[2] for G in Y], [1] + [G.shape[2] for G in Z]
    for j in range(1, d):
        if rk[j] > rin[j] or (j <= kk and rk[j] > rk[j - 1] * nk) or (j > kk and rk[j] > nk * rk[j + 1]):
            return FAIL(f'bond {j}: rank {rk[j]} (input {rin[j]}, pivot {kk})')
    for j in range(d):
        if j == kk:
            continue
        G = Z[j]
        M = _gram_left(G) if j < kk else _gram_right(G)
        dev = float(np.abs(M - np.eye(M.shape[0])).max())
        if not dev <= 64 * EPS * max(G.shape[0] * G.shape[1], G.shape[1] * G.shape[2]):
            return FAIL(f'core {j} ({"left" if j < kk else "right"} of pivot {kk}): Gram deviates from I by {dev:.3e}')
    nrm = float(np.linalg.norm(_own_left(Y0)[-1]))
    rel = 256.0 * d * r * EPS if kind == 'canon' else 1e-9
    W = list(Z)
    W[kk] = np.ldexp(Z[kk], int(p) - S)                      # Z 2^p / 2^S: comparable with the unscaled tensor
    if not gen.finite(W):
        return FAIL(f'pivot core not finite after rescaling by 2^(p - S) = 2^{int(p) - S}')
    err = _own_distance(Y0, W)
    if not err <= rel * nrm:
        return FAIL(f'||2^p Z - Y|| = {err:.3e} > {rel * nrm:.3e} (||Y|| = {nrm:.3e}, d = {d}, pivot {kk}, p = {p}, S = {S})')
    got = float(np.linalg.norm(W[kk]))
    if not abs(got - nrm) <= rel * nrm:
        return FAIL(f'2^p ||Z[{kk}]|| = {got!r}, ||Y|| = {nrm!r}')
    if stab:
        mx = [float(np.abs(G).max()) for G in Z]
        if not all(x <= 2.0 for x in mx):
            return FAIL(f'use_stab: entries up to {max(mx):.3e}')
        if not (1.0 <= mx[kk] < 2.0):
            return FAIL(f'use_stab: pivot core max-modulus {mx[kk]!r} not in [1, 2)')
    return PASS


# ----------------------------------------------------------------------------- single steps

@clause('C04.step.contract', funcs=('transformation.orthogonalize_left', 'transformation.orthogonalize_right'))
def step_contract(n, r, seed, kind, order, defect, side, i, inplace, exps=None, form=None, iform=None):
    """One left / right step at mode i: same tensor, core i orthonormal, new rank = min(rows, old rank) <= old rank,
    only the two adjacent cores differ; inplace=True: same list object with exactly those two elements replaced;
    inplace=False: input untouched, nothing shared."""
    Y, Y0, S = make(n, r, seed, kind, order, defect, exps)     # exps: per-core factors 2^e (huge / tiny scales)
    d = len(n)
    fn = teneva.orthogonalize_left if side == 'left' else teneva.orthogonalize_right
    j = i + 1 if side == 'left' else i - 1            # the neighbour receiving the weight
    D = gen.dense(Y)
    EPSf = EPS
    if form:            # input forms of the core list (dtypes, read-only, views, tuple - a tuple cannot work in place) / of i
        Y, Yim = _formed(Y, form)
        D = gen.dense(Yim)
        EPSf = EPS32 if form in F32_FORMS else EPS
        if inplace and isinstance(Y, tuple):
            return SKIP('a tuple cannot be changed in place')
    i_arg = gen.num_form1(i, iform)
    scale = float(np.prod([np.linalg.norm(G) for G in Y]))
    rin = [1] + [G.shape[2] for G in Y]
    orig = list(Y)
    snaps = [gen.snapshot(G) for G in Y]
    Z = (fn(Y, i_arg, inplace=inplace) if not form else fn(Y, i_arg, inplace)) if inplace is not None else fn(Y, i_arg)
    if any(gen.snapshot(G) != s for G, s in zip(orig, snaps)):
        return FAIL('an input core array was overwritten')
    if inplace:
        if Z is not Y:
            return FAIL('inplace=True does not return the argument list')
        if len(Y) != d:
            return FAIL('list length changed')
        for t in range(d):
            if t not in (i, j) and Y[t] is not orig[t]:
                return FAIL(f'inplace=True replaced core {t} (only {sorted((i, j))} may change)')
    else:
        if Z is Y:
            return FAIL('inplace=False returned the argument list')
        if len(Y) != d or any(Y[t] is not orig[t] for t in range(d)):
            return FAIL('inplace=False changed the argument list')
        if gen.shares(Z, Y):
            return FAIL('inplace=False: result shares memory with the input')
        for t in range(d):
            if t not in (i, j) and not np.array_equal(Z[t], orig[t]):
                return FAIL(f'core {t} differs although only {sorted((i, j))} may change')
    if form and isinstance(Z, list) and all(isinstance(G, np.ndarray) and G.dtype.kind in 'fiu' for G in Z):
        Z = gen.tt_image1(Z)                    # untouched cores keep their dtype: not part of the property
    msg = gen.wf(Z, n)
    if msg:
        return FAIL('result not well-formed: ' + msg)
    err = float(np.linalg.norm(gen.dense(Z) - D))
    tol = 64.0 * d * max(rin) * EPSf * scale
    if not err <= tol:
        return FAIL(f'tensor changed by {err:.3e} > {tol:.3e}')
    G = Z[i]
    M = _gram_left(G) if side == 'left' else _gram_right(G)
    dev = float(np.abs(M - np.eye(M.shape[0])).max())
    if not dev <= 64 * EPSf * max(G.shape[0] * G.shape[1], G.shape[1] * G.shape[2]):
        return FAIL(f'core {i} not orthonormal: Gram deviates by {dev:.3e}')
    rk = [1] + [G.shape[2] for G in Z]
    b = i + 1 if side == 'left' else i          # the bond between the two cores
    want = min(rin[b], rin[i] * n[i] if side == 'left' else n[i] * rin[i + 1])
    if rk[b] != want or any(rk[t] != rin[t] for t in range(d + 1) if t != b):
        return FAIL(f'ranks {rin} -> {rk}, expected bond {b} = {want} and the others unchanged')
    return PASS


@clause('C04.step.raises', funcs=('transformation.orthogonalize_left', 'transformation.orthogonalize_right'))
def step_raises(n, r, seed, inplace):
    """orthogonalize_left accepts i in [0, d-2], orthogonalize_right i in [1, d-1]; None and everything else is
    rejected with ValueError and the input stays untouched."""
    Y = gen.tt(n, r, seed, 'gauss')
    d = len(n)
    orig = list(Y)
    snap = gen.snapshot(Y)
    for side, fn, good in (('left', teneva.orthogonalize_left, range(0, d - 1)),
                           ('right', teneva.orthogonalize_right, range(1, d))):
        for i in [None, -1, -d, d, d + 2] + list(range(0, d)):
            try:
                fn([G for G in Y], i, inplace=inplace)
                raised = False
            except ValueError:
                raised = True
            ok = i is not None and i in good
            if raised == ok:
                return FAIL(f'orthogonalize_{side}(i={i}) for d={d}: raised={raised}')
        for i in (None, -1, d):
            try:
                fn(Y, i, inplace=inplace)
                return FAIL(f'orthogonalize_{side}(i={i}) accepted')
            except ValueError:
                pass
            if gen.snapshot(Y) != snap or any(a is not b for a, b in zip(Y, orig)):
                return FAIL(f'input changed by the rejected call orthogonalize_{side}(i={i})')
    return PASS


# ----------------------------------------------------------------------------- case list

ORTH = ['C04.orthogonalize.same_tensor', 'C04.orthogonalize.orthonormal', 'C04.orthogonalize.pivot_norm',
        'C04.orthogonalize.ranks']


def _emit(base, d, stabs=(False, True)):
    for k in list(range(d)) + [None]:
        for stab in stabs:
            for cid in ORTH:
                yield cid, dict(base, k=k, stab=stab)
        if True in stabs:
            yield 'C04.orthogonalize.stab_pair', dict(base, k=k)


def cases(tier, seed):
    big = tier == 'thorough'
    g = gen.rng('C04', seed)
    shapes = gen.shapes(dmax=4, nmax=4)
    if big:
        shapes += [[2, 3, 2, 1, 2], [2] * 6, [1, 2, 1, 2, 1, 2], [3, 1, 1, 1, 3], [4, 4, 4]]
    j = 0
    for n in shapes:
        d = len(n)
        for r in gen.rank_profiles(n, rmax=6 if big else 4):
            for kind in ('gauss', 'int'):
                for defect in DEFECTS:
                    j += 1
                    if not big and kind == 'int' and defect in ('dup', 'zeroslice') and j % 2:
                        continue
                    order = 'CFV'[j % 3]
                    base = dict(n=n, r=r, seed=j, kind=kind, order=order, defect=defect)
                    yield from _emit(dict(base, exps=[0]), d)
                    if defect in ('none', 'dup') and (big or j % 2 == 0):
                        yield from _emit(dict(base, exps=[100, -37]), d)
                        yield from _emit(dict(base, exps=[-100]), d)
                        yield from _emit(dict(base, exps=[300]), d, stabs=(True,))
                        yield from _emit(dict(base, exps=[-150, -140, 3]), d, stabs=(True,))
                        yield from _emit(dict(base, exps=[300, -150]), d, stabs=(True,))
                    # single steps
                    for inplace in (False, True, None):
                        if inplace is None and j % 4:
                            continue
                        for i in range(d - 1):
                            yield 'C04.step.contract', dict(base, side='left', i=i, inplace=inplace)
                        for i in range(1, d):
                            yield 'C04.step.contract', dict(base, side='right', i=i, inplace=inplace)
            for stab in (False, True):
                yield 'C04.orthogonalize.raises', dict(n=n, r=r, seed=j, stab=stab)
            for inplace in (False, True):
                yield 'C04.step.raises', dict(n=n, r=r, seed=j, inplace=inplace)
    for n in ([2, 2], [2, 2, 2], [2, 3, 2, 2]):
        for exps in ([-450], [-600], [600], [520], [-170], [600, -600]):
            for k in (0, len(n) - 1):
                yield 'C04.orthogonalize.stab_extreme_cores', dict(n=n, r=[1] + [2] * (len(n) - 1) + [1], seed=1, exps=exps, k=k)
    for n in ([2, 3, 2], [3, 2, 2, 3]):
        for exps in ([10, 0, -500], [-500, 0, 10], [40, -500, 0, 7], [7, 0, -500, 40]):
            for k in range(len(n)):
                yield 'C04.orthogonalize.stab_tiny_after_scaled', dict(n=n, r=[1] + [2] * (len(n) - 1) + [1], seed=2, exps=exps, k=k)
    # single steps at huge / tiny per-core scales (the single-step variants have no stabilisation: products stay in range)
    for j2, n in enumerate(shapes):
        d = len(n)
        if not big and j2 % 2:
            continue
        for r in gen.rank_profiles(n, rmax=4)[1:4]:
            for ei, exps in enumerate(([100, -37], [-100], [300, -300], [-250, 250, 0])):
                if d * max(abs(x) for x in exps) > 900 and len(exps) == 1:
                    continue
                base = dict(n=n, r=r, seed=500 + j2, kind='gauss', order='CFV'[(j2 + ei) % 3], defect=('none', 'dup')[ei % 2], exps=exps)
                for inplace in (False, True):
                    for i in range(d - 1):
                        yield 'C04.step.contract', dict(base, side='left', i=i, inplace=inplace)
                    for i in range(1, d):
                        yield 'C04.step.contract', dict(base, side='right', i=i, inplace=inplace)
    # large mode sizes
    for j2, (n, r) in enumerate([([600, 2], [1, 3, 1]), ([2, 520, 3], [1, 2, 4, 1]), ([1, 1025, 1], [1, 1, 1, 1]), ([3, 300], [1, 4, 1])]
                               + ([([2048, 2], [1, 2, 1]), ([2, 2, 700, 2], [1, 2, 5, 2, 1])] if big else [])):
        for di, defect in enumerate(('none', 'dup', 'zeroslice')):
            base = dict(n=n, r=r, seed=600 + j2, kind=('gauss', 'int')[di % 2], order='CFV'[(j2 + di) % 3], defect=defect)
            yield from _emit(dict(base, exps=[0]), len(n))
            if defect != 'zeroslice':
                yield from _emit(dict(base, exps=[300, -150]), len(n), stabs=(True,))
            for inplace in (False, True):
                for i in range(len(n) - 1):
                    yield 'C04.step.contract', dict(base, side='left', i=i, inplace=inplace)
                    yield 'C04.step.contract', dict(base, side='right', i=i + 1, inplace=inplace)
    # input forms: core list dtypes / read-only / views / tuple, pivot / step index as numpy integers, call forms
    fcfg = [([3, 2], [1, 2, 1]), ([2, 3, 2], [1, 2, 3, 1]), ([3, 2, 2, 3], [1, 3, 4, 3, 1]), ([2, 1, 3], [1, 2, 2, 1]), ([2, 2, 2], [1, 4, 4, 1])]
    if big:
        fcfg += [([2, 2, 2, 2, 2], [1, 2, 3, 3, 2, 1]), ([4, 4], [1, 1, 1]), ([1, 2, 1, 2], [1, 1, 2, 2, 1])]
    kforms, calls = (None, 'i64', 'i32', 'a0i'), (None, 'pos', 'kw', 'npbool')
    fj = 0
    for si, (n, r) in enumerate(fcfg):
        d = len(n)
        for fi, form in enumerate((None,) + gen.TT_FORMS1):
            kinds = ('int',) if form in ('i64', 'i32') else (('gauss', 'int') if big else (('gauss', 'int')[(si + fi) % 2],))
            for kind in kinds:
                for defect in (DEFECTS if big else (DEFECTS[(si + fi) % 4],)):
                    base = dict(n=n, r=r, seed=700 + si, kind=kind, order='CFV'[(si + fi) % 3], defect=defect, exps=None)
                    for k in list(range(d)) + [None]:
                        fj += 1
                        kf, cl = (kforms[fj % 4] if k is not None else None), calls[(fj // 4 + fj) % 4]
                        if form is None and kf is None and cl is None:
                            cl = 'pos'
                        for stab in (False, True):
                            for check in ('same_tensor', 'orthonormal', 'pivot_norm', 'ranks'):
                                yield 'C04.forms.orthogonalize', dict(check=check, form=form, kform=kf, call=cl, params=dict(base, k=k, stab=stab))
                        yield 'C04.forms.orthogonalize', dict(check='stab_pair', form=form, kform=kf, call=cl, params=dict(base, k=k))
                    if form is None:
                        continue
                    for inplace in (False, True):
                        for i in range(d - 1):
                            yield 'C04.step.contract', dict(base, side='left', i=i, inplace=inplace, form=form, iform=kforms[(i + fi) % 4])
                            yield 'C04.step.contract', dict(base, side='right', i=i + 1, inplace=inplace, form=form, iform=kforms[(i + fi + 1) % 4])
    # many modes
    for d_, nk_, r_ in ((30, 3, 3), (64, 2, 4), (90, 2, 3)) + (((130, 2, 2), (40, 4, 5)) if big else ()):
        for kind in ('canon', 'gauss'):
            for s_ in range(3 if big else 1):
                for k in (0, 1, d_ // 2, d_ - 2, d_ - 1, None):
                    for stab, emax in ((False, 0), (False, 8), (True, 0), (True, 8), (True, 40)):
                        yield 'C04.orthogonalize.many_modes', dict(d=d_, nk=nk_, r=r_, seed=s_, kind=kind, k=k, stab=stab, emax=emax)
                    if k in (0, d_ // 2, None):
                        for epat in ('up', 'down'):
                            yield 'C04.orthogonalize.many_modes', dict(d=d_, nk=nk_, r=r_, seed=s_, kind=kind, k=k, stab=True,
                                                                       emax=40, epat=epat)
    # seeded random part
    for _ in range(300 if big else 60):
        d = int(g.integers(2, 7 if big else 5))
        n = [int(x) for x in g.integers(1, 5, size=d)]
        if int(np.prod(n)) > 600:
            continue
        r = [1] + [int(x) for x in g.integers(1, 8 if big else 6, size=d - 1)] + [1]
        base = dict(n=n, r=r, seed=int(g.integers(1 << 30)), kind=('gauss', 'int')[int(g.integers(0, 2))],
                    order='CFV'[int(g.integers(0, 3))], defect=DEFECTS[int(g.integers(0, 4))])
        ex = [int(x) for x in g.integers(-120, 121, size=d)]
        yield from _emit(dict(base, exps=ex), d)
        yield from _emit(dict(base, exps=[int(x) for x in g.integers(-150, 301, size=d)]), d, stabs=(True,))
        i = int(g.integers(0, d - 1))
        for inplace in (False, True):
            yield 'C04.step.contract', dict(base, side='left', i=i, inplace=inplace)
            yield 'C04.step.contract', dict(base, side='right', i=i + 1, inplace=inplace)
