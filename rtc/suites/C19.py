"""C19 (bounded, T3): explicit constructors build exactly the tensor they describe.

Covered clauses of the statement (oracle = own dense evaluation `gen.dense`, exact Python integers / Fractions
where the inputs are integers or dyadic; for many modes / large quantisation levels the direct definition
entry(i) = prod_k c_k[i_k] of a tensor with all TT-ranks 1 applied to its factor vectors):

* const without zero list: every entry == v up to the rounding of the d-th root (v positive, negative,
  zero, tiny, huge, subnormal, overall scales 1e-8 .. 1e8, both sides of the 1e-16 branch), exactly 0 for v = 0,
  rank 1, requested shape; shape as list / ndarray; d = 1 and mode sizes 513 / 600.
* const with zero list / protected index: values in {v, 0}, exact 0 at every listed index, v at the
  protected index; exhaustive pairs (zero index, protected index) on small shapes + random lists;
  request never raises unless the protected index itself is listed, then ValueError.  Argument forms
  (C19.const.arg_forms): empty list / empty ndarray, protected index without zero list, list rows with ndarray
  protected index and vice versa, int32 indices, shape as ndarray, v as NumPy float64 / int64 scalar.
* const / delta with many modes (C19.*.many_modes): d = 7 .. 100 (300 thorough), even and odd d with negative v,
  |v| from 1e-300 to 1e300 (the product over the cores must neither over- nor underflow), zero rows that differ from
  the protected index in exactly one mode (up to d-1 round-robin skips), mode sizes up to 700.
* delta: v at the position (also NumPy-style negative positions: alternating or all components), exact 0
  elsewhere, exhaustive; shape / position as list or ndarray.
* vector_delta / matrix_delta: exhaustive positions in [-2^q, 2^q) (negative counted from the end),
  out-of-range positions raise ValueError; q <= 4 quick / 6 thorough (matrix: q <= 3 / 4); positions as int or
  np.int64; v up to +-1e300.  Large quantisation levels q = 5 .. 200 with sampled positions (corner, 2^31 / 2^32
  neighbours, random, both spellings) checked bit by bit against exact Python integers: C19.*.large_q for
  normalised positions below 2^53, C19.*.pos_ge_2p53 for positions >= 2^53 (q >= 54) -- the latter FAILS on the
  pinned tree (float division `int(i / 2)` in utils._vector_index_expand: ValueError for -1 / 2^q - 1, wrong
  position for e.g. 2^53 + 3); C19.index_helpers.bits evaluates the two index helpers directly.
* poly: scale * sum_k (i_k + shift_k)^power, shift as number / list / ndarray, shape as list / ndarray, exact for
  integer data; negative, fractional and large powers (positive bases), scales 0, 1e-300 .. 1e300, shifts 1e-300 ..
  1e8, mode sizes 513 / 600; d up to 100 (200) at sampled multi-indices against exact Fractions (C19.poly.many_modes).
* rand / rand_norm / rand_custom / rand_stab: well-formed, requested shape and rank profile (scalar or
  per-bond list, list or ndarray, ranks larger than a core can carry), entries in [a, b] (rand; a = b, subnormal,
  1e-300, 1e300, 1e8 (1 + 1e-7) ranges), mean / std / 1-sigma mass at >= 7 sigma on the standardised sample
  (rand_norm; s from 1e-300 to 1e95), every drawn value used exactly once (rand_custom), identity pattern + noise of
  the requested level (0, 1e-300 .. 0.5) and entries of the dense tensor equal to 1 within a rigorous product bound
  for d up to 100 (1000 thorough) (rand_stab); d = 100 and mode size 600 for all of them.
* C19.rand_stab.noise_level (gap closure): an explicitly requested, OBSERVABLE noise level (1e-8 .. 3e-2, noise sqrt(d r) <= 0.1):
  the mean square deviation of the tensor from one, summed over 26 .. 200 independently seeded tensors (int seeds or one
  Generator), lies in a two-sided band around its exact expectation (second-moment recursion of the construction, about
  d noise^2): Laurent-Massart bounds of the first-order weighted chi-square law, tails e^-25, widened by 1.25; accepted rms
  within about [0.63, 1.45] of noise sqrt(d); ranks 1 (exactly the all-ones tensor if the diagonal noise is lost), 2 .. 7 and
  per-bond profiles, d = 2 .. 40 (100), modes of size 1, dense export (<= 4096 entries) or an own cancellation-free contraction.
* seed forms (C19.rand.seed_forms): int (repeatable, seed-dependent), np.random.Generator over PCG64 / MT19937 (really
  consumed), None (fresh on each call); the global NumPy state stays untouched.
* documented default values of every constructor (C19.defaults).
* input FORMS (C19.input_form.*): shapes as list / tuple / int64 / int32 array / list of NumPy integers / read-only view; v, scale, a, b,
  m, s, noise as Python int / float, np.float64 / np.float32 / np.int64 / np.int32 scalars, 0-d arrays (float32 v: float32 tolerance, the
  d-th root is taken in float32); zero lists / protected index / positions as nested lists, tuples, int32 / uint8 / int8 arrays, Fortran-
  ordered, non-contiguous, read-only arrays, negative positions in signed dtypes, mode sizes beyond int8 / uint8; shifts as tuple / int64 /
  int32 / float32 array / list of NumPy scalars / np.float64; powers as np.int64 / np.int32 / float; ranks as float / np.float64 scalar,
  tuple / int32 array / list of NumPy integers; seed by keyword / positionally; q / positions / v of the QTT deltas as NumPy scalars;
  keyword and positional calls.  POSSIBLE DEFECTS in narrow clauses (fail on the pinned tree): C19.rand.rank_numpy_scalar (r = np.int64(3)
  -> IndexError), C19.rand.seed_numpy_int (seed = np.int64(7) -> AttributeError), C19.poly.shift_numpy_scalar (shift = np.int64(1) /
  np.float32(1.5) -> IndexError): NumPy scalars rejected by isinstance(., (int, float)) gates.
"""
import itertools
import math
import numpy as np
import teneva
from rtc.api import clause, PASS, FAIL, TRIVIAL, SKIP, check
from rtc import gen


BUDGET = (100, 600)
BOUNDS = ('const/delta: 13 shapes with d<=5, n<=4 (incl. mode size 1) + d=1 + modes 513/600, 27 values v incl. 0, -0.0, '
          '5e-324, 1e-300, 1e-16 branch point, +-1e8, +-1e300; zero lists: all (zero, protected) pairs on 5 shapes + random '
          'lists of <= 6 rows + 9 argument forms; many modes d in {7,61,100} (..300 thorough) x 5-11 values x 4 zero-list '
          'variants (rank-1 factor analysis); vector_delta q<=4/6, matrix_delta q<=3/4, all positions in [-2^q, 2^q) + '
          'out-of-range, int / np.int64; large q in {5..200} x ~28 sampled positions (exact integer bits), positions >= 2^53 '
          'in a separate clause; poly: 9 shapes x integer/float shifts (number/list/ndarray) x powers 0..4, -2..-1, 0.5, '
          '1.5, 7, 10 (13, 20) x scales 0, 1e-300..1e300, shifts up to 1e8, d<=100 (200) sampled vs Fractions; random '
          'constructors: 8 shapes x scalar/list/ndarray ranks x seeds + d=100 / n=600, extreme a/b and m/s, seed as '
          'int/Generator/None; rand_stab d in {2..100} (1000 thorough), noise 0, 1e-300..0.5; defaults of all constructors; '
          'rand_stab noise level two-sided: 10 shapes (15 thorough, d = 2..40 (100)) x ranks 1..4 (7) and per-bond profiles x noise 1e-8..3e-2, '
          '26..200 tensors per case; input forms: 6 shape forms x 4 value forms x 10 index forms (const / delta, 3 (6) shapes + modes 130..300), '
          '8 shift forms x 4 power forms (poly), 3-4 rank forms x 5 number forms x 4 constructors, QTT deltas q in 1..62 x 8 position forms')

EPS = np.finfo(float).eps

SHAPES = [[2, 2], [2, 3], [3, 2], [1, 1], [1, 3], [4, 1], [2, 2, 2], [3, 1, 2], [2, 3, 4], [1, 1, 1],
          [2, 2, 2, 2], [3, 2, 1, 2], [2, 2, 2, 2, 2]]
VALUES = [1.0, -1.0, 2.0, -2.0, 0.0, -0.0, 3, -3, 0, 0.37, -5.25e3, 1e-300, -1e-300, 1e-17, 1e-16, 1.0000001e-16,
          -2e-16, 1e300, -1e150]
VALUES_X = [1e8, -1e8, 1e-8, -1e-8, -1e300, 1e-12, -1e-15, 5e-324]      # overall scales, smallest subnormal
SHAPES_X = [[3], [1], [600, 2], [2, 513, 1]]                             # d = 1 (outside the stated d >= 2), big modes
MANY_V = [2.5, -2.5, 1e300, -1e300, 1e-300, -1e-17, 0.0]


def _vtol(v, d):
    """rounding of |v|**(1/d) multiplied back d times; the rounding of the exponent 1/d is amplified by |ln|v||"""
    lg = abs(math.log(abs(float(v)))) if v != 0 else 0.0
    return 8.0 * (d + 2 + lg) * EPS * abs(float(v))


def _rank_one(Y, n):
    msg = gen.wf(Y, n)
    if msg:
        return msg
    if any(G.shape[0] != 1 or G.shape[2] != 1 for G in Y):
        return 'ranks ' + str([G.shape for G in Y])
    return None


@clause('C19.const.plain', funcs=('tensors.const',))
def const_plain(n, v, as_array):
    """No zero list: every entry equals v (d-th root rounding only), exactly 0 for v == 0, rank 1."""
    nn = np.array(n) if as_array else list(n)
    Y = teneva.const(nn, v)
    msg = _rank_one(Y, n)
    if msg:
        return FAIL('not a rank-1 tensor of the requested shape: ' + msg)
    D = gen.dense(Y)
    if list(D.shape) != list(n):
        return FAIL(f'dense shape {D.shape}')
    if v == 0:
        return check(bool(np.all(D == 0)), f'v=0 but entries {np.unique(D)[:4]}')
    err = float(np.max(np.abs(D - float(v))))
    return check(err <= _vtol(v, len(n)), f'max |entry - v| = {err:.3e} > {_vtol(v, len(n)):.3e}')


def _check_zeros(n, v, I_zero, i_nz, as_array):
    """returns None or a failure text"""
    d = len(n)
    Iz = np.array(I_zero, dtype=int).reshape(-1, d) if as_array else [list(r) for r in I_zero]
    inz = None if i_nz is None else (np.array(i_nz) if as_array else list(i_nz))
    snap = gen.snapshot((Iz, inz))
    conflict = i_nz is not None and any(list(r) == list(i_nz) for r in I_zero)
    try:
        Y = teneva.const(list(n), v, Iz, inz)
    except ValueError as e:
        return None if conflict else f'unexpected ValueError({e}) for I_zero={I_zero} i_non_zero={i_nz}'
    if conflict:
        return f'protected index {i_nz} is listed as zero but no ValueError (I_zero={I_zero})'
    if gen.snapshot((Iz, inz)) != snap:
        return 'argument lists modified'
    msg = _rank_one(Y, n)
    if msg:
        return 'not rank-1 / shape: ' + msg
    D = gen.dense(Y)
    tol = _vtol(v, d)
    okv = np.abs(D - float(v)) <= tol
    ok0 = D == 0
    if not np.all(okv | ok0):
        return f'value outside {{v, 0}}: {D[~(okv | ok0)][:3]} (v={v}) I_zero={I_zero} i_non_zero={i_nz}'
    for r in I_zero:
        if D[tuple(r)] != 0:
            return f'entry at listed zero index {list(r)} is {D[tuple(r)]} (I_zero={I_zero}, i_non_zero={i_nz})'
    if i_nz is not None and v != 0 and not okv[tuple(i_nz)]:
        return f'protected index {i_nz} holds {D[tuple(i_nz)]} instead of v={v} (I_zero={I_zero})'
    return None


@clause('C19.const.zeros_pairs', funcs=('tensors.const',))
def const_zero_pairs(n, v, as_array):
    """Exhaustive: every single zero index x every protected index (and none): values in {v,0}, zero at the
    listed index, v at the protected one; ValueError exactly when both coincide."""
    idx = gen.all_indices(n).tolist()
    for iz in idx:
        for inz in [None] + idx:
            msg = _check_zeros(n, v, [iz], inz, as_array)
            if msg:
                return FAIL(msg)
    # two-row lists exercise the round-robin pointer that survives from one row to the next
    for iz1, iz2 in itertools.product(idx, idx):
        for inz in [None, idx[0], idx[-1]]:
            msg = _check_zeros(n, v, [iz1, iz2], inz, as_array)
            if msg:
                return FAIL(msg)
    return PASS


@clause('C19.const.zeros_random', funcs=('tensors.const',))
def const_zero_random(n, v, rows, protect, conflict, seed, as_array):
    """Random zero lists (with repetitions) and protected index; with `conflict` the protected index is
    inserted at a random row of the list and ValueError is required."""
    g = gen.rng('C19z', n, rows, seed)
    idx = gen.all_indices(n)
    inz = idx[int(g.integers(len(idx)))].tolist() if protect else None
    pool = [r.tolist() for r in idx if inz is None or r.tolist() != inz]
    if not pool:
        return TRIVIAL('single-entry tensor')
    Iz = [pool[int(g.integers(len(pool)))] for _ in range(rows)]
    if conflict:
        if inz is None:
            return SKIP('conflict needs a protected index')
        Iz.insert(int(g.integers(len(Iz) + 1)), list(inz))
    msg = _check_zeros(n, v, Iz, inz, as_array)
    return FAIL(msg) if msg else PASS


@clause('C19.delta.exhaustive', funcs=('tensors.delta',))
def delta_exhaustive(n, v, negative, n_array=False):
    """v at the position, exact zero elsewhere, for every position (negative = 1: every other component written
    NumPy-style counted from the end, 2: all components negative); position as list and ndarray, shape as list
    or ndarray."""
    d = len(n)
    neg = int(negative)
    for pos in gen.all_indices(n).tolist():
        arg = [p - k if neg == 2 or (neg == 1 and (p + j) % 2 == 0) else p for j, (p, k) in enumerate(zip(pos, n))]
        for a in (arg, np.array(arg)):
            Y = teneva.delta(np.array(n) if n_array else list(n), a, v)
            msg = _rank_one(Y, n)
            if msg:
                return FAIL(f'position {arg}: ' + msg)
            D = gen.dense(Y)
            got = D[tuple(pos)]
            if v == 0:
                if got != 0:
                    return FAIL(f'position {arg}: entry {got} for v=0')
            elif not abs(got - float(v)) <= _vtol(v, d):
                return FAIL(f'position {arg}: entry {got!r} instead of {v!r}')
            D[tuple(pos)] = 0
            if np.any(D != 0):
                return FAIL(f'position {arg}: non-zero entries elsewhere at {np.argwhere(D != 0)[:3].tolist()}')
    return PASS


def _norm_pos(q, i):
    n = 1 << q
    if i >= n or i < -n:
        return None
    return i if i >= 0 else n + i


@clause('C19.vector_delta.exhaustive', funcs=('vectors.vector_delta', 'utils._vector_index_prepare',
                                              'utils._vector_index_expand'))
def vector_delta_exhaustive(q, v, np_int=False):
    """QTT vector of length 2^q: v at position i (negative i counted from the end), 0 elsewhere, for all
    i in [-2^q, 2^q); positions outside raise ValueError.  np_int: positions given as np.int64."""
    n = 1 << q
    for i in list(range(-n - 3, n + 4)) + [4 * n, -4 * n, 10 ** 6, -10 ** 6]:
        want = _norm_pos(q, i)
        try:
            Y = teneva.vector_delta(q, np.int64(i) if np_int else i, v)
        except ValueError:
            if want is not None:
                return FAIL(f'q={q} i={i}: ValueError for a position in range')
            continue
        if want is None:
            return FAIL(f'q={q} i={i}: out of range but no ValueError')
        msg = _rank_one(Y, [2] * q)
        if msg:
            return FAIL(f'i={i}: ' + msg)
        D = gen.dense(Y).reshape(-1, order='F')         # little-endian: first QTT mode = lowest bit
        E = np.zeros(n)
        E[want] = v
        if not np.array_equal(D, E):
            return FAIL(f'q={q} i={i}: non-zeros at {np.flatnonzero(D).tolist()[:4]} values '
                        f'{D[np.flatnonzero(D)][:4].tolist()}, wanted {v} at {want}')
    return PASS


@clause('C19.matrix_delta.exhaustive', funcs=('matrices.matrix_delta', 'utils._vector_index_prepare',
                                              'utils._vector_index_expand'))
def matrix_delta_exhaustive(q, v, np_int=False):
    """QTT matrix 2^q x 2^q with 4-D cores (1,2,2,1): A[i, j] = prod_k G_k[0, i_k, j_k, 0] (little-endian
    bits) equals v at (i, j), 0 elsewhere; negative positions from the end; out of range -> ValueError."""
    n = 1 << q
    rng_ = list(range(-n, n))
    extra = [(n, 0), (0, n), (-n - 1, 0), (0, -n - 1), (n, n), (3 * n, -1), (-1, 3 * n)]
    for i, j in list(itertools.product(rng_, rng_)) + extra:
        wi, wj = _norm_pos(q, i), _norm_pos(q, j)
        try:
            Y = teneva.matrix_delta(q, np.int64(i) if np_int else i, np.int64(j) if np_int else j, v)
        except ValueError:
            if wi is not None and wj is not None:
                return FAIL(f'q={q} (i,j)=({i},{j}): ValueError for a position in range')
            continue
        if wi is None or wj is None:
            return FAIL(f'q={q} (i,j)=({i},{j}): out of range but no ValueError')
        if not isinstance(Y, list) or len(Y) != q or any(
                not isinstance(G, np.ndarray) or G.shape != (1, 2, 2, 1) or G.dtype.kind != 'f' for G in Y):
            return FAIL(f'(i,j)=({i},{j}): cores {[getattr(G, "shape", None) for G in Y]}')
        A = np.ones((1, 1))
        for k, G in enumerate(Y):       # bit k has weight 2^k
            A = np.kron(G[0, :, :, 0], A)
        E = np.zeros((n, n))
        E[wi, wj] = v
        if not np.array_equal(A, E):
            return FAIL(f'q={q} (i,j)=({i},{j}): non-zeros at {np.argwhere(A != 0).tolist()[:4]}, wanted {v} at '
                        f'({wi},{wj})')
    return PASS


@clause('C19.poly.value', funcs=('tensors.poly',))
def poly_value(n, shift, power, scale, n_array=False, shift_array=False):
    """dense == scale * sum_k (i_k + shift_k)^power; exact (==) when shift, power, scale are integers (values below
    2^52), otherwise within 16 (d+2) eps of the sum of the moduli of the terms.  Shape as list / ndarray, shift as
    number / list / ndarray; power may be negative or fractional when all bases i_k + shift_k are positive."""
    d = len(n)
    Y = teneva.poly(np.array(n) if n_array else list(n),
                    np.array(shift, dtype=float) if shift_array and isinstance(shift, list) else shift, power, scale)
    msg = gen.wf(Y, n)
    if msg:
        return FAIL(msg)
    D = gen.dense(Y)
    sh = [shift] * d if not isinstance(shift, list) else shift
    integer = all(float(s).is_integer() for s in sh) and float(scale).is_integer() and isinstance(power, int) \
        and power >= 0
    I = gen.all_indices(n)
    if integer:
        want = [int(scale) * sum((int(i) + int(s)) ** power for i, s in zip(row, sh)) for row in I]
        got = D[tuple(I.T)]
        if max(abs(w) for w in want) < 2 ** 52:
            if not all(float(w) == g for w, g in zip(want, got)):
                k = [float(w) == g for w, g in zip(want, got)].index(False)
                return FAIL(f'entry {I[k].tolist()}: {got[k]!r} != exact {want[k]}')
            return PASS
    terms = np.array([[(float(i) + float(s)) ** power for i, s in zip(row, sh)] for row in I])
    want = scale * terms.sum(axis=1)
    mag = abs(scale) * np.abs(terms).sum(axis=1)
    got = D[tuple(I.T)]
    bad = ~(np.abs(got - want) <= 16 * (d + 2) * EPS * mag + 1e-300)
    if bad.any():
        k = int(np.argmax(bad))
        return FAIL(f'entry {I[k].tolist()}: {got[k]!r} vs {want[k]!r} (scale of terms {mag[k]:.3e})')
    return PASS


def _profile(Y):
    return [1] + [G.shape[2] for G in Y]


def _want_profile(n, r):
    return [1] + [int(r)] * (len(n) - 1) + [1] if not isinstance(r, list) else [int(x) for x in r]


def _structure(Y, n, r):
    msg = gen.wf(Y, n)
    if msg:
        return msg
    if _profile(Y) != _want_profile(n, r) or [G.shape[0] for G in Y] != _want_profile(n, r)[:-1]:
        return f'rank profile {_profile(Y)} != requested {_want_profile(n, r)}'
    if not gen.finite(Y):
        return 'non-finite entries'
    return None


@clause('C19.rand.range', funcs=('tensors.rand', 'tensors.rand_custom'))
def rand_range(n, r, a, b, seed, as_array):
    """rand: well-formed, requested shape / rank profile (scalar or per-bond list, list or ndarray),
    all entries in [a, b]; with >= 200 entries both outer quarters of [a, b] are hit and the mean is within
    7 sigma of (a+b)/2; cores are distinct arrays."""
    nn = np.array(n) if as_array else list(n)
    rr = np.array(r) if as_array and isinstance(r, list) else r
    Y = teneva.rand(nn, rr, a, b, seed=seed)
    msg = _structure(Y, n, r)
    if msg:
        return FAIL(msg)
    x = np.concatenate([G.reshape(-1) for G in Y])
    if not (x.min() >= a and x.max() <= b):
        return FAIL(f'entries [{x.min()}, {x.max()}] outside [{a}, {b}]')
    if x.size >= 200 and b > a:
        w = b - a
        if not (x.min() <= a + w / 4 and x.max() >= b - w / 4):
            return FAIL(f'{x.size} entries cover only [{x.min()}, {x.max()}] of [{a}, {b}]')
        if not abs(x.mean() - (a / 2 + b / 2)) <= 7 * w / math.sqrt(12 * x.size):
            return FAIL(f'mean {x.mean()} too far from {a / 2 + b / 2} for {x.size} uniform entries')
        if not len(np.unique(x)) >= 0.99 * x.size:
            return FAIL('repeated values')
        return PASS
    return TRIVIAL('too few entries for the spread check') if x.size < 8 else PASS


@clause('C19.rand_norm.distribution', funcs=('tensors.rand_norm', 'tensors.rand_custom'))
def rand_norm_distribution(n, r, m, s, seed, as_array=False):
    """rand_norm: structure as requested; for N >= 2000 entries: mean within 7 s/sqrt(N), std within
    7 s/sqrt(2N) (+1/N), fraction inside one sigma within 7 binomial sigmas of 0.6827 (excludes a uniform law).
    as_array: shape and per-bond ranks as ndarrays."""
    Y = teneva.rand_norm(np.array(n) if as_array else list(n), np.array(r) if as_array and isinstance(r, list) else r,
                         m, s, seed=seed)
    msg = _structure(Y, n, r)
    if msg:
        return FAIL(msg)
    x = np.concatenate([G.reshape(-1) for G in Y])
    N = x.size
    if N < 300:
        return TRIVIAL(f'{N} entries: structure only')
    z = (x - m) / s             # standardised: no over-/underflow of squares for s = 1e-300 .. 1e100
    if not abs(z.mean()) <= 7 / math.sqrt(N) + 4 * EPS * abs(m) / s:
        return FAIL(f'mean {x.mean()} vs m={m} (N={N}, s={s})')
    if not abs(z.std() - 1) <= 7 / math.sqrt(2 * N) + 2.0 / N + 4 * EPS * abs(m) / s:
        return FAIL(f'std {x.std()} vs s={s} (N={N})')
    p = 0.6826894921370859
    frac = np.mean(np.abs(z) <= 1)
    if not abs(frac - p) <= 7 * math.sqrt(p * (1 - p) / N):
        return FAIL(f'mass within one sigma {frac} vs {p} (N={N})')
    return PASS


@clause('C19.rand_custom.uses_f', funcs=('tensors.rand_custom',))
def rand_custom_uses_f(n, r, seed, ret_list, as_array=False):
    """rand_custom: f is called once with the total number of core entries; the cores hold exactly the values
    f returned (as a multiset, each once); structure as requested.  as_array: shape / per-bond ranks as ndarrays."""
    g = gen.rng('C19rc', n, r, seed)
    calls = []

    def f(size):
        v = g.permutation(int(size)).astype(float) + 0.5
        calls.append(v.copy())
        return v.tolist() if ret_list else v
    Y = teneva.rand_custom(np.array(n) if as_array else list(n),
                           np.array(r) if as_array and isinstance(r, list) else r, f)
    msg = _structure(Y, n, r)
    if msg:
        return FAIL(msg)
    p = _want_profile(n, r)
    total = sum(p[k] * n[k] * p[k + 1] for k in range(len(n)))
    if len(calls) != 1 or calls[0].size != total:
        return FAIL(f'f called {len(calls)} times with sizes {[c.size for c in calls]}, total entries {total}')
    x = np.sort(np.concatenate([G.reshape(-1) for G in Y]))
    return check(np.array_equal(x, np.sort(calls[0])), 'cores are not a rearrangement of the values drawn from f')


def _chain(Y, idx):
    v = Y[0][:, idx[0], :]
    for G, i in zip(Y[1:], idx[1:]):
        v = v @ G[:, i, :]
    return float(v[0, 0])


@clause('C19.rand_stab.ones', funcs=('tensors.rand_stab',))
def rand_stab_ones(d, nk, r, noise, seed, as_array=False):
    """rand_stab: structure as requested; every slice = rectangular identity + N(0, noise) (exactly the identity
    for noise 0; level checked at 7 sigma when >= 2000 entries); entries of the dense tensor equal 1 within the
    rigorous bound prod_k (1 + max_p ||G_k[:,p,:] - I||_2) - 1, on the whole tensor (small d) or 64 sampled
    multi-indices (d up to 50)."""
    n = [nk] * d if isinstance(nk, int) else list(nk)
    d = len(n)
    Y = teneva.rand_stab(np.array(n) if as_array else list(n), np.array(r) if as_array and isinstance(r, list) else r,
                         noise, seed=seed)
    msg = _structure(Y, n, r)
    if msg:
        return FAIL(msg)
    dev, bound = [], 1.0
    for G in Y:
        E = G - np.eye(G.shape[0], G.shape[2])[:, None, :]
        dev.append(E.reshape(-1))
        bound *= 1.0 + max(np.linalg.norm(E[:, p, :], 2) for p in range(G.shape[1]))
    x = np.concatenate(dev)
    if noise == 0:
        if np.any(x != 0):
            return FAIL('noise=0 but cores differ from the identity pattern')
    else:
        if not np.abs(x).max() <= 8 * noise:
            return FAIL(f'deviation from the identity pattern {np.abs(x).max():.3e} > 8 * noise={noise}')
        if x.size >= 2000:
            if not abs(x.mean()) <= 7 * noise / math.sqrt(x.size) + EPS:
                return FAIL(f'noise mean {x.mean():.3e} (noise={noise}, N={x.size})')
            # for noise << eps the added noise is absorbed by the 1.0 on the pattern entries: exclude them
            off = np.concatenate([(G - np.eye(G.shape[0], G.shape[2])[:, None, :])[
                np.broadcast_to(np.eye(G.shape[0], G.shape[2])[:, None, :] == 0, G.shape)] for G in Y])
            if off.size >= 2000 and not abs((off / noise).std() - 1) <= 7 / math.sqrt(2 * off.size) + 2.0 / off.size:
                return FAIL(f'noise level {off.std():.3e} vs requested {noise}')
    tol = (bound - 1.0) + 4 * d * max(_want_profile(n, r)) * EPS * bound
    if math.prod(int(k) for k in n) <= 4096:
        D = gen.dense(Y)
        err = float(np.abs(D - 1).max())
    else:
        g = gen.rng('C19rs', d, nk, r, seed)
        err = 0.0
        for _ in range(64):
            idx = [int(g.integers(k)) for k in n]
            err = max(err, abs(_chain(Y, idx) - 1))
        err = max(err, abs(_chain(Y, [0] * d) - 1), abs(_chain(Y, [k - 1 for k in n]) - 1))
    if not err <= tol:
        return FAIL(f'entry deviates from 1 by {err:.3e} > bound {tol:.3e} (d={d}, r={r}, noise={noise})')
    if noise <= 1e-3 and not err <= 0.5:
        return FAIL(f'entries not of order one: |x-1| = {err}')
    return PASS

def _stab_expected_msd(n, prof, noise):
    """E[(entry - 1)^2] of rand_stab, exactly, from the construction: an entry is e_0^T prod_k (J_k + N_k[i_k]) e_0 with J_k the
    r_k x r_{k+1} rectangular identity and N_k[i] independent matrices of N(0, noise^2) entries.  With v_k the running row
    vector, E[v_k^T v_k] = e_0 e_0^T + D_k, D_0 = 0, D_k = J_k^T D_{k-1} J_k + noise^2 (1 + tr D_{k-1}) I; E[entry] = 1, so the
    mean square deviation is D_d[0, 0] (= (1 + noise^2)^d - 1 for rank 1, about d noise^2 for small noise)."""
    D = np.zeros((1, 1))
    for k in range(len(n)):
        J = np.eye(prof[k], prof[k + 1])
        D = J.T @ D @ J + noise ** 2 * (1.0 + np.trace(D)) * np.eye(prof[k + 1])
    return float(D[0, 0])


def _stab_weights(n):
    """To first order entry - 1 = sum_k a_k[i_k] with a_k[j] = N_k[0, j, 0] iid N(0, noise^2), hence the mean square deviation
    over the whole tensor is sum_k var_j(a_k) + (sum_k mean_j a_k)^2 = noise^2 * (sum_k chi2_{n_k - 1} / n_k + (sum_k 1/n_k) chi2_1)
    with independent chi-square variables: the weights of the (sum_k (n_k - 1)) + 1 squared standard normals."""
    w = []
    for nk in n:
        w += [1.0 / nk] * (nk - 1)
    return w + [sum(1.0 / nk for nk in n)]


def _stab_reps(n, x=25.0, keep=0.5):
    """number of independent tensors after which the lower Laurent-Massart bound of the summed statistic is >= keep * mean"""
    w = np.array(_stab_weights(n))
    return int(math.ceil((2 * math.sqrt(x) / (1 - keep)) ** 2 * float((w ** 2).sum()) / float(w.sum()) ** 2)) + 1


def _stab_msd(Y, n):
    """mean over all multi-indices of (entry - 1)^2: dense export for <= 2^12 entries; otherwise an own contraction of the
    telescoped form  Y - 1 = sum_k (prod_{l<k} G_l) (G_k - J_k) (prod_{l>k} J_l)  (block cores [[G, G - J], [0, J]]: a sum of
    squares without cancellation)."""
    if math.prod(int(k) for k in n) <= 1 << 12:
        D = gen.dense(Y) - 1.0
        return float(np.mean(D * D))
    d = len(Y)
    Z = []
    for k, G in enumerate(Y):
        a, nk, b = G.shape
        J = np.broadcast_to(np.eye(a, b)[:, None, :], G.shape)
        E = G - J
        if k == 0:
            C = np.concatenate([G, E], axis=2)
        elif k == d - 1:
            C = np.concatenate([E, J], axis=0)
        else:
            C = np.zeros((2 * a, nk, 2 * b))
            C[:a, :, :b], C[:a, :, b:], C[a:, :, b:] = G, E, J
        Z.append(C)
    v = np.ones((1, 1))
    for C in Z:
        v = v @ (np.einsum('aib,cid->acbd', C, C).reshape(C.shape[0] ** 2, C.shape[2] ** 2) / C.shape[1])
    return float(v[0, 0])


@clause('C19.rand_stab.noise_level', funcs=('tensors.rand_stab',))
def rand_stab_noise_level(n, r, noise, seed, reps, genobj=False, as_array=False):
    """The stable random tensor is the all-ones tensor perturbed BY THE REQUESTED NOISE: for an explicitly requested, observable
    noise level (noise * sqrt(d * max rank) <= 0.1) the deviation of the tensor from one has the size the construction implies,
    from below and from above.  Statistic: the mean square deviation from 1 over all entries, summed over `reps` independently
    seeded tensors (int seeds, or one Generator object used for all calls); expectation: reps * _stab_expected_msd (exact, about
    d * noise^2); acceptance band: the Laurent-Massart bounds (each tail <= e^-25) of the first-order distribution
    noise^2 * weighted chi-squares (_stab_weights), scaled by the exact expectation and widened by a factor 1.25 on either side
    for the neglected higher orders (relative size <= noise^2 d r <= 0.01); with the prescribed number of tensors the accepted
    rms lies within about [0.63, 1.45] of the expected one.  Every tensor: structure as requested, all entries within 0.5 of 1."""
    n = [int(k) for k in n]
    d = len(n)
    prof = _want_profile(n, r)
    if not 0 < noise * math.sqrt(d * max(prof)) <= 0.1:
        return SKIP('noise level outside the first-order regime of this clause')
    w = np.array(_stab_weights(n))
    x = 25.0
    mu1 = reps * float(w.sum())                                     # = reps * d, in units of noise^2
    lo = mu1 - 2 * math.sqrt(reps * float((w ** 2).sum()) * x)
    hi = mu1 + 2 * math.sqrt(reps * float((w ** 2).sum()) * x) + 2 * float(w.max()) * x
    if lo < 0.45 * mu1:
        return TRIVIAL(f'{reps} tensors are too few for a two-sided band (lower bound {lo / mu1:.2f} of the mean)')
    scale = _stab_expected_msd(n, prof, noise) / d                   # exact expectation per unit weight (about noise^2)
    g = np.random.default_rng(seed) if genobj else None
    total, worst = 0.0, 0.0
    for j in range(reps):
        Y = teneva.rand_stab(np.array(n) if as_array else list(n), np.array(r) if as_array and isinstance(r, list) else r,
                             noise, seed=g if genobj else seed * 1000 + j)
        msg = _structure(Y, n, r)
        if msg:
            return FAIL(msg)
        msd = _stab_msd(Y, n)
        if not msd <= 0.25:
            return FAIL(f'rms deviation from the all-ones tensor {math.sqrt(msd) if msd >= 0 else msd!r}: entries not of order one')
        total += msd
        worst = max(worst, msd)
    rms, want = math.sqrt(total / reps), math.sqrt(scale * d)
    if not (0.8 * lo * scale <= total <= 1.25 * hi * scale):
        return FAIL(f'rand_stab(n={n}, r={r}, noise={noise:g}): rms deviation from the all-ones tensor over {reps} tensors is '
                    f'{rms:.3e}, the construction (identity pattern + N(0, noise) on every core element) gives {want:.3e} '
                    f'(about noise * sqrt(d)); accepted [{math.sqrt(0.8 * lo * scale / reps):.3e}, {math.sqrt(1.25 * hi * scale / reps):.3e}]')
    return PASS

# ----------------------------------------------------------------------------------------------------------------
# many modes / large quantisation levels: the dense tensor cannot be formed, but a tensor whose TT-ranks are all 1
# is completely described by its factor vectors: entry(i) = prod_k c_k[i_k]  (direct definition)

def _shape_of(d, nk):
    return [int(nk)] * d if isinstance(nk, int) else [int(nk[k % len(nk)]) for k in range(d)]


def _vecs(Y):
    return [np.asarray(G, dtype=float).reshape(-1) for G in Y]


def _prod(xs):
    p = 1.0
    for x in xs:
        p *= float(x)
    return p


def _delta_rank1(vecs, pos, v, tol):
    """None iff the rank-1 tensor with factor vectors `vecs` is v at pos and exactly 0 elsewhere."""
    if v == 0:
        hi = _prod(np.abs(c).max() for c in vecs)
        return None if hi == 0 else f'v=0 but an entry of modulus {hi} exists'
    for k, c in enumerate(vecs):
        nz = np.flatnonzero(c != 0).tolist()
        if nz != [pos[k]]:
            return f'factor {k}: non-zeros at {nz[:4]}, wanted only at {pos[k]}'
    got = _prod(c[pos[k]] for k, c in enumerate(vecs))
    if not abs(got - float(v)) <= tol:
        return f'entry at the position is {got!r} instead of {v!r} (tol {tol:.3e})'
    return None


def _const_rank1(vecs, v, tol, rows, inz):
    """None iff the rank-1 tensor takes only the values v (within tol) and exact 0, is 0 at every row of `rows`
    (all entries v if rows is None) and v at inz."""
    if v == 0:
        hi = _prod(np.abs(c).max() for c in vecs)
        return None if hi == 0 else f'v=0 but an entry of modulus {hi} exists'
    sign, lo, hi, empty = 1.0, 1.0, 1.0, False
    for k, c in enumerate(vecs):
        if not np.all(np.isfinite(c)):
            return f'factor {k} not finite'
        nzv = c[c != 0]
        if rows is None and nzv.size != c.size:
            return f'factor {k} has zeros at {np.flatnonzero(c == 0).tolist()[:4]} but no zero list was given'
        if nzv.size == 0:
            empty = True
            continue
        if not (np.all(nzv > 0) or np.all(nzv < 0)):
            return f'factor {k} has entries of both signs: values v and -v occur'
        sign *= 1.0 if nzv[0] > 0 else -1.0
        lo *= float(np.abs(nzv).min())
        hi *= float(np.abs(nzv).max())
    if empty:       # the whole tensor is zero: legitimate only if nothing has to stay v
        if inz is not None:
            return 'tensor is identically zero although a protected index was given'
    else:
        for w in (lo, hi):
            if not abs(sign * w - float(v)) <= tol:
                return f'non-zero entries range over [{sign * lo!r}, {sign * hi!r}], not v={v!r} (tol {tol:.3e})'
    for r in rows or []:
        if not any(c[r[k]] == 0 for k, c in enumerate(vecs)):
            return f'entry at listed zero index (modes 0..3: {list(r)[:4]}...) is not 0'
    if inz is not None and not all(c[inz[k]] != 0 for k, c in enumerate(vecs)):
        return 'entry at the protected index is 0'
    return None


@clause('C19.const.many_modes', funcs=('tensors.const',))
def const_many_modes(d, nk, v, rows, protect, near, seed, as_array):
    """const with many modes / large mode sizes (d up to 100, n up to 600): exact description of the rank-1 result
    through its factor vectors: all entries v (product over d cores neither over- nor underflows for |v| from
    1e-300 to 1e300), with a zero list: values in {v, 0}, 0 at the listed rows, v at the protected index.
    near: the listed rows differ from the protected index in exactly one mode (needs up to d-1 round-robin skips),
    never a ValueError."""
    n = _shape_of(d, nk)
    g = gen.rng('C19cm', d, nk, rows, seed)
    inz = [int(g.integers(k)) for k in n] if protect else None
    R = None
    if rows:
        R, wide = [], [k for k in range(d) if n[k] >= 2]
        for j in range(rows):
            if near and protect and wide:
                row = list(inz)
                k = wide[-1 - j] if j < len(wide) else wide[int(g.integers(len(wide)))]
                row[k] = (row[k] + 1 + int(g.integers(n[k] - 1))) % n[k]
            else:
                row = [int(g.integers(k)) for k in n]
                if protect and row == inz:
                    continue
            R.append(row)
    Iz = None if R is None else (np.array(R, dtype=int).reshape(-1, d) if as_array else R)
    try:
        Y = teneva.const(np.array(n) if as_array else list(n), v, Iz, np.array(inz) if as_array and protect else inz)
    except ValueError as e:
        return FAIL(f'ValueError({e}) although the protected index is not listed')
    msg = _rank_one(Y, n)
    if msg:
        return FAIL('not a rank-1 tensor of the requested shape: ' + msg)
    msg = _const_rank1(_vecs(Y), v, _vtol(v, d), R, inz)
    return FAIL(msg) if msg else PASS


@clause('C19.const.arg_forms', funcs=('tensors.const',))
def const_arg_forms(form, n, v, seed):
    """Documented argument forms of const that the other clauses do not combine: empty zero list (list / ndarray of
    shape 0 x d) -> all v; protected index without zero list -> all v; list rows with ndarray protected index and
    vice versa; shape as ndarray together with a zero list; int32 index arrays; v as NumPy scalar (float64/int64)."""
    d = len(n)
    g = gen.rng('C19af', form, n, seed)
    idx = gen.all_indices(n).tolist()
    inz = idx[int(g.integers(len(idx)))]
    pool = [r for r in idx if r != inz]
    rows = [pool[int(g.integers(len(pool)))] for _ in range(3)] if pool else []
    nn, vv, Iz, pz, R = list(n), v, rows, inz, rows
    if form == 'empty_list':
        Iz, R = [], []
    elif form == 'empty_array':
        Iz, R = np.zeros((0, d), dtype=int), []
    elif form == 'nz_only':
        Iz, R = None, None
    elif form == 'rows_list_nz_array':
        pz = np.array(inz)
    elif form == 'rows_array_nz_list':
        Iz = np.array(rows, dtype=int).reshape(-1, d)
    elif form == 'n_array':
        nn = np.array(n)
    elif form == 'int32':
        Iz, pz = np.array(rows, dtype=np.int32).reshape(-1, d), np.array(inz, dtype=np.int32)
    elif form == 'v_float64':
        vv = np.float64(v)
    elif form == 'v_int64':
        vv, v = np.int64(round(v)), int(round(v))
    else:
        return FAIL('unknown form ' + form)
    Y = teneva.const(nn, vv, Iz, pz)
    msg = _rank_one(Y, n)
    if msg:
        return FAIL('not rank-1 / shape: ' + msg)
    D = gen.dense(Y)
    tol = _vtol(v, d)
    if v == 0:
        return check(bool(np.all(D == 0)), 'v=0 but non-zero entries')
    okv = np.abs(D - float(v)) <= tol
    if not R:
        return check(bool(np.all(okv)), f'no zero index requested but entries {D[~okv][:3]} differ from v={v}')
    if not np.all(okv | (D == 0)):
        return FAIL(f'values outside {{v, 0}}: {D[~(okv | (D == 0))][:3]}')
    if any(D[tuple(r)] != 0 for r in R):
        return FAIL(f'a listed zero index of {R} is not 0')
    return check(bool(okv[tuple(inz)]), f'protected index {inz} holds {D[tuple(inz)]} instead of {v}')


@clause('C19.delta.many_modes', funcs=('tensors.delta',))
def delta_many_modes(d, nk, v, negative, seed, as_array):
    """delta with many modes / large mode sizes (d = 1 .. 100, n up to 600): factor vectors of the rank-1 result
    have their only non-zero at the position (given with 0 / alternating / all negative components, as list or
    ndarray), the product over the d cores equals v (|v| from 1e-300 to 1e300), everything is 0 for v = 0."""
    n = _shape_of(d, nk)
    g = gen.rng('C19dm', d, nk, seed)
    pos = [int(g.integers(k)) for k in n]
    for corner in (None, 0, -1):
        p = pos if corner is None else [0 if corner == 0 else k - 1 for k in n]
        arg = [x - k if negative == 2 or (negative == 1 and j % 2 == 0) else x for j, (x, k) in enumerate(zip(p, n))]
        Y = teneva.delta(np.array(n) if as_array else list(n), np.array(arg) if as_array else arg, v)
        msg = _rank_one(Y, n)
        if msg:
            return FAIL('not a rank-1 tensor of the requested shape: ' + msg)
        msg = _delta_rank1(_vecs(Y), p, v, _vtol(v, d))
        if msg:
            return FAIL(f'position (first modes) {arg[:4]}: ' + msg)
    return PASS


def _bits(q, w):
    return [(w >> k) & 1 for k in range(q)]


def _big_positions(q, seed, low):
    """positions of a vector of length N = 2^q, written both non-negative and negative; low: normalised position
    below 2^53 (any q), otherwise at least 2^53 (empty unless q >= 54)"""
    N, T = 1 << q, 1 << 53
    g = gen.rng('C19bp', q, seed, low)

    def big_random():
        w = 0
        for _ in range(q // 60 + 1):
            w = (w << 60) | int(g.integers(0, 1 << 60))
        return w % N
    if low:
        top = min(N, T)
        W = [0, top - 1, 1, top - 2, top >> 1, (top >> 1) - 1, (top >> 1) + 1, 2]
        W += [x for x in ((1 << 31) - 1, 1 << 31, (1 << 32) + 1, (1 << 52) + 12345) if x < top]
        W += [big_random() % top for _ in range(8)]
    else:
        if N <= T:
            return []
        W = [N - 1, T + 3, N - 2, T, N >> 1, (N >> 1) + 1, T + 1, N - T - 1]
        W += [x for x in ((1 << 54) + 3, (1 << 63) - 1, (1 << 63) + 12345, (1 << 64) + 1) if x < N]
        W += [w for w in (big_random() for _ in range(8)) if w >= T]
    return [w for w in W if 0 <= w < N] + [w - N for w in W[::2] if 0 <= w < N]


def _vd_big(q, v, P, matrix):
    N = 1 << q
    for i in P:
        for j in ((P[len(P) // 2], i) if matrix else (None,)):
            try:
                Y = teneva.matrix_delta(q, i, j, v) if matrix else teneva.vector_delta(q, i, v)
            except ValueError as e:
                return f'q={q} i={i}' + (f' j={j}' if matrix else '') + f': ValueError({e}) for a position in range'
            shp = (1, 2, 2, 1) if matrix else (1, 2, 1)
            if not isinstance(Y, list) or len(Y) != q or any(
                    not isinstance(G, np.ndarray) or G.shape != shp or G.dtype.kind != 'f' for G in Y):
                return f'q={q} i={i}: cores {[getattr(G, "shape", None) for G in Y][:4]}...'
            bi = _bits(q, i % N)
            pos = [2 * a + b for a, b in zip(bi, _bits(q, j % N))] if matrix else bi
            msg = _delta_rank1(_vecs(Y), pos, v, _vtol(v, q))
            if msg:
                got = sum(int(np.flatnonzero(c != 0)[0] // (2 if matrix else 1)) << k for k, c in enumerate(_vecs(Y))
                          if np.any(c != 0)) if v != 0 else None
                return (f'q={q} i={i} (normalised {i % N})' + (f' j={j}' if matrix else '') + ': ' + msg
                        + (f'; non-zero sits at row/position {got}' if got is not None else ''))
    for i in (N, -N - 1, N + (1 << 53) + 1, -(1 << (q + 1)), 3 * N):
        for args in (((i, 0), (0, i)) if matrix else ((i,),)):
            try:
                (teneva.matrix_delta if matrix else teneva.vector_delta)(q, *args, v)
            except ValueError:
                continue
            return f'q={q} position {args} out of range but no ValueError'
    return None


@clause('C19.vector_delta.large_q', funcs=('vectors.vector_delta', 'utils._vector_index_prepare',
                                           'utils._vector_index_expand'))
def vector_delta_large_q(q, v, seed):
    """vector_delta for large quantisation levels (q up to 200), positions whose normalised value is below 2^53
    (incl. -2^q, 2^31 / 2^32 neighbours): bit k of the position selects the non-zero of core k (exact Python
    integers), value v, out-of-range positions raise ValueError."""
    P = _big_positions(q, seed, True)
    msg = _vd_big(q, v, P, False)
    return FAIL(msg) if msg else PASS


@clause('C19.vector_delta.pos_ge_2p53', funcs=('vectors.vector_delta', 'utils._vector_index_expand'))
def vector_delta_pos_ge_2p53(q, v, seed):
    """same for q >= 54 and positions whose normalised value is >= 2^53 (e.g. -1, 2^q - 1, 2^53 + 3)."""
    P = _big_positions(q, seed, False)
    if not P:
        return SKIP('q < 54')
    msg = _vd_big(q, v, P, False)
    return FAIL(msg) if msg else PASS


@clause('C19.matrix_delta.large_q', funcs=('matrices.matrix_delta', 'utils._vector_index_prepare',
                                           'utils._vector_index_expand'))
def matrix_delta_large_q(q, v, seed):
    """matrix_delta for large q, row / column positions with normalised value below 2^53: core k is non-zero
    only at (bit k of i, bit k of j); value v; out-of-range row or column raises ValueError."""
    P = _big_positions(q, seed, True)
    msg = _vd_big(q, v, P[:10] + P[-4:], True)
    return FAIL(msg) if msg else PASS


@clause('C19.matrix_delta.pos_ge_2p53', funcs=('matrices.matrix_delta', 'utils._vector_index_expand'))
def matrix_delta_pos_ge_2p53(q, v, seed):
    """same for q >= 54 and row / column positions >= 2^53."""
    P = _big_positions(q, seed, False)
    if not P:
        return SKIP('q < 54')
    msg = _vd_big(q, v, P[:12] + P[-4:], True)
    return FAIL(msg) if msg else PASS


@clause('C19.index_helpers.bits', funcs=('utils._vector_index_prepare', 'utils._vector_index_expand'))
def index_helpers_bits(q, seed):
    """_vector_index_prepare: i -> i (i >= 0) or 2^q + i (i < 0), ValueError outside [-2^q, 2^q);
    _vector_index_expand of the normalised position: the q little-endian bits (list of length q of 0/1); expand of a
    non-negative value >= 2^q raises ValueError.  All positions for q <= 6, sampled ones below 2^53 beyond."""
    N = 1 << q
    P = list(range(-N - 2, N + 3)) if q <= 6 else _big_positions(q, seed, True) + [N, -N - 1, 2 * N + 1]
    for i in P:
        want = _norm_pos(q, i)
        try:
            w = teneva._vector_index_prepare(q, i)
        except ValueError:
            if want is not None:
                return FAIL(f'prepare(q={q}, {i}): ValueError for a position in range')
            continue
        if want is None:
            return FAIL(f'prepare(q={q}, {i}) = {w}: out of range but no ValueError')
        if isinstance(w, bool) or int(w) != want:
            return FAIL(f'prepare(q={q}, {i}) = {w!r}, wanted {want}')
        ind = teneva._vector_index_expand(q, w)
        if [int(b) for b in ind] != _bits(q, want):
            return FAIL(f'expand(q={q}, {w}) = {list(ind)[:8]}.., wanted {_bits(q, want)[:8]}..')
    for w in (N, N + 1, 3 * N):
        if w < (1 << 53):
            try:
                teneva._vector_index_expand(q, w)
            except ValueError:
                continue
            return FAIL(f'expand(q={q}, {w}): value needs more than q bits but no ValueError')
    return PASS


@clause('C19.poly.many_modes', funcs=('tensors.poly',))
def poly_many_modes(d, nk, shift_kind, power, scale, seed):
    """poly with many modes (d up to 100) / large mode sizes: value at sampled multi-indices (incl. both corners),
    evaluated by the chain of slices, against scale * sum_k (i_k + shift_k)^power computed with exact Fractions
    (shifts are dyadic); shift as number / list / ndarray."""
    from fractions import Fraction
    n = _shape_of(d, nk)
    g = gen.rng('C19pm', d, nk, shift_kind, seed)
    if shift_kind == 'number':
        sh = [0.5] * d
        arg = 0.5
    else:
        sh = [float(g.integers(-8, 9)) / 4 for _ in range(d)]
        arg = np.array(sh) if shift_kind == 'array' else list(sh)
    Y = teneva.poly(np.array(n) if shift_kind == 'array' else list(n), arg, power, scale)
    msg = gen.wf(Y, n)
    if msg:
        return FAIL(msg)
    if not gen.finite(Y):
        return FAIL('non-finite cores')
    S = [[0] * d, [k - 1 for k in n]] + [[int(g.integers(k)) for k in n] for _ in range(8)]
    for idx in S:
        terms = [(Fraction(i) + Fraction(s)) ** power for i, s in zip(idx, sh)]
        want = Fraction(scale) * sum(terms)
        mag = abs(Fraction(scale)) * sum(abs(t) for t in terms)
        got = _chain(Y, idx)
        if not abs(Fraction(got) - want) <= Fraction(16 * (d + 2) * EPS) * mag:
            return FAIL(f'entry {idx[:4]}..: {got!r} vs exact {float(want)!r} (sum of |terms| {float(mag):.3e})')
    return PASS


def _same(Y1, Y2):
    return len(Y1) == len(Y2) and all(G.shape == H.shape and np.array_equal(G, H) for G, H in zip(Y1, Y2))


@clause('C19.rand.seed_forms', funcs=('tensors.rand', 'tensors.rand_norm', 'tensors.rand_stab', 'utils._rand'))
def rand_seed_forms(fn, n, r, seed, bitgen):
    """seed as int / Generator / None for rand, rand_norm, rand_stab: structure as requested in every form; the same
    int seed twice gives the same tensor, different int seeds different ones; a Generator instance (PCG64 or MT19937)
    is really consumed (equal fresh generators give equal tensors, the state advances, a second call on the same
    generator gives another tensor); seed=None gives fresh values on every call; the global NumPy state is untouched."""
    def call(sd):
        if fn == 'rand':
            return teneva.rand(list(n), r, -2., 3., seed=sd)
        if fn == 'rand_norm':
            return teneva.rand_norm(list(n), r, 1., 2., seed=sd)
        return teneva.rand_stab(list(n), r, 1e-3, seed=sd)

    def fresh():
        return np.random.Generator(np.random.MT19937(seed) if bitgen == 'mt' else np.random.PCG64(seed))
    glob = gen.snapshot(list(np.random.get_state()))
    Y1, Y2, Y3 = call(seed), call(seed), call(seed + 1)
    g1, g2 = fresh(), fresh()
    s0 = repr(g1.bit_generator.state)
    Ya, Yb = call(g1), call(g2)
    s1 = repr(g1.bit_generator.state)
    Yc = call(g1)
    Yn, Ym = call(None), call(None)
    for nm, Y in (('int', Y1), ('int+1', Y3), ('generator', Ya), ('generator 2nd call', Yc), ('None', Yn)):
        msg = _structure(Y, n, r)
        if msg:
            return FAIL(f'seed form {nm}: ' + msg)
        x = np.concatenate([G.reshape(-1) for G in Y])
        if fn == 'rand' and not (x.min() >= -2. and x.max() <= 3.):
            return FAIL(f'seed form {nm}: entries outside [-2, 3]')
    if gen.snapshot(list(np.random.get_state())) != glob:
        return FAIL('global NumPy random state modified')
    if not _same(Y1, Y2):
        return FAIL('same int seed, different tensors')
    if not _same(Ya, Yb):
        return FAIL('equal fresh Generator instances, different tensors')
    if sum(G.size for G in Y1) < 4:
        return TRIVIAL('too few entries to tell tensors apart')
    if s1 == s0:
        return FAIL('the given Generator was not advanced')
    for nm, A, B in (('seeds s and s+1', Y1, Y3), ('two calls on one Generator', Ya, Yc), ('seed=None twice', Yn, Ym),
                     ('seed=None and an int seed', Yn, Y1)):
        if _same(A, B):
            return FAIL(f'{nm}: identical tensors')
    return PASS


@clause('C19.defaults', funcs=('tensors.const', 'tensors.delta', 'tensors.poly', 'tensors.rand', 'tensors.rand_norm',
                               'tensors.rand_stab', 'tensors.rand_custom', 'vectors.vector_delta',
                               'matrices.matrix_delta'))
def defaults(which, seed):
    """Documented default values: const v=1, delta v=1, poly shift=0 power=2 scale=1, rand [-1, 1], rand_norm N(0,1),
    rand_stab noise 1e-15, rand_custom f = standard normal sampler (structure only), vector_delta / matrix_delta v=1."""
    n, r = [6, 5, 7, 6], [1, 8, 9, 8, 1]
    if which == 'const':
        return check(bool(np.all(gen.dense(teneva.const([2, 3, 2])) == 1)), 'const(n) is not all ones')
    if which == 'const_zero':
        D = gen.dense(teneva.const([2, 3], I_zero=[[1, 2]], i_non_zero=[0, 2]))
        return check(D[1, 2] == 0 and D[0, 2] == 1 and bool(np.all((D == 0) | (D == 1))), f'{D.tolist()}')
    if which == 'delta':
        E = np.zeros((2, 3, 2))
        E[1, 2, 0] = 1
        return check(np.array_equal(gen.dense(teneva.delta([2, 3, 2], [1, 2, 0])), E), 'delta(n, i) is not 1 at i')
    if which in ('poly', 'poly_shift', 'poly_shift_power'):
        nn = [3, 2, 4]
        a = {'poly': (), 'poly_shift': (1.5,), 'poly_shift_power': (1.5, 3)}[which]
        sh, pw = a[0] if len(a) > 0 else 0., a[1] if len(a) > 1 else 2
        I = gen.all_indices(nn)
        want = ((I + sh) ** pw).sum(axis=1)
        got = gen.dense(teneva.poly(nn, *a))[tuple(I.T)]
        return check(np.array_equal(got, want), f'poly{(nn,) + a}: {got[:4]} vs {want[:4]}')
    if which in ('rand', 'rand_norm', 'rand_custom'):
        Y = teneva.rand(n, r, seed=seed) if which == 'rand' else teneva.rand_norm(n, r, seed=seed) \
            if which == 'rand_norm' else teneva.rand_custom(n, r)
        msg = _structure(Y, n, r)
        if msg:
            return FAIL(msg)
        x = np.concatenate([G.reshape(-1) for G in Y])
        N = x.size
        if which == 'rand':
            ok = x.min() >= -1 and x.max() <= 1 and x.min() <= -0.5 and x.max() >= 0.5 \
                and abs(x.mean()) <= 7 * 2 / math.sqrt(12 * N)
            return check(bool(ok), f'rand default range: [{x.min()}, {x.max()}], mean {x.mean()}')
        if which == 'rand_custom':
            return check(len(np.unique(x)) >= 0.99 * N, 'default sampler: repeated values')
        ok = abs(x.mean()) <= 7 / math.sqrt(N) and abs(x.std() - 1) <= 7 / math.sqrt(2 * N) + 2. / N
        return check(bool(ok), f'rand_norm default: mean {x.mean()} std {x.std()} (N={N})')
    if which == 'rand_stab':
        Y = teneva.rand_stab(n, r, seed=seed)
        msg = _structure(Y, n, r)
        if msg:
            return FAIL(msg)
        off = np.concatenate([(G - np.eye(G.shape[0], G.shape[2])[:, None, :])[
            np.broadcast_to(np.eye(G.shape[0], G.shape[2])[:, None, :] == 0, G.shape)] for G in Y])
        ok = np.abs(off).max() <= 8e-15 and abs(off.std() / 1e-15 - 1) <= 7 / math.sqrt(2 * off.size) + 2. / off.size
        return check(bool(ok), f'default noise level {off.std():.3e}, max {np.abs(off).max():.3e}, wanted 1e-15')
    if which == 'vector_delta':
        E = np.zeros(8)
        E[5] = 1
        return check(np.array_equal(gen.dense(teneva.vector_delta(3, 5)).reshape(-1, order='F'), E), 'v default')
    if which == 'matrix_delta':
        Y = teneva.matrix_delta(2, 1, 2)
        A = np.ones((1, 1))
        for G in Y:
            A = np.kron(G[0, :, :, 0], A)
        E = np.zeros((4, 4))
        E[1, 2] = 1
        return check(np.array_equal(A, E), 'v default')
    return FAIL('unknown case ' + which)


# ----------------------------------------------------------------------------------------------------------------
# input FORMS (f4-forms): shapes as list / tuple / int64 / int32 array / list of NumPy integers, values as Python / NumPy numbers
# (float64, float32, int64, int32, 0-d array), index arguments as list / tuple / int32 / uint8 / int8 / Fortran / view / read-only

EPS32 = float(np.finfo(np.float32).eps)
N_FORMS = ('list', 'tuple', 'array', 'i32array', 'npints', 'F_ro')


def _n_form(n, form):
    n = [int(k) for k in n]
    if form == 'tuple':
        return tuple(n)
    if form == 'array':
        return np.array(n, dtype=np.int64)
    if form == 'i32array':
        return np.array(n, dtype=np.int32)
    if form == 'npints':
        return [np.int64(k) for k in n]
    if form == 'F_ro':                       # read-only, non-contiguous int64 view
        big = np.zeros(2 * len(n), dtype=np.int64)
        big[::2] = n
        a = big[::2]
        a.flags.writeable = False
        return a
    return list(n)


def _v_form(v, form):
    """(value passed, its float64 image, eps of the arithmetic the unchanged library uses for the d-th root)"""
    if form == 'np32' and isinstance(v, float) and float(np.float32(v)) == v:
        return np.float32(v), float(v), EPS32        # abs(v) ** (1. / d) stays float32
    if form == 'np32' and isinstance(v, int):
        return np.int32(v), float(v), EPS
    if form in ('np64', 'np32'):
        return (np.int64(v) if isinstance(v, int) else np.float64(v)), float(v), EPS
    if form == '0d':
        return np.array(v), float(v), EPS
    return v, float(v), EPS


def _vtol_eps(v, d, eps):
    lg = abs(math.log(abs(float(v)))) if v != 0 else 0.0
    return 8.0 * (d + 2 + lg) * eps * abs(float(v))


@clause('C19.input_form.const_delta', funcs=('tensors.const', 'tensors.delta'))
def input_form_const_delta(fn, n, v, nform, vform, iform, seed, negative=False):
    """const / delta with the shape as list / tuple / int64 / int32 array / list of NumPy integers / read-only view, v as Python
    number, np.float64 / np.float32 / np.int64 / np.int32 scalar or 0-d array, the zero list / protected index / position as
    nested lists, tuples, int32 / uint8 / int8 arrays, Fortran-ordered, non-contiguous or read-only arrays (gen.idx_form).
    Reference: the float64 image of v (float32 v: the d-th root is taken in float32 by the unchanged library - float32
    tolerance).  const: values in {v, 0}, exact 0 at every listed row, v at the protected index; delta: v at the position
    (negative = counted from the end, signed dtypes only), exact 0 elsewhere; rank 1, float cores, arguments unchanged."""
    n = [int(k) for k in n]
    d = len(n)
    g = gen.rng('C19if', fn, n, seed)
    idx = gen.all_indices(n)
    vv, vi, eps = _v_form(v, vform)
    tol = _vtol_eps(vi, d, eps)
    nn = _n_form(n, nform)
    if fn == 'const':
        inz = idx[int(g.integers(len(idx)))].tolist()
        pool = [r_.tolist() for r_ in idx if r_.tolist() != inz]
        if not pool:
            return TRIVIAL('single-entry tensor')
        rows = [pool[int(g.integers(len(pool)))] for _ in range(3)]
        Iz = gen.idx_form(np.array(rows).reshape(-1, d), iform)
        pz = gen.idx_form(np.array([inz]), iform)[0]
        snap = gen.snapshot((Iz, pz, nn))
        Y = teneva.const(nn, vv, Iz, pz) if seed % 2 else teneva.const(n=nn, v=vv, I_zero=Iz, i_non_zero=pz)
        if gen.snapshot((Iz, pz, nn)) != snap:
            return FAIL('an argument was changed')
        msg = _rank_one(Y, n)
        if msg:
            return FAIL('not rank-1 / shape / float cores: ' + msg)
        D = gen.dense(Y)
        if vi == 0:
            return check(bool(np.all(D == 0)), 'v=0 but non-zero entries')
        okv = np.abs(D - vi) <= tol
        if not np.all(okv | (D == 0)):
            return FAIL(f'values outside {{v, 0}}: {D[~(okv | (D == 0))][:3]} (v = {vv!r})')
        if any(D[tuple(r_)] != 0 for r_ in rows):
            return FAIL(f'a listed zero index of {rows} is not 0')
        return check(bool(okv[tuple(inz)]), f'protected index {inz} holds {D[tuple(inz)]!r} instead of {vv!r}')
    pos = idx[int(g.integers(len(idx)))].tolist()
    t0 = iform.split('+')[0]
    if t0 in ('i8', 'u8'):                  # keep the position (or its negative spelling) inside the index dtype also for mode sizes >= 128
        lim = 127 if t0 == 'i8' else 255
        pos = [max(p_, k - 128) if negative else min(p_, lim) for p_, k in zip(pos, n)]
    arg = [p_ - k for p_, k in zip(pos, n)] if negative else pos
    if negative:
        a = np.array(arg, dtype={'i32': np.int32, 'i8': np.int8}.get(iform.split('+')[0], np.int64))
        if iform in ('list', 'tuple'):
            a = gen.idx_form(np.array([pos]), iform)[0].__class__(arg)
        elif '+' in iform or iform in ('F', 'V', 'ro'):
            return SKIP('layout forms are exercised with non-negative positions')
    else:
        a = gen.idx_form(np.array([pos]), iform)[0]
    snap = gen.snapshot((a, nn))
    Y = teneva.delta(nn, a, vv) if seed % 2 else teneva.delta(n=nn, i=a, v=vv)
    if gen.snapshot((a, nn)) != snap:
        return FAIL('an argument was changed')
    msg = _rank_one(Y, n)
    if msg:
        return FAIL('not rank-1 / shape / float cores: ' + msg)
    D = gen.dense(Y)
    got = D[tuple(pos)]
    if vi == 0:
        return check(bool(np.all(D == 0)), 'v=0 but non-zero entries')
    if not abs(got - vi) <= tol:
        return FAIL(f'position {arg}: entry {got!r} instead of {vv!r}')
    D[tuple(pos)] = 0
    return check(not np.any(D != 0), f'position {arg}: non-zero entries elsewhere')


@clause('C19.input_form.poly', funcs=('tensors.poly',))
def input_form_poly(n, shift, power, scale, nform, sform, pform, cform):
    """poly with the shape in the forms of C19.input_form.const_delta, the shift as tuple / int64 / int32 / float32 array / list of
    NumPy scalars / np.float64 scalar, the power as Python int / np.int64 / np.int32 / float, the scale as Python / NumPy number
    (float32 values are exact in float64): dense == scale * sum_k (i_k + shift_k)^power of the float64 images, exact for integer
    data, else within 16 (d + 2) eps of the sum of the moduli."""
    n = [int(k) for k in n]
    d = len(n)
    sh = [float(shift)] * d if not isinstance(shift, list) else [float(x) for x in shift]
    if sform == 'tuple':
        sa = tuple(sh) if isinstance(shift, list) else shift
    elif sform in ('i64', 'i32'):
        if not all(x.is_integer() for x in sh):
            return SKIP('integer shift array needs integer shifts')
        sa = np.array(sh).astype(np.int64 if sform == 'i64' else np.int32)
    elif sform == 'f32':
        sa = np.array(sh, dtype=np.float32)
        sh = [float(x) for x in sa]
    elif sform == 'npscalars':
        sa = [np.float64(x) for x in sh]
    elif sform == 'np64scalar':
        if isinstance(shift, list):
            return SKIP('scalar form needs a scalar shift')
        sa = np.float64(shift)
    elif sform == 'V_ro':
        big = np.zeros(2 * d)
        big[1::2] = sh
        sa = big[1::2]
        sa.flags.writeable = False
    else:
        sa = list(sh) if isinstance(shift, list) else shift
    pw = {'np64': np.int64(power), 'np32': np.int32(power), 'float': float(power)}.get(pform, int(power))
    sc, sci, _ = _v_form(scale, cform)
    nn = _n_form(n, nform)
    Y = teneva.poly(nn, sa, pw, sc) if d % 2 else teneva.poly(n=nn, shift=sa, power=pw, scale=sc)
    msg = gen.wf(Y, n)
    if msg:
        return FAIL(msg)
    D = gen.dense(Y)
    I = gen.all_indices(n)
    got = D[tuple(I.T)]
    if all(x.is_integer() for x in sh) and float(sci).is_integer():
        want = [int(sci) * sum((int(i) + int(x)) ** int(power) for i, x in zip(row, sh)) for row in I]
        if max(abs(w) for w in want) < 2 ** 52:
            bad = [k for k, (w, g_) in enumerate(zip(want, got)) if not float(w) == g_]
            return check(not bad, f'entry {I[bad[0]].tolist() if bad else None}: {got[bad[0]] if bad else None!r} != exact {want[bad[0]] if bad else None}')
    terms = np.array([[(float(i) + x) ** int(power) for i, x in zip(row, sh)] for row in I])
    want = sci * terms.sum(axis=1)
    mag = abs(sci) * np.abs(terms).sum(axis=1)
    bad = ~(np.abs(got - want) <= 16 * (d + 2) * EPS * mag + 1e-300)
    return check(not bad.any(), f'entry {I[int(np.argmax(bad))].tolist()}: {got[int(np.argmax(bad))]!r} vs {want[int(np.argmax(bad))]!r}')


def _r_form(r, form):
    if isinstance(r, list):
        return {'tuple': tuple(r), 'i32array': np.array(r, dtype=np.int32), 'array': np.array(r), 'npints': [np.int64(x) for x in r]}.get(form, list(r))
    return {'float': float(r), 'np64float': np.float64(r)}.get(form, int(r))


def _num(x, form):
    if form == 'int' and float(x).is_integer():
        return int(x)
    if form == 'np32' and float(np.float32(x)) == float(x):
        return np.float32(x)
    if form in ('np64', 'np32'):
        return np.float64(x)
    if form == '0d':
        return np.array(float(x))
    return float(x)


@clause('C19.input_form.rand', funcs=('tensors.rand', 'tensors.rand_norm', 'tensors.rand_stab', 'tensors.rand_custom'))
def input_form_rand(fn, n, r, nform, rform, numform, seed, posseed):
    """Random constructors with the shape in the forms of C19.input_form.const_delta, the ranks as int / float / np.float64 (scalar)
    or list / tuple / int64 / int32 array / list of NumPy integers (per bond), the numbers a, b / m, s / noise as
    Python int / float / np.float64 / np.float32 / 0-d array, the seed by keyword or as last positional argument: well-formed,
    requested shape and rank profile, entries in [a, b] (rand), standardised mean within 7 / sqrt(N) (rand_norm, N >= 300),
    identity pattern within 8 noise (rand_stab), each value drawn used once (rand_custom)."""
    n = [int(k) for k in n]
    nn, rr = _n_form(n, nform), _r_form(r, rform)
    if fn == 'rand':
        a, b = -2.0, 3.0
        args = (nn, rr, _num(a, numform), _num(b, numform))
    elif fn == 'rand_norm':
        m_, s_ = 1.0, 0.5
        args = (nn, rr, _num(m_, numform), _num(s_, numform))
    elif fn == 'rand_stab':
        noise = 2.0 ** -10
        args = (nn, rr, _num(noise, numform))
    else:
        g = gen.rng('C19ifr', n, seed)
        calls = []

        def f(size):
            v = g.permutation(int(size)).astype(float) + 0.5
            calls.append(v.copy())
            return v.astype(np.float32) if numform == 'np32' else v.tolist() if numform == 'int' else v
        Y = teneva.rand_custom(nn, rr, f) if posseed else teneva.rand_custom(n=nn, r=rr, f=f)
        msg = _structure(Y, n, r)
        if msg:
            return FAIL(msg)
        x = np.sort(np.concatenate([G.reshape(-1) for G in Y]))
        return check(len(calls) == 1 and np.array_equal(x, np.sort(calls[0])), 'cores are not a rearrangement of the values drawn from f')
    F = getattr(teneva, fn)
    Y = F(*args, seed) if posseed else F(*args, seed=seed)
    msg = _structure(Y, n, r)
    if msg:
        return FAIL(msg)
    x = np.concatenate([G.reshape(-1) for G in Y])
    if fn == 'rand':
        if not (x.min() >= a and x.max() <= b):
            return FAIL(f'entries [{x.min()}, {x.max()}] outside [{a}, {b}]')
        if x.size >= 200 and not (x.min() <= a + 1.25 and x.max() >= b - 1.25):
            return FAIL(f'{x.size} entries cover only [{x.min()}, {x.max()}] of [{a}, {b}]')
    elif fn == 'rand_norm':
        z = (x - m_) / s_
        if x.size >= 300 and not (abs(z.mean()) <= 7 / math.sqrt(x.size) and abs(z.std() - 1) <= 7 / math.sqrt(2 * x.size) + 2.0 / x.size):
            return FAIL(f'mean {x.mean()} / std {x.std()} vs m={m_}, s={s_} (N={x.size})')
    else:
        dev = np.concatenate([(G - np.eye(G.shape[0], G.shape[2])[:, None, :]).reshape(-1) for G in Y])
        if not np.abs(dev).max() <= 8 * noise:
            return FAIL(f'deviation from the identity pattern {np.abs(dev).max():.3e} > 8 * noise = {8 * noise:.3e}')
        if dev.size >= 300 and not abs(dev.std() / noise - 1) <= 7 / math.sqrt(2 * dev.size) + 2.0 / dev.size:
            return FAIL(f'noise level {dev.std():.3e} vs requested {noise:.3e}')
    Y2 = F(*args, seed) if not posseed else F(*args, seed=seed)
    return check(_same(Y, Y2), 'seed given by keyword and positionally: different tensors')


@clause('C19.input_form.qtt_delta', funcs=('vectors.vector_delta', 'matrices.matrix_delta', 'utils._vector_index_prepare',
                                           'utils._vector_index_expand'))
def input_form_qtt_delta(q, v, qform, iform, vform, seed):
    """vector_delta / matrix_delta with q as np.int64 / np.int32 / np.uint8, the positions as np.int64 / np.int32 / np.int16 /
    np.int8 / np.uint8 / np.uint16 scalars or 0-d arrays (non-negative positions that fit the dtype; negative positions only in
    signed dtypes that can also hold 2^q), v as NumPy number, keyword call: v at the position, 0 elsewhere (bit by bit)."""
    N = 1 << q
    g = gen.rng('C19ifq', q, seed)
    dt = {'i64': np.int64, 'i32': np.int32, 'i16': np.int16, 'i8': np.int8, 'u8': np.uint8, 'u16': np.uint16, '0d': np.int64}.get(iform)
    hi = N - 1 if dt is None else min(N - 1, int(np.iinfo(dt).max))
    P = sorted({0, hi, hi // 2, int(g.integers(0, hi + 1)), int(g.integers(0, hi + 1))})
    if dt is None or (np.dtype(dt).kind == 'i' and N <= int(np.iinfo(dt).max)):
        P += [-1, -N, -(N // 2) - 1 if N > 2 else -1]
    qq = {'np64': np.int64(q), 'np32': np.int32(q), 'u8': np.uint8(q)}.get(qform, q)
    vv, vi, _ = _v_form(v, vform)

    def conv(i):
        return i if dt is None else (np.array(i, dtype=dt) if iform == '0d' else dt(i))
    for i in P:
        j = P[(P.index(i) + 1) % len(P)]
        Y = teneva.vector_delta(q=qq, i=conv(i), v=vv) if seed % 2 else teneva.vector_delta(qq, conv(i), vv)
        msg = _rank_one(Y, [2] * q) or _delta_rank1(_vecs(Y), _bits(q, i % N), vi, 0.0)
        if msg:
            return FAIL(f'vector_delta(q={qq!r}, i={conv(i)!r}, v={vv!r}): ' + msg)
        M = teneva.matrix_delta(q=qq, i=conv(i), j=conv(j), v=vv) if seed % 2 else teneva.matrix_delta(qq, conv(i), conv(j), vv)
        if not isinstance(M, list) or len(M) != q or any(not isinstance(G, np.ndarray) or G.shape != (1, 2, 2, 1) or G.dtype.kind != 'f' for G in M):
            return FAIL(f'matrix_delta: cores {[getattr(G, "shape", None) for G in M][:4]}')
        pos = [2 * a_ + b_ for a_, b_ in zip(_bits(q, i % N), _bits(q, j % N))]
        msg = _delta_rank1(_vecs(M), pos, vi, 0.0)
        if msg:
            return FAIL(f'matrix_delta(q={qq!r}, i={conv(i)!r}, j={conv(j)!r}, v={vv!r}): ' + msg)
    return PASS


@clause('C19.rand.rank_numpy_scalar', funcs=('tensors.rand', 'tensors.rand_norm', 'tensors.rand_stab', 'tensors.rand_custom'))
def rand_rank_numpy_scalar(fn, n, r, rform):
    """POSSIBLE DEFECT: the scalar rank given as a NumPy integer / float32 scalar (np.int64(r) - e.g. r = np.max(teneva.ranks(Y)),
    np.int32, np.float32; the Python int, float and np.float64 - a float subclass - are accepted): well-formed tensor of the
    requested shape with all inner ranks r.  (Pinned tree: `isinstance(r, (int, float))` is False, the 0-d array is then
    indexed like a profile -> IndexError.)"""
    rr = {'np64': np.int64(r), 'np32': np.int32(r), 'npf32': np.float32(r), '0d': np.array(r)}[rform]
    Y = teneva.rand(n, rr, seed=1) if fn == 'rand' else teneva.rand_norm(n, rr, seed=1) if fn == 'rand_norm' \
        else teneva.rand_stab(n, rr, seed=1) if fn == 'rand_stab' else teneva.rand_custom(n, rr)
    msg = _structure(Y, n, r)
    return FAIL(msg) if msg else PASS


@clause('C19.rand.seed_numpy_int', funcs=('tensors.rand', 'tensors.rand_norm', 'tensors.rand_stab', 'utils._rand'))
def rand_seed_numpy_int(fn, n, r, seed, sform):
    """POSSIBLE DEFECT: the seed ("an integer number or a numpy Generator") given as NumPy integer (np.int64 / np.int32, e.g. the
    loop variable of `for seed in np.arange(10)`): well-formed tensor, repeatable, different for seed + 1.  (Pinned tree:
    utils._rand tests isinstance(seed, int) and otherwise uses the seed AS the generator -> AttributeError.)"""
    F = getattr(teneva, fn)
    cv = np.int64 if sform == 'np64' else np.int32
    Y1, Y2, Y3 = F(n, r, seed=cv(seed)), F(n, r, seed=cv(seed)), F(n, r, seed=cv(seed + 1))
    msg = _structure(Y1, n, r)
    if msg:
        return FAIL(msg)
    if not _same(Y1, Y2):
        return FAIL('same seed, different tensors')
    return check(not _same(Y1, Y3), 'seeds s and s + 1: identical tensors')


@clause('C19.poly.shift_numpy_scalar', funcs=('tensors.poly', 'grid.grid_prep_opt'))
def poly_shift_numpy_scalar(n, shift, sform):
    """POSSIBLE DEFECT: the scalar shift ("It may be also float value") given as NumPy scalar other than np.float64 (np.int64,
    np.int32, np.float32) or 0-d array: dense == sum_k (i_k + shift)^2.  (Pinned tree: grid_prep_opt tests
    isinstance(opt, (int, float)); the 0-d array is then indexed per mode -> IndexError.)"""
    sa = {'np64': np.int64, 'np32': np.int32, 'npf32': np.float32, '0d': np.array}[sform](shift)
    Y = teneva.poly(n, sa)
    msg = gen.wf(Y, n)
    if msg:
        return FAIL(msg)
    I = gen.all_indices(n)
    want = ((I + float(shift)) ** 2).sum(axis=1)
    return check(np.array_equal(gen.dense(Y)[tuple(I.T)], want), 'entries differ from sum_k (i_k + shift)^2')


def cases(tier, seed):
    big = tier == 'thorough'
    g = gen.rng('C19', seed)

    def rs():
        return int(g.integers(1 << 30))

    for n in SHAPES:
        for v in VALUES:
            yield 'C19.const.plain', dict(n=n, v=v, as_array=bool(len(n) % 2))
    for n in ([2, 2], [2, 3], [3, 1, 2], [2, 2, 2]) + (([2, 2, 2, 2],) if big else ()):
        for v in (1.0, -2.5, 0.0, 1e-300, 3):
            for as_array in (False, True):
                yield 'C19.const.zeros_pairs', dict(n=list(n), v=v, as_array=as_array)
    for n in SHAPES:
        for rows in (1, 2, 3, 6):
            for protect in (False, True):
                for conflict in (False, True):
                    for rep in range(4 if big else 1):
                        yield 'C19.const.zeros_random', dict(n=n, v=[-3.0, 1.0, 7.5e-5, 1e-300][rows % 4], rows=rows,
                                                             protect=protect, conflict=conflict and protect,
                                                             seed=rs(), as_array=bool(rows % 2))
    for n in SHAPES:
        for v in VALUES if big else VALUES[:6] + VALUES[9:13] + VALUES[-2:]:
            for negative in (False, True):
                yield 'C19.delta.exhaustive', dict(n=n, v=v, negative=negative)
    for q in range(1, 7 if big else 5):
        for v in (1.0, -2.5, 0.0, 3, 1e-300):
            yield 'C19.vector_delta.exhaustive', dict(q=q, v=v)
    for q in range(1, 5 if big else 4):
        for v in (1.0, -2.5, 0.0, 1e-300):
            yield 'C19.matrix_delta.exhaustive', dict(q=q, v=v)
    pshapes = [[2, 2], [3, 2], [1, 4], [2, 3, 4], [3, 1, 2], [1, 1, 1], [2, 2, 2, 2], [4, 3, 2, 3], [2, 2, 2, 2, 2]]
    for n in pshapes:
        d = len(n)
        shifts = [0, 0.0, 1, -2, 0.5, -1.25, list(range(d)), [-(k % 3) for k in range(d)],
                  [0.25 * k - 0.5 for k in range(d)]]
        for shift in shifts:
            for power in (0, 1, 2, 3, 4):
                for scale in (1.0, -3, 0.5, 2) if big else (1.0, -3, 0.5):
                    yield 'C19.poly.value', dict(n=n, shift=shift, power=power, scale=scale)
    if big:
        for n in pshapes[:4]:
            for rep in range(10):
                yield 'C19.poly.value', dict(n=n, shift=[float(x) for x in g.uniform(-3, 3, size=len(n))],
                                             power=int(g.integers(0, 6)), scale=float(g.normal()))
    rshapes = [[2, 2], [1, 1], [3, 1, 2], [5, 4, 3], [6, 6, 6, 6], [2] * 8, [4, 1, 4, 1, 4], [7, 3]]
    for n in rshapes:
        d = len(n)
        profiles = [1, 2, 5, [1] + [2] * (d - 1) + [1], [1] + [1 + (k % 4) for k in range(d - 1)] + [1],
                    [1] + [max(1, 6 - 2 * k) for k in range(d - 1)] + [1]]
        for r in profiles:
            for rep in range(6 if big else 1):
                a, b = [(-1.0, 1.0), (0.0, 1.0), (2.5, 2.75), (-1e6, 3e6), (-1e-8, 1e-8)][int(g.integers(5))]
                yield 'C19.rand.range', dict(n=n, r=r, a=a, b=b, seed=rs(), as_array=bool(rep % 2) or r == 5)
                yield 'C19.rand_norm.distribution', dict(n=n, r=r, m=0.0, s=1.0, seed=rs(),
                                                         as_array=(d + rep) % 2 == 0)
                yield 'C19.rand_custom.uses_f', dict(n=n, r=r, seed=rs(), ret_list=bool(rep % 2),
                                                     as_array=(d + rep) % 2 == 1)
    for n, r in (([6, 6, 6, 6], 8), ([10] * 5, 6), ([3] * 10, [1] + [5, 7] * 4 + [5, 1]), ([40, 40], 30)):
        for m_, s_ in ((0.0, 1.0), (3.0, 0.25), (-1e3, 1e-3), (0.5, 1e4)):
            for rep in range(3 if big else 1):
                yield 'C19.rand_norm.distribution', dict(n=n, r=r, m=m_, s=s_, seed=rs())
                yield 'C19.rand.range', dict(n=n, r=r, a=m_ - s_, b=m_ + 2 * s_, seed=rs(), as_array=False)
    for d in (2, 3, 5, 10, 20, 50):
        for nk in (2, 1, 5):
            for r in (1, 2, 4) + ((7,) if big else ()):
                for noise in (1e-15, 0.0, 1e-6, 1e-3):
                    yield 'C19.rand_stab.ones', dict(d=d, nk=nk, r=r, noise=noise, seed=rs(), as_array=r == 2)
    for nk, r in (([3, 1, 4, 2], [1, 2, 3, 2, 1]), ([2, 2, 2], [1, 4, 2, 1]), ([30, 30, 30], 6), ([12] * 6, 5)):
        for noise in (1e-15, 1e-2):
            yield 'C19.rand_stab.ones', dict(d=len(nk), nk=nk, r=r, noise=noise, seed=rs(), as_array=noise == 1e-2)

    # ------------------------------------------------------------------ parameter-coverage additions
    xshapes = [[2, 2], [3, 1, 2], [2, 2, 2, 2], [2, 2, 2, 2, 2]]
    for n in SHAPES_X:
        for v in VALUES + VALUES_X:
            yield 'C19.const.plain', dict(n=n, v=v, as_array=bool(len(n) % 2))
    for n in SHAPES if big else xshapes:
        for v in VALUES_X:
            yield 'C19.const.plain', dict(n=n, v=v, as_array=bool(len(n) % 2))
        for v in (-2.0, 1e-300, 0.37, 3):
            yield 'C19.const.plain', dict(n=n, v=v, as_array=not len(n) % 2)
    for form in ('empty_list', 'empty_array', 'nz_only', 'rows_list_nz_array', 'rows_array_nz_list', 'n_array', 'int32',
                 'v_float64', 'v_int64'):
        for n in ([2, 3], [3, 1, 2], [2, 2, 2, 2], [1, 1]):
            for v in (2.0, -3.0, 1e-300, 0.0):
                yield 'C19.const.arg_forms', dict(form=form, n=n, v=v, seed=rs())
    many = [(7, 2), (100, 2), (61, [3, 1, 2]), (2, [600, 2]), (3, [513, 2, 700])] \
        + ([(6, 2), (12, 2), (61, 2), (60, [3, 1, 2]), (33, [1, 4]), (200, 2), (300, [2, 3])] if big else [])
    for d, nk in many:
        for v in MANY_V + [1e-8, -1e8, 1.0000001e-16, 5e-324] if big else MANY_V[1:6]:
            for rows, protect, near in ((0, False, False), (5, False, False), (5, True, False), (7, True, True))[
                    0 if big or d > 60 else 1:]:
                for rep in range(3 if big else 1):
                    yield 'C19.const.many_modes', dict(d=d, nk=nk, v=v, rows=rows, protect=protect, near=near,
                                                       seed=rs(), as_array=bool((d + rows + rep) % 2))
    for n in SHAPES + SHAPES_X[:2]:
        for v in (1.0, -2.5, 1e-300) + ((1e300, -1e-17, 0.0) if big else ()):
            yield 'C19.delta.exhaustive', dict(n=n, v=v, negative=2, n_array=True)
            if len(n) == 1:
                yield 'C19.delta.exhaustive', dict(n=n, v=v, negative=0, n_array=False)
    for d, nk in [(1, 5), (2, 3)] + many:
        for v in MANY_V + [1e-8, -1e8, 1.0000001e-16, 5e-324] if big else MANY_V[1:]:
            for negative in (0, 1, 2) if big or d > 3 else (1, 2):
                yield 'C19.delta.many_modes', dict(d=d, nk=nk, v=v, negative=negative, seed=rs(),
                                                   as_array=bool((d + negative) % 2))
    for q in range(1, 5):
        yield 'C19.vector_delta.exhaustive', dict(q=q, v=-2.5, np_int=True)
        for v in (1e300, -1e300, 1e-8):
            yield 'C19.vector_delta.exhaustive', dict(q=q, v=v)
    for q in (1, 2):
        yield 'C19.matrix_delta.exhaustive', dict(q=q, v=-2.5, np_int=True)
        yield 'C19.matrix_delta.exhaustive', dict(q=q, v=-1e300)
    for k, q in enumerate((7, 31, 32, 33, 53, 54, 64, 100) + ((10, 20, 52, 60, 63, 65, 150, 200) if big else ())):
        for v in (1.0, -2.5e-300, 0.0, 1e300, 3) if big else ((1.0, -2.5e-300)[k % 2],):
            for rep in range(4 if big else 1):
                yield 'C19.vector_delta.large_q', dict(q=q, v=v, seed=rs())
    for k, q in enumerate((5, 31, 33, 53, 54, 64, 100) + ((10, 32, 60, 200) if big else ())):
        for v in (1.0, -2.5, 0.0, 1e-300) if big else ((1.0, -2.5)[k % 2],):
            yield 'C19.matrix_delta.large_q', dict(q=q, v=v, seed=rs())
    for q in (54, 55, 60, 63, 64, 100):
        for v in (1.0, -2.5):
            yield 'C19.vector_delta.pos_ge_2p53', dict(q=q, v=v, seed=rs())
            if q in (54, 60, 64, 100):
                yield 'C19.matrix_delta.pos_ge_2p53', dict(q=q, v=v, seed=rs())
    for q in (1, 2, 3, 4, 5, 6, 10, 31, 32, 33, 53, 54, 64, 100):
        yield 'C19.index_helpers.bits', dict(q=q, seed=rs())
    # poly: argument forms, negative / fractional / large powers, scales, extreme shifts, large modes, many modes
    for j, n in enumerate(pshapes):
        d = len(n)
        for k, shift in enumerate(([float(x) for x in range(d)], [-(x % 3) for x in range(d)],
                                   [0.25 * x - 0.5 for x in range(d)])):
            yield 'C19.poly.value', dict(n=n, shift=shift, power=1 + (j + k) % 4, scale=[-3, 0.5][k % 2],
                                         n_array=bool((j + k) % 2), shift_array=True)
        for shift in (1, -1.25):
            yield 'C19.poly.value', dict(n=n, shift=shift, power=3, scale=2, n_array=True, shift_array=False)
    for j, n in enumerate(([2, 2], [3, 2], [2, 3, 4], [2, 2, 2, 2])):
        d = len(n)
        for k, shift in enumerate((1, 0.5, 2.25, [1.0 + x for x in range(d)], [0.5 + 0.25 * x for x in range(d)])):
            for power in (-1, -2, 0.5, 1.5, 10, 7) + ((-3, 2.0, 13, 20) if big else ()):
                yield 'C19.poly.value', dict(n=n, shift=shift, power=power, scale=[1.0, -3][(j + k) % 2],
                                             n_array=False, shift_array=bool(k % 2))
    for n in ([2, 2], [2, 3, 4], [2, 2, 2, 2]):
        for shift in (0, -1.25, [0.25 * x - 0.5 for x in range(len(n))]):
            for power in (1, 3) if big else (3,):
                for scale in (0, 0.0, 1e-300, 1e300, -1e8, 1e-8):
                    yield 'C19.poly.value', dict(n=n, shift=shift, power=power, scale=scale)
    for n in ([3, 2], [2, 2, 3]):
        for shift in (1e8, -1e8 + 0.5, 1e-8, 1e-300, [1e8, -1e-8, 3.0][:len(n)]):
            for power in (1, 2, 3):
                yield 'C19.poly.value', dict(n=n, shift=shift, power=power, scale=[1.0, -3][power % 2])
    for n in ([600, 2], [2, 513]):
        for shift in (0, -1.25):
            yield 'C19.poly.value', dict(n=n, shift=shift, power=2 if shift == 0 else 3, scale=-3)
    for d, nk in [(2, 2), (10, 2), (61, 2), (100, [3, 1, 4])] + ([(3, 5), (30, [2, 3]), (200, 2)] if big else []):
        for k, kind in enumerate(('number', 'list', 'array')):
            ps = ((1, 1.0), (2, -0.75), (3, 1e8), (0, 2.0), (4, 1e-8))
            for power, scale in ps if big else (ps[(k + d) % 3],):
                yield 'C19.poly.many_modes', dict(d=d, nk=nk, shift_kind=kind, power=power, scale=scale, seed=rs())
    # random constructors: many modes, large modes, degenerate / extreme ranges and scales, seed forms, defaults
    for n, r in (([3] * 100, 2), ([600, 3], 4), ([2] * 61, [1] + [3, 2] * 30 + [1]), ([7], [1, 1])):
        yield 'C19.rand.range', dict(n=n, r=r, a=-1.0, b=1.0, seed=rs(), as_array=isinstance(r, list))
        yield 'C19.rand_norm.distribution', dict(n=n, r=r, m=0.5, s=2.0, seed=rs(), as_array=isinstance(r, list))
        yield 'C19.rand_custom.uses_f', dict(n=n, r=r, seed=rs(), ret_list=False, as_array=isinstance(r, list))
    for a, b in ((2.5, 2.5), (1e-300, 2e-300), (-1e300, 1e300), (-1e-8, 3e-8), (1e8, 1.0000001e8), (0.0, 5e-324)):
        # 220 core entries (spread / mean / distinctness checks apply) except for the two-point subnormal range
        yield 'C19.rand.range', dict(n=[5, 4, 3, 4], r=5 if b > 1e-320 else 4, a=a, b=b, seed=rs(), as_array=False)
    for m_, s_ in ((0.0, 1e-8), (0.0, 1e8), (0.0, 1e-300), (1e100, 1e95), (1e-8, 1e-8), (-1e8, 1e4)):
        yield 'C19.rand_norm.distribution', dict(n=[6, 6, 6, 6], r=8, m=m_, s=s_, seed=rs())
    for d, nk, r in ((100, 2, 2), (100, [3, 1, 2] * 33 + [3], [1] + [2, 3] * 49 + [2, 1]), (2, [600, 513], 4)) \
            + (((300, 2, 3), (1000, 2, 2)) if big else ()):
        for noise in (1e-15, 1e-3) if big else (1e-3,):
            yield 'C19.rand_stab.ones', dict(d=d, nk=nk, r=r, noise=noise, seed=rs(), as_array=d == 100)
    for d, nk, r, noise in ((4, 6, 8, 1e-300), (4, 6, 8, 0.1), (3, 2, 5, 0.5), (20, 3, 3, 1e-8), (6, 6, 8, 1e-30)):
        yield 'C19.rand_stab.ones', dict(d=d, nk=nk, r=r, noise=noise, seed=rs())
    # gap closure: explicitly requested, observable noise level - two-sided size of the deviation from the all-ones tensor
    nl = [([4, 5, 6], (1, 2, [1, 3, 2, 1])), ([2, 2], (1, 3)), ([6, 6, 6, 6], (1, 4)), ([3, 1, 4, 2], (1, [1, 2, 3, 2, 1])), ([7, 8], (1, 4)),
          ([3] * 6, (1, 2)), ([2] * 16, (1, 2)), ([2] * 40, (1, 3)), ([5, 4, 6, 3], ([1, 3, 1, 2, 1],)), ([1, 1, 9], (1, 2))] \
        + ([([3] * 30, (1, 2, 5)), ([2] * 100, (1, 2)), ([30, 30, 30], (1, 6)), ([2, 600], (1, 3)), ([4, 5, 6], (3, 7, [1, 4, 6, 1]))] if big else [])
    gn = gen.rng('C19.noise_level', seed)           # own stream: the seeds of the other cases stay what they were
    levels = (1e-8, 1e-6, 1e-4, 1e-3, 1e-2, 3e-2)
    k = 0
    for n, profs in nl:
        for r in profs:
            rmax = r if isinstance(r, int) else max(r)
            ok = [x for x in levels if x * math.sqrt(len(n) * rmax) <= 0.1]
            k += 1
            for j, noise in enumerate(ok):
                # quick: rank 1 gets two levels (one or two for many modes), the other profiles one, rotating through the levels
                if not (big or (r == 1 and (j + k) % (3 if len(n) < 10 else 4) == 0) or (r != 1 and j == k % len(ok) and len(n) < 30)):
                    continue
                for rep in range(3 if big else 1):
                    yield 'C19.rand_stab.noise_level', dict(n=n, r=r, noise=noise, seed=int(gn.integers(10 ** 6)), reps=_stab_reps(n),
                                                            genobj=bool((k + j + rep) % 3 == 0), as_array=bool((k + j) % 2))
    for fn in ('rand', 'rand_norm', 'rand_stab'):
        for n, r in (([4, 3, 5], 3), ([2, 2], [1, 2, 1]), ([3] * 12, 2), ([1, 1], 1)):
            for bitgen in ('pcg', 'mt') if big or len(n) == 3 else ('pcg',):
                for sd in (0, rs()) + ((rs(), 2 ** 40 + 7) if big else ()):
                    yield 'C19.rand.seed_forms', dict(fn=fn, n=n, r=r, seed=sd, bitgen=bitgen)
    # ------------------------------------------------------------------ input FORMS (f4-forms)
    i_forms = ('list', 'tuple', 'i32', 'u8', 'i8', 'F', 'V', 'ro', 'i32+F', 'u8+V+ro')
    v_forms = ('py', 'np64', 'np32', '0d')
    vals = (2.0, -3.0, 0.375, -5.25e3, 3, -2, 0.0, 1e-300, 1e-16, -1e150)
    j = 0
    for n in ([2, 3], [3, 1, 2], [2, 2, 2, 2]) + (([4, 1], [2, 3, 4], [2] * 5) if big else ()):
        for fn in ('const', 'delta'):
            for iform in i_forms:
                for vform in v_forms:
                    j += 1
                    if not big and j % 2:
                        continue
                    yield 'C19.input_form.const_delta', dict(fn=fn, n=n, v=vals[j % len(vals)], nform=N_FORMS[j % len(N_FORMS)], vform=vform,
                                                             iform=iform, seed=j)
            for iform in ('list', 'tuple', 'i32', 'i8', 'i64'):
                j += 1
                yield 'C19.input_form.const_delta', dict(fn='delta', n=n, v=vals[j % 6], nform=N_FORMS[j % len(N_FORMS)], vform=v_forms[j % 4],
                                                         iform=iform, seed=j, negative=True)
    for n in ([200, 3], [3, 300], [130, 2, 129]):     # mode sizes beyond int8 / uint8 with int8 / uint8 / int32 index arrays
        for iform, negative in (('i8', True), ('i8', False), ('u8', False), ('i32', True), ('u8+V+ro', False)):
            j += 1
            yield 'C19.input_form.const_delta', dict(fn='delta', n=n, v=vals[j % 6], nform=N_FORMS[j % len(N_FORMS)], vform=v_forms[j % 4],
                                                     iform=iform, seed=j, negative=negative)
    j = 0
    for n in ([2, 2], [3, 2, 4], [2, 2, 2, 2]):
        d = len(n)
        for shift in (1, -1.25, [float(x) for x in range(d)], [0.25 * x - 0.5 for x in range(d)], [-(x % 3) for x in range(d)]):
            for sform in ('tuple', 'i64', 'i32', 'f32', 'npscalars', 'np64scalar', 'V_ro', 'plain'):
                j += 1
                if not big and j % 2:
                    continue
                yield 'C19.input_form.poly', dict(n=n, shift=shift, power=1 + j % 4, scale=(1.0, -3, 0.5, 2)[j % 4], nform=N_FORMS[j % len(N_FORMS)],
                                                  sform=sform, pform=('py', 'np64', 'np32', 'float')[(j // 2) % 4], cform=v_forms[(j // 3) % 4])
    for n in ([3, 2], [2, 3, 2]):                     # float32 shift arrays whose values are no short dyadic numbers (image = the float32 values)
        for power in (1, 3, 4):
            yield 'C19.input_form.poly', dict(n=n, shift=[0.1 * (x + 1) for x in range(len(n))], power=power, scale=0.3, nform='tuple', sform='f32',
                                              pform=('py', 'np64')[power % 2], cform='np64')
    j = 0
    for n, r in (([4, 3, 5], 3), ([4, 3, 5], [1, 2, 4, 1]), ([2, 2], 2), ([6, 6, 6, 6], [1, 5, 7, 5, 1]), ([3] * 7, 2)):
        for fn in ('rand', 'rand_norm', 'rand_stab', 'rand_custom'):
            for rform in (('tuple', 'i32array', 'array', 'npints') if isinstance(r, list) else ('float', 'np64float', 'int')):
                for numform in ('int', 'np32', 'np64', '0d', 'py'):
                    j += 1
                    if not big and j % 3:
                        continue
                    yield 'C19.input_form.rand', dict(fn=fn, n=n, r=r, nform=N_FORMS[j % len(N_FORMS)], rform=rform, numform=numform,
                                                      seed=j, posseed=bool((j // 3) % 2))
    j = 0
    for q in (1, 3, 6, 7, 9, 14, 20, 30, 31, 40, 62):
        for iform in ('i64', 'i32', 'i16', 'i8', 'u8', 'u16', '0d', 'py'):
            j += 1
            qform = ('py', 'np64', 'np32')[j % 3]
            yield 'C19.input_form.qtt_delta', dict(q=q, v=(2.5, -3, 1.0, -0.375)[j % 4], qform=qform if q <= 30 or qform != 'np32' else 'np64', iform=iform,
                                                   vform=v_forms[(j // 2) % 4], seed=j)
    # DOUBTFUL (disabled): a NEGATIVE position in a NumPy integer type that cannot hold 2^q (np.int8 for q >= 7, np.int32 for q >= 31,
    # np.int64 for q >= 63): _vector_index_prepare forms `n + i` / `i >= n` with the Python integer n = 2^q, which NumPy 2 refuses
    # (OverflowError: Python integer 8589934592 out of bounds for int32), e.g. teneva.vector_delta(33, np.int32(-3)).  The position itself
    # is an ordinary index; int(i) inside _vector_index_prepare would accept it.  Recorded, not counted.
    # Likewise q itself as a NumPy integer that cannot hold 2^q (np.int32(q) for q >= 31, np.int64(q) for q >= 63, np.uint8(q) for any q: `1 << q`
    # wraps round silently and EVERY position is rejected with 'Incorrect index', e.g. teneva.vector_delta(np.int32(40), 5)).
    # possible defects (fail on the pinned tree): NumPy scalars rejected by isinstance(., (int, float)) gates
    for fn in ('rand', 'rand_norm', 'rand_stab', 'rand_custom'):
        for rform in ('np64', 'np32') + (('npf32',) if big else ()):      # a 0-d ARRAY is an ndarray: documented as the per-bond list, not a scalar
            yield 'C19.rand.rank_numpy_scalar', dict(fn=fn, n=[4, 3, 5], r=3, rform=rform)
    for fn in ('rand', 'rand_norm', 'rand_stab'):
        for sform in ('np64', 'np32'):
            yield 'C19.rand.seed_numpy_int', dict(fn=fn, n=[4, 3, 5], r=3, seed=7, sform=sform)
    for sform in ('np64', 'npf32') + (('np32',) if big else ()):         # (0-d arrays: see above)
        yield 'C19.poly.shift_numpy_scalar', dict(n=[3, 2, 4], shift=1 if sform != 'npf32' else 1.5, sform=sform)
    for which in ('const', 'const_zero', 'delta', 'poly', 'poly_shift', 'poly_shift_power', 'rand', 'rand_norm',
                  'rand_custom', 'rand_stab', 'vector_delta', 'matrix_delta'):
        yield 'C19.defaults', dict(which=which, seed=rs())
