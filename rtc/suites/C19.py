"""C19 (bounded, T3): explicit constructors build exactly the tensor they describe.

Covered clauses of the statement (oracle = own dense evaluation `gen.dense`, exact Python integers
where the inputs are integers):

* const without zero list: every entry == v up to the rounding of the d-th root (v positive, negative,
  zero, tiny, huge, both sides of the 1e-16 branch), exactly 0 for v = 0, rank 1, requested shape.
* const with zero list / protected index: values in {v, 0}, exact 0 at every listed index, v at the
  protected index; exhaustive pairs (zero index, protected index) on small shapes + random lists;
  request never raises unless the protected index itself is listed, then ValueError.
* delta: v at the position (also NumPy-style negative positions), exact 0 elsewhere, exhaustive.
* vector_delta / matrix_delta: exhaustive positions in [-2^q, 2^q) (negative counted from the end),
  out-of-range positions raise ValueError; q <= 4 quick / 6 thorough (matrix: q <= 3 / 4).
* poly: scale * sum_k (i_k + shift_k)^power, scalar and per-mode shift, exact for integer data.
* rand / rand_norm / rand_custom / rand_stab: well-formed, requested shape and rank profile (scalar or
  per-bond list), entries in [a, b] (rand), mean / std / 1-sigma mass at >= 7 sigma (rand_norm),
  every drawn value used exactly once (rand_custom), identity pattern + noise of the requested level and
  entries of the dense tensor equal to 1 within a rigorous product bound for d up to 50 (rand_stab).
"""
import itertools
import math
import numpy as np
import teneva
from rtc.api import clause, PASS, FAIL, TRIVIAL, SKIP, check
from rtc import gen


BUDGET = (100, 600)
BOUNDS = ('const/delta: 13 shapes with d<=5, n<=4 (incl. mode size 1), 19 values v incl. 0, -0.0, 1e-300, 1e-16 '
          'branch point, 1e300; zero lists: all (zero, protected) pairs on 5 shapes + random lists of <= 6 rows; '
          'vector_delta q<=4/6, matrix_delta q<=3/4, all positions in [-2^q, 2^q) + out-of-range; poly: 9 shapes x '
          'integer/float shifts x powers 0..4; random constructors: 8 shapes x scalar/list ranks x seeds, '
          'rand_stab d in {2..50}')

EPS = np.finfo(float).eps

SHAPES = [[2, 2], [2, 3], [3, 2], [1, 1], [1, 3], [4, 1], [2, 2, 2], [3, 1, 2], [2, 3, 4], [1, 1, 1],
          [2, 2, 2, 2], [3, 2, 1, 2], [2, 2, 2, 2, 2]]
VALUES = [1.0, -1.0, 2.0, -2.0, 0.0, -0.0, 3, -3, 0, 0.37, -5.25e3, 1e-300, -1e-300, 1e-17, 1e-16, 1.0000001e-16,
          -2e-16, 1e300, -1e150]


def _vtol(v, d):
    """rounding of |v|**(1/d) multiplied back d times; the rounding of the exponent 1/d is amplified by |ln|v||"""
    lg = abs(math.log(abs(float(v)))) if v != 0 else 0.0
    return 8.0 * (d + 2 + lg) * EPS * abs(float(v))


def _rank_one(Y, n):
    msg = gen.wf(Y, n)
    if msg:
        return msg
    if any(G.shape[0] != 1 or G.shape[2] != 1 for G in Y):
        return 'ranks ' + str([G.shape for G in Y])
    return None


@clause('C19.const.plain', funcs=('tensors.const',))
def const_plain(n, v, as_array):
    """No zero list: every entry equals v (d-th root rounding only), exactly 0 for v == 0, rank 1."""
    nn = np.array(n) if as_array else list(n)
    Y = teneva.const(nn, v)
    msg = _rank_one(Y, n)
    if msg:
        return FAIL('not a rank-1 tensor of the requested shape: ' + msg)
    D = gen.dense(Y)
    if list(D.shape) != list(n):
        return FAIL(f'dense shape {D.shape}')
    if v == 0:
        return check(bool(np.all(D == 0)), f'v=0 but entries {np.unique(D)[:4]}')
    err = float(np.max(np.abs(D - float(v))))
    return check(err <= _vtol(v, len(n)), f'max |entry - v| = {err:.3e} > {_vtol(v, len(n)):.3e}')


def _check_zeros(n, v, I_zero, i_nz, as_array):
    """returns None or a failure text"""
    d = len(n)
    Iz = np.array(I_zero, dtype=int).reshape(-1, d) if as_array else [list(r) for r in I_zero]
    inz = None if i_nz is None else (np.array(i_nz) if as_array else list(i_nz))
    snap = gen.snapshot((Iz, inz))
    conflict = i_nz is not None and any(list(r) == list(i_nz) for r in I_zero)
    try:
        Y = teneva.const(list(n), v, Iz, inz)
    except ValueError as e:
        return None if conflict else f'unexpected ValueError({e}) for I_zero={I_zero} i_non_zero={i_nz}'
    if conflict:
        return f'protected index {i_nz} is listed as zero but no ValueError (I_zero={I_zero})'
    if gen.snapshot((Iz, inz)) != snap:
        return 'argument lists modified'
    msg = _rank_one(Y, n)
    if msg:
        return 'not rank-1 / shape: ' + msg
    D = gen.dense(Y)
    tol = _vtol(v, d)
    okv = np.abs(D - float(v)) <= tol
    ok0 = D == 0
    if not np.all(okv | ok0):
        return f'value outside {{v, 0}}: {D[~(okv | ok0)][:3]} (v={v}) I_zero={I_zero} i_non_zero={i_nz}'
    for r in I_zero:
        if D[tuple(r)] != 0:
            return f'entry at listed zero index {list(r)} is {D[tuple(r)]} (I_zero={I_zero}, i_non_zero={i_nz})'
    if i_nz is not None and v != 0 and not okv[tuple(i_nz)]:
        return f'protected index {i_nz} holds {D[tuple(i_nz)]} instead of v={v} (I_zero={I_zero})'
    return None


@clause('C19.const.zeros_pairs', funcs=('tensors.const',))
def const_zero_pairs(n, v, as_array):
    """Exhaustive: every single zero index x every protected index (and none): values in {v,0}, zero at the
    listed index, v at the protected one; ValueError exactly when both coincide."""
    idx = gen.all_indices(n).tolist()
    for iz in idx:
        for inz in [None] + idx:
            msg = _check_zeros(n, v, [iz], inz, as_array)
            if msg:
                return FAIL(msg)
    # two-row lists exercise the round-robin pointer that survives from one row to the next
    for iz1, iz2 in itertools.product(idx, idx):
        for inz in [None, idx[0], idx[-1]]:
            msg = _check_zeros(n, v, [iz1, iz2], inz, as_array)
            if msg:
                return FAIL(msg)
    return PASS


@clause('C19.const.zeros_random', funcs=('tensors.const',))
def const_zero_random(n, v, rows, protect, conflict, seed, as_array):
    """Random zero lists (with repetitions) and protected index; with `conflict` the protected index is
    inserted at a random row of the list and ValueError is required."""
    g = gen.rng('C19z', n, rows, seed)
    idx = gen.all_indices(n)
    inz = idx[int(g.integers(len(idx)))].tolist() if protect else None
    pool = [r.tolist() for r in idx if inz is None or r.tolist() != inz]
    if not pool:
        return TRIVIAL('single-entry tensor')
    Iz = [pool[int(g.integers(len(pool)))] for _ in range(rows)]
    if conflict:
        if inz is None:
            return SKIP('conflict needs a protected index')
        Iz.insert(int(g.integers(len(Iz) + 1)), list(inz))
    msg = _check_zeros(n, v, Iz, inz, as_array)
    return FAIL(msg) if msg else PASS


@clause('C19.delta.exhaustive', funcs=('tensors.delta',))
def delta_exhaustive(n, v, negative):
    """v at the position, exact zero elsewhere, for every position (optionally written with negative
    NumPy-style components counted from the end)."""
    d = len(n)
    for pos in gen.all_indices(n).tolist():
        arg = [p - k if negative and (p + j) % 2 == 0 else p for j, (p, k) in enumerate(zip(pos, n))]
        for a in (arg, np.array(arg)):
            Y = teneva.delta(list(n), a, v)
            msg = _rank_one(Y, n)
            if msg:
                return FAIL(f'position {arg}: ' + msg)
            D = gen.dense(Y)
            got = D[tuple(pos)]
            if v == 0:
                if got != 0:
                    return FAIL(f'position {arg}: entry {got} for v=0')
            elif not abs(got - float(v)) <= _vtol(v, d):
                return FAIL(f'position {arg}: entry {got!r} instead of {v!r}')
            D[tuple(pos)] = 0
            if np.any(D != 0):
                return FAIL(f'position {arg}: non-zero entries elsewhere at {np.argwhere(D != 0)[:3].tolist()}')
    return PASS


def _norm_pos(q, i):
    n = 1 << q
    if i >= n or i < -n:
        return None
    return i if i >= 0 else n + i


@clause('C19.vector_delta.exhaustive', funcs=('vectors.vector_delta', 'utils._vector_index_prepare',
                                              'utils._vector_index_expand'))
def vector_delta_exhaustive(q, v):
    """QTT vector of length 2^q: v at position i (negative i counted from the end), 0 elsewhere, for all
    i in [-2^q, 2^q); positions outside raise ValueError."""
    n = 1 << q
    for i in list(range(-n - 3, n + 4)) + [4 * n, -4 * n, 10 ** 6, -10 ** 6]:
        want = _norm_pos(q, i)
        try:
            Y = teneva.vector_delta(q, i, v)
        except ValueError:
            if want is not None:
                return FAIL(f'q={q} i={i}: ValueError for a position in range')
            continue
        if want is None:
            return FAIL(f'q={q} i={i}: out of range but no ValueError')
        msg = _rank_one(Y, [2] * q)
        if msg:
            return FAIL(f'i={i}: ' + msg)
        D = gen.dense(Y).reshape(-1, order='F')         # little-endian: first QTT mode = lowest bit
        E = np.zeros(n)
        E[want] = v
        if not np.array_equal(D, E):
            return FAIL(f'q={q} i={i}: non-zeros at {np.flatnonzero(D).tolist()[:4]} values '
                        f'{D[np.flatnonzero(D)][:4].tolist()}, wanted {v} at {want}')
    return PASS


@clause('C19.matrix_delta.exhaustive', funcs=('matrices.matrix_delta', 'utils._vector_index_prepare',
                                              'utils._vector_index_expand'))
def matrix_delta_exhaustive(q, v):
    """QTT matrix 2^q x 2^q with 4-D cores (1,2,2,1): A[i, j] = prod_k G_k[0, i_k, j_k, 0] (little-endian
    bits) equals v at (i, j), 0 elsewhere; negative positions from the end; out of range -> ValueError."""
    n = 1 << q
    rng_ = list(range(-n, n))
    extra = [(n, 0), (0, n), (-n - 1, 0), (0, -n - 1), (n, n), (3 * n, -1), (-1, 3 * n)]
    for i, j in list(itertools.product(rng_, rng_)) + extra:
        wi, wj = _norm_pos(q, i), _norm_pos(q, j)
        try:
            Y = teneva.matrix_delta(q, i, j, v)
        except ValueError:
            if wi is not None and wj is not None:
                return FAIL(f'q={q} (i,j)=({i},{j}): ValueError for a position in range')
            continue
        if wi is None or wj is None:
            return FAIL(f'q={q} (i,j)=({i},{j}): out of range but no ValueError')
        if not isinstance(Y, list) or len(Y) != q or any(
                not isinstance(G, np.ndarray) or G.shape != (1, 2, 2, 1) or G.dtype.kind != 'f' for G in Y):
            return FAIL(f'(i,j)=({i},{j}): cores {[getattr(G, "shape", None) for G in Y]}')
        A = np.ones((1, 1))
        for k, G in enumerate(Y):       # bit k has weight 2^k
            A = np.kron(G[0, :, :, 0], A)
        E = np.zeros((n, n))
        E[wi, wj] = v
        if not np.array_equal(A, E):
            return FAIL(f'q={q} (i,j)=({i},{j}): non-zeros at {np.argwhere(A != 0).tolist()[:4]}, wanted {v} at '
                        f'({wi},{wj})')
    return PASS


@clause('C19.poly.value', funcs=('tensors.poly',))
def poly_value(n, shift, power, scale):
    """dense == scale * sum_k (i_k + shift_k)^power; exact (==) when shift, power, scale are integers."""
    d = len(n)
    Y = teneva.poly(list(n), shift, power, scale)
    msg = gen.wf(Y, n)
    if msg:
        return FAIL(msg)
    D = gen.dense(Y)
    sh = [shift] * d if not isinstance(shift, list) else shift
    integer = all(float(s).is_integer() for s in sh) and float(scale).is_integer() and isinstance(power, int) \
        and power >= 0
    I = gen.all_indices(n)
    if integer:
        want = [int(scale) * sum((int(i) + int(s)) ** power for i, s in zip(row, sh)) for row in I]
        got = D[tuple(I.T)]
        if max(abs(w) for w in want) < 2 ** 52 and not all(float(w) == g for w, g in zip(want, got)):
            k = [float(w) == g for w, g in zip(want, got)].index(False)
            return FAIL(f'entry {I[k].tolist()}: {got[k]!r} != exact {want[k]}')
        return PASS
    terms = np.array([[(float(i) + float(s)) ** power for i, s in zip(row, sh)] for row in I])
    want = scale * terms.sum(axis=1)
    mag = abs(scale) * np.abs(terms).sum(axis=1)
    got = D[tuple(I.T)]
    bad = ~(np.abs(got - want) <= 16 * (d + 2) * EPS * mag + 1e-300)
    if bad.any():
        k = int(np.argmax(bad))
        return FAIL(f'entry {I[k].tolist()}: {got[k]!r} vs {want[k]!r} (scale of terms {mag[k]:.3e})')
    return PASS


def _profile(Y):
    return [1] + [G.shape[2] for G in Y]


def _want_profile(n, r):
    return [1] + [int(r)] * (len(n) - 1) + [1] if not isinstance(r, list) else [int(x) for x in r]


def _structure(Y, n, r):
    msg = gen.wf(Y, n)
    if msg:
        return msg
    if _profile(Y) != _want_profile(n, r) or [G.shape[0] for G in Y] != _want_profile(n, r)[:-1]:
        return f'rank profile {_profile(Y)} != requested {_want_profile(n, r)}'
    if not gen.finite(Y):
        return 'non-finite entries'
    return None


@clause('C19.rand.range', funcs=('tensors.rand', 'tensors.rand_custom'))
def rand_range(n, r, a, b, seed, as_array):
    """rand: well-formed, requested shape / rank profile (scalar or per-bond list, list or ndarray),
    all entries in [a, b]; with >= 200 entries both outer quarters of [a, b] are hit and the mean is within
    7 sigma of (a+b)/2; cores are distinct arrays."""
    nn = np.array(n) if as_array else list(n)
    rr = np.array(r) if as_array and isinstance(r, list) else r
    Y = teneva.rand(nn, rr, a, b, seed=seed)
    msg = _structure(Y, n, r)
    if msg:
        return FAIL(msg)
    x = np.concatenate([G.reshape(-1) for G in Y])
    if not (x.min() >= a and x.max() <= b):
        return FAIL(f'entries [{x.min()}, {x.max()}] outside [{a}, {b}]')
    if x.size >= 200:
        w = b - a
        if x.min() > a + w / 4 or x.max() < b - w / 4:
            return FAIL(f'{x.size} entries cover only [{x.min()}, {x.max()}] of [{a}, {b}]')
        if abs(x.mean() - (a + b) / 2) > 7 * w / math.sqrt(12 * x.size):
            return FAIL(f'mean {x.mean()} too far from {(a + b) / 2} for {x.size} uniform entries')
        if len(np.unique(x)) < 0.99 * x.size:
            return FAIL('repeated values')
        return PASS
    return TRIVIAL('too few entries for the spread check') if x.size < 8 else PASS


@clause('C19.rand_norm.distribution', funcs=('tensors.rand_norm', 'tensors.rand_custom'))
def rand_norm_distribution(n, r, m, s, seed):
    """rand_norm: structure as requested; for N >= 2000 entries: mean within 7 s/sqrt(N), std within
    7 s/sqrt(2N) (+1/N), fraction inside one sigma within 7 binomial sigmas of 0.6827 (excludes a uniform law)."""
    Y = teneva.rand_norm(list(n), r, m, s, seed=seed)
    msg = _structure(Y, n, r)
    if msg:
        return FAIL(msg)
    x = np.concatenate([G.reshape(-1) for G in Y])
    N = x.size
    if N < 300:
        return TRIVIAL(f'{N} entries: structure only')
    if abs(x.mean() - m) > 7 * s / math.sqrt(N):
        return FAIL(f'mean {x.mean()} vs m={m} (N={N}, s={s})')
    if abs(x.std() / s - 1) > 7 / math.sqrt(2 * N) + 2.0 / N:
        return FAIL(f'std {x.std()} vs s={s} (N={N})')
    p = 0.6826894921370859
    frac = np.mean(np.abs(x - m) <= s)
    if abs(frac - p) > 7 * math.sqrt(p * (1 - p) / N):
        return FAIL(f'mass within one sigma {frac} vs {p} (N={N})')
    return PASS


@clause('C19.rand_custom.uses_f', funcs=('tensors.rand_custom',))
def rand_custom_uses_f(n, r, seed, ret_list):
    """rand_custom: f is called once with the total number of core entries; the cores hold exactly the values
    f returned (as a multiset, each once); structure as requested."""
    g = gen.rng('C19rc', n, r, seed)
    calls = []

    def f(size):
        v = g.permutation(int(size)).astype(float) + 0.5
        calls.append(v.copy())
        return v.tolist() if ret_list else v
    Y = teneva.rand_custom(list(n), r, f)
    msg = _structure(Y, n, r)
    if msg:
        return FAIL(msg)
    p = _want_profile(n, r)
    total = sum(p[k] * n[k] * p[k + 1] for k in range(len(n)))
    if len(calls) != 1 or calls[0].size != total:
        return FAIL(f'f called {len(calls)} times with sizes {[c.size for c in calls]}, total entries {total}')
    x = np.sort(np.concatenate([G.reshape(-1) for G in Y]))
    return check(np.array_equal(x, np.sort(calls[0])), 'cores are not a rearrangement of the values drawn from f')


def _chain(Y, idx):
    v = Y[0][:, idx[0], :]
    for G, i in zip(Y[1:], idx[1:]):
        v = v @ G[:, i, :]
    return float(v[0, 0])


@clause('C19.rand_stab.ones', funcs=('tensors.rand_stab',))
def rand_stab_ones(d, nk, r, noise, seed):
    """rand_stab: structure as requested; every slice = rectangular identity + N(0, noise) (exactly the identity
    for noise 0; level checked at 7 sigma when >= 2000 entries); entries of the dense tensor equal 1 within the
    rigorous bound prod_k (1 + max_p ||G_k[:,p,:] - I||_2) - 1, on the whole tensor (small d) or 64 sampled
    multi-indices (d up to 50)."""
    n = [nk] * d if isinstance(nk, int) else list(nk)
    d = len(n)
    Y = teneva.rand_stab(list(n), r, noise, seed=seed)
    msg = _structure(Y, n, r)
    if msg:
        return FAIL(msg)
    dev, bound = [], 1.0
    for G in Y:
        E = G - np.eye(G.shape[0], G.shape[2])[:, None, :]
        dev.append(E.reshape(-1))
        bound *= 1.0 + max(np.linalg.norm(E[:, p, :], 2) for p in range(G.shape[1]))
    x = np.concatenate(dev)
    if noise == 0:
        if np.any(x != 0):
            return FAIL('noise=0 but cores differ from the identity pattern')
    else:
        if not np.abs(x).max() <= 8 * noise:
            return FAIL(f'deviation from the identity pattern {np.abs(x).max():.3e} > 8 * noise={noise}')
        if x.size >= 2000:
            if abs(x.mean()) > 7 * noise / math.sqrt(x.size) + EPS:
                return FAIL(f'noise mean {x.mean():.3e} (noise={noise}, N={x.size})')
            # for noise << eps the added noise is absorbed by the 1.0 on the pattern entries: exclude them
            off = np.concatenate([(G - np.eye(G.shape[0], G.shape[2])[:, None, :])[
                np.broadcast_to(np.eye(G.shape[0], G.shape[2])[:, None, :] == 0, G.shape)] for G in Y])
            if off.size >= 2000 and abs(off.std() / noise - 1) > 7 / math.sqrt(2 * off.size) + 2.0 / off.size:
                return FAIL(f'noise level {off.std():.3e} vs requested {noise}')
    tol = (bound - 1.0) + 4 * d * max(_want_profile(n, r)) * EPS * bound
    if int(np.prod([float(k) for k in n])) <= 4096:
        D = gen.dense(Y)
        err = float(np.abs(D - 1).max())
    else:
        g = gen.rng('C19rs', d, nk, r, seed)
        err = 0.0
        for _ in range(64):
            idx = [int(g.integers(k)) for k in n]
            err = max(err, abs(_chain(Y, idx) - 1))
        err = max(err, abs(_chain(Y, [0] * d) - 1), abs(_chain(Y, [k - 1 for k in n]) - 1))
    if not err <= tol:
        return FAIL(f'entry deviates from 1 by {err:.3e} > bound {tol:.3e} (d={d}, r={r}, noise={noise})')
    if noise <= 1e-3 and err > 0.5:
        return FAIL(f'entries not of order one: |x-1| = {err}')
    return PASS


def cases(tier, seed):
    big = tier == 'thorough'
    g = gen.rng('C19', seed)

    def rs():
        return int(g.integers(1 << 30))

    for n in SHAPES:
        for v in VALUES:
            yield 'C19.const.plain', dict(n=n, v=v, as_array=bool(len(n) % 2))
    for n in ([2, 2], [2, 3], [3, 1, 2], [2, 2, 2]) + (([2, 2, 2, 2],) if big else ()):
        for v in (1.0, -2.5, 0.0, 1e-300, 3):
            for as_array in (False, True):
                yield 'C19.const.zeros_pairs', dict(n=list(n), v=v, as_array=as_array)
    for n in SHAPES:
        for rows in (1, 2, 3, 6):
            for protect in (False, True):
                for conflict in (False, True):
                    for rep in range(4 if big else 1):
                        yield 'C19.const.zeros_random', dict(n=n, v=[-3.0, 1.0, 7.5e-5, 1e-300][rows % 4], rows=rows,
                                                             protect=protect, conflict=conflict and protect,
                                                             seed=rs(), as_array=bool(rows % 2))
    for n in SHAPES:
        for v in VALUES if big else VALUES[:6] + VALUES[9:13] + VALUES[-2:]:
            for negative in (False, True):
                yield 'C19.delta.exhaustive', dict(n=n, v=v, negative=negative)
    for q in range(1, 7 if big else 5):
        for v in (1.0, -2.5, 0.0, 3, 1e-300):
            yield 'C19.vector_delta.exhaustive', dict(q=q, v=v)
    for q in range(1, 5 if big else 4):
        for v in (1.0, -2.5, 0.0, 1e-300):
            yield 'C19.matrix_delta.exhaustive', dict(q=q, v=v)
    pshapes = [[2, 2], [3, 2], [1, 4], [2, 3, 4], [3, 1, 2], [1, 1, 1], [2, 2, 2, 2], [4, 3, 2, 3], [2, 2, 2, 2, 2]]
    for n in pshapes:
        d = len(n)
        shifts = [0, 0.0, 1, -2, 0.5, -1.25, list(range(d)), [-(k % 3) for k in range(d)],
                  [0.25 * k - 0.5 for k in range(d)]]
        for shift in shifts:
            for power in (0, 1, 2, 3, 4):
                for scale in (1.0, -3, 0.5, 2) if big else (1.0, -3, 0.5):
                    yield 'C19.poly.value', dict(n=n, shift=shift, power=power, scale=scale)
    if big:
        for n in pshapes[:4]:
            for rep in range(10):
                yield 'C19.poly.value', dict(n=n, shift=[float(x) for x in g.uniform(-3, 3, size=len(n))],
                                             power=int(g.integers(0, 6)), scale=float(g.normal()))
    rshapes = [[2, 2], [1, 1], [3, 1, 2], [5, 4, 3], [6, 6, 6, 6], [2] * 8, [4, 1, 4, 1, 4], [7, 3]]
    for n in rshapes:
        d = len(n)
        profiles = [1, 2, 5, [1] + [2] * (d - 1) + [1], [1] + [1 + (k % 4) for k in range(d - 1)] + [1],
                    [1] + [max(1, 6 - 2 * k) for k in range(d - 1)] + [1]]
        for r in profiles:
            for rep in range(6 if big else 1):
                a, b = [(-1.0, 1.0), (0.0, 1.0), (2.5, 2.75), (-1e6, 3e6), (-1e-8, 1e-8)][int(g.integers(5))]
                yield 'C19.rand.range', dict(n=n, r=r, a=a, b=b, seed=rs(), as_array=bool(rep % 2) or r == 5)
                yield 'C19.rand_norm.distribution', dict(n=n, r=r, m=0.0, s=1.0, seed=rs())
                yield 'C19.rand_custom.uses_f', dict(n=n, r=r, seed=rs(), ret_list=bool(rep % 2))
    for n, r in (([6, 6, 6, 6], 8), ([10] * 5, 6), ([3] * 10, [1] + [5, 7] * 4 + [5, 1]), ([40, 40], 30)):
        for m_, s_ in ((0.0, 1.0), (3.0, 0.25), (-1e3, 1e-3), (0.5, 1e4)):
            for rep in range(3 if big else 1):
                yield 'C19.rand_norm.distribution', dict(n=n, r=r, m=m_, s=s_, seed=rs())
                yield 'C19.rand.range', dict(n=n, r=r, a=m_ - s_, b=m_ + 2 * s_, seed=rs(), as_array=False)
    for d in (2, 3, 5, 10, 20, 50):
        for nk in (2, 1, 5):
            for r in (1, 2, 4) + ((7,) if big else ()):
                for noise in (1e-15, 0.0, 1e-6, 1e-3):
                    yield 'C19.rand_stab.ones', dict(d=d, nk=nk, r=r, noise=noise, seed=rs())
    for nk, r in (([3, 1, 4, 2], [1, 2, 3, 2, 1]), ([2, 2, 2], [1, 4, 2, 1]), ([30, 30, 30], 6), ([12] * 6, 5)):
        for noise in (1e-15, 1e-2):
            yield 'C19.rand_stab.ones', dict(d=len(nk), nk=nk, r=r, noise=noise, seed=rs())
