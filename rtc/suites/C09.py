"""C09 (bounded, T3): public functions never modify their arguments or alias their results to them.

One table (`PATTERNS`) of call patterns covers every public name exported by teneva/__init__.py that takes a
tensor, array, list or dict (all 98 public names except `getter`, which needs numba; the scalar-only constructors
`vector_delta`, `matrix_delta`, `func_diff_matrix` are called too), including the classes `ANOVA` / `ANOVA_func`
with their methods, plus the private helpers `_maxvol` and `_info_appr`.  Each pattern builds its arguments for

* a memory layout  'C' | 'F' | 'V' (non-contiguous views) | 'R' (C-ordered and READ-ONLY: a write attempt raises,
  so that also value-neutral writes - `I[I < 0] = 0`, `G *= 1` - are seen), applied to every array argument and
  TT-core; array arguments always have the dtype the function converts to (int indices, float values), so that
  `np.asanyarray` hands the caller's buffer through and an in-place write would hit it,
* a shape variant  'base' | 'rank1' (all TT-ranks 1) | 'mode1' (a mode of size 1) | 'd2' (two modes) | 'd4' (four
  modes, ranks 2-3-2: interior cores that touch neither boundary core),
  and (gap closure, own case block) 'd1': ONE core 1 x 4 x 1 - the smallest TT-tensor: no sweep step, no bond, no interior
  core, so a function that relies on "every step rebinds the cores it touches" hands the argument's array through.  Every
  pattern that has a TT-tensor (or builds one from a shape list) gets it for every flag variant; calls that raise for every
  one-core tensor on the clean tree are listed in D1_REJECTED (SKIP after the argument check).
* a flag variant   (the argument combinations of the function: every flag / argument form that opens another code
  path - number vs list vs ndarray, 1-D vs 2-D, int seed vs Generator, log=True, stop criteria m / e / e_vld / cb /
  f returning None / conv, rank-adaptive als with weights / without regularisation / r_add, als allow_swap=True
  (the modes ARE swapped: n = [4, 2, 3]), update_sol, als_func fh lists / n_max with pruning, truncate orth=False
  with use_stab, sample_square float_cf / m_fact restarts, sample_func cores_are_prepared, ...; quick runs every
  variant with a C- (alternately read-only) and an F-ordered layout on the base shape + two other shape variants,
  the first variant with all layouts and shapes; thorough runs variants x layouts x shape variants).

Clauses (params fn, layout, sv, variant, seed so that a failure is attributable):

* C09.no_mutation: byte snapshot (`gen.snapshot`: contents, shape, dtype) of every argument plus the identity
  of every list element and the list lengths, before and after the call (also when the call raises).
* C09.no_alias: no array reachable from the result (lists, tuples, dicts; for the classes: everything the
  methods return) shares memory with any array reachable from an argument (`np.shares_memory`), and the result
  container is not an argument container.
* C09.no_alias.one_core_full: the same for full / full_matrix of a one-core tensor, isolated (finding: `full([G])` is a
  VIEW of G on the clean tree; reported).
* C09.inplace.contract: orthogonalize_left/right(inplace=True) return the argument list itself, replace only
  cores i and i+-1, leave all other cores (identity and bytes) untouched.
* C09.passthrough.contract: the small pass-through helpers return either their argument itself or a fresh
  array, never a modified argument: grid_prep_opt(s), core_stab below / above its threshold, copy of a number.

Documented exceptions only (DESIGN Appendix A): inplace orthogonalisation (own clause), `info` / `cache`
dictionaries of cross / als / als_func / _info_appr, grid_prep_opt(s) and core_stab below the threshold may
return their argument, copy(number / None), core_dot_maxvol returns the index vector it was given, the classes
keep references to their training data.  Callbacks (`f`, `cb`, `fh`, `funcs`, `basis_func`) are written by this
suite, never write to what they receive, and what they are handed is not inspected.  Of the service
arguments, cores_are_prepared, update_sol, allow_swap and float_cf are exercised; to_orth=False (see below),
_to_item, func= and use='k_means' (needs scikit-learn) are not.  Patterns blocked by a known defect of the pinned tree (the call raises for every
input: func_int_general [C12], sample_square [C14], svd_incomplete [C20], als(r=.., use_stab=True)) return SKIP
after the mutation check.

Recorded, not yielded (DOUBTFUL): optima_tt_beam(Y, to_orth=False) rescales the boundary core of its argument in
place; `to_orth` / `p` are undocumented inner-use arguments (variant 'no_orth' of the pattern, replay only).
ANOVA.cores(only_near=True) is called for d = 2 only (for d >= 3 see C13.anova2.only_near).
"""
import contextlib
import io
import numpy as np
import teneva
from rtc.api import clause, PASS, FAIL, TRIVIAL, SKIP, check
from rtc import gen


BUDGET = (100, 600)
CASE_TIMEOUT = 60
BOUNDS = ('every public function taking tensors / arrays / lists (PATTERNS: 97 of the 98 public names - all but getter - plus _maxvol, _info_appr; class methods of ANOVA / ANOVA_func via post-calls), '
          'about 370 flag / argument-form variants (ndarray arguments of the exact dtype, lists, Generators, every stop criterion, allow_swap, update_sol, log), '
          'layouts C / F / strided views / read-only, shape variants base (d=3, ranks 3,2), rank 1, '
          'mode size 1, d = 2, d = 4, and d = 1 (one core 1 x 4 x 1; every flag variant, 2 layouts quick / 4 thorough); '
          'tensors with <= 256 entries, <= 60 samples')

LAYOUTS = ('C', 'F', 'V', 'R')       # 'R': C-contiguous and read-only (an attempted write raises)
SHAPE_VARIANTS = ('base', 'rank1', 'mode1', 'd2', 'd4')
BLOCKED = {'func_int_general': 'C12: lstsq(rcond=) TypeError for every input',
           'sample_square': 'C14: size=1 draw stored in a scalar slot raises for every input',
           'svd_incomplete': 'C20: (cnt,1,r) array reaches lstsq for every input',
           ('als', 'stab'): 'als(r=.., use_stab=True): orthogonalize(.., use_stab=True) returns a (tensor, power) '
                            'tuple that als treats as the tensor - AttributeError for every input',
           ('als', 'allow_swap'): 'als(allow_swap=True), experimental: after two swaps that do not commute the '
                                  'validation indices are permuted in the wrong order (rearrange = swap[rearrange] '
                                  'instead of rearrange[swap]) - IndexError in accuracy_on_data for some data'}


# d = 1 (shape variant 'd1', ONE core 1 x n x 1): calls that raise for EVERY one-core tensor on the clean library.  The
# argument check of C09.no_mutation is still made (also a raising call must leave its arguments alone); everything else
# of the table accepts a one-core tensor and is checked like any other shape.
D1_REJECTED = {
    'als': 'accuracy(Y, Yold) after the first sweep: the difference of two one-core tensors has boundary rank 2, norm raises',
    'als_func': 'as als',
    'cross': 'as als',
    'cross_act': 'needs d >= 2 (matmul of the interface matrices)',
    ('accuracy', 'tt'): 'sub of two one-core tensors is not a TT-tensor (boundary rank 2): norm raises',
    'optima_tt': 'optima_tt_max(shifted square) reshapes a 1 x n x 1 core of the squared tensor wrongly',
    ('orthogonalize', 'k1'): 'mode 1 does not exist',
    'orthogonalize_left': 'a single step needs two cores (ValueError: invalid mode number)',
    'orthogonalize_right': 'a single step needs two cores (ValueError: invalid mode number)',
}


def _blocked(fn, variant, sv):
    return BLOCKED.get(fn) or BLOCKED.get((fn, variant)) or \
        (D1_REJECTED.get(fn) or D1_REJECTED.get((fn, variant)) if sv == 'd1' else None)


class NA(Exception):
    """the pattern does not exist for this shape variant (e.g. QTT of a mode of size 1)"""


class Call:
    def __init__(self, fn, *args, mut_ok=(), alias_ok=(), post=None, **kwargs):
        self.fn, self.args, self.kwargs = fn, list(args), dict(kwargs)
        self.mut_ok, self.alias_ok, self.post = set(mut_ok), set(alias_ok), post

    def items(self):
        for k, a in enumerate(self.args):
            yield k, a
        for k, a in self.kwargs.items():
            yield k, a


PATTERNS = {}       # name -> (builder, variants)


def pat(name, variants=('default',), fn=None):
    def deco(build):
        PATTERNS[name] = (build, tuple(variants), fn or name)
        return build
    return deco


# ------------------------------------------------------------------ argument builders

def arr(x, layout):
    """array with the requested memory layout ('V': every second element of a larger buffer along each axis)"""
    x = np.array(x)
    if x.ndim == 0:
        return x
    if layout == 'R':
        x = np.ascontiguousarray(x)
        x.flags.writeable = False
        return x
    if layout == 'F':
        return np.asfortranarray(x)
    if layout == 'V':
        big = np.zeros(tuple(2 * s for s in x.shape), dtype=x.dtype)
        sl = tuple(slice(None, None, 2) for _ in x.shape)
        big[sl] = x
        return big[sl]
    return np.ascontiguousarray(x)


def cfg(sv, pow2=False, equal=False):
    if sv == 'd1':      # ONE core 1 x 4 x 1: the smallest TT-tensor there is (no sweep step, no bond, no interior core)
        return ([4], [1, 1])
    if equal:       # all modes equal (and a power of two)
        return {'base': ([4, 4, 4], [1, 3, 2, 1]), 'rank1': ([4, 4, 4], [1, 1, 1, 1]), 'd2': ([4, 4], [1, 3, 1]),
                'mode1': ([1, 1, 1], [1, 2, 2, 1]), 'd4': ([4, 4, 4, 4], [1, 2, 3, 2, 1])}[sv]
    if pow2:
        if sv == 'mode1':
            raise NA('mode size 1 is not a QTT mode')
        return {'base': ([4, 2, 4], [1, 3, 2, 1]), 'rank1': ([4, 2, 4], [1, 1, 1, 1]), 'd2': ([4, 4], [1, 3, 1]),
                'd4': ([2, 4, 2, 8], [1, 2, 3, 2, 1])}[sv]
    return {'base': ([3, 4, 2], [1, 3, 2, 1]), 'rank1': ([3, 4, 2], [1, 1, 1, 1]), 'mode1': ([3, 1, 2], [1, 2, 2, 1]),
            'd2': ([3, 4], [1, 2, 1]), 'd4': ([2, 3, 2, 3], [1, 2, 3, 2, 1])}[sv]


def ndim(sv):
    return {'d1': 1, 'd2': 2, 'd4': 4}.get(sv, 3)


def gtt(n, r, seed, kind, layout):
    """gen.tt with the layouts of this suite ('R': C-contiguous read-only cores)"""
    if layout == 'R':
        Y = gen.tt(n, r, seed, kind, order='C')
        for G in Y:
            G.flags.writeable = False
        return Y
    return gen.tt(n, r, seed, kind, order=layout)


def tt(sv, seed, layout, kind='gauss', tag=0, **kw):
    n, r = cfg(sv, **kw)
    return gtt(n, r, seed + 1000 * tag, kind, layout)


def idx(n, m, seed, full=True):
    """multi-indices covering every slice (full grid) + m random ones"""
    g = gen.rng('C09idx', n, m, seed)
    I = g.integers(0, np.array(n), size=(m, len(n)))
    if full:
        I = np.vstack([gen.all_indices(n), I])
    return I


def vals(Y, I):
    return np.array([_chain(Y, row) for row in I])


def _chain(Y, row):
    v = Y[0][:, row[0], :]
    for G, i in zip(Y[1:], row[1:]):
        v = v @ G[:, i, :]
    return float(v[0, 0])


def pts(sv, m, seed, layout, lo=-1.0, hi=1.0, d=None):
    n, _ = cfg(sv)
    g = gen.rng('C09pts', sv, m, seed)
    return arr(g.uniform(lo, hi, size=(m, d or len(n))), layout)


# ------------------------------------------------------------------ act_many / act_one / act_two

@pat('add_many', ('tt3', 'mixed', 'single', 'trunc', 'numbers', 'num_first', 'same_thrice'))
def _(L, sv, v, s):
    Y1, Y2, Y3 = (tt(sv, s, L, tag=k) for k in range(3))
    if v == 'mixed':
        return Call(teneva.add_many, [Y1, 2.0, Y2, 3])
    if v == 'single':
        return Call(teneva.add_many, [Y1])
    if v == 'trunc':
        return Call(teneva.add_many, [Y1, Y2, Y3, Y1], e=1e-2, r=2, trunc_freq=1)
    if v == 'numbers':
        return Call(teneva.add_many, [1, 2.5])
    if v == 'num_first':
        return Call(teneva.add_many, [2.0, Y1, Y2], r=3)
    if v == 'same_thrice':
        return Call(teneva.add_many, [Y1, Y1, Y1], 1e-6, 2.0, 2)
    return Call(teneva.add_many, [Y1, Y2, Y3])


@pat('outer_many', ('two', 'three', 'single', 'empty'))
def _(L, sv, v, s):
    Ys = [tt(sv, s, L, tag=k) for k in range(3)]
    return Call(teneva.outer_many, {'two': Ys[:2], 'three': Ys, 'single': Ys[:1], 'empty': []}[v])


@pat('copy', ('tt', 'array', 'number', 'none'))
def _(L, sv, v, s):
    Y = tt(sv, s, L)
    return Call(teneva.copy, {'tt': Y, 'array': Y[0], 'number': 2.5, 'none': None}[v])


@pat('interface', ('default', 'ltr', 'P_list', 'P_flat', 'i', 'i_P_ltr', 'norm_n', 'norm_none', 'P_flat_arr',
                   'P_2d_ltr', 'i_P_arr'))
def _(L, sv, v, s):
    Y = tt(sv, s, L, equal=(v in ('P_flat', 'P_flat_arr', 'P_2d_ltr')))
    n = [G.shape[1] for G in Y]
    g = gen.rng('C09if', s)
    P = [arr(g.uniform(0.1, 1, size=k), L) for k in n]
    i = [int(g.integers(k)) for k in n]
    if v == 'ltr':
        return Call(teneva.interface, Y, ltr=True)
    if v == 'P_list':
        return Call(teneva.interface, Y, P)
    if v == 'P_flat':
        return Call(teneva.interface, Y, [float(x) for x in P[0]])
    if v == 'i':
        return Call(teneva.interface, Y, i=arr(i, L))
    if v == 'i_P_ltr':
        return Call(teneva.interface, Y, P=P, i=i, norm=None, ltr=True)
    if v == 'P_flat_arr':       # np.float64 entries are floats: the one-list-for-all-modes form as an array
        return Call(teneva.interface, Y, arr(P[0], L), norm='n')
    if v == 'P_2d_ltr':
        return Call(teneva.interface, Y, arr(np.array([np.asarray(p) for p in P]), L), ltr=True)
    if v == 'i_P_arr':
        return Call(teneva.interface, Y, P, arr(i, L), 'l', True)
    if v == 'norm_n':
        return Call(teneva.interface, Y, norm='natural')
    if v == 'norm_none':
        return Call(teneva.interface, Y, norm=None)
    return Call(teneva.interface, Y)


@pat('get', ('single', 'single_arr', 'batch', 'batch_list'))
def _(L, sv, v, s):
    Y = tt(sv, s, L)
    I = idx([G.shape[1] for G in Y], 5, s, full=False)
    return Call(teneva.get, Y, {'single': I[0].tolist(), 'single_arr': arr(I[0], L), 'batch': arr(I, L),
                                'batch_list': I.tolist()}[v])


@pat('get_and_grad', ('list', 'arr'))
def _(L, sv, v, s):
    Y = tt(sv, s, L)
    I = idx([G.shape[1] for G in Y], 2, s, full=False)
    return Call(teneva.get_and_grad, Y, I[0].tolist() if v == 'list' else arr(I[0], L))


@pat('get_many', ('arr', 'list'))
def _(L, sv, v, s):
    Y = tt(sv, s, L)
    I = idx([G.shape[1] for G in Y], 5, s)
    return Call(teneva.get_many, Y, arr(I, L) if v == 'arr' else I.tolist())


@pat('mean', ('default', 'P', 'P_2d', 'P_long'))
def _(L, sv, v, s):
    Y = tt(sv, s, L)
    g = gen.rng('C09mean', s)
    P = [arr(g.uniform(0, 1, size=G.shape[1]), L) for G in Y]
    if v == 'P_2d':         # equal modes: the weights as one 2-D array
        Y = tt(sv, s, L, equal=True)
        return Call(teneva.mean, Y, arr(g.uniform(0, 1, size=(len(Y), Y[0].shape[1])), L))
    if v == 'P_long':       # weights longer than the modes (only the first n_k entries are used)
        return Call(teneva.mean, Y, [arr(g.uniform(0, 1, size=G.shape[1] + 2), L) for G in Y])
    return Call(teneva.mean, Y, P) if v == 'P' else Call(teneva.mean, Y)


@pat('norm', ('default', 'stab'))
def _(L, sv, v, s):
    return Call(teneva.norm, tt(sv, s, L), use_stab=(v == 'stab'))


@pat('sum')
def _(L, sv, v, s):
    return Call(teneva.sum, tt(sv, s, L))


@pat('qtt_to_tt', ('q2', 'q1', 'q3'))
def _(L, sv, v, s):
    q = int(v[1])
    d = ndim(sv)
    if sv == 'mode1':
        raise NA('QTT modes have size 2')
    r = 1 if sv == 'rank1' else 2
    return Call(teneva.qtt_to_tt, gtt([2] * (d * q), r, s, 'gauss', L), q)


@pat('tt_to_qtt', ('default', 'e_r'))
def _(L, sv, v, s):
    Y = tt(sv, s, L, pow2=True)
    return Call(teneva.tt_to_qtt, Y, 1e-2, 2) if v == 'e_r' else Call(teneva.tt_to_qtt, Y)


@pat('accuracy', ('tt', 'array'))
def _(L, sv, v, s):
    Y1, Y2 = tt(sv, s, L), tt(sv, s, L, tag=1)
    if v == 'array':
        return Call(teneva.accuracy, arr(gen.dense(Y1), L), arr(gen.dense(Y2), L))
    return Call(teneva.accuracy, Y1, Y2)


def _two(fname):
    def build(L, sv, v, s):
        Y1, Y2 = tt(sv, s, L), tt(sv, s, L, tag=1)
        a, b = {'tt_tt': (Y1, Y2), 'tt_num': (Y1, 2.5), 'num_tt': (-3, Y2), 'num_num': (2, 2.5),
                'same': (Y1, Y1)}[v]
        return Call(getattr(teneva, fname), a, b)
    return build


for _f in ('add', 'mul', 'sub'):
    pat(_f, ('tt_tt', 'tt_num', 'num_tt', 'num_num', 'same'))(_two(_f))


@pat('mul_scalar', ('default', 'stab'))
def _(L, sv, v, s):
    return Call(teneva.mul_scalar, tt(sv, s, L), tt(sv, s, L, tag=1), use_stab=(v == 'stab'))


@pat('outer', ('default', 'same'))
def _(L, sv, v, s):
    Y = tt(sv, s, L)
    return Call(teneva.outer, Y, Y if v == 'same' else tt(sv, s, L, tag=1))


# ------------------------------------------------------------------ als / als_func / anova / anova_func

def _noop_cb(Y, info, opts):
    return None


@pat('als', ('base', 'adaptive', 'lamb_none', 'weights', 'w_lamb', 'vld', 'cb', 'skip_cores', 'stab', 'lists',
             'allow_swap', 'adaptive_w', 'adaptive_lamb_none', 'adaptive_vld', 'update_sol', 'log', 'e_stop', 'cb_true',
             'adaptive_r_add'))
def _(L, sv, v, s):
    Yref = tt(sv, s, 'C', tag=5)
    Y0 = tt(sv, s, L, tag=1)
    if v == 'allow_swap' and sv in ('base', 'd4'):
        # a first mode larger than the second one: the swapped unfolding has the smaller rank, the modes ARE swapped
        n, r = {'base': ([4, 2, 3], [1, 3, 2, 1]), 'd4': ([4, 2, 3, 2], [1, 3, 2, 2, 1])}[sv]
        Yref = gen.tt(n, r, s + 5000, 'gauss')
        Y0 = gtt(n, 2, s + 1000, 'gauss', L)
    n = [G.shape[1] for G in Yref]
    I = idx(n, 20, s)
    y = vals(Yref, I)
    It, yt = arr(I, L), arr(y, L)
    kw = dict(nswp=2, info={})
    if v == 'adaptive':
        kw.update(r=3, e_adap=1e-2)
    elif v == 'lamb_none':
        kw.update(lamb=None)
    elif v == 'weights':
        kw.update(w=arr(np.linspace(0.5, 2, len(y)), L), lamb=None)
    elif v == 'w_lamb':
        kw.update(w=arr(np.linspace(0.5, 2, len(y)), L), lamb=0.01)
    elif v == 'vld':
        kw.update(I_vld=arr(I[::2], L), y_vld=arr(y[::2], L), e_vld=1e-30)
    elif v == 'cb':
        kw.update(cb=_noop_cb)
    elif v == 'skip_cores':
        keep = I[:, 0] != 0
        It, yt = arr(I[keep], L), arr(y[keep], L)
        kw.update(allow_skip_cores=True)
    elif v == 'stab':
        kw.update(r=3, use_stab=True)
    elif v == 'lists':
        It, yt = I.tolist(), y.tolist()
    elif v == 'allow_swap':     # experimental flag of the docstring: permutes the columns of its own copy of I_trn
        kw.update(r=3, allow_swap=True, I_vld=arr(I[::2], L), y_vld=arr(y[::2], L), nswp=3)
    elif v == 'adaptive_w':
        kw.update(r=3, w=arr(np.linspace(0.5, 2, len(y)), L), lamb=None)
    elif v == 'adaptive_lamb_none':
        kw.update(r=4, lamb=None, e_adap=1e-8)
    elif v == 'adaptive_vld':
        kw.update(r=2, I_vld=arr(I[::2], L), y_vld=arr(y[::2], L), e_vld=1e-30, w=arr(np.linspace(1, 2, len(y)), L),
                  lamb=1e-3)
    elif v == 'update_sol':
        kw.update(update_sol=True, lamb=0.01)
    elif v == 'log':
        kw.update(log=True, I_vld=arr(I[::3], L), y_vld=arr(y[::3], L))
    elif v == 'e_stop':
        kw.update(e=1e10, nswp=5)
    elif v == 'cb_true':
        kw.update(cb=lambda Y, info, opts: True, nswp=5)
    elif v == 'adaptive_r_add':
        kw.update(r=3, r_add=1, e_adap=0.0)
    return Call(teneva.als, It, yt, Y0, mut_ok=('info',), **kw)


def _fh(X):
    X = np.asarray(X)
    return np.stack([np.ones_like(X), X, X * X, X ** 3])


@pat('als_func', ('base', 'vld', 'fh', 'n_max', 'lamb_none', 'ab', 'fh_list', 'update_sol', 'log', 'lists',
                  'n_max_thr', 'n_max_lamb_none', 'e_stop'))
def _(L, sv, v, s):
    n, r = cfg(sv, equal=True)
    if sv == 'mode1':
        n = [2, 2, 2]
    A0 = gtt(n, r, s, 'gauss', L)
    X = pts(sv, 60, s, L, d=len(n))
    y = arr(np.sin(np.asarray(X).sum(axis=1)), L)
    kw = dict(nswp=2, info={})
    if v == 'vld':
        kw.update(X_vld=pts(sv, 10, s + 1, L, d=len(n)), y_vld=arr(np.linspace(-1, 1, 10), L), e_vld=1e-30)
    elif v == 'fh':
        A0 = gtt([4] * len(n), r, s, 'gauss', L)
        kw.update(fh=_fh)
    elif v == 'n_max':
        kw.update(n_max=n[0] + 1)
    elif v == 'lamb_none':
        kw.update(lamb=None)
    elif v == 'ab':
        kw.update(a=-2.0, b=1.5)
    elif v == 'fh_list':
        A0 = gtt([4] * len(n), r, s, 'gauss', L)
        kw.update(fh=[_fh] * len(n), lamb=None)
    elif v == 'update_sol':
        kw.update(update_sol=True, lamb=0.01)
    elif v == 'log':
        kw.update(log=True, X_vld=pts(sv, 10, s + 1, L, d=len(n)), y_vld=arr(np.linspace(-1, 1, 10), L))
    elif v == 'lists':
        X, y = np.asarray(X).tolist(), np.asarray(y).tolist()
    elif v == 'n_max_thr':      # a huge thr_pow: the highest coefficient is dropped again and again (recursion on views)
        kw.update(n_max=n[0] + 2, thr_pow=1e6)
    elif v == 'n_max_lamb_none':
        kw.update(n_max=n[0] + 1, lamb=None, thr_pow=1e6)
    elif v == 'e_stop':
        kw.update(e=1e10, nswp=5)
    return Call(teneva.als_func, X, y, A0, mut_ok=('info',), **kw)


def _data(sv, s, L, m=25):
    Yref = tt(sv, s, 'C', tag=7)
    n = [G.shape[1] for G in Yref]
    I = idx(n, m, s)
    return arr(I, L), arr(vals(Yref, I), L), I


@pat('anova', ('o1', 'o2', 'o2_r3', 'noise0', 'lists', 'generator', 'o2_r5'))
def _(L, sv, v, s):
    I, y, I0 = _data(sv, s, L)
    if v == 'lists':
        return Call(teneva.anova, I0.tolist(), np.asarray(y).tolist(), seed=s)
    if v == 'generator':
        return Call(teneva.anova, I, y, 3, 2, 1e-8, np.random.default_rng(s))
    if v == 'o2_r5':
        return Call(teneva.anova, I, y, 5, 2, 0.0, s)
    kw = {'o1': dict(r=2, order=1), 'o2': dict(r=2, order=2), 'o2_r3': dict(r=3, order=2, noise=1e-6),
          'noise0': dict(r=3, order=1, noise=0.0)}[v]
    return Call(teneva.anova, I, y, seed=s, **kw)


def _anova_methods(A, I0):
    out = [A(I0[:4]), A(I0[0]), A[I0[1]], A.cores(2), A.cores(3, rel_noise=1e-3), A.cores_1(2), A.max(), A.max(min),
           A.sample(), A.f1_arr, A.calc(I0[0]), A.domain, A.shapes]
    if A.order == 2:
        out += [A.cores_2(2), A.f2_arr, A.sample(with_square=True), A.calc_2(I0[0][:2])]
        if A.d == 2:        # only_near with d >= 3 pairs the wrong matrices (see C13.anova2.only_near) and raises here
            out += [A.cores(3, only_near=True), A.cores_2(3, only_near=True)]
    return out


@pat('ANOVA', ('o1', 'o2'))
def _(L, sv, v, s):
    I, y, I0 = _data(sv, s, L)
    return Call(teneva.ANOVA, I, y, order=int(v[1]), seed=s, post=lambda A: _anova_methods(A, I0))


@pat('anova_func', ('base', 'ab_list', 'e_none', 'lists', 'lamb'))
def _(L, sv, v, s):
    d = ndim(sv)
    X = pts(sv, 40, s, L, d=d)
    y = arr(np.cos(np.asarray(X).sum(axis=1)), L)
    n = 1 if sv == 'mode1' else 3
    if v == 'ab_list':
        return Call(teneva.anova_func, X, y, n, arr([-1.5] * d, L), arr([2.0] * d, L))
    if v == 'e_none':
        return Call(teneva.anova_func, X, y, n, e=None)
    if v == 'lists':
        return Call(teneva.anova_func, np.asarray(X).tolist(), np.asarray(y).tolist(), n, [-1.5] * d, [2.0] * d)
    if v == 'lamb':
        return Call(teneva.anova_func, X, y, n, -1.0, 1.0, 0.5, 1e-2)
    return Call(teneva.anova_func, X, y, n)


@pat('ANOVA_func', ('base',))
def _(L, sv, v, s):
    d = ndim(sv)
    X = pts(sv, 40, s, L, d=d)
    y = arr(np.cos(np.asarray(X).sum(axis=1)), L)
    return Call(teneva.ANOVA_func, X, y, 1 if sv == 'mode1' else 3, -1.0, 1.0, 1e-6,
                post=lambda A: [A.coeffs, A.cores(), A.cores(None), A.coeffs])


# ------------------------------------------------------------------ core

def _core(sv, s, L, pow2=False):
    if sv == 'd1':
        raise NA('single-core argument, not a TT-tensor: no d = 1 form')
    shp = {'base': (3, 4, 2), 'rank1': (1, 4, 1), 'mode1': (2, 1, 3), 'd2': (1, 4, 3),
           'd4': (2, 8, 3)}[sv]
    if pow2 and sv == 'mode1':
        raise NA('mode size 1')
    return arr(gen.rng('C09core', sv, s).normal(size=shp), L)


@pat('core_dot', ('ltr_mat', 'rtl_mat', 'ltr_scalar', 'rtl_scalar'))
def _(L, sv, v, s):
    G = _core(sv, s, L)
    g = gen.rng('C09cd', s)
    if v == 'ltr_mat':
        return Call(teneva.core_dot, G, arr(g.normal(size=(G.shape[2], 2)), L))
    if v == 'rtl_mat':
        return Call(teneva.core_dot, G, arr(g.normal(size=(2, G.shape[0])), L), ltr=False)
    if v == 'ltr_scalar':
        return Call(teneva.core_dot, arr(np.asarray(G)[:, :, :1], L), 2.5)
    return Call(teneva.core_dot, arr(np.asarray(G)[:1], L), 2.5, ltr=False)


@pat('core_dot_inv', ('ltr', 'rtl'))
def _(L, sv, v, s):
    G = _core(sv, s, L)
    k = G.shape[2] if v == 'ltr' else G.shape[0]
    R = arr(gen.rng('C09cdi', s).normal(size=(k, k)) + 3 * np.eye(k), L)
    return Call(teneva.core_dot_inv, G, R, ltr=(v == 'ltr'))


@pat('core_dot_maxvol', ('ltr', 'rtl', 'ind_ltr', 'ind_rtl'))
def _(L, sv, v, s):
    G = _core(sv, s, L)
    ltr = v.endswith('ltr')
    g = gen.rng('C09cdm', s)
    R = arr(g.normal(size=(G.shape[2], G.shape[2]) if ltr else (G.shape[0], G.shape[0])), L)
    if v.startswith('ind'):
        k = G.shape[1] * G.shape[2] if ltr else G.shape[0] * G.shape[1]
        return Call(teneva.core_dot_maxvol, G, R, arr(np.arange(k)[::-1][:max(1, k // 2)].copy(), L), ltr,
                    alias_ok=(2,))
    return Call(teneva.core_dot_maxvol, G, R, None, ltr)


@pat('core_qr_rand', ('ltr', 'rtl', 'generator', 'm0'))
def _(L, sv, v, s):
    if v == 'generator':
        return Call(teneva.core_qr_rand, _core(sv, s, L), 1, False, np.random.default_rng(s))
    if v == 'm0':
        return Call(teneva.core_qr_rand, _core(sv, s, L), 0, True, s)
    return Call(teneva.core_qr_rand, _core(sv, s, L), 2, ltr=(v == 'ltr'), seed=s)


@pat('core_qtt_to_tt', ('q2', 'q1', 'q3'))
def _(L, sv, v, s):
    if sv == 'mode1':
        raise NA('QTT cores have mode size 2')
    q = int(v[1])
    r = 1 if sv == 'rank1' else 2
    Y = gtt([2] * (q + 1), r, s, 'gauss', L)
    return Call(teneva.core_qtt_to_tt, Y[:q] if sv != 'd2' else Y[1:q + 1])


@pat('core_stab', ('above', 'p0_thr', 'below', 'zero'))
def _(L, sv, v, s):
    G = _core(sv, s, L)
    if v == 'below':
        return Call(teneva.core_stab, arr(np.asarray(G) * 1e-120, L), alias_ok=(0,))
    if v == 'zero':
        return Call(teneva.core_stab, arr(np.asarray(G) * 0, L), 3, alias_ok=(0,))
    if v == 'p0_thr':
        return Call(teneva.core_stab, arr(np.asarray(G) * 1e-3, L), 5, 1e-4)
    return Call(teneva.core_stab, G)


@pat('core_tt_to_qtt', ('default', 'e_r'))
def _(L, sv, v, s):
    G = _core(sv, s, L, pow2=True)
    return Call(teneva.core_tt_to_qtt, G, 1e-2, 2) if v == 'e_r' else Call(teneva.core_tt_to_qtt, G)


# ------------------------------------------------------------------ cross / cross_act / data

@pat('cross', ('nswp', 'm', 'e', 'rank_const', 'cache', 'vld', 'cb', 'nswp0', 'log', 'm_small', 'f_none', 'vld_only',
               'cache_m', 'dr2', 'cb_true', 'conv'))
def _(L, sv, v, s):
    Yref = tt(sv, s, 'C', tag=3)
    n = [G.shape[1] for G in Yref]

    def f(I):
        return np.array([_chain(Yref, row) for row in I])
    Y0 = tt(sv, s, L, tag=1)
    kw = dict(info={})
    if v == 'nswp':
        kw.update(nswp=2)
    elif v == 'm':
        kw.update(m=60)
    elif v == 'e':
        kw.update(e=1e-8, nswp=4)
    elif v == 'rank_const':
        kw.update(nswp=2, dr_min=0, dr_max=0)
    elif v == 'cache':
        kw.update(nswp=3, cache={})
    elif v == 'vld':
        I = idx(n, 6, s)
        kw.update(nswp=3, I_vld=arr(I, L), y_vld=arr(f(I), L), e_vld=1e-30)
    elif v == 'cb':
        kw.update(nswp=2, cb=_noop_cb, cache={})
    elif v == 'nswp0':
        kw.update(nswp=0)
    elif v == 'log':
        kw.update(nswp=2, log=True, cache={})
    elif v == 'm_small':        # the budget is exhausted at the first request: the pre-iterated tensor is returned
        kw.update(m=1)
    elif v == 'f_none':         # the target function interrupts the algorithm in the second request
        cnt = []

        def f2(I):
            cnt.append(1)
            return None if len(cnt) > 1 else f(I)
        return Call(teneva.cross, f2, Y0, nswp=3, mut_ok=('info',), info={})
    elif v == 'vld_only':
        I = idx(n, 6, s)
        kw.update(I_vld=arr(I, L), y_vld=arr(f(I), L), e_vld=1e30)
    elif v == 'cache_m':
        kw.update(m=40, cache={}, tau=1.01, tau0=1.01, k0=5)
    elif v == 'dr2':
        kw.update(nswp=2, dr_min=1, dr_max=2)
    elif v == 'cb_true':
        kw.update(nswp=4, cb=lambda Y, info, opts: True)
    elif v == 'conv':
        kw.update(nswp=6, cache={}, m_cache_scale=0)
    return Call(teneva.cross, f, Y0, mut_ok=('info', 'cache'), **kw)


@pat('cross_act', ('base', 'dr0', 'dr2', 'three', 'log', 'generator', 'r1', 'nswp0'))
def _(L, sv, v, s):
    svx = 'base' if sv == 'rank1' else sv       # documented draft limitation: rank-1 *input* tensors fail
    X1, X2, X3 = tt(svx, s, L), tt(svx, s, L, tag=1), tt(svx, s, L, tag=2)
    Y0 = tt(sv, s, L, tag=3)

    def f(X):
        return X[:, 0] + 2 * X[:, 1]
    kw = {'base': dict(dr=2), 'dr0': dict(dr=0), 'dr2': dict(dr=2, dr2=1), 'three': dict(dr=1),
          'log': dict(dr=1, log=True), 'generator': dict(dr=1), 'r1': dict(r=1, dr=1), 'nswp0': dict(dr=1)}[v]
    Xs = [X1, X2, X3] if v == 'three' else [X1, X2]
    seed = np.random.default_rng(s) if v == 'generator' else s
    return Call(teneva.cross_act, f, Xs, Y0, 1e-6, 0 if v == 'nswp0' else 1, seed=seed, **kw)


@pat('accuracy_on_data', ('base', 'trunc', 'none', 'lists'))
def _(L, sv, v, s):
    Y = tt(sv, s, L)
    I, y, I0 = _data(sv, s, L)
    if v == 'trunc':
        return Call(teneva.accuracy_on_data, Y, I, y, e_trunc=1e-2)
    if v == 'none':
        return Call(teneva.accuracy_on_data, Y, None, y)
    if v == 'lists':
        return Call(teneva.accuracy_on_data, Y, I0.tolist(), np.asarray(y).tolist())
    return Call(teneva.accuracy_on_data, Y, I, y)


@pat('cache_to_data', ('base', 'empty'))
def _(L, sv, v, s):
    n, _r = cfg(sv)
    I = idx(n, 3, s, full=False)
    return Call(teneva.cache_to_data, {tuple(int(x) for x in r_): float(k) for k, r_ in enumerate(I)}
                if v == 'base' else {})


# ------------------------------------------------------------------ func / func_full

@pat('func_basis', ('m4', 'm1', 'm2', 'one_dim'))
def _(L, sv, v, s):
    X = pts(sv, 6, s, L)
    if v == 'one_dim':
        return Call(teneva.func_basis, arr(np.asarray(X)[:, 0], L), 5)
    return Call(teneva.func_basis, X, {'m4': 4, 'm1': 1, 'm2': 2}[v])


@pat('func_diff_matrix', ('cheb', 'sin', 'm2'))
def _(L, sv, v, s):
    if v == 'm2':
        return Call(teneva.func_diff_matrix, -1.0, 2.0, 5, 2)
    return Call(teneva.func_diff_matrix, -1.0, 2.0, 5, 1, v)


@pat('func_diff_matrix_apply', ('sin',))
def _(L, sv, v, s):
    A = tt(sv, s, L)
    D = arr(teneva.func_diff_matrix(0.0, 1.0, max(G.shape[1] for G in A), kind='sin'), L)
    return Call(teneva.func_diff_matrix_apply, A, D, 'sin')


def _cheb_funcs(n):
    return [(lambda k: (lambda x: teneva.func_basis(np.asarray(x), k)))(k) for k in n]


@pat('func_get', ('ab_scalar', 'ab_list', 'ab_none', 'single', 'funcs', 'skip_out_false', 'z', 'list_points',
                  'funcs_single', 'a_only', 'single_outside'))
def _(L, sv, v, s):
    A = tt(sv, s, L)
    n = [G.shape[1] for G in A]
    d = len(n)
    X = pts(sv, 5, s, L, -1.2, 1.2)
    if v == 'ab_list':
        return Call(teneva.func_get, X, A, arr([-1.0] * d, L), arr([1.0 + k for k in range(d)], L))
    if v == 'ab_none':
        return Call(teneva.func_get, X, A)
    if v == 'single':
        return Call(teneva.func_get, arr(np.asarray(X)[0], L), A, -1.0, 1.0)
    if v == 'funcs':
        return Call(teneva.func_get, X, A, funcs=_cheb_funcs(n))
    if v == 'skip_out_false':
        return Call(teneva.func_get, X, A, -1.0, 1.0, skip_out=False)
    if v == 'z':
        return Call(teneva.func_get, X, A, -1.0, 1.0, z=-7.0, skip_out=True)
    if v == 'list_points':
        return Call(teneva.func_get, np.asarray(X).tolist(), A, -1.0, 1.0)
    if v == 'funcs_single':     # one callable for all modes (equal mode sizes)
        A = tt(sv, s, L, equal=True)
        return Call(teneva.func_get, X, A, funcs=_cheb_funcs([A[0].shape[1]])[0])
    if v == 'a_only':
        return Call(teneva.func_get, X, A, arr([-1.1] * d, L), None, 3.0)
    if v == 'single_outside':
        return Call(teneva.func_get, arr(np.full(d, 5.0), L), A, -1.0, 1.0, -2.0)
    return Call(teneva.func_get, X, A, -1.0, 1.0)


@pat('func_gets', ('default', 'm_int', 'm_list', 'sin', 'm_array', 'sin_m', 'm_float'))
def _(L, sv, v, s):
    A = tt(sv, s, L)
    d = len(A)
    if v == 'm_int':
        return Call(teneva.func_gets, A, 5)
    if v == 'm_list':
        return Call(teneva.func_gets, A, [3 + k for k in range(d)])
    if v == 'm_array':
        return Call(teneva.func_gets, A, arr([3 + k for k in range(d)], L))
    if v == 'sin':
        return Call(teneva.func_gets, A, None, 'sin')
    if v == 'sin_m':
        return Call(teneva.func_gets, A, arr([2 + k for k in range(d)], L), 'sin')
    if v == 'm_float':
        return Call(teneva.func_gets, A, 4.0)
    return Call(teneva.func_gets, A)


@pat('func_int', ('cheb', 'sin'))
def _(L, sv, v, s):
    if sv == 'mode1' and v == 'cheb':
        raise NA('Chebyshev interpolation needs >= 2 nodes per mode')
    return Call(teneva.func_int, tt(sv, s, L), v)


@pat('func_int_general', ('shared_X', 'per_core_X', 'X_list', 'X_lists', 'rcond'))
def _(L, sv, v, s):
    Y = tt(sv, s, L, equal=True)
    n = Y[0].shape[1]
    X = np.cos(np.pi * np.arange(n) / max(1, n - 1))

    def basis(x):
        return teneva.func_basis(np.asarray(x), n)
    if v == 'per_core_X':
        return Call(teneva.func_int_general, Y, arr(np.tile(X, (len(Y), 1)), L), basis)
    if v == 'X_list':
        return Call(teneva.func_int_general, Y, X.tolist(), basis)
    if v == 'X_lists':
        return Call(teneva.func_int_general, Y, [X.tolist() for _ in Y], basis)
    if v == 'rcond':
        return Call(teneva.func_int_general, Y, arr(X, L), basis, 0.5)
    return Call(teneva.func_int_general, Y, arr(X, L), basis)


@pat('func_sum', ('cheb', 'sin', 'ab_list'))
def _(L, sv, v, s):
    A = tt(sv, s, L)
    if v == 'ab_list':
        return Call(teneva.func_sum, A, arr([-1.0 - k for k in range(len(A))], L),
                    arr([1.0 + k for k in range(len(A))], L))
    return Call(teneva.func_sum, A, -1.0, 1.0, v)


def _full(sv, s, L):
    return arr(gen.dense(tt(sv, s, 'C')), L)


@pat('func_get_full', ('base', 'skip_out_false', 'ab_list'))
def _(L, sv, v, s):
    A = _full(sv, s, L)
    X = pts(sv, 5, s, L, -1.2, 1.2)
    if v == 'ab_list':
        return Call(teneva.func_get_full, X, A, arr([-1.0] * A.ndim, L), arr([2.0] * A.ndim, L))
    return Call(teneva.func_get_full, X, A, -1.0, 1.0, 0.5, v != 'skip_out_false')


@pat('func_gets_full', ('default', 'm', 'm_array'))
def _(L, sv, v, s):
    if sv == 'mode1':
        raise NA('Chebyshev grid needs >= 2 nodes')
    A = _full(sv, s, L)
    if v == 'm_array':
        return Call(teneva.func_gets_full, A, arr([-1.0] * A.ndim, L), arr([1.0] * A.ndim, L),
                    arr([2 + k for k in range(A.ndim)], L))
    return Call(teneva.func_gets_full, A, -1.0, 1.0, 3) if v == 'm' else Call(teneva.func_gets_full, A, -1.0, 1.0)


@pat('func_int_full')
def _(L, sv, v, s):
    if sv == 'mode1':
        raise NA('Chebyshev interpolation needs >= 2 nodes per mode')
    return Call(teneva.func_int_full, _full(sv, s, L))


@pat('func_sum_full', ('scalar', 'ab_list'))
def _(L, sv, v, s):
    A = _full(sv, s, L)
    if v == 'ab_list':
        return Call(teneva.func_sum_full, A, arr([-1.0 - k for k in range(A.ndim)], L),
                    arr([1.0 + k for k in range(A.ndim)], L))
    return Call(teneva.func_sum_full, A, -1.0, 1.0)


# ------------------------------------------------------------------ grid / stat / vectors / matrices

@pat('grid_flat', ('list', 'array', 'scalar'))
def _(L, sv, v, s):
    n, _r = cfg(sv)
    return Call(teneva.grid_flat, {'list': list(n), 'array': arr(n, L), 'scalar': 5}[v])


@pat('grid_prep_opt', ('scalar', 'list', 'array_same', 'array_cast', 'reps', 'none'))
def _(L, sv, v, s):
    n, _r = cfg(sv)
    d = len(n)
    if v == 'scalar':
        return Call(teneva.grid_prep_opt, 2.5, d)
    if v == 'list':
        return Call(teneva.grid_prep_opt, [0.5 * k for k in range(d)], d)
    if v == 'array_same':
        return Call(teneva.grid_prep_opt, arr([0.5 * k for k in range(d)], L), d, alias_ok=(0,))
    if v == 'array_cast':
        return Call(teneva.grid_prep_opt, arr(n, L), d, float, alias_ok=(0,))
    if v == 'reps':
        return Call(teneva.grid_prep_opt, arr([0.5 * k for k in range(d)], L), d, float, 3, alias_ok=(0,))
    return Call(teneva.grid_prep_opt, None, d)


@pat('grid_prep_opts', ('mixed', 'arrays', 'reps', 'lists'))
def _(L, sv, v, s):
    n, _r = cfg(sv)
    d = len(n)
    a, b = arr([-1.0 - k for k in range(d)], L), arr([1.0 + k for k in range(d)], L)
    if v == 'mixed':
        return Call(teneva.grid_prep_opts, -1.0, b, 5, alias_ok=(0, 1, 2))
    if v == 'reps':
        return Call(teneva.grid_prep_opts, a, b, arr(n, L), d, 4, alias_ok=(0, 1, 2))
    if v == 'lists':
        return Call(teneva.grid_prep_opts, a.tolist(), b.tolist(), list(n))
    return Call(teneva.grid_prep_opts, a, b, arr(n, L), alias_ok=(0, 1, 2))


@pat('ind_qtt_to_tt', ('batch', 'single', 'list'))
def _(L, sv, v, s):
    d = ndim(sv)
    I = gen.rng('C09iq', s).integers(0, 2, size=(6, 2 * d))
    return Call(teneva.ind_qtt_to_tt, {'batch': arr(I, L), 'single': arr(I[0], L), 'list': I.tolist()}[v], 2)


@pat('ind_tt_to_qtt', ('batch', 'single', 'list'))
def _(L, sv, v, s):
    d = ndim(sv)
    I = gen.rng('C09tq', s).integers(0, 4, size=(6, d))
    return Call(teneva.ind_tt_to_qtt, {'batch': arr(I, L), 'single': arr(I[0], L), 'list': I.tolist()}[v], 4)


def _grid_args(sv, s, L, v):
    n, _r = cfg(sv)
    d = len(n)
    if v in ('array_opts', 'cheb_array', 'single_array'):
        return arr([-1.0 - k for k in range(d)], L), arr([1.0 + k for k in range(d)], L), arr(n, L)
    if v == 'list_opts':
        return [-1.0 - k for k in range(d)], [1.0 + k for k in range(d)], list(n)
    return -1.0, 2.0, max(2, max(n))


@pat('ind_to_poi', ('scalar_opts', 'list_opts', 'array_opts', 'single', 'cheb', 'cheb_array', 'list_index', 'single_array'))
def _(L, sv, v, s):
    n, _r = cfg(sv)
    a, b, nn = _grid_args(sv, s, L, v)
    I = idx(n, 4, s, full=False)
    kind = 'cheb' if v.startswith('cheb') else 'uni'
    if v in ('single', 'single_array'):      # one multi-index (1-D) with scalar resp. ndarray options
        return Call(teneva.ind_to_poi, arr(I[0], L), a, b, nn, kind)
    if v == 'list_index':
        return Call(teneva.ind_to_poi, I.tolist(), a, b, nn, kind)
    return Call(teneva.ind_to_poi, arr(I, L), a, b, nn, kind)


@pat('poi_scale', ('uni', 'cheb', 'limits', 'single', 'array_opts', 'list_opts', 'single_array'))
def _(L, sv, v, s):
    a, b, _n = _grid_args(sv, s, L, v)
    X = pts(sv, 5, s, L, -2.0, 3.0)
    if v in ('single', 'single_array'):
        return Call(teneva.poi_scale, arr(np.asarray(X)[0], L), a, b)
    if v == 'limits':
        return Call(teneva.poi_scale, X, a, b, [-3.0, 5.0])
    return Call(teneva.poi_scale, X, a, b, 'cheb' if v == 'cheb' else 'uni')


@pat('poi_to_ind', ('uni', 'cheb', 'single', 'array_opts', 'cheb_array', 'list_opts', 'single_array'))
def _(L, sv, v, s):
    a, b, nn = _grid_args(sv, s, L, v)
    X = pts(sv, 5, s, L, -2.0, 3.0)
    kind = 'cheb' if v.startswith('cheb') else 'uni'
    if v in ('single', 'single_array'):
        return Call(teneva.poi_to_ind, arr(np.asarray(X)[0], L), a, b, nn, kind)
    return Call(teneva.poi_to_ind, X, a, b, nn, kind)


@pat('cdf_confidence', ('base', 'alpha'))
def _(L, sv, v, s):
    x = arr(np.sort(gen.rng('C09cdf', s).uniform(size=9)), L)
    return Call(teneva.cdf_confidence, x, 0.1) if v == 'alpha' else Call(teneva.cdf_confidence, x)


@pat('cdf_getter', ('array', 'list'))
def _(L, sv, v, s):
    x = gen.rng('C09cdfg', s).normal(size=9)
    return Call(teneva.cdf_getter, arr(x, L) if v == 'array' else x.tolist(),
                post=lambda c: [c(0.1), c(np.linspace(-1, 1, 5))])


@pat('vector_delta')
def _(L, sv, v, s):
    return Call(teneva.vector_delta, 3, -2, 1.5)


@pat('matrix_delta')
def _(L, sv, v, s):
    return Call(teneva.matrix_delta, 2, 1, -1, 1.5)


# ------------------------------------------------------------------ maxvol / optima / props

def _tall(sv, s, L):
    if sv == 'd1':
        raise NA('matrix argument, not a TT-tensor: no d = 1 form')
    shp = {'base': (8, 3), 'rank1': (5, 1), 'mode1': (2, 1), 'd2': (6, 2), 'd4': (9, 4)}[sv]
    return arr(gen.rng('C09tall', sv, s).normal(size=shp), L)


@pat('maxvol', ('default', 'e1'))
def _(L, sv, v, s):
    A = _tall(sv, s, L)
    return Call(teneva.maxvol, A, 1.0, 20) if v == 'e1' else Call(teneva.maxvol, A)


@pat('maxvol_rect', ('default', 'dr', 'dr_none'))
def _(L, sv, v, s):
    A = _tall(sv, s, L)
    if v == 'dr':
        return Call(teneva.maxvol_rect, A, 1.1, 1, 1)
    if v == 'dr_none':
        return Call(teneva.maxvol_rect, A, 1.01, 0, None)
    return Call(teneva.maxvol_rect, A, dr_max=min(2, A.shape[0] - A.shape[1]))


@pat('_maxvol', ('tall', 'square', 'rect'))
def _(L, sv, v, s):
    A = _tall(sv, s, L)
    if v == 'square':
        return Call(teneva._maxvol, arr(np.asarray(A)[:A.shape[1]], L))
    if v == 'rect':
        return Call(teneva._maxvol, A, 1.1, 1, 1)
    return Call(teneva._maxvol, A)


@pat('_info_appr', ('nswp', 'e'))
def _(L, sv, v, s):
    info = {'stop': None, 'e': 1e-3, 'e_vld': -1, 'nswp': 2, 'r': 2.0}
    return Call(teneva._info_appr, info, 0.0, 2 if v == 'nswp' else None, 1e-2 if v == 'e' else None, None,
                mut_ok=(0,))


@pat('optima_qtt', ('default', 'k2', 'e_r'))
def _(L, sv, v, s):
    if sv == 'mode1':
        raise NA('mode size 1 has no QTT form')
    Y = tt(sv, s, L, equal=True)
    if v == 'e_r':
        return Call(teneva.optima_qtt, Y, 3, 1e-3, 2)
    return Call(teneva.optima_qtt, Y, 2) if v == 'k2' else Call(teneva.optima_qtt, Y)


@pat('optima_tt', ('default', 'k1'))
def _(L, sv, v, s):
    Y = tt(sv, s, L)
    return Call(teneva.optima_tt, Y, 1) if v == 'k1' else Call(teneva.optima_tt, Y)


# DOUBTFUL (disabled, not part of the variants): optima_tt_beam(Y, to_orth=False) works on views of the boundary core
# of its ARGUMENT and rescales it in place (`Q = G.reshape(n, r2); Q *= 2**p0`): the argument is modified for every
# input.  `to_orth` / `p` are not in the docstring (inner use by callers that own the tensor), so the call is not
# a documented argument combination in the sense of the quantifier; variant 'no_orth' below is kept for replay only.
@pat('optima_tt_beam', ('l2r', 'r2l', 'ret_all', 'k1_r2l_all'))
def _(L, sv, v, s):
    Y = tt(sv, s, L)
    kw = {'l2r': {}, 'r2l': dict(l2r=False), 'ret_all': dict(k=3, ret_all=True),
          'k1_r2l_all': dict(k=1, l2r=False, ret_all=True), 'no_orth': dict(to_orth=False)}[v]
    return Call(teneva.optima_tt_beam, Y, **kw)


@pat('optima_tt_max', ('default', 'k1'))
def _(L, sv, v, s):
    Y = tt(sv, s, L)
    return Call(teneva.optima_tt_max, Y, 1) if v == 'k1' else Call(teneva.optima_tt_max, Y)


@pat('optima_tt_maxvol', ('smart', 'l2r', 'r2l', 'both'))
def _(L, sv, v, s):
    return Call(teneva.optima_tt_maxvol, tt(sv, s, L), 2, v)


@pat('optima_func_tt_beam', ('default', 'ret_all', 'k_loc'))
def _(L, sv, v, s):
    n, r = cfg(sv)
    if sv == 'mode1':
        raise NA('functional beam search needs >= 2 coefficients per mode')
    A = gtt([4, 3, 4, 3][:len(n)], r, s, 'gauss', L)
    kw = {'default': dict(k=3), 'ret_all': dict(k=3, ret_all=True), 'k_loc': dict(k=3, k_loc=2)}[v]
    return Call(teneva.optima_func_tt_beam, A, **kw)


for _f in ('erank', 'ranks', 'shape', 'size', 'full', 'show'):
    pat(_f)((lambda f: (lambda L, sv, v, s: Call(getattr(teneva, f), tt(sv, s, L))))(_f))


# ------------------------------------------------------------------ sample / sample_func

@pat('sample', ('m1', 'm5', 'unsert', 'generator', 'm_float'))
def _(L, sv, v, s):
    Y = [np.abs(G) + 0.1 for G in tt(sv, s, 'C')]
    Y = [arr(G, L) for G in Y]
    if v == 'm5':
        return Call(teneva.sample, Y, 5, seed=s)
    if v == 'unsert':
        return Call(teneva.sample, Y, 3, s, 0.0)
    if v == 'generator':
        return Call(teneva.sample, Y, 3, seed=np.random.default_rng(s))
    if v == 'm_float':
        return Call(teneva.sample, Y, 4.0, s, 1e-3)
    return Call(teneva.sample, Y, seed=s)


@pat('sample_square', ('unique', 'nonunique', 'generator', 'm_fact', 'float_cf', 'restart'))
def _(L, sv, v, s):
    Y = tt(sv, s, L)
    if v == 'generator':
        return Call(teneva.sample_square, Y, 3.0, False, np.random.default_rng(s))
    if v == 'm_fact':
        return Call(teneva.sample_square, Y, 2, True, s, 1, 3)
    if v == 'float_cf':
        return Call(teneva.sample_square, Y, 2, unique=False, seed=s, float_cf=2)
    if v == 'restart':      # more unique samples than m_fact * m draws can give at once: the function calls itself again
        size = int(np.prod([G.shape[1] for G in Y]))
        if size < 2:
            raise NA('single-entry tensor')
        return Call(teneva.sample_square, Y, min(3, size), True, s, 1, 100)
    return Call(teneva.sample_square, Y, 2, unique=(v == 'unique'), seed=s)


def _n_arg(fname):
    def build(L, sv, v, s):
        n, _r = cfg(sv)
        nn = list(n) if v == 'list' else arr(n, L)
        seed = np.random.default_rng(s) if v == 'generator' else s
        if fname == 'sample_tt':
            return Call(teneva.sample_tt, nn, 3 if v == 'generator' else 2, seed=seed)
        return Call(getattr(teneva, fname), nn, 7.0 if v == 'generator' else 5, seed=seed)
    return build


for _f in ('sample_lhs', 'sample_rand', 'sample_tt'):
    pat(_f, ('list', 'array', 'generator'))(_n_arg(_f))


@pat('sample_rand_poi', ('list', 'array', 'generator'))
def _(L, sv, v, s):
    n, _r = cfg(sv)
    a, b = [-1.0 - k for k in range(len(n))], [1.0 + k for k in range(len(n))]
    if v == 'generator':
        return Call(teneva.sample_rand_poi, arr(a, L), arr(b, L), 3.0, np.random.default_rng(s))
    return Call(teneva.sample_rand_poi, arr(a, L) if v == 'array' else a, arr(b, L) if v == 'array' else b, 4, seed=s)


@pat('sample_func', ('base', 'generator', 'prepared'))
def _(L, sv, v, s):
    if sv == 'mode1':
        raise NA('needs >= 2 coefficients per mode')
    g = gen.rng('C09sf', sv, s)
    n, r = cfg(sv)
    # coefficients of a positive density: 1 + small perturbation
    A = teneva.func_int([np.ones((1, 5, 1)) for _ in n])
    if v == 'prepared':     # inner-use flag: the cores are taken as they are (already scaled and orthogonalised)
        A = [G + 0.05 * g.normal(size=G.shape) for G in A]
        for G in A:
            G[:, 0, :] *= np.sqrt(2.)
        A = [arr(G, L) for G in teneva.orthogonalize(A, 0)]
        return Call(teneva.sample_func, A, s, True)
    A = [arr(G + 0.05 * g.normal(size=G.shape), L) for G in A]
    return Call(teneva.sample_func, A, seed=np.random.default_rng(s) if v == 'generator' else s)


# ------------------------------------------------------------------ svd / tensors / transformation

def _mat(sv, s, L, shape=None):
    if sv == 'd1':
        raise NA('matrix argument, not a TT-tensor: no d = 1 form')
    shp = shape or {'base': (5, 8), 'rank1': (4, 1), 'mode1': (1, 6), 'd2': (6, 6), 'd4': (7, 4)}[sv]
    return arr(gen.rng('C09mat', sv, s).normal(size=shp), L)


@pat('matrix_skeleton', ('default', 'e_r', 'hermitian', 'rel', 'give_l', 'give_r', 'all_opts'))
def _(L, sv, v, s):
    A = _mat(sv, s, L)
    if v == 'hermitian':
        B = _mat(sv, s, 'C', (5, 5))
        return Call(teneva.matrix_skeleton, arr(B + B.T, L), hermitian=True)
    kw = {'default': {}, 'e_r': dict(e=0.5, r=2), 'rel': dict(e=0.1, rel=True), 'give_l': dict(give_to='l'),
          'give_r': dict(give_to='r'), 'all_opts': dict(e=0.3, r=3.0, rel=True, give_to='r')}[v]
    return Call(teneva.matrix_skeleton, A, **kw)


@pat('matrix_svd', ('wide', 'tall', 'e_r'))
def _(L, sv, v, s):
    A = _mat(sv, s, L)
    if v == 'tall':
        return Call(teneva.matrix_svd, arr(np.asarray(A).T, L))
    return Call(teneva.matrix_svd, A, 0.5, 2) if v == 'e_r' else Call(teneva.matrix_svd, A)


@pat('svd', ('default', 'e_r'))
def _(L, sv, v, s):
    A = _full(sv, s, L)
    return Call(teneva.svd, A, 0.1, 2) if v == 'e_r' else Call(teneva.svd, A)


@pat('svd_matrix', ('q2', 'q1', 'q3'))
def _(L, sv, v, s):
    q = int(v[1])
    A = _mat(sv, s, L, (2 ** q, 2 ** q))
    return Call(teneva.svd_matrix, A)


@pat('svd_incomplete', ('base', 'r_cap'))
def _(L, sv, v, s):
    Yref = tt(sv, s, 'C')
    n = [G.shape[1] for G in Yref]
    I, i1, i2 = teneva.sample_tt(n, 2, seed=s)
    y = vals(Yref, I)
    if v == 'r_cap':
        return Call(teneva.svd_incomplete, arr(I, L), arr(y, L), arr(i1, L), arr(i2, L), 1e-2, 1)
    return Call(teneva.svd_incomplete, arr(I, L), arr(y, L), arr(i1, L), arr(i2, L), 1e-10, 3)


@pat('full_matrix', ('F', 'C'))
def _(L, sv, v, s):
    q = ndim(sv)
    r = 1 if sv == 'rank1' else 2
    return Call(teneva.full_matrix, gtt([4] * q, r, s, 'gauss', L), v)


@pat('const', ('plain_list', 'plain_array', 'zeros_lists', 'zeros_arrays'))
def _(L, sv, v, s):
    n, _r = cfg(sv)
    I = [[0] * len(n), [k - 1 for k in n]]
    inz = [0] * (len(n) - 1) + [n[-1] - 1] if n[-1] > 1 else [n[0] - 1] + [0] * (len(n) - 1)
    if I[1] == inz or I[0] == inz:
        I = [r_ for r_ in I if r_ != inz]
    if v == 'plain_list':
        return Call(teneva.const, list(n), 2.5)
    if v == 'plain_array':
        return Call(teneva.const, arr(n, L), -2.5)
    if not I:
        raise NA('single-entry tensor')
    if v == 'zeros_lists':
        return Call(teneva.const, list(n), 2.5, I, inz)
    return Call(teneva.const, arr(n, L), 2.5, arr(I, L), arr(inz, L))


@pat('delta', ('list', 'array'))
def _(L, sv, v, s):
    n, _r = cfg(sv)
    i = [k - 1 for k in n]
    return Call(teneva.delta, arr(n, L), arr(i, L), 2.0) if v == 'array' else Call(teneva.delta, list(n), i, 2.0)


@pat('poly', ('scalar', 'list_shift', 'array_shift'))
def _(L, sv, v, s):
    n, _r = cfg(sv)
    sh = [0.5 * k - 1 for k in range(len(n))]
    if v == 'scalar':
        return Call(teneva.poly, list(n), 0.5, 2, 3.0)
    return Call(teneva.poly, arr(n, L), arr(sh, L) if v == 'array_shift' else sh, 3, -1.0,
                alias_ok=())


def _rand(fname):
    def build(L, sv, v, s):
        n, r = cfg(sv)
        nn = arr(n, L) if v != 'scalar_r' else list(n)
        rr = {'scalar_r': 2, 'list_r': list(r), 'array_r': arr(r, L), 'generator': arr(r, L)}[v]
        if fname == 'rand_custom':
            g = gen.rng('C09rc', s)
            return Call(teneva.rand_custom, nn, rr, lambda size: g.normal(size=size))
        if v == 'generator':
            extra = {'rand': (-2.0, 3.0), 'rand_norm': (1.0, 0.5), 'rand_stab': (1e-3,)}[fname]
            return Call(getattr(teneva, fname), nn, rr, *extra, np.random.default_rng(s))
        return Call(getattr(teneva, fname), nn, rr, seed=s)
    return build


for _f in ('rand', 'rand_norm', 'rand_stab', 'rand_custom'):
    pat(_f, ('scalar_r', 'list_r', 'array_r') + (() if _f == 'rand_custom' else ('generator',)))(_rand(_f))


@pat('orthogonalize', ('default', 'k0', 'k1', 'stab', 'stab_k0'))
def _(L, sv, v, s):
    Y = tt(sv, s, L)
    kw = {'default': {}, 'k0': dict(k=0), 'k1': dict(k=1), 'stab': dict(use_stab=True),
          'stab_k0': dict(k=0, use_stab=True)}[v]
    return Call(teneva.orthogonalize, Y, **kw)


@pat('orthogonalize_left', ('copy', 'copy_kw'))
def _(L, sv, v, s):
    Y = tt(sv, s, L)
    return Call(teneva.orthogonalize_left, Y, 0) if v == 'copy' else \
        Call(teneva.orthogonalize_left, Y, len(Y) - 2, inplace=False)


@pat('orthogonalize_right', ('copy', 'copy_kw'))
def _(L, sv, v, s):
    Y = tt(sv, s, L)
    return Call(teneva.orthogonalize_right, Y, len(Y) - 1) if v == 'copy' else \
        Call(teneva.orthogonalize_right, Y, 1, inplace=False)


@pat('truncate', ('default', 'e_r', 'no_orth', 'stab', 'svd', 'svd_no_orth', 'stab_svd', 'cap1', 'stab_no_orth',
                  'stab_svd_no_orth', 'e_huge'))
def _(L, sv, v, s):
    Y = tt(sv, s, L)
    kw = {'default': {}, 'e_r': dict(e=0.3, r=2), 'no_orth': dict(e=1e-2, orth=False), 'stab': dict(use_stab=True),
          'svd': dict(e=1e-2, is_eigh=False), 'svd_no_orth': dict(e=1e-2, orth=False, is_eigh=False),
          'stab_svd': dict(e=1e-2, use_stab=True, is_eigh=False), 'cap1': dict(e=0.0, r=1),
          'stab_no_orth': dict(e=1e-3, orth=False, use_stab=True),
          'stab_svd_no_orth': dict(e=1e-3, r=2.0, orth=False, use_stab=True, is_eigh=False), 'e_huge': dict(e=1e10)}[v]
    return Call(teneva.truncate, Y, **kw)


# ------------------------------------------------------------------ the checks

def _leaves(x, path=''):
    if isinstance(x, np.ndarray):
        yield path, x
    elif isinstance(x, (list, tuple)):
        for k, e in enumerate(x):
            yield from _leaves(e, f'{path}[{k}]')
    elif isinstance(x, dict):
        for k, e in x.items():
            yield from _leaves(e, f'{path}[{k!r}]')


def _containers(x):
    if isinstance(x, (list, dict)):
        yield x
        for e in (x.values() if isinstance(x, dict) else x):
            yield from _containers(e)
    elif isinstance(x, tuple):
        for e in x:
            yield from _containers(e)


def _ids(x):
    """identity structure: list lengths and identity of every element (arrays and nested lists)"""
    if isinstance(x, (list, tuple)):
        return (id(x), tuple(_ids(e) for e in x))
    if isinstance(x, dict):
        return (id(x), tuple((repr(k), _ids(e)) for k, e in x.items()))
    if isinstance(x, np.ndarray):
        return (id(x), x.shape, x.strides, x.dtype.str)
    return None


def _state(call):
    return {k: (gen.snapshot(a), _ids(a)) for k, a in call.items() if k not in call.mut_ok and not callable(a)
            and not isinstance(a, np.random.Generator)}


def _reform(x, form):
    """The same argument VALUE in another documented form: 'arrays' turns a flat / rectangular list or tuple of numbers into an
    ndarray of exactly the dtype the library converts to (int64 for integers, float64 otherwise) - so that `np.asanyarray` inside
    the callee is a no-op and an in-place write would reach the caller's buffer; 'lists' turns a 1-D / 2-D numeric ndarray into
    nested lists.  TT-tensors (lists of 3-D cores), arrays of other rank, dicts, callables and generators are left alone."""
    if form == 'arrays' and isinstance(x, (list, tuple)) and len(x) > 0:
        try:
            a = np.array(x)
        except Exception:
            return x
        if a.dtype.kind in 'iu' and a.ndim in (1, 2):
            return a.astype(np.int64)
        if a.dtype.kind == 'f' and a.ndim in (1, 2):
            return a.astype(np.float64)
        return x
    if form == 'lists' and isinstance(x, np.ndarray) and x.ndim in (1, 2) and x.dtype.kind in 'iuf':
        return x.tolist()
    return x


def _build(fn, layout, sv, variant, seed, form='asis'):
    build, variants, _ = PATTERNS[fn]
    call = build(layout, sv, variant, seed)
    if form != 'asis':
        call.args = [_reform(a, form) for a in call.args]
        call.kwargs = {k: _reform(a, form) for k, a in call.kwargs.items()}
    return call


def _run(call):
    buf = io.StringIO()
    with contextlib.redirect_stdout(buf):
        try:
            res = call.fn(*call.args, **call.kwargs)
            extra = call.post(res) if call.post else None
            return res, extra, None
        except Exception as e:      # noqa: the check of the frame continues after a raise
            return None, None, e


def _describe(before, after):
    out = []
    for k in before:
        if before[k][0] != after[k][0]:
            out.append(f'argument {k!r}: contents / shape changed')
        elif before[k][1] != after[k][1]:
            out.append(f'argument {k!r}: element list changed (length or identity of elements / array metadata)')
    return '; '.join(out)


@clause('C09.no_mutation', funcs=())
def no_mutation(fn, layout, sv, variant, seed, form='asis'):
    """Every argument (except the info / cache dictionaries) has the same bytes, shape, dtype, list length and
    element identities after the call as before - also when the call raises."""
    try:
        call = _build(fn, layout, sv, variant, seed, form)
    except NA as e:
        return SKIP(str(e))
    before = _state(call)
    res, extra, exc = _run(call)
    after = _state(call)
    if before != after:
        return FAIL(_describe(before, after) + (f' (call raised {type(exc).__name__})' if exc else ''))
    if exc is not None and form != 'asis' and not (isinstance(exc, ValueError) and 'read-only' in str(exc)):
        return SKIP(f'the re-formed arguments ({form}) are not accepted by this pattern: {type(exc).__name__}')
    if exc is not None:
        if layout == 'R' and isinstance(exc, ValueError) and 'read-only' in str(exc):
            return FAIL(f'the call tried to write into a (read-only) argument: {str(exc)[:200]}')
        why = _blocked(fn, variant, sv)
        if why:
            return SKIP(f'blocked by known defect / not defined for this shape: {why}: {type(exc).__name__}')
        return FAIL(f'pattern not exercised, call raised {type(exc).__name__}: {str(exc)[:200]}')
    if not before:
        return TRIVIAL('no tensor / array / list argument')
    return PASS


@clause('C09.no_alias', funcs=())
def no_alias(fn, layout, sv, variant, seed, form='asis'):
    """No array reachable from the result shares memory with an array reachable from an argument; the result
    container is not an argument container (documented pass-through arguments excepted)."""
    return _no_alias(fn, layout, sv, variant, seed, form)


@clause('C09.no_alias.one_core_full', funcs=('transformation.full', 'transformation.full_matrix'))
def no_alias_one_core_full(fn, layout, sv, variant, seed, form='asis'):
    """The same statement for full / full_matrix of a ONE-core tensor, isolated: on the clean library `full([G])` is
    `Y[0][0, ..., 0]`, a VIEW of the argument's only core (no tensordot ran, nothing was copied), so a write into the
    dense result changes the TT-tensor and vice versa; full_matrix reshapes / transposes that view (possible genuine
    defect, reported; every d >= 2 goes through np.tensordot and is fresh)."""
    return _no_alias(fn, layout, sv, variant, seed, form)


def _no_alias(fn, layout, sv, variant, seed, form='asis'):
    try:
        call = _build(fn, layout, sv, variant, seed, form)
    except NA as e:
        return SKIP(str(e))
    res, extra, exc = _run(call)
    if exc is not None and form != 'asis':
        return SKIP(f'the re-formed arguments ({form}) are not accepted by this pattern: {type(exc).__name__}')
    if exc is not None:
        if layout == 'R' and isinstance(exc, ValueError) and 'read-only' in str(exc):
            return SKIP('write attempt into a read-only argument: reported by C09.no_mutation')
        why = _blocked(fn, variant, sv)
        if why:
            return SKIP(f'blocked by known defect / not defined for this shape: {why}: {type(exc).__name__}')
        return FAIL(f'pattern not exercised, call raised {type(exc).__name__}: {str(exc)[:200]}')
    outs = [('result', res)] + ([('method results', extra)] if extra is not None else [])
    arg_leaves = [(f'{k!r}{p}', a) for k, x in call.items() if k not in call.alias_ok for p, a in _leaves(x)]
    arg_cont = [c for k, x in call.items() if k not in call.alias_ok for c in _containers(x)]
    n_out = 0
    for nm, out in outs:
        for c in _containers(out):
            if any(c is a for a in arg_cont):
                return FAIL(f'{nm}: a returned list / dict is an argument object')
        for p, o in _leaves(out):
            n_out += 1
            for q, a in arg_leaves:
                if o.size and a.size and np.shares_memory(o, a):
                    return FAIL(f'{nm}{p} shares memory with argument {q}')
    if not arg_leaves:
        return TRIVIAL('no array argument')
    return PASS if n_out else TRIVIAL('no array in the result')


@clause('C09.inplace.contract', funcs=('transformation.orthogonalize_left', 'transformation.orthogonalize_right'))
def inplace_contract(side, layout, sv, i, seed):
    """inplace=True (the documented exception): returns the argument list itself, same length; only cores i and
    i+1 (left) / i and i-1 (right) are replaced, every other core is the same object with the same bytes; the result
    denotes the same tensor as inplace=False on a copy (bitwise)."""
    Y = tt(sv, seed, layout)
    d = len(Y)
    j = i + 1 if side == 'left' else i - 1
    if not (0 <= i < d and 0 <= j < d):
        return SKIP('mode outside the range')
    f = teneva.orthogonalize_left if side == 'left' else teneva.orthogonalize_right
    ref = f([G.copy() for G in Y], i)
    old = list(Y)
    snaps = [gen.snapshot(G) for G in Y]
    Z = f(Y, i, inplace=True)
    if Z is not Y:
        return FAIL('inplace=True does not return its argument')
    if len(Y) != d:
        return FAIL('list length changed')
    for k in range(d):
        if k in (i, j):
            continue
        if Y[k] is not old[k] or gen.snapshot(Y[k]) != snaps[k]:
            return FAIL(f'core {k} touched by an in-place step on cores {i}, {j}')
    if any(not np.array_equal(a, b) for a, b in zip(Y, ref)):
        return FAIL('inplace result differs from the result of the copying call')
    return PASS


@clause('C09.passthrough.contract', funcs=('grid.grid_prep_opt', 'grid.grid_prep_opts', 'core.core_stab',
                                           'act_one.copy', 'core.core_dot_maxvol'))
def passthrough_contract(what, layout, seed):
    """The pass-through helpers hand back either the unchanged argument object or a fresh array: never a view
    of a part of it, never a modified argument."""
    g = gen.rng('C09pt', what, seed)
    if what == 'grid_prep_opt':
        for src, kind in ((arr(g.normal(size=3), layout), float), (arr(g.integers(1, 5, size=3), layout), int),
                          (arr(g.integers(1, 5, size=3), layout), float), (arr(g.normal(size=3), layout), int)):
            snap = gen.snapshot(src)
            for reps in (None, 2):
                o = teneva.grid_prep_opt(src, 3, kind, reps)
                if gen.snapshot(src) != snap:
                    return FAIL('argument modified')
                same_kind = src.dtype.kind == ('f' if kind is float else 'i')
                if o is not src and np.shares_memory(o, src) and not (same_kind and reps is None):
                    return FAIL('converted / repeated option is a view of the argument')
        return PASS
    if what == 'grid_prep_opts':
        a, b, n = arr(g.normal(size=3), layout), arr(g.normal(size=3) + 5, layout), arr([3, 4, 5], layout)
        snap = gen.snapshot((a, b, n))
        A, B, N = teneva.grid_prep_opts(a, b, n)
        A2, B2, N2 = teneva.grid_prep_opts(a, b, n, 3, 2)
        if gen.snapshot((a, b, n)) != snap:
            return FAIL('argument modified')
        if any(gen.shares(x, (a, b, n)) for x in (A2, B2, N2)):
            return FAIL('repeated options share memory with the arguments')
        return check(all(np.array_equal(x, y) for x, y in zip((A, B, N), (a, b, n))), 'values changed')
    if what == 'core_stab':
        G = arr(g.normal(size=(2, 3, 2)), layout)
        for scale, below in ((1e-120, True), (0.0, True), (1.0, False), (1e-99, False), (1e30, False)):
            H = arr(np.asarray(G) * scale, layout)
            snap = gen.snapshot(H)
            Q, p = teneva.core_stab(H, 2)
            if gen.snapshot(H) != snap:
                return FAIL('argument modified')
            if below:
                if Q is not H or p != 2:
                    return FAIL(f'below the threshold (scale {scale}) the core / power is not passed through')
            elif np.shares_memory(Q, H):
                return FAIL(f'above the threshold (scale {scale}) the rescaled core shares memory with the argument')
        return PASS
    if what == 'copy':
        for x in (2, 2.5, None):
            if teneva.copy(x) is not x:
                return FAIL('number / None not returned unchanged')
        return PASS
    if what == 'core_dot_maxvol':
        G = arr(g.normal(size=(2, 3, 2)), layout)
        R = arr(g.normal(size=(2, 2)), layout)
        ind = arr(np.array([4, 0, 2]), layout)
        snap = gen.snapshot((G, R, ind))
        Q, ind2 = teneva.core_dot_maxvol(G, R, ind, True)
        if gen.snapshot((G, R, ind)) != snap:
            return FAIL('argument modified')
        if gen.shares(Q, (G, R, ind)):
            return FAIL('returned core shares memory with an argument')
        return check(np.array_equal(ind2, ind), 'given index vector not handed back')
    return FAIL('unknown helper ' + what)


def cases(tier, seed):
    big = tier == 'thorough'
    g = gen.rng('C09', seed)

    def rs():
        return int(g.integers(1 << 20))

    for fn in sorted(PATTERNS):
        variants = PATTERNS[fn][1]
        combos = []
        if big:
            combos = [(L, sv, v) for v in variants for L in LAYOUTS for sv in SHAPE_VARIANTS]
        else:
            # every flag variant: all four layouts on the base shape (an ndarray argument of the dtype the function
            # converts to is used as it is, so every layout reaches the code that might write) and every other shape
            # variant once, the layouts rotating
            for k, v in enumerate(variants):
                if k == 0:
                    combos += [(L, 'base', v) for L in LAYOUTS]
                    combos += [(LAYOUTS[j % 4], sv, v) for j, sv in enumerate(SHAPE_VARIANTS[1:])]
                else:       # C-ordered (alternately read-only) and F-ordered: the layouts for which reshapes are views
                    combos += [('R' if k % 2 else 'C', 'base', v), ('F', 'base', v)]
                    combos += [(LAYOUTS[(k + j) % 4], SHAPE_VARIANTS[1 + (k + j) % 4], v) for j in (0, 1)]
        for L, sv, v in combos:
            for rep in range(2 if big else 1):
                s = rs()
                for cid in ('C09.no_mutation', 'C09.no_alias'):
                    yield cid, dict(fn=fn, layout=L, sv=sv, variant=v, seed=s)
        # every flag variant once more with the arguments re-formed: number lists as int64 / float64 ndarrays (a conversion inside
        # the callee is then a no-op and a write reaches the caller's buffer) and numeric 1-D / 2-D ndarrays as nested lists
        for v in variants:
            if fn in ('grid_prep_opt', 'grid_prep_opts', 'core_stab', 'copy', 'core_dot_maxvol'):
                break       # documented pass-through helpers: their alias contract per argument form is C09.passthrough.contract
            for form in ('arrays', 'lists'):
                for sv in (('base', 'd2') if big else ('base',)):
                    s = rs()
                    for cid in ('C09.no_mutation', 'C09.no_alias'):
                        yield cid, dict(fn=fn, layout='C', sv=sv, variant=v, seed=s, form=form)
    # ---- d = 1: ONE core 1 x n x 1, the smallest TT-tensor (own generator: the cases above keep their seeds).  No sweep step,
    # no bond, no interior core: every function that leaves "the cores it did not touch" as they are hands the argument's
    # array through.  Every flag variant of every pattern that has a d = 1 form, C-ordered (alternately read-only) - reshapes /
    # ascontiguousarray are views there - and once more F-ordered / as a strided view; thorough: all four layouts, two seeds.
    g1 = gen.rng('C09d1', seed)
    for fn in sorted(PATTERNS):
        for k, v in enumerate(PATTERNS[fn][1]):
            for L in (LAYOUTS if big else ('R' if k % 2 else 'C', 'V' if k % 2 else 'F')):
                for rep in range(2 if big else 1):
                    s = int(g1.integers(1 << 20))
                    try:
                        _build(fn, 'C', 'd1', v, s)
                    except NA:
                        continue            # single cores / matrices: no TT-tensor in the call
                    except Exception:
                        pass                # (a builder that raises shows up as a failing case)
                    alias = 'C09.no_alias.one_core_full' if fn in ('full', 'full_matrix') else 'C09.no_alias'
                    for cid in ('C09.no_mutation', alias):
                        yield cid, dict(fn=fn, layout=L, sv='d1', variant=v, seed=s)
    for side in ('left', 'right'):
        for L in LAYOUTS[:3]:
            for sv in SHAPE_VARIANTS:
                for i in range(0, 4):
                    yield 'C09.inplace.contract', dict(side=side, layout=L, sv=sv, i=i, seed=rs())
    for what in ('grid_prep_opt', 'grid_prep_opts', 'core_stab', 'copy', 'core_dot_maxvol'):
        for L in LAYOUTS[:3]:
            yield 'C09.passthrough.contract', dict(what=what, layout=L, seed=rs())
