#!/bin/bash
# Offline set-up: overlay packages for /venv/bin/python (z3-solver, jsonschema) under /verif/.deps.
# /venv itself is left untouched.  The check driver calls this itself if .deps is missing.
set -e
cd "$(dirname "$0")"
if [ ! -f .deps/.ok ]; then
  rm -rf .deps
  PIP_NO_INDEX=1 /venv/bin/python -m pip install -q --no-index --find-links /opt/veriftools/wheels \
      --target .deps z3-solver jsonschema >/dev/null 2>&1 || \
  PIP_NO_INDEX=1 /venv/bin/python -m pip install --no-index --find-links /opt/veriftools/wheels \
      --target .deps z3-solver jsonschema
  touch .deps/.ok
fi
PYTHONPATH=.deps /venv/bin/python -c "import z3, jsonschema; print('setup ok: z3', z3.get_version_string())"
