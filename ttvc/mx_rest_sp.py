"""Model-table entries for the units of contracts/rest_sp.py (sample.sample_rand_poi: C14 / C10;  stat.cdf_confidence: C18 / C10;
cross_act._inter_update: Generator.permutation, C10).

Everything follows the wrapping pattern of kr.py / mx_misc.py: the previous hook is kept and every pattern that is not recognised
falls through to it.  ALL hooks of this module are active only for executors that carry the flag `ex.rest_sp = True`, so that no
other unit sees a different engine.  New value kinds (float analogues of mx_misc.VRows / 'imat'):
  * `sp_VRowsF`: the list of d float vectors of one common length m built by `[rand.uniform(lo_k, hi_k, m) for k in ..]`
    (row k = arr[k], an Int -> Real array); the d draws are logged as ONE family in st.ghost['drawlog'] (see mx_misc.listcomp2);
  * tag 'rest_sp_fmat': np.vstack of such a list (d x m float matrix, rows = the vectors) and its transpose.
np.log / np.clip occur in no other function of teneva; their models (`sp_m_log`, `sp_m_clip`) are NOT put into models.FUNCS but
handed to the one executor that needs them through `callees={'np.log': .., 'np.clip': ..}` (symex looks a dotted NumPy name up in
the unit's callees first), so the lenient tiers of other units keep treating these names exactly as before.
"""
import ast
import z3
from ttvc.symex import Unsupported, ContractMismatch, NONE, VStr, VOpt, VTuple, VRef, VList, VSeq, VArr, VOpaque, Z, is_num, is_intsort
from ttvc import models as M, theory as T, vec as V, pt as PT, rnd as R
from ttvc import mx_misc as XM
from ttvc.models import model, used, to_real

_sp_i = z3.Int('rest_sp_i')


def sp_on(ex):
    return getattr(ex, 'rest_sp', False)


# ----------------------------------------------------------------------------------------------
# sample.sample_rand_poi:  [rand.uniform(a[i], b[i], int(m)) for i in range(d)]  ->  np.vstack(X)  ->  .T

_sp_orig_method = M.method


def sp_method(ex, st, recv, name, args, kwargs, node):
    r = st.deref(recv)
    if sp_on(ex) and isinstance(r, R.VGen) and name == 'uniform' and len(args) == 3 and not kwargs:
        p0, p1 = [to_real(ex.need_num(st, a, node)) for a in args[:2]]
        s_ = ex.need_num(st, args[2], node)
        used('Generator.uniform(low, high, size) with a positional integer size -> float vector of that length (integer size >= 0 required); '
             'entries in [low, high] when low <= high')
        ex.oblige(st, 'call-pre', 'draw-size-is-a-non-negative-integer', z3.And(z3.BoolVal(is_intsort(s_)), Z(s_) >= 0), node)
        arr = ex.fresh('uniform', XM.RA)
        st.assume(z3.ForAll([_sp_i], z3.Implies(p0 <= p1, z3.And(p0 <= arr[_sp_i], arr[_sp_i] <= p1)), patterns=[arr[_sp_i]]))
        out = XM.rvec(s_, arr)
        XM.log_draw(st, r, 'uniform', (p0, p1), [s_], arr)
        return out
    if sp_on(ex) and isinstance(r, R.VGen) and name == 'permutation' and len(args) == 1 and not kwargs:
        k = ex.need_num(st, args[0], node)
        if not is_intsort(k):
            raise Unsupported('Generator.permutation of something else than an integer')
        used('Generator.permutation(k) for an integer k >= 0 -> integer vector of length k, a permutation of arange(k): entries in [0, k), pairwise distinct')
        ex.oblige(st, 'call-pre', 'permutation-of-a-non-negative-integer', Z(k) >= 0, node)
        arr = ex.fresh('perm', XM.IA)
        i2 = z3.Int('rest_sp_i2')
        st.assume(z3.ForAll([_sp_i], z3.Implies(z3.And(0 <= _sp_i, _sp_i < Z(k)), z3.And(0 <= arr[_sp_i], arr[_sp_i] < Z(k))), patterns=[arr[_sp_i]]))
        st.assume(z3.ForAll([_sp_i, i2], z3.Implies(z3.And(0 <= _sp_i, _sp_i < i2, i2 < Z(k)), arr[_sp_i] != arr[i2]),
                            patterns=[z3.MultiPattern(arr[_sp_i], arr[i2])]))
        out = XM.ivec(k, arr)
        XM.log_draw(st, r, 'permutation', (Z(k),), [k], arr)
        return out
    return _sp_orig_method(ex, st, recv, name, args, kwargs, node)


M.method = sp_method


class sp_VRowsF(VSeq):
    """List of d float vectors of one common length m (row j = arr[j], an Int -> Real array)."""
    def __init__(self, arr, n, m):
        VSeq.__init__(self, arr, n, lambda t, m=m: XM.rvec(m, t), 'rest_sp_fvrows')
        self.m = m

    def copy(self):
        return sp_VRowsF(self.arr, self.n, self.m)


_sp_orig_listcomp = M.listcomp


def sp_listcomp(ex, st, e):
    """[rand.uniform(lo(k), hi(k), m) for k in seq]: one draw per element, in the order of the elements."""
    g = e.generators[0] if len(e.generators) == 1 else None
    if not sp_on(ex) or g is None or g.ifs \
            or not any(isinstance(x, ast.Call) and isinstance(x.func, ast.Attribute) and x.func.attr == 'uniform' for x in ast.walk(e.elt)):
        return _sp_orig_listcomp(ex, st, e)
    it = M.iteration(ex, st, g.iter, e)
    if it.concrete is not None:
        return _sp_orig_listcomp(ex, st, e)
    npc, saved = len(st.pc), dict(st.vars)
    nd0, log0 = st.ghost.get('ndraw', z3.IntVal(0)), st.ghost.get('drawlog', [])
    nrc0 = len(st.ghost.get('randcalls', []))
    j = ex.fresh_int('lc')
    cnt0 = ex.cnt
    st.pc.append(z3.And(j >= 0, j < it.n))
    st.ghost['ndraw'], st.ghost['drawlog'] = nd0 + j, []
    try:
        ex.assign(g.target, it.bind(ex, st, j), st)
        elt = st.deref(ex.ev(e.elt, st))          # obligations raised here (index ranges, draw size) carry the guard 0 <= j < n
    finally:
        for k in list(st.vars):
            if k not in saved:
                del st.vars[k]
            else:
                st.vars[k] = saved[k]
    new = st.ghost.get('drawlog', [])
    del st.pc[npc:]                      # facts about the per-element fresh symbols are dropped; what is kept is stated below for every j
    if not (XM.is_vec1(elt) and elt.tag == 'rvec' and len(new) == 1 and new[0]['out'] is elt.t and new[0]['method'] == 'uniform'
            and len(new[0]['shape']) == 1):
        raise Unsupported('list comprehension with draws: the element must be the result of exactly one Generator.uniform of a vector')
    if not any(v is new[0]['gen'] for v in saved.values()) or len(st.ghost.get('randcalls', [])) != nrc0:
        # a generator made while the element is evaluated (`_rand(seed).uniform(..)`, `default_rng().uniform(..)`) would be a new
        # object per element; the generic evaluation sees only one of them
        raise Unsupported('list comprehension with draws: the generator must exist before the comprehension (no generator per element)')
    (p0, p1), m = new[0]['params'], Z(new[0]['shape'][0])
    if XM._consts_after(p0, cnt0) or XM._consts_after(p1, cnt0) or XM._consts_after(m, cnt0) or M._mentions(m, j):
        raise Unsupported('list comprehension with draws: limits / size depend on per-element intermediate values')
    used('[rand.uniform(lo_k, hi_k, m) for k in seq] -> one draw per element in list order; list of len(seq) float vectors of length m, '
         'vector k with entries in [lo_k, hi_k] when lo_k <= hi_k')
    rows = ex.fresh('rows', z3.ArraySort(z3.IntSort(), XM.RA))
    st.assume(z3.ForAll([j, _sp_i], z3.Implies(z3.And(0 <= j, j < it.n, p0 <= p1), z3.And(p0 <= rows[j][_sp_i], rows[j][_sp_i] <= p1)),
                        patterns=[rows[j][_sp_i]]))
    fam = dict(new[0])
    fam.update(idx=nd0 + j, family=(j, it.n), out=rows)
    st.ghost['drawlog'] = log0 + [fam]
    st.ghost['ndraw'] = nd0 + it.n
    return st.alloc(sp_VRowsF(rows, it.n, m))


M.listcomp = sp_listcomp
_sp_orig_vstack = M.FUNCS['np.vstack']


def sp_m_vstack(ex, st, args, kwargs, node):
    v = st.deref(args[0]) if args else None
    if sp_on(ex) and isinstance(v, sp_VRowsF) and len(args) == 1 and not kwargs:
        used('np.vstack(list of d float vectors of length m) -> d x m matrix whose rows are the vectors (d >= 1 required)')
        ex.oblige(st, 'call-pre', 'vstack-needs-at-least-one-array', v.n >= 1, node)
        out = VArr((v.n, v.m), None, 'rest_sp_fmat', 'f')
        out.rows, out.transposed = v.arr, False
        return out
    return _sp_orig_vstack(ex, st, args, kwargs, node)


M.FUNCS['np.vstack'] = sp_m_vstack


def sp_fmat_entry(a, i, j):
    """Entry [i, j] of a 'rest_sp_fmat' array (rows stacked by np.vstack, possibly transposed)."""
    return a.rows[j][i] if a.transposed else a.rows[i][j]


_sp_orig_attribute = M.attribute


def sp_attribute(ex, st, v, attr, node):
    if sp_on(ex) and isinstance(v, VArr) and v.tag == 'rest_sp_fmat' and attr == 'T':
        used('ndarray.T of a matrix -> transposed')
        out = VArr((v.shape[1], v.shape[0]), None, 'rest_sp_fmat', v.dtype)
        out.rows, out.transposed = v.rows, not v.transposed
        return out
    return _sp_orig_attribute(ex, st, v, attr, node)


M.attribute = sp_attribute


# ----------------------------------------------------------------------------------------------
# stat.cdf_confidence:  np.log (natural logarithm, uninterpreted `ln` with the facts of the group 'rest_sp_ln') and np.clip
sp_ln = z3.Function('rest_sp_ln', T.R, T.R)
_sp_x, _sp_y = z3.Reals('rest_sp_x rest_sp_y')


def sp_ln_mono(x, y):
    """ln is monotone on the positive reals"""
    return z3.Implies(z3.And(0 < x, x <= y), sp_ln(x) <= sp_ln(y))


def sp_ln_sign(x):
    """ln is non-negative from 1 on and non-positive on (0, 1]"""
    return z3.And(z3.Implies(x >= 1, sp_ln(x) >= 0), z3.Implies(z3.And(0 < x, x <= 1), sp_ln(x) <= 0))


T.GROUPS['rest_sp_ln'] = [
    sp_ln(1) == 0,
    T.A([_sp_x, _sp_y], sp_ln_mono(_sp_x, _sp_y), [z3.MultiPattern(sp_ln(_sp_x), sp_ln(_sp_y))]),
    T.A([_sp_x], z3.Implies(_sp_x >= 1, sp_ln(_sp_x) >= 0), [sp_ln(_sp_x)]),
    T.A([_sp_x], z3.Implies(z3.And(0 < _sp_x, _sp_x <= 1), sp_ln(_sp_x) <= 0), [sp_ln(_sp_x)]),
]


def sp_m_log(ex, st, args, kwargs, node):
    """np.log of a positive number.  The facts about ln that are handed out are the INSTANCES, for this argument, of the axioms
    of the spot-checked group 'rest_sp_ln' (sign, monotonicity against ln(1) = 0) - quantifier free, so that the arithmetic
    obligations of the caller stay outside e-matching."""
    if not sp_on(ex) or len(args) != 1 or kwargs:
        raise Unsupported('np.log calling pattern')
    v = st.deref(args[0])
    if isinstance(v, VArr):
        raise Unsupported('np.log of an array')
    x = to_real(ex.need_num(st, v, node))
    ex.oblige(st, 'safety', 'log-of-positive', x > 0, node)
    used('np.log(x) for a number x > 0 -> ln(x) (uninterpreted; ln(1) = 0, monotone, ln(x) >= 0 for x >= 1, ln(x) <= 0 for 0 < x <= 1)   [A-REAL]')
    one = z3.RealVal(1)
    st.assume(sp_ln(one) == 0, sp_ln_sign(x), sp_ln_mono(one, x), sp_ln_mono(x, one))
    st.ghost['rest_sp_ln'] = st.ghost.get('rest_sp_ln', []) + [x]
    return sp_ln(x)


def sp_clip(v, lo, hi):
    """np.clip(v, lo, hi) = minimum(maximum(v, lo), hi), per element"""
    mx = z3.If(v < lo, lo, v)
    return z3.If(mx > hi, hi, mx)


def sp_m_clip(ex, st, args, kwargs, node):
    if not sp_on(ex) or len(args) != 3 or kwargs:
        raise Unsupported('np.clip calling pattern')
    a = st.deref(args[0])
    if not PT.is_pt(a):
        raise Unsupported('np.clip of a value outside the pointwise tier')
    lo, hi = [to_real(ex.need_num(st, x, node)) for x in args[1:]]
    used('np.clip(A, lo, hi) with numbers lo, hi -> array of the shape of A, elementwise minimum(maximum(A, lo), hi) (float result for a float A)')
    return PT.pt(a.shape, sp_clip(to_real(a.t), lo, hi))
