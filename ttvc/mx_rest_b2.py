"""Spec symbols, theory groups and model-table entries for ANOVA.build_2 (contracts/rest_b2.py; C13, C10).

Everything follows the wrapping pattern of kr.py (the previous hook is kept, whatever is not recognised falls through to it) and is
ACTIVE ONLY for executors that carry the flag `ex.rest_b2 = True`.  The units of contracts/rest_b2.py additionally set `ex.anova = True`
and reuse the models of ttvc/mx_anova.py (IMat2 sample matrix, `c == x` masks with their provenance `eq_src`, KMap / KMap2 tables,
attribute stores on `self`, coded lists of integer vectors) and its spec symbols ccnt / cmean.

Spec symbols (every group is exercised by lemmas/spotcheck.py through lemmas/spotcheck_ext_rest_b2.py):
  rest_b2_ccnt2(c1, x1, c2, x2, n)     = #{s < n : c1[s] == x1 and c2[s] == x2}            samples that carry the pair of values
  rest_b2_csum2(y, c1, x1, c2, x2, n)  = sum_{s<n, c1[s]==x1, c2[s]==x2} y[s]
  rest_b2_cmean2(y, c1, x1, c2, x2, n) = csum2 / ccnt2  (for ccnt2 > 0)                    = np.mean(y[(c1 == x1) & (c2 == x2)])
  rest_b2_tri(d, a)                    = sum_{t<a} (d - 1 - t)                             number of pairs (i1 < i2 < d) with i1 < a
  rest_b2_pos(d, a, b)                 = tri(d, a) + b - a - 1                             storage position of the pair (a, b) in the
                                         enumeration (0,1), (0,2), .., (0,d-1), (1,2), ..
  rest_b2_e1(d, m), rest_b2_e2(d, m)   the two modes of the pair stored at position m of that enumeration (inverse of pos on 0 <= a < b < d)
Theory groups:
  'rest_b2_csum2'   recursive definitions of ccnt2 / csum2 over the sample index (two-term multi-patterns: no new terms) and
                    ccnt2 >= 0 for n >= 0
  'rest_b2_sym'     ccnt2 / csum2 / cmean2 do not depend on the order of the two conditions
  'rest_b2_cmean2'  the defining equation of the conditional mean (a product of two symbolic numbers: only ever handed to
                    quantifier-free obligations)
  'rest_b2_tri'     recursive definition of tri, definition of pos (the closed form 2 tri(d, a) = a (2d - 1 - a) is DERIVED in the unit),
                    e1 / e2 invert pos on the pairs 0 <= a < b < d

Value kinds and hooks:
  b2_MaskCache   the per-call dict `cache` of build_2: keys are plain integers (arity 1) or pairs of integers (arity 2), values are
                 boolean masks `c == x` of which the PROVENANCE is stored (the column c, the value x, the length): z3 arrays
                 has / col / xv / ln indexed by (arity, first, second).  `dict()` / `{}` assigned to a name that the unit declares by
                 a type hint gives the empty cache (no key stored).  A lookup of a key that is not stored raises KeyError:
                 outside `try` it is the safety obligation `key-present`; the statement
                        try: NAME = cache[key]
                        except KeyError: <handler>
                 forks on `has[key]`: stored -> the body runs, not stored -> the handler runs (nothing else in such a body can raise).
  b2_PairTab     a mutable dict from pairs of integers to reals (`f2_curr`): the KMap2 of mx_anova plus stores; once appended to the
                 list of pair tables it is frozen (a later store would be visible through the list: Unsupported).
  m1 & m2        of two masks with provenance: the mask of the conjunction (provenance `b2_and_src`), equal lengths obliged;
  m.sum()        of such a mask: ccnt2 (an integer >= 0);  y[m]: the selected sub-vector (b2_MaskedSel2, never materialised);
  np.mean(y[m])  = cmean2, obliges a non-empty selection (NumPy returns nan with a warning otherwise: outside A-REAL) - handed to the
                 units through `callees` (b2_np_mean falls back to mx_anova.np_mean).
  enumerate(xs, start=s) is handled (ungated) by ttvc/mx_act.py: pairs (s + j, xs[j]).
"""
import ast
import z3
from ttvc import symex
from ttvc.symex import Unsupported, ContractMismatch, NONE, VTuple, VRef, VList, VSeq, VArr, Z, is_num, is_intsort
from ttvc import models as M, theory as T
from ttvc import mx_anova as XAN
from ttvc.models import used, to_real

b2_I, b2_R, b2_B = z3.IntSort(), z3.RealSort(), z3.BoolSort()
b2_IA, b2_RA, b2_BA, b2_RAA = XAN.IA, XAN.RA, XAN.BA, XAN.RAA
b2_BAA = z3.ArraySort(b2_I, b2_BA)


def b2_A3(sort):
    """(arity, first, second) -> sort"""
    return z3.ArraySort(b2_I, z3.ArraySort(b2_I, z3.ArraySort(b2_I, sort)))


def b2_on(ex):
    return getattr(ex, 'rest_b2', False)


# ----------------------------------------------------------------------------------------------
# theory

b2_ccnt2 = z3.Function('rest_b2_ccnt2', b2_IA, b2_I, b2_IA, b2_I, b2_I, b2_I)
b2_csum2 = z3.Function('rest_b2_csum2', b2_RA, b2_IA, b2_I, b2_IA, b2_I, b2_I, b2_R)
b2_cmean2 = z3.Function('rest_b2_cmean2', b2_RA, b2_IA, b2_I, b2_IA, b2_I, b2_I, b2_R)
b2_tri = z3.Function('rest_b2_tri', b2_I, b2_I, b2_I)
b2_pos = z3.Function('rest_b2_pos', b2_I, b2_I, b2_I, b2_I)
b2_e1 = z3.Function('rest_b2_e1', b2_I, b2_I, b2_I)
b2_e2 = z3.Function('rest_b2_e2', b2_I, b2_I, b2_I)

_b2_c1, _b2_c2 = z3.Consts('rest_b2_c1!v rest_b2_c2!v', b2_IA)
_b2_y = z3.Const('rest_b2_y!v', b2_RA)
_b2_x1, _b2_x2, _b2_k, _b2_j, _b2_n, _b2_d, _b2_a, _b2_b = z3.Ints('rest_b2_x1!v rest_b2_x2!v rest_b2_k!v rest_b2_j!v rest_b2_n!v rest_b2_d!v rest_b2_a!v rest_b2_b!v')


def _b2_hit(k):
    return z3.And(_b2_c1[k] == _b2_x1, _b2_c2[k] == _b2_x2)


T.GROUPS['rest_b2_csum2'] = [
    T.A([_b2_c1, _b2_x1, _b2_c2, _b2_x2], b2_ccnt2(_b2_c1, _b2_x1, _b2_c2, _b2_x2, 0) == 0, [b2_ccnt2(_b2_c1, _b2_x1, _b2_c2, _b2_x2, 0)]),
    T.A([_b2_c1, _b2_x1, _b2_c2, _b2_x2, _b2_k, _b2_j],
        z3.Implies(z3.And(_b2_k >= 0, _b2_j == _b2_k + 1),
                   b2_ccnt2(_b2_c1, _b2_x1, _b2_c2, _b2_x2, _b2_j) == b2_ccnt2(_b2_c1, _b2_x1, _b2_c2, _b2_x2, _b2_k) + z3.If(_b2_hit(_b2_k), 1, 0)),
        [z3.MultiPattern(b2_ccnt2(_b2_c1, _b2_x1, _b2_c2, _b2_x2, _b2_k), b2_ccnt2(_b2_c1, _b2_x1, _b2_c2, _b2_x2, _b2_j))]),
    T.A([_b2_c1, _b2_x1, _b2_c2, _b2_x2, _b2_n], z3.Implies(_b2_n >= 0, b2_ccnt2(_b2_c1, _b2_x1, _b2_c2, _b2_x2, _b2_n) >= 0),
        [b2_ccnt2(_b2_c1, _b2_x1, _b2_c2, _b2_x2, _b2_n)]),
    T.A([_b2_y, _b2_c1, _b2_x1, _b2_c2, _b2_x2], b2_csum2(_b2_y, _b2_c1, _b2_x1, _b2_c2, _b2_x2, 0) == 0,
        [b2_csum2(_b2_y, _b2_c1, _b2_x1, _b2_c2, _b2_x2, 0)]),
    T.A([_b2_y, _b2_c1, _b2_x1, _b2_c2, _b2_x2, _b2_k, _b2_j],
        z3.Implies(z3.And(_b2_k >= 0, _b2_j == _b2_k + 1),
                   b2_csum2(_b2_y, _b2_c1, _b2_x1, _b2_c2, _b2_x2, _b2_j)
                   == b2_csum2(_b2_y, _b2_c1, _b2_x1, _b2_c2, _b2_x2, _b2_k) + z3.If(_b2_hit(_b2_k), _b2_y[_b2_k], 0)),
        [z3.MultiPattern(b2_csum2(_b2_y, _b2_c1, _b2_x1, _b2_c2, _b2_x2, _b2_k), b2_csum2(_b2_y, _b2_c1, _b2_x1, _b2_c2, _b2_x2, _b2_j))]),
]
T.GROUPS['rest_b2_cmean2'] = [
    T.A([_b2_y, _b2_c1, _b2_x1, _b2_c2, _b2_x2, _b2_n],
        z3.Implies(b2_ccnt2(_b2_c1, _b2_x1, _b2_c2, _b2_x2, _b2_n) >= 1,
                   b2_cmean2(_b2_y, _b2_c1, _b2_x1, _b2_c2, _b2_x2, _b2_n) * z3.ToReal(b2_ccnt2(_b2_c1, _b2_x1, _b2_c2, _b2_x2, _b2_n))
                   == b2_csum2(_b2_y, _b2_c1, _b2_x1, _b2_c2, _b2_x2, _b2_n)),
        [b2_cmean2(_b2_y, _b2_c1, _b2_x1, _b2_c2, _b2_x2, _b2_n)]),
]
_b2_args = (_b2_c1, _b2_x1, _b2_c2, _b2_x2, _b2_n)
_b2_swap = (_b2_c2, _b2_x2, _b2_c1, _b2_x1, _b2_n)
# the order of the two conditions does not matter (`m2 & m1` is the same mask as `m1 & m2`): each instance creates at most the one
# swapped term, whose own instance creates nothing new
T.GROUPS['rest_b2_sym'] = [
    T.A([_b2_c1, _b2_x1, _b2_c2, _b2_x2, _b2_n], b2_ccnt2(*_b2_args) == b2_ccnt2(*_b2_swap), [b2_ccnt2(*_b2_args)]),
    T.A([_b2_y, _b2_c1, _b2_x1, _b2_c2, _b2_x2, _b2_n], b2_csum2(_b2_y, *_b2_args) == b2_csum2(_b2_y, *_b2_swap), [b2_csum2(_b2_y, *_b2_args)]),
    T.A([_b2_y, _b2_c1, _b2_x1, _b2_c2, _b2_x2, _b2_n],
        z3.Implies(b2_ccnt2(*_b2_args) >= 1, b2_cmean2(_b2_y, *_b2_args) == b2_cmean2(_b2_y, *_b2_swap)), [b2_cmean2(_b2_y, *_b2_args)]),
]
T.GROUPS['rest_b2_tri'] = [
    T.A([_b2_d], b2_tri(_b2_d, 0) == 0, [b2_tri(_b2_d, 0)]),
    T.A([_b2_d, _b2_k, _b2_j], z3.Implies(z3.And(_b2_k >= 0, _b2_j == _b2_k + 1), b2_tri(_b2_d, _b2_j) == b2_tri(_b2_d, _b2_k) + _b2_d - 1 - _b2_k),
        [z3.MultiPattern(b2_tri(_b2_d, _b2_k), b2_tri(_b2_d, _b2_j))]),
    T.A([_b2_d, _b2_a, _b2_b], b2_pos(_b2_d, _b2_a, _b2_b) == b2_tri(_b2_d, _b2_a) + _b2_b - _b2_a - 1, [b2_pos(_b2_d, _b2_a, _b2_b)]),
    T.A([_b2_d, _b2_a, _b2_b], z3.Implies(z3.And(0 <= _b2_a, _b2_a < _b2_b, _b2_b < _b2_d),
                                          z3.And(b2_e1(_b2_d, b2_pos(_b2_d, _b2_a, _b2_b)) == _b2_a, b2_e2(_b2_d, b2_pos(_b2_d, _b2_a, _b2_b)) == _b2_b)),
        [b2_pos(_b2_d, _b2_a, _b2_b)]),
]


# ----------------------------------------------------------------------------------------------
# value kinds

class b2_MaskCache:
    def __init__(self, has, col, xv, ln):
        self.has, self.col, self.xv, self.ln = has, col, xv, ln

    def copy(self):
        return b2_MaskCache(self.has, self.col, self.xv, self.ln)


class b2_PairTab(XAN.KMap2):
    def __init__(self, val, dom, frozen=False):
        super().__init__(val, dom)
        self.frozen = frozen

    def copy(self):
        return b2_PairTab(self.val, self.dom, self.frozen)


class b2_MaskedSel2(VArr):
    """y[(c1 == x1) & (c2 == x2)]: the sub-vector of the real vector y (length n) at the samples that carry the pair."""
    def __init__(self, nsel, y, src, n):
        super().__init__((nsel,), None, 'masked2', 'f')
        self.y, self.src, self.n = y, src, n


def b2_mask_cache(ex, st):
    """type hint for `cache = dict()`: the empty cache of masks"""
    used('dict() / {} -> empty dict (no key stored); here: keys = integers or pairs of integers, values = masks `c == x` [rest_b2]')
    empty = z3.K(b2_I, z3.K(b2_I, z3.K(b2_I, z3.BoolVal(False))))
    return st.alloc(b2_MaskCache(empty, ex.fresh('cache_col', b2_A3(b2_IA)), ex.fresh('cache_x', b2_A3(b2_I)), ex.fresh('cache_len', b2_A3(b2_I))))


def b2_pair_table(ex, st):
    """type hint for `f2_curr = {}`: the empty dict from pairs of integers to reals"""
    used('{} -> empty dict (no key stored); here: keys = pairs of integers, values = reals [rest_b2]')
    return st.alloc(b2_PairTab(ex.fresh('dict2val', b2_RAA), z3.K(b2_I, z3.K(b2_I, z3.BoolVal(False)))))


def b2_pair_table_seq(ex, st, arr=None, n=None):
    """A Python list of dicts from pairs of integers to reals (symbolic length): element k is the table with code arr[k]
    (values T2VAL(code), key set T2DOM(code) of mx_anova - the list kind that ANOVA.calc_2 reads)."""
    seq = VSeq(arr if arr is not None else ex.fresh('tables2', b2_IA), n if n is not None else z3.IntVal(0),
               lambda c: XAN.KMap2(XAN.T2VAL(c), XAN.T2DOM(c)), tag='tables2')

    def unwrap(ex_, st_, v, node):
        o = st_.deref(v)
        if not isinstance(o, b2_PairTab):
            raise ContractMismatch('what is appended to the list of pair tables is not a dict from pairs of indices to reals')
        if isinstance(v, VRef):
            st_.heap[v.oid].frozen = True
        c = ex_.fresh_int('table2')
        st_.assume(XAN.T2VAL(c) == o.val, XAN.T2DOM(c) == o.dom)
        return c
    seq.unwrap = unwrap
    return st.alloc(seq)


# ---- `name = dict()` / `name = {}` for a name declared by the unit

_b2_orig_st_Assign = symex.Exec.st_Assign


def _b2_st_Assign(self, s, st):
    if b2_on(self) and len(s.targets) == 1 and isinstance(s.targets[0], ast.Name) and callable(self.type_hints.get(s.targets[0].id)) \
            and getattr(self.type_hints[s.targets[0].id], 'b2_dict', False):
        v = s.value
        empty = (isinstance(v, ast.Dict) and not v.keys) or \
                (isinstance(v, ast.Call) and isinstance(v.func, ast.Name) and v.func.id == 'dict' and 'dict' not in st.vars and not v.args and not v.keywords)
        if empty:
            st.vars[s.targets[0].id] = self.type_hints[s.targets[0].id](self, st)
            return [(st, symex.NORMAL)]
    return _b2_orig_st_Assign(self, s, st)


symex.Exec.st_Assign = _b2_st_Assign


def b2_dict_hint(kind):
    """marks a type hint as the kind of an empty dict literal (only such hints are looked at by the hook above)"""
    f = lambda ex, st: kind(ex, st)
    f.b2_dict = True
    return f


# ---- keys

def _b2_key(ex, st, sl_, what):
    """(arity, first, second) of a dict key: a plain integer or a pair of integers"""
    key = ex.ev(sl_, st)
    if isinstance(key, VTuple) and len(key.items) == 2 and all(is_intsort(x) and not isinstance(x, bool) for x in key.items):
        return z3.IntVal(2), Z(key.items[0]), Z(key.items[1])
    if is_intsort(key) and not isinstance(key, bool):
        return z3.IntVal(1), Z(key), z3.IntVal(0)
    raise Unsupported(f'{what} with a key that is neither an integer nor a pair of integers')


def _b2_sel(arr, key):
    return arr[key[0]][key[1]][key[2]]


def _b2_upd(arr, key, v):
    a1 = arr[key[0]]
    return z3.Store(arr, key[0], z3.Store(a1, key[1], z3.Store(a1[key[1]], key[2], v)))


_b2_iq = z3.Int('rest_b2_i!q')


def _b2_cached_mask(ex, st, c, key):
    """the mask stored under the key: the mask `col == xv` of the recorded provenance"""
    col, xv, ln = _b2_sel(c.col, key), _b2_sel(c.xv, key), _b2_sel(c.ln, key)
    mk = ex.fresh('cmask', b2_BA)
    st.assume(z3.ForAll([_b2_iq], mk[_b2_iq] == (col[_b2_iq] == xv), patterns=[mk[_b2_iq]]))
    out = VArr((ln,), mk, 'bvec', 'b')
    out.eq_src = (col, xv)
    return out


_b2_orig_subscript = M.subscript


def b2_subscript(ex, st, base, sl_, node):
    b = st.deref(base)
    if isinstance(b, b2_MaskCache):
        if not b2_on(ex):
            raise Unsupported('cache of masks outside its tier')
        key = _b2_key(ex, st, sl_, 'dict lookup')
        used('cache[key] -> the stored mask; KeyError unless the key is stored [rest_b2]')
        ex.oblige(st, 'safety', 'key-present', _b2_sel(b.has, key), node)
        return _b2_cached_mask(ex, st, b, key)
    return _b2_orig_subscript(ex, st, base, sl_, node)


M.subscript = b2_subscript

_b2_orig_store = M.store


def b2_store(ex, st, base, sl_, v, node, base_node):
    b = st.deref(base)
    if isinstance(b, b2_MaskCache):
        if not b2_on(ex):
            raise Unsupported('cache of masks outside its tier')
        key = _b2_key(ex, st, sl_, 'dict store')
        mk = st.deref(v)
        src = getattr(mk, 'eq_src', None) if isinstance(mk, VArr) and mk.ndim == 1 and mk.tag == 'bvec' else None
        if src is None:
            raise Unsupported(f'store of something else than a mask `column == value` into the cache (line {node.lineno})')
        used('cache[key] = mask -> key stored with the mask [rest_b2]')
        b.has, b.col = _b2_upd(b.has, key, z3.BoolVal(True)), _b2_upd(b.col, key, src[0])
        b.xv, b.ln = _b2_upd(b.xv, key, src[1]), _b2_upd(b.ln, key, Z(mk.shape[0]))
        return
    if isinstance(b, b2_PairTab):
        if not b2_on(ex):
            raise Unsupported('pair table outside its tier')
        if b.frozen:
            raise Unsupported(f'store into a dict that already lives in a list (line {node.lineno}): aliasing is not modelled')
        key = ex.ev(sl_, st)
        if not (isinstance(key, VTuple) and len(key.items) == 2 and all(is_intsort(x) and not isinstance(x, bool) for x in key.items)):
            raise Unsupported('store into a dict of pairs with a key that is not a pair of integers')
        val = ex.need_num(st, v, node, 'dict-value')
        used('d[x1, x2] = v -> key (x1, x2) added, value stored [rest_b2]')
        k1, k2 = Z(key.items[0]), Z(key.items[1])
        b.val = z3.Store(b.val, k1, z3.Store(b.val[k1], k2, to_real(val)))
        b.dom = z3.Store(b.dom, k1, z3.Store(b.dom[k1], k2, z3.BoolVal(True)))
        return
    return _b2_orig_store(ex, st, base, sl_, v, node, base_node)


M.store = b2_store

_b2_orig_havoc = M.havoc


def b2_havoc(ex, st, v, name, mutated):
    o = st.heap.get(v.oid) if isinstance(v, VRef) else None
    if isinstance(o, b2_MaskCache):
        st.heap[v.oid] = b2_MaskCache(ex.fresh(name + '_has', b2_A3(b2_B)), ex.fresh(name + '_col', b2_A3(b2_IA)),
                                      ex.fresh(name + '_x', b2_A3(b2_I)), ex.fresh(name + '_len', b2_A3(b2_I)))
        return v
    if isinstance(o, b2_PairTab):
        if o.frozen:
            raise ContractMismatch(f'the dict {name} is mutated in a loop after it was appended to a list')
        st.heap[v.oid] = b2_PairTab(ex.fresh(name + '_val', b2_RAA), ex.fresh(name + '_dom', b2_BAA))
        return v
    return _b2_orig_havoc(ex, st, v, name, mutated)


M.havoc = b2_havoc


# ---- try: NAME = cache[key] / except KeyError: handler

_b2_orig_try = M.try_stmt


def b2_try_stmt(ex, st, s):
    if b2_on(ex) and not s.orelse and not s.finalbody and len(s.handlers) == 1 and s.handlers[0].name is None \
            and isinstance(s.handlers[0].type, ast.Name) and s.handlers[0].type.id == 'KeyError' and 'KeyError' not in st.vars \
            and len(s.body) == 1 and isinstance(s.body[0], ast.Assign) and len(s.body[0].targets) == 1 and isinstance(s.body[0].targets[0], ast.Name) \
            and isinstance(s.body[0].value, ast.Subscript) and isinstance(s.body[0].value.value, ast.Name):
        c = st.deref(st.vars.get(s.body[0].value.value.id))
        if isinstance(c, b2_MaskCache):
            key = _b2_key(ex, st, s.body[0].value.slice, 'dict lookup')
            used('try: v = cache[key] / except KeyError: handler -> the body runs iff the key is stored, the handler iff it is not [rest_b2]')
            if ex.decide(st, _b2_sel(c.has, key), s):
                return ex.exec_block(s.body, st)
            return ex.exec_block(s.handlers[0].body, st)
    return _b2_orig_try(ex, st, s)


M.try_stmt = b2_try_stmt


# ---- m1 & m2, m.sum(), y[m], np.mean(y[m])

_b2_orig_binop = M.arr_binop


def b2_arr_binop(ex, st, op, l, r, node):
    if b2_on(ex) and isinstance(op, ast.BitAnd) and all(isinstance(x, VArr) and x.ndim == 1 and x.tag == 'bvec' and x.t is not None
                                                         and getattr(x, 'eq_src', None) is not None for x in (l, r)):
        used('m1 & m2 of two boolean masks -> elementwise conjunction (requires equal lengths) [rest_b2]')
        ex.oblige(st, 'call-pre', 'masks-of-equal-length', Z(l.shape[0]) == Z(r.shape[0]), node)
        mk = ex.fresh('andmask', b2_BA)
        st.assume(z3.ForAll([_b2_iq], mk[_b2_iq] == z3.And(l.t[_b2_iq], r.t[_b2_iq]), patterns=[mk[_b2_iq]]))
        out = VArr(l.shape, mk, 'bvec', 'b')
        out.b2_and_src = (l.eq_src, r.eq_src)
        return out
    return _b2_orig_binop(ex, st, op, l, r, node)


M.arr_binop = b2_arr_binop


def _b2_cnt(src, n):
    return b2_ccnt2(src[0][0], src[0][1], src[1][0], src[1][1], n)


_b2_orig_method = M.method


def b2_method(ex, st, recv, name, args, kwargs, node):
    r = st.deref(recv)
    if b2_on(ex) and isinstance(r, VArr) and name == 'sum' and not args and not kwargs and getattr(r, 'b2_and_src', None) is not None:
        used('((c1 == x1) & (c2 == x2)).sum() -> ccnt2(c1, x1, c2, x2, n): the number of positions where both hold (an integer >= 0) '
             '[axiom group rest_b2_csum2, spot-checked]')
        return _b2_cnt(r.b2_and_src, Z(r.shape[0]))
    if b2_on(ex) and isinstance(r, b2_MaskedSel2):
        if name == 'mean':                 # y[m].mean(): the same statement as np.mean(y[m]) (the generic model would answer "some real")
            return b2_np_mean(ex, st, [r] + list(args), kwargs, node)
        raise Unsupported(f'method .{name} on a selection by a conjunction of masks at line {node.lineno}')
    return _b2_orig_method(ex, st, recv, name, args, kwargs, node)


M.method = b2_method

_b2_orig_index = M.arr_index


def b2_arr_index(ex, st, a, sl_, node):
    if b2_on(ex) and isinstance(a, VArr) and a.ndim == 1 and a.tag == 'rvec' and a.t is not None and isinstance(sl_, ast.Name):
        mk = st.deref(ex.ev(sl_, st))
        src = getattr(mk, 'b2_and_src', None) if isinstance(mk, VArr) else None
        if src is not None:
            used('y[(c1 == x1) & (c2 == x2)] -> the sub-vector of y at the positions where both hold (requires equal lengths) [rest_b2]')
            n = Z(a.shape[0])
            ex.oblige(st, 'call-pre', 'mask-length-is-the-vector-length', Z(mk.shape[0]) == n, node)
            nsel = ex.fresh_int('nsel2')
            st.assume(nsel == _b2_cnt(src, n))
            return b2_MaskedSel2(nsel, a.t, src, n)
    return _b2_orig_index(ex, st, a, sl_, node)


M.arr_index = b2_arr_index


def b2_np_mean(ex, st, args, kwargs, node):
    """np.mean for build_2 (handed to the units through `callees`); every other pattern: mx_anova.np_mean"""
    v = st.deref(args[0]) if len(args) == 1 and not kwargs else None
    if b2_on(ex) and isinstance(v, b2_MaskedSel2):
        used('np.mean(y[(c1 == x1) & (c2 == x2)]) -> cmean2(y, c1, x1, c2, x2, n): conditional mean over the samples that carry the pair; '
             'requires a non-empty selection (nan + warning otherwise) [axiom group rest_b2_cmean2, spot-checked]')
        ex.oblige(st, 'safety', 'mean-of-a-non-empty-selection', _b2_cnt(v.src, v.n) >= 1, node)
        return b2_cmean2(v.y, v.src[0][0], v.src[0][1], v.src[1][0], v.src[1][1], v.n)
    return XAN.np_mean(ex, st, args, kwargs, node)
