"""Model-table entries and one axiom group for contracts/strengthen_stab.py (C16: the stabilised scalar product keeps every
intermediate product at moderate size; accuracy never hands an exponent outside the double range to the Python float power).

Wrapping pattern of kr.py (keep the previous hook, fall through to it); both hooks are only active for executors that carry the gate
named below, so that no other unit sees a different value or an additional obligation.

Theory symbol (the SAME z3 symbol as in ttvc/mx_als.py - equal name and signature; interpretation `np.abs(a).max()` in
lemmas/spotcheck_ext_stab2.py and spotcheck_ext_als.py):
    maxabsM(a) = np.max(np.abs(a))          largest modulus of the entries of a non-empty matrix
Axiom groups (spot-checked):
    'stab2_lin':  maxabsM(a) >= 0;   a is 1 x 1  ->  maxabsM(a) = |a[0, 0]|
    'stab2':      x >= 0  ->  maxabsM(x * a) = x * maxabsM(a)     (a product of two reals: NEVER put into an e-matching axiom set; units
                  pass single instances of it to quantifier-free obligations, see `scale_inst`)

Gates:
  ex.stab2_maxabs   np.max(np.abs(A)) of a matrix with a denotation IS maxabsM(A) (the stock model returns an unrelated non-negative real);
                    domain: A non-empty (NumPy raises ValueError for an empty array) -> call-pre `max-of-non-empty`.
  ex.stab2_mm_hook  see the last section (an observation hook for `A @ B`, no model).
  ex.stab2_pow      2.0 ** x for a PYTHON number x (int / float, not a NumPy scalar): CPython's float_pow raises
                    `OverflowError: (34, 'Numerical result out of range')` when the result exceeds the double range, i.e. for x >= 1024;
                    it returns 0.0 / a subnormal (no exception) for very negative x.  The stock model is total (A-REAL); with the gate the
                    domain condition x < 1024 becomes a `safety` obligation at the use site.  (For a NumPy scalar exponent the result is
                    inf with a RuntimeWarning instead of an exception - the obligation is then the condition for a FINITE power.)
"""
import z3
from ttvc import symex
from ttvc.symex import VArr, Z
from ttvc import models as M, theory as T
from ttvc.models import used, to_real

maxabsM = z3.Function('maxabsM', T.Mat, T.R)        # same symbol as ttvc.mx_als.maxabsM
_a = z3.Const('a!s2', T.Mat)
_x = z3.Real('x!s2')


def abs_ent(a):
    e = T.ent(a, 0, 0)
    return z3.If(e >= 0, e, -e)


# linear part (safe inside e-matching proofs)
T.GROUPS['stab2_lin'] = [
    T.A([_a], maxabsM(_a) >= 0, [maxabsM(_a)]),
    T.A([_a], z3.Implies(z3.And(T.rows(_a) == 1, T.cols(_a) == 1), maxabsM(_a) == abs_ent(_a)), [maxabsM(_a)]),
]
# scaling law: a product of two reals - only ever used through `scale_inst` in quantifier-free obligations
T.GROUPS['stab2'] = [
    T.A([_x, _a], z3.Implies(_x >= 0, maxabsM(T.smul(_x, _a)) == _x * maxabsM(_a)), [maxabsM(T.smul(_x, _a))]),
]


def scale_inst(x, a):
    """Instance of 'stab2' at (x, a) - a hint for quantifier-free obligations."""
    return z3.Implies(x >= 0, maxabsM(T.smul(x, a)) == x * maxabsM(a))


def one_by_one_inst(a):
    """Instance of stab2_lin[1] at a."""
    return z3.Implies(z3.And(T.rows(a) == 1, T.cols(a) == 1), maxabsM(a) == abs_ent(a))


# ----------------------------------------------------------------------------------------------
# np.max(np.abs(A))   (gate: ex.stab2_maxabs)

_orig_npmax = M.FUNCS['np.max']


def _npmax(ex, st, args, kwargs, node):
    if getattr(ex, 'stab2_maxabs', False) and len(args) == 1 and not kwargs:
        v = st.deref(args[0])
        if isinstance(v, VArr) and v.note and v.note[0] == 'abs':
            src = v.note[1]
            if isinstance(src, VArr) and src.ndim == 2 and src.tag == 'mat' and src.t is not None:
                r = _orig_npmax(ex, st, args, kwargs, node)
                used('np.max(np.abs(A)) -> maxabsM(A) for a non-empty matrix A (ValueError for an empty one)')
                for s_dim in src.shape:
                    ex.oblige(st, 'call-pre', 'max-of-non-empty', Z(s_dim) >= 1, node)
                st.assume(to_real(r) == maxabsM(src.t))
                return r
    return _orig_npmax(ex, st, args, kwargs, node)


M.FUNCS['np.max'] = _npmax


# ----------------------------------------------------------------------------------------------
# 2.0 ** x on Python numbers   (gate: ex.stab2_pow)

_orig_power = M.power


def _power(ex, st, a, b, node):
    if getattr(ex, 'stab2_pow', False) and isinstance(a, float) and a == 2.0 and not isinstance(b, (int, float)) and M.is_num(b):
        used('2.0 ** x on Python numbers raises OverflowError for x >= 1024 (result outside the double range); 0.0 / subnormal, no exception, '
             'for very negative x')
        ex.oblige(st, 'safety', 'float-power-2.0**x-in-the-double-range: x-below-1024-else-OverflowError', to_real(b) < 1024, node)
    return _orig_power(ex, st, a, b, node)


M.power = _power


# ----------------------------------------------------------------------------------------------
# A @ B observed by the unit   (gate: ex.stab2_mm_hook = f(ex, st, l, r, node), called before the stock model)
#
# No new model: the hook lets a unit attach an obligation to the EVENT "a matrix product is formed" (mul_scalar: its left operand has
# been rescaled), wherever the restructured source forms it, instead of to a fixed place of the loop.

_orig_matmul = M.matmul


def _matmul(ex, st, l, r, node):
    hook = getattr(ex, 'stab2_mm_hook', None)
    if hook is not None:
        hook(ex, st, l, r, node)
    return _orig_matmul(ex, st, l, r, node)


M.matmul = _matmul
