"""Model-table entries and spec symbols for the dense ("full format") Chebyshev routines of teneva/func_full.py (contracts/rest.py; C12).

Everything follows the wrapping pattern of kr.py (keep the previous hook, fall through to it) and is ACTIVE ONLY for executors that carry
the flag `ex.rest_ff = True`, so that the units of the other contract files see exactly the engine they were written against.

A dense d-dimensional array (d = 1, 2, 3: concrete ndim) is a vector (tag 'rvec', Int -> Real), a matrix (tag 'mat', sort Mat) or a 3-D
array (tag 'core', sort Core - the sort is just "3-D float array", no TT meaning).  New theory symbols (all groups are exercised by
lemmas/spotcheck.py through lemmas/spotcheck_ext_rest.py, where each symbol is interpreted by the NumPy operation named here):
  rest_sw01(G), rest_sw02(G)     np.swapaxes(G, 0, 1) / np.swapaxes(G, 0, 2)                                              group 'rest_dense'
  rest_sl0(G, a)                 G[a, :, :]                                                                               group 'rest_dense'
  rest_revrows(A, lo, hi)        A[lo:hi:-1, :]  (rows lo, lo-1, .., hi+1)                                                group 'rest_dense'
  rest_fftre(A)                  np.fft.fft(A, axis=0).real                                                               group 'rest_dense'
  rest_rowset(A, i, v)           A with A[i, :] = v  (v: 1 x cols)                                                        group 'rest_dense'
  rest_lift(A)                   A[None, :, :]  (the matrix as a 3-D array with one leading index: the bridge to the 1-D operators
                                 dct1 / cstep2 / wsum of mx_func, which act along axis 1 of a 3-D array)                  group 'rest_dense'
  rest_colm(v, m), rest_col0(A)  v[:m].reshape((m, 1)) / A[:, 0]                                                          group 'rest_dense'
  FFT fact: the first m rows of the real part of the FFT of the even extension [x_0 .. x_{m-1}, x_{m-2} .. x_1] are the un-normalised
  DCT-I of x (= dct1 of mx_func, interpreted by scipy.fftpack.dct in the spot check, so np.fft.fft is compared with scipy there)
  rest_unfC(G), rest_cblk(A, j, r), rest_vfoldC(v, n)   C-order unfolding G.reshape(d0, -1), column block A[:, j*r:(j+1)*r],
                                 v.reshape(n, -1) of a row                                                                group 'rest_corder'
  commutation of column selections / column blocks with the row-wise operators                                            groups 'rest_colsel', 'rest_cblk'
"""
import ast
import z3
from ttvc import symex
from ttvc.symex import (Unsupported, ContractMismatch, NONE, VStr, VOpt, VTuple, VRef, VList, VSeq, VArr, VFunc, VOpaque, Z, is_num,
                        is_intsort)
from ttvc import models as M, theory as T, vec as V, pt as PT
from ttvc import mx_func as XF
from ttvc.models import model, used, to_real

ff_I, ff_R = z3.IntSort(), z3.RealSort()
ff_IA = z3.ArraySort(ff_I, ff_I)
ff_RA = z3.ArraySort(ff_I, ff_R)


def ff_on(ex):
    return getattr(ex, 'rest_ff', False)


# ----------------------------------------------------------------------------------------------
# theory

rest_sw01 = z3.Function('rest_sw01', T.Core, T.Core)
rest_sw02 = z3.Function('rest_sw02', T.Core, T.Core)
rest_sl0 = z3.Function('rest_sl0', T.Core, ff_I, T.Mat)
rest_revrows = z3.Function('rest_revrows', T.Mat, ff_I, ff_I, T.Mat)
rest_fftre = z3.Function('rest_fftre', T.Mat, T.Mat)
rest_rowset = z3.Function('rest_rowset', T.Mat, ff_I, T.Mat, T.Mat)
rest_lift = z3.Function('rest_lift', T.Mat, T.Core)
rest_colm = z3.Function('rest_colm', ff_RA, ff_I, T.Mat)
rest_col0 = z3.Function('rest_col0', T.Mat, ff_RA)

ff_G, ff_A, ff_B, ff_v = T.G_, T.a_, T.b_, T.c_
ff_a, ff_b, ff_j, ff_k, ff_i, ff_c, ff_lo, ff_hi, ff_n, ff_r = z3.Ints('a!ff b!ff j!ff k!ff i!ff c!ff lo!ff hi!ff n!ff r!ff')
ff_x = z3.Real('x!ff')
ff_w = z3.Const('w!ff', ff_RA)

T.GROUPS['rest_dense'] = [
    # swapped axes
    T.A([ff_G], z3.And(T.d0(rest_sw01(ff_G)) == T.d1(ff_G), T.d1(rest_sw01(ff_G)) == T.d0(ff_G), T.d2(rest_sw01(ff_G)) == T.d2(ff_G)), [rest_sw01(ff_G)]),
    T.A([ff_G], z3.And(T.d0(rest_sw02(ff_G)) == T.d2(ff_G), T.d1(rest_sw02(ff_G)) == T.d1(ff_G), T.d2(rest_sw02(ff_G)) == T.d0(ff_G)), [rest_sw02(ff_G)]),
    T.A([ff_G, ff_a, ff_j, ff_b], T.centry(rest_sw01(ff_G), ff_a, ff_j, ff_b) == T.centry(ff_G, ff_j, ff_a, ff_b), [T.centry(rest_sw01(ff_G), ff_a, ff_j, ff_b)]),
    T.A([ff_G, ff_a, ff_j, ff_b], T.centry(rest_sw02(ff_G), ff_a, ff_j, ff_b) == T.centry(ff_G, ff_b, ff_j, ff_a), [T.centry(rest_sw02(ff_G), ff_a, ff_j, ff_b)]),
    T.A([ff_G, ff_j], z3.Implies(z3.And(0 <= ff_j, ff_j < T.d1(ff_G)), T.sl(rest_sw02(ff_G), ff_j) == T.tr(T.sl(ff_G, ff_j))), [T.sl(rest_sw02(ff_G), ff_j)]),
    T.A([ff_G, ff_j], z3.Implies(z3.And(0 <= ff_j, ff_j < T.d0(ff_G)), T.sl(rest_sw01(ff_G), ff_j) == rest_sl0(ff_G, ff_j)), [T.sl(rest_sw01(ff_G), ff_j)]),
    T.A([ff_G, ff_a], z3.Implies(z3.And(0 <= ff_a, ff_a < T.d1(ff_G)), rest_sl0(rest_sw01(ff_G), ff_a) == T.sl(ff_G, ff_a)), [rest_sl0(rest_sw01(ff_G), ff_a)]),
    T.A([ff_G, ff_a], z3.And(T.rows(rest_sl0(ff_G, ff_a)) == T.d1(ff_G), T.cols(rest_sl0(ff_G, ff_a)) == T.d2(ff_G)), [rest_sl0(ff_G, ff_a)]),
    T.A([ff_G, ff_a, ff_j, ff_b], z3.Implies(z3.And(0 <= ff_a, ff_a < T.d0(ff_G)), T.ent(rest_sl0(ff_G, ff_a), ff_j, ff_b) == T.centry(ff_G, ff_a, ff_j, ff_b)),
        [T.ent(rest_sl0(ff_G, ff_a), ff_j, ff_b)]),
    # reversed row range, FFT, row store, leading rows
    T.A([ff_A, ff_lo, ff_hi], z3.Implies(z3.And(0 <= ff_hi, ff_hi <= ff_lo, ff_lo < T.rows(ff_A)),
                                         z3.And(T.rows(rest_revrows(ff_A, ff_lo, ff_hi)) == ff_lo - ff_hi, T.cols(rest_revrows(ff_A, ff_lo, ff_hi)) == T.cols(ff_A))),
        [rest_revrows(ff_A, ff_lo, ff_hi)]),
    T.A([ff_A], z3.And(T.rows(rest_fftre(ff_A)) == T.rows(ff_A), T.cols(rest_fftre(ff_A)) == T.cols(ff_A)), [rest_fftre(ff_A)]),
    T.A([ff_A, ff_i, ff_v], z3.And(T.rows(rest_rowset(ff_A, ff_i, ff_v)) == T.rows(ff_A), T.cols(rest_rowset(ff_A, ff_i, ff_v)) == T.cols(ff_A)),
        [rest_rowset(ff_A, ff_i, ff_v)]),
    T.A([ff_A, ff_i, ff_v, ff_k, ff_c], z3.Implies(z3.And(0 <= ff_i, ff_i < T.rows(ff_A), T.rows(ff_v) == 1, T.cols(ff_v) == T.cols(ff_A), 0 <= ff_k, ff_k < T.rows(ff_A),
                                                          0 <= ff_c, ff_c < T.cols(ff_A)),
                                                   T.ent(rest_rowset(ff_A, ff_i, ff_v), ff_k, ff_c) == z3.If(ff_k == ff_i, T.ent(ff_v, 0, ff_c), T.ent(ff_A, ff_k, ff_c))),
        [T.ent(rest_rowset(ff_A, ff_i, ff_v), ff_k, ff_c)]),
    T.A([ff_A, ff_r, ff_k, ff_c], z3.Implies(z3.And(0 <= ff_k, ff_k < ff_r, ff_r <= T.rows(ff_A), 0 <= ff_c, ff_c < T.cols(ff_A)),
                                             T.ent(V.trows(ff_A, ff_r), ff_k, ff_c) == T.ent(ff_A, ff_k, ff_c)), [T.ent(V.trows(ff_A, ff_r), ff_k, ff_c)]),
    # a matrix as a 3-D array with one leading index
    T.A([ff_A], z3.And(T.d0(rest_lift(ff_A)) == 1, T.d1(rest_lift(ff_A)) == T.rows(ff_A), T.d2(rest_lift(ff_A)) == T.cols(ff_A)), [rest_lift(ff_A)]),
    T.A([ff_A, ff_j, ff_b], z3.Implies(z3.And(0 <= ff_j, ff_j < T.rows(ff_A), 0 <= ff_b, ff_b < T.cols(ff_A)),
                                       T.centry(rest_lift(ff_A), 0, ff_j, ff_b) == T.ent(ff_A, ff_j, ff_b)), [T.centry(rest_lift(ff_A), 0, ff_j, ff_b)]),
    T.A([ff_A, ff_j], z3.Implies(z3.And(0 <= ff_j, ff_j < T.rows(ff_A)), T.sl(rest_lift(ff_A), ff_j) == T.row(ff_A, ff_j)), [T.sl(rest_lift(ff_A), ff_j)]),
    # the FFT of the even extension is the DCT-I (rows 0 .. m-1 of the real part)
    T.A([ff_A, ff_lo, ff_hi, ff_k, ff_c], z3.Implies(z3.And(T.rows(ff_A) >= 2, ff_lo == T.rows(ff_A) - 2, ff_hi == 0, 0 <= ff_k, ff_k < T.rows(ff_A), 0 <= ff_c, ff_c < T.cols(ff_A)),
                                                     T.ent(rest_fftre(T.vcat(ff_A, rest_revrows(ff_A, ff_lo, ff_hi))), ff_k, ff_c)
                                                     == T.centry(XF.dct1(rest_lift(ff_A)), 0, ff_k, ff_c)),
        [T.ent(rest_fftre(T.vcat(ff_A, rest_revrows(ff_A, ff_lo, ff_hi))), ff_k, ff_c)]),
    # vectors as one-column matrices
    T.A([ff_w, ff_n], z3.And(T.rows(rest_colm(ff_w, ff_n)) == ff_n, T.cols(rest_colm(ff_w, ff_n)) == 1), [rest_colm(ff_w, ff_n)]),
    T.A([ff_w, ff_n, ff_k], z3.Implies(z3.And(0 <= ff_k, ff_k < ff_n), T.ent(rest_colm(ff_w, ff_n), ff_k, 0) == ff_w[ff_k]), [T.ent(rest_colm(ff_w, ff_n), ff_k, 0)]),
    T.A([ff_A, ff_k], z3.Implies(z3.And(0 <= ff_k, ff_k < T.rows(ff_A), T.cols(ff_A) >= 1), rest_col0(ff_A)[ff_k] == T.ent(ff_A, ff_k, 0)), [rest_col0(ff_A)[ff_k]]),
]

# column selections A[:, j::n] commute with everything that acts on rows
ff_cs = lambda X_: T.colsel(X_, ff_j, ff_n)
T.GROUPS['rest_colsel'] = [
    T.A([ff_A, ff_B, ff_j, ff_n], z3.Implies(T.cols(ff_A) == T.cols(ff_B), ff_cs(T.vcat(ff_A, ff_B)) == T.vcat(ff_cs(ff_A), ff_cs(ff_B))), [ff_cs(T.vcat(ff_A, ff_B))]),
    T.A([ff_A, ff_lo, ff_hi, ff_j, ff_n], ff_cs(rest_revrows(ff_A, ff_lo, ff_hi)) == rest_revrows(ff_cs(ff_A), ff_lo, ff_hi), [ff_cs(rest_revrows(ff_A, ff_lo, ff_hi))]),
    T.A([ff_A, ff_j, ff_n], ff_cs(rest_fftre(ff_A)) == rest_fftre(ff_cs(ff_A)), [ff_cs(rest_fftre(ff_A))]),
    T.A([ff_A, ff_r, ff_j, ff_n], ff_cs(V.trows(ff_A, ff_r)) == V.trows(ff_cs(ff_A), ff_r), [ff_cs(V.trows(ff_A, ff_r))]),
    T.A([ff_x, ff_A, ff_j, ff_n], ff_cs(T.smul(ff_x, ff_A)) == T.smul(ff_x, ff_cs(ff_A)), [ff_cs(T.smul(ff_x, ff_A))]),
    T.A([ff_A, ff_i, ff_v, ff_j, ff_n], z3.Implies(T.cols(ff_v) == T.cols(ff_A), ff_cs(rest_rowset(ff_A, ff_i, ff_v)) == rest_rowset(ff_cs(ff_A), ff_i, ff_cs(ff_v))),
        [ff_cs(rest_rowset(ff_A, ff_i, ff_v))]),
    T.A([ff_A, ff_i, ff_j, ff_n], ff_cs(T.row(ff_A, ff_i)) == T.row(ff_cs(ff_A), ff_i), [ff_cs(T.row(ff_A, ff_i))]),
    # (the 'unfold' fact sl(G, j) = unfR(G)[:, j::n] read from right to left: triggered by the column selection)
    T.A([ff_G, ff_j, ff_n], z3.Implies(z3.And(ff_n == T.d1(ff_G), 0 <= ff_j, ff_j < ff_n), ff_cs(T.unfR(ff_G)) == T.sl(ff_G, ff_j)), [ff_cs(T.unfR(ff_G))]),
]


# ----------------------------------------------------------------------------------------------
# integer vectors of concrete length with known entries:  np.array(Y.shape, dtype=int),  n[k],  n[[0, k]] = n[[k, 0]]

class FFIVec(VArr):
    """1-D integer array of concrete length whose entries are known terms (`items`); t is the corresponding z3 array (stores on K(0))."""
    def __init__(self, items):
        t = z3.K(ff_I, z3.IntVal(0))
        for pos, x in enumerate(items):
            t = z3.Store(t, pos, Z(x))
        VArr.__init__(self, (len(items),), t, 'ivec', 'i')
        self.items = list(items)


def ff_int_items(st, v):
    v = st.deref(v)
    if isinstance(v, FFIVec):
        return list(v.items)
    if isinstance(v, (VTuple, VList)) and all(is_num(x) and is_intsort(x) for x in v.items):
        return list(v.items)
    return None


def ff_wrap_array(name):
    orig = M.FUNCS[name]

    def ff_m_array(ex, st, args, kwargs, node):
        if ff_on(ex) and len(args) == 1 and set(kwargs) <= {'dtype'}:
            dt = kwargs.get('dtype')
            items = ff_int_items(st, args[0])
            if items is not None and (dt is None or (isinstance(dt, M.TypeVal) and dt.name == 'int')):
                used('np.array / np.asanyarray(tuple or list of ints, dtype=int) -> integer vector with these entries (a fresh array)')
                return FFIVec(items)
        return orig(ex, st, args, kwargs, node)
    M.FUNCS[name] = ff_m_array


for ff_nm in ('np.array', 'np.asanyarray', 'np.asarray'):
    ff_wrap_array(ff_nm)


def ff_const_index_list(ex, st, e):
    """[i0, i1, ...] with concrete integers (an index list)."""
    if not isinstance(e, ast.List):
        return None
    out = []
    for x in e.elts:
        v = ex.ev(x, st)
        if not (isinstance(v, int) and not isinstance(v, bool)):
            return None
        out.append(v)
    return out


def ff_full(e):
    return isinstance(e, ast.Slice) and e.lower is None and e.upper is None and e.step is None


def ff_is_mat(v):
    return isinstance(v, VArr) and v.ndim == 2 and v.tag == 'mat' and v.t is not None


def ff_is_core(v):
    return isinstance(v, VArr) and v.ndim == 3 and v.tag == 'core' and v.t is not None


def ff_mat(t, r, c):
    return VArr((r, c), t, 'mat')


ff_orig_index = M.arr_index


def ff_arr_index(ex, st, a, sl_, node):
    if ff_on(ex) and isinstance(a, FFIVec):
        if not isinstance(sl_, (ast.Tuple, ast.Slice)):
            idx = ff_const_index_list(ex, st, sl_)
            if idx is not None:
                used('n[[i0, i1, ..]] (index list) -> the vector of the selected entries (a copy)')
                for i in idx:
                    ex.oblige(st, 'safety', 'array-index-in-range', z3.BoolVal(-len(a.items) <= i < len(a.items)), node)
                return FFIVec([a.items[i] for i in idx])
            if not isinstance(sl_, ast.List):
                iv = ex.ev(sl_, st)
                if isinstance(iv, int) and not isinstance(iv, bool):
                    ex.oblige(st, 'safety', 'array-index-in-range', z3.BoolVal(-len(a.items) <= iv < len(a.items)), node)
                    return a.items[iv] if -len(a.items) <= iv < len(a.items) else ex.fresh_int('oob')
    if ff_on(ex) and ff_is_mat(a) and isinstance(sl_, ast.Tuple) and len(sl_.elts) == 2 and ff_full(sl_.elts[1]):
        e0 = sl_.elts[0]
        rows, cols = a.shape
        if isinstance(e0, ast.Slice) and e0.step is not None and e0.lower is not None and e0.upper is not None:
            stp = ex.ev(e0.step, st)
            if isinstance(stp, int) and stp == -1:
                lo, hi = ex.need_num(st, ex.ev(e0.lower, st), node), ex.need_num(st, ex.ev(e0.upper, st), node)
                if is_intsort(lo) and is_intsort(hi):
                    used('A[lo:hi:-1, :] for 0 <= hi <= lo < rows -> the rows lo, lo-1, .., hi+1 (lo - hi of them)')
                    ex.oblige(st, 'call-pre', 'reversed-row-range-within-the-matrix', z3.And(0 <= Z(hi), Z(hi) <= Z(lo), Z(lo) < Z(rows)), node)
                    return ff_mat(rest_revrows(a.t, Z(lo), Z(hi)), Z(lo) - Z(hi), cols)
        if isinstance(e0, ast.Slice) and e0.step is None and e0.lower is None and e0.upper is not None:
            hi = ex.need_num(st, ex.ev(e0.upper, st), node)
            if is_intsort(hi):
                used('A[:r, :] for 0 <= r <= rows -> the leading r rows (trows)')
                ex.oblige(st, 'call-pre', 'leading-row-count-within-the-matrix', z3.And(0 <= Z(hi), Z(hi) <= Z(rows)), node)
                return ff_mat(V.trows(a.t, Z(hi)), hi, cols)
        if not isinstance(e0, ast.Slice):
            iv = ex.ev(e0, st)
            if is_num(iv) and is_intsort(iv):
                i = M.norm_index(ex, st, iv, rows, node, 'row-index')
                used('A[i, :] -> row i as a 1-D array (row(A, i))')
                return VArr((cols,), T.row(a.t, Z(i)), 'vec')
    return ff_orig_index(ex, st, a, sl_, node)


M.arr_index = ff_arr_index
ff_orig_setitem = M.arr_setitem


def ff_arr_setitem(ex, st, b, sl_, v, node):
    if ff_on(ex) and isinstance(b, FFIVec) and not isinstance(sl_, (ast.Tuple, ast.Slice)):
        idx = ff_const_index_list(ex, st, sl_)
        val = st.deref(v)
        if idx is not None and isinstance(val, FFIVec) and len(val.items) == len(idx):
            used('n[[i0, i1, ..]] = w (index list, vector of the same length) -> the entries are replaced one after the other')
            items = list(b.items)
            for i, x in zip(idx, val.items):
                ex.oblige(st, 'safety', 'array-index-in-range', z3.BoolVal(-len(items) <= i < len(items)), node)
                if -len(items) <= i < len(items):
                    items[i] = x
            return FFIVec(items)
    if ff_on(ex) and ff_is_mat(b) and isinstance(sl_, ast.Tuple) and len(sl_.elts) == 2 and ff_full(sl_.elts[1]) and not isinstance(sl_.elts[0], ast.Slice):
        val = st.deref(v)
        iv = ex.ev(sl_.elts[0], st)
        if isinstance(val, VArr) and val.ndim == 1 and val.tag == 'vec' and val.t is not None and is_num(iv) and is_intsort(iv):
            i = M.norm_index(ex, st, iv, b.shape[0], node, 'row-index')
            used('A[i, :] = v for a 1-D v of length cols -> rest_rowset(A, i, v)')
            ex.oblige(st, 'call-pre', 'row-assignment-length-matches', Z(val.shape[0]) == Z(b.shape[1]), node)
            return ff_mat(rest_rowset(b.t, Z(i), val.t), b.shape[0], b.shape[1])
    return ff_orig_setitem(ex, st, b, sl_, v, node)


M.arr_setitem = ff_arr_setitem


# ----------------------------------------------------------------------------------------------
# np.swapaxes(A, 0, k), Fortran-order unfolding A.reshape((m, -1), order='F') and its inverse A.reshape(n, order='F'), np.vstack, FFT

ff_orig_swapaxes = M.FUNCS.get('np.swapaxes')


@model('np.swapaxes')
def ff_m_swapaxes(ex, st, args, kwargs, node):
    a = st.deref(args[0]) if args else None
    if ff_on(ex) and len(args) == 3 and not kwargs and isinstance(a, VArr) and all(isinstance(x, int) and not isinstance(x, bool) for x in args[1:]):
        p, q = sorted(x + a.ndim if x < 0 else x for x in args[1:])
        if 0 <= p <= q < a.ndim:
            if p == q:
                used('np.swapaxes(A, k, k) -> A (a view of the same array)')
                return a
            if a.ndim == 2 and ff_is_mat(a):
                used('np.swapaxes(A, 0, 1) of a matrix -> the transposed view')
                return ff_mat(T.tr(a.t), a.shape[1], a.shape[0])
            if a.ndim == 3 and ff_is_core(a) and p == 0:
                s = a.shape
                if q == 1:
                    used('np.swapaxes(G, 0, 1) of a 3-D array -> rest_sw01(G): entry [a, j, b] = G[j, a, b]')
                    return VArr((s[1], s[0], s[2]), rest_sw01(a.t), 'core')
                used('np.swapaxes(G, 0, 2) of a 3-D array -> rest_sw02(G): entry [a, j, b] = G[b, j, a]')
                return VArr((s[2], s[1], s[0]), rest_sw02(a.t), 'core')
    if ff_orig_swapaxes is None:
        raise Unsupported('np.swapaxes calling pattern')
    return ff_orig_swapaxes(ex, st, args, kwargs, node)


ff_orig_reshape = M.reshape


def ff_is_m1(x):
    return isinstance(x, int) and not isinstance(x, bool) and x == -1


def ff_reshape(ex, st, a, shp, order, node):
    if ff_on(ex) and isinstance(a, VArr):
        items = ff_int_items(st, shp)
        o = order.concrete() if isinstance(order, VStr) else None
        if items is not None and o == 'F':
            if len(items) == 2 and ff_is_m1(items[1]) and not ff_is_m1(items[0]):
                # A.reshape((m, -1), order='F'): the unfolding along the FIRST axis - only when m is the size of that axis
                m = items[0]
                if ff_is_core(a) or ff_is_mat(a) or XF.is_vec(a, 'rvec'):
                    used("A.reshape((m, -1), order='F') with m = A.shape[0] -> the Fortran-order unfolding along the first axis (unfR for a 3-D array, "
                         "the matrix itself, the one-column matrix of a vector)")
                    ex.oblige(st, 'call-pre', 'reshape-first-dimension-is-the-size-of-the-first-axis', Z(m) == Z(a.shape[0]), node)
                    if a.ndim == 3:
                        return ff_mat(T.unfR(a.t), a.shape[0], T.mul_canon(a.shape[1], a.shape[2]))
                    if a.ndim == 2:
                        return a
                    return ff_mat(rest_colm(a.t, Z(a.shape[0])), a.shape[0], 1)
            if ff_is_mat(a) and not any(ff_is_m1(x) for x in items):
                if len(items) == 3:
                    used("A.reshape((s0, s1, s2), order='F') of an s0 x (s1 s2) matrix -> foldR(A, s1, s2)")
                    ex.oblige(st, 'call-pre', 'reshape-preserves-size', z3.And(Z(items[0]) == Z(a.shape[0]), Z(a.shape[1]) == T.mul_canon(items[1], items[2])), node)
                    return VArr(tuple(items), T.foldR(a.t, Z(items[1]), Z(items[2])), 'core')
                if len(items) == 2:
                    used("A.reshape((s0, s1), order='F') of an s0 x s1 matrix -> A")
                    ex.oblige(st, 'call-pre', 'reshape-preserves-size', z3.And(Z(items[0]) == Z(a.shape[0]), Z(items[1]) == Z(a.shape[1])), node)
                    return ff_mat(a.t, items[0], items[1])
                if len(items) == 1:
                    used("A.reshape((s0,), order='F') of an s0 x 1 matrix -> its column as a vector")
                    ex.oblige(st, 'call-pre', 'reshape-preserves-size', z3.And(Z(items[0]) == Z(a.shape[0]), Z(a.shape[1]) == 1), node)
                    return V.RVec(items[0], rest_col0(a.t))
        if isinstance(st.deref(shp), FFIVec):
            shp = VTuple(items)
    return ff_orig_reshape(ex, st, a, shp, order, node)


M.reshape = ff_reshape
ff_orig_vstack = M.FUNCS.get('np.vstack')


@model('np.vstack')
def ff_m_vstack(ex, st, args, kwargs, node):
    parts = st.deref(args[0]) if len(args) == 1 and not kwargs else None
    if ff_on(ex) and isinstance(parts, (VList, VTuple)) and len(parts.items) == 2:
        a, b = [st.deref(x) for x in parts.items]
        if ff_is_mat(a) and ff_is_mat(b):
            used('np.vstack([A, B]) for matrices -> vcat(A, B); requires equal column counts')
            ex.oblige(st, 'call-pre', 'vstack-column-counts-agree', Z(a.shape[1]) == Z(b.shape[1]), node)
            return ff_mat(T.vcat(a.t, b.t), Z(a.shape[0]) + Z(b.shape[0]), a.shape[1])
    if ff_orig_vstack is None:
        raise Unsupported('np.vstack pattern')
    return ff_orig_vstack(ex, st, args, kwargs, node)


@model('np.fft.fft')
def ff_m_fft(ex, st, args, kwargs, node):
    a = st.deref(args[0]) if args else None
    if ff_on(ex) and len(args) == 1 and set(kwargs) == {'axis'} and kwargs['axis'] == 0 and ff_is_mat(a):
        used('np.fft.fft(A, axis=0) -> complex matrix of the same shape (only its real part is used: rest_fftre)')
        return VArr(a.shape, a.t, 'cfft0', 'c')
    raise Unsupported('np.fft.fft: only fft(<matrix>, axis=0) is modelled (dense Chebyshev tier)')


ff_orig_attribute = M.attribute


def ff_attribute(ex, st, v, attr, node):
    if ff_on(ex) and isinstance(v, VArr) and v.tag == 'cfft0' and attr == 'real':
        used('np.fft.fft(A, axis=0).real -> rest_fftre(A)')
        return ff_mat(rest_fftre(v.t), v.shape[0], v.shape[1])
    return ff_orig_attribute(ex, st, v, attr, node)


M.attribute = ff_attribute


# ----------------------------------------------------------------------------------------------
# func_sum_full:  v = v.reshape(n[k], -1);  p = np.arange(n[k])[::2];  p = np.repeat(p.reshape(-1, 1), v.shape[1], axis=1);
#                 v = np.sum(v[::2, :] * 2. / (1. - p**2), axis=0);  v *= (b[k] - a[k]) / 2.
#
# theory: even rows, division of the rows by a vector, column sums with their partial sums, the Clenshaw-Curtis sum of a column (spec
# function), C-order unfolding / column blocks / row-major fold of a row

rest_erows = z3.Function('rest_erows', T.Mat, T.Mat)                       # A[::2, :]
rest_rowdiv = z3.Function('rest_rowdiv', T.Mat, ff_RA, T.Mat)              # A / q[:, None]  (row i divided by q[i])
rest_colsum = z3.Function('rest_colsum', T.Mat, T.Mat)                     # np.sum(A, axis=0) as a 1 x cols row
rest_psum = z3.Function('rest_psum', T.Mat, ff_I, ff_I, ff_R)              # psum(A, c, k) = sum_{i<k} A[i, c]
rest_ccsum = z3.Function('rest_ccsum', T.Mat, ff_I, ff_I, ff_R)            # ccsum(A, c, k) = sum_{l<k} 2 A[2l, c] / (1 - (2l)^2)  (Clenshaw-Curtis weights 2/(1-i^2), i = 2l)
rest_unfC = z3.Function('rest_unfC', T.Core, T.Mat)                        # G.reshape(d0, -1)  (C order)
rest_cblk = z3.Function('rest_cblk', T.Mat, ff_I, ff_I, T.Mat)             # A[:, j*r:(j+1)*r]
rest_vfoldC = z3.Function('rest_vfoldC', T.Mat, ff_I, T.Mat)               # v.reshape(n, -1) of a 1 x L row (C order)
ff_k1 = z3.Int('k1!ff')
ff_q = z3.Const('q!ff', ff_RA)


def ff_ccden(l):
    """1 - (2l)^2 in the engine's product abstraction (the denominator of the Clenshaw-Curtis weight of the even index i = 2l)."""
    return z3.ToReal(1 - T.mulI(2 * l, 2 * l))


T.GROUPS['rest_cc'] = [
    T.A([ff_A], z3.And(T.rows(rest_erows(ff_A)) == (T.rows(ff_A) + 1) / 2, T.cols(rest_erows(ff_A)) == T.cols(ff_A)), [rest_erows(ff_A)]),
    T.A([ff_A, ff_i, ff_c], z3.Implies(z3.And(0 <= ff_i, 2 * ff_i < T.rows(ff_A), 0 <= ff_c, ff_c < T.cols(ff_A)), T.ent(rest_erows(ff_A), ff_i, ff_c) == T.ent(ff_A, 2 * ff_i, ff_c)),
        [T.ent(rest_erows(ff_A), ff_i, ff_c)]),
    T.A([ff_A, ff_q], z3.And(T.rows(rest_rowdiv(ff_A, ff_q)) == T.rows(ff_A), T.cols(rest_rowdiv(ff_A, ff_q)) == T.cols(ff_A)), [rest_rowdiv(ff_A, ff_q)]),
    T.A([ff_A, ff_q, ff_i, ff_c], z3.Implies(z3.And(0 <= ff_i, ff_i < T.rows(ff_A), 0 <= ff_c, ff_c < T.cols(ff_A), ff_q[ff_i] != 0),
                                             T.ent(rest_rowdiv(ff_A, ff_q), ff_i, ff_c) == T.ent(ff_A, ff_i, ff_c) / ff_q[ff_i]), [T.ent(rest_rowdiv(ff_A, ff_q), ff_i, ff_c)]),
    T.A([ff_A], z3.And(T.rows(rest_colsum(ff_A)) == 1, T.cols(rest_colsum(ff_A)) == T.cols(ff_A)), [rest_colsum(ff_A)]),
    T.A([ff_A, ff_c], z3.Implies(z3.And(0 <= ff_c, ff_c < T.cols(ff_A)), T.ent(rest_colsum(ff_A), 0, ff_c) == rest_psum(ff_A, ff_c, T.rows(ff_A))), [T.ent(rest_colsum(ff_A), 0, ff_c)]),
    T.A([ff_A, ff_c], rest_psum(ff_A, ff_c, 0) == 0, [rest_psum(ff_A, ff_c, 0)]),
    T.A([ff_A, ff_c, ff_k, ff_k1], z3.Implies(z3.And(ff_k >= 0, ff_k1 == ff_k + 1, ff_k < T.rows(ff_A), 0 <= ff_c, ff_c < T.cols(ff_A)),
                                               rest_psum(ff_A, ff_c, ff_k1) == rest_psum(ff_A, ff_c, ff_k) + T.ent(ff_A, ff_k, ff_c)),
        [z3.MultiPattern(rest_psum(ff_A, ff_c, ff_k), rest_psum(ff_A, ff_c, ff_k1))]),
    T.A([ff_A, ff_c], rest_ccsum(ff_A, ff_c, 0) == 0, [rest_ccsum(ff_A, ff_c, 0)]),
    T.A([ff_A, ff_c, ff_k, ff_k1], z3.Implies(z3.And(ff_k >= 0, ff_k1 == ff_k + 1, 2 * ff_k < T.rows(ff_A), 0 <= ff_c, ff_c < T.cols(ff_A)),
                                               rest_ccsum(ff_A, ff_c, ff_k1) == rest_ccsum(ff_A, ff_c, ff_k) + (2 * T.ent(ff_A, 2 * ff_k, ff_c)) / ff_ccden(ff_k)),
        [z3.MultiPattern(rest_ccsum(ff_A, ff_c, ff_k), rest_ccsum(ff_A, ff_c, ff_k1))]),
]
ff_cb = lambda X_: rest_cblk(X_, ff_j, ff_r)
T.GROUPS['rest_corder'] = [
    T.A([ff_G], z3.And(T.rows(rest_unfC(ff_G)) == T.d0(ff_G), T.cols(rest_unfC(ff_G)) == T.mulI(T.d1(ff_G), T.d2(ff_G))), [rest_unfC(ff_G)]),
    T.A([ff_G, ff_j, ff_r], z3.Implies(z3.And(ff_r == T.d2(ff_G), 0 <= ff_j, ff_j < T.d1(ff_G)), ff_cb(rest_unfC(ff_G)) == T.sl(ff_G, ff_j)), [ff_cb(rest_unfC(ff_G))]),
    T.A([ff_A, ff_j, ff_r, ff_n], z3.Implies(z3.And(T.cols(ff_A) == T.mulI(ff_n, ff_r), 0 <= ff_j, ff_j < ff_n, ff_r >= 0),
                                             z3.And(T.rows(ff_cb(ff_A)) == T.rows(ff_A), T.cols(ff_cb(ff_A)) == ff_r)), [z3.MultiPattern(ff_cb(ff_A), T.mulI(ff_n, ff_r))]),
    T.A([ff_A, ff_j, ff_i], z3.Implies(z3.And(0 <= ff_j, ff_j < T.cols(ff_A), 0 <= ff_i, ff_i < T.rows(ff_A)), T.ent(rest_cblk(ff_A, ff_j, 1), ff_i, 0) == T.ent(ff_A, ff_i, ff_j)),
        [T.ent(rest_cblk(ff_A, ff_j, 1), ff_i, 0)]),
    T.A([ff_A, ff_n, ff_r], z3.Implies(z3.And(T.rows(ff_A) == 1, T.cols(ff_A) == T.mulI(ff_n, ff_r), ff_n >= 1, ff_r >= 1),
                                       z3.And(T.rows(rest_vfoldC(ff_A, ff_n)) == ff_n, T.cols(rest_vfoldC(ff_A, ff_n)) == ff_r)), [z3.MultiPattern(rest_vfoldC(ff_A, ff_n), T.mulI(ff_n, ff_r))]),
    T.A([ff_A, ff_n, ff_r, ff_i], z3.Implies(z3.And(T.rows(ff_A) == 1, T.cols(ff_A) == T.mulI(ff_n, ff_r), ff_n >= 1, ff_r >= 1, 0 <= ff_i, ff_i < ff_n),
                                             T.row(rest_vfoldC(ff_A, ff_n), ff_i) == rest_cblk(ff_A, ff_i, ff_r)), [z3.MultiPattern(T.row(rest_vfoldC(ff_A, ff_n), ff_i), T.mulI(ff_n, ff_r))]),
    # (blocks of length 1: the row as a column)
    T.A([ff_A, ff_n], z3.Implies(z3.And(T.rows(ff_A) == 1, T.cols(ff_A) == ff_n, ff_n >= 1), z3.And(T.rows(rest_vfoldC(ff_A, ff_n)) == ff_n, T.cols(rest_vfoldC(ff_A, ff_n)) == 1)),
        [rest_vfoldC(ff_A, ff_n)]),
    T.A([ff_A, ff_n, ff_i], z3.Implies(z3.And(T.rows(ff_A) == 1, T.cols(ff_A) == ff_n, 0 <= ff_i, ff_i < ff_n), T.ent(rest_vfoldC(ff_A, ff_n), ff_i, 0) == T.ent(ff_A, 0, ff_i)),
        [T.ent(rest_vfoldC(ff_A, ff_n), ff_i, 0)]),
]
# column blocks commute with everything that acts on rows
T.GROUPS['rest_cblk'] = [
    T.A([ff_A, ff_j, ff_r], ff_cb(rest_colsum(ff_A)) == rest_colsum(ff_cb(ff_A)), [ff_cb(rest_colsum(ff_A))]),
    T.A([ff_A, ff_q, ff_j, ff_r], ff_cb(rest_rowdiv(ff_A, ff_q)) == rest_rowdiv(ff_cb(ff_A), ff_q), [ff_cb(rest_rowdiv(ff_A, ff_q))]),
    T.A([ff_x, ff_A, ff_j, ff_r], ff_cb(T.smul(ff_x, ff_A)) == T.smul(ff_x, ff_cb(ff_A)), [ff_cb(T.smul(ff_x, ff_A))]),
    T.A([ff_A, ff_j, ff_r], ff_cb(rest_erows(ff_A)) == rest_erows(ff_cb(ff_A)), [ff_cb(rest_erows(ff_A))]),
]


def ff_ivec(n, arr):
    return VArr((n,), arr, 'ivec', 'i')


def ff_factors(st, cols, default=None):
    """The factorisation (row-major) of a column count that a C-order unfolding produced (ghost table keyed by the term)."""
    tab = st.ghost.get('ff_colfactors', {})
    return tab.get(Z(cols).get_id(), default)


def ff_set_factors(st, cols, factors):
    tab = dict(st.ghost.get('ff_colfactors', {}))
    tab[Z(cols).get_id()] = list(factors)
    st.ghost['ff_colfactors'] = tab


def ff_reshape_c(ex, st, a, shp, order, node):
    """C-order reshapes of the dense tier; None when the pattern is not one of them."""
    items = ff_int_items(st, shp)
    o = order.concrete() if isinstance(order, VStr) else None
    if items is None or o != 'C' or len(items) != 2:
        return None
    if ff_is_m1(items[1]) and not ff_is_m1(items[0]):
        m = items[0]
        if ff_is_core(a) or ff_is_mat(a) or XF.is_vec(a, 'rvec'):
            used('A.reshape(m, -1) (C order) with m = A.shape[0] -> the row-major unfolding along the first axis (rest_unfC for a 3-D array, the matrix '
                 'itself, the one-column matrix of a vector)')
            ex.oblige(st, 'call-pre', 'reshape-first-dimension-is-the-size-of-the-first-axis', Z(m) == Z(a.shape[0]), node)
            if a.ndim == 3:
                cols = T.mul_canon(a.shape[1], a.shape[2])
                ff_set_factors(st, cols, [a.shape[1], a.shape[2]])
                return ff_mat(rest_unfC(a.t), a.shape[0], cols)
            if a.ndim == 2:
                if ff_factors(st, a.shape[1]) is None:
                    ff_set_factors(st, a.shape[1], [a.shape[1]])
                return a
            ff_set_factors(st, 1, [])
            return ff_mat(rest_colm(a.t, Z(a.shape[0])), a.shape[0], 1)
        if isinstance(a, VArr) and a.ndim == 1 and a.tag == 'vec' and a.t is not None:
            f = ff_factors(st, a.shape[0])
            if f:
                used('v.reshape(m, -1) (C order) of a row of length m * r -> rest_vfoldC(v, m): the m x r matrix whose row i is the i-th block of v')
                ex.oblige(st, 'call-pre', 'reshape-first-dimension-is-the-size-of-the-next-axis', Z(m) == Z(f[0]), node)
                cols = T.mul_canon(*f[1:]) if len(f) > 1 else z3.IntVal(1)
                ff_set_factors(st, cols, f[1:])
                return ff_mat(rest_vfoldC(a.t, Z(f[0])), f[0], cols)
    if ff_is_m1(items[0]) and isinstance(items[1], int) and items[1] == 1 and XF.is_vec(a, 'ivec'):
        used('v.reshape(-1, 1) of an integer vector -> the (n, 1) column with the same entries')
        return VArr((a.shape[0], 1), a.t, 'icol', 'i')
    return None


ff_orig_reshape2 = M.reshape


def ff_reshape2(ex, st, a, shp, order, node):
    if ff_on(ex) and isinstance(a, VArr):
        out = ff_reshape_c(ex, st, a, shp, order, node)
        if out is not None:
            return out
    return ff_orig_reshape2(ex, st, a, shp, order, node)


M.reshape = ff_reshape2
ff_orig_method = M.method


def ff_method(ex, st, recv, name, args, kwargs, node):
    r = st.deref(recv)
    if ff_on(ex) and name == 'reshape' and isinstance(r, VArr) and args and set(kwargs) <= {'order'}:
        # (the base table answers X.reshape(a, -1) of a 2-D array with a fresh matrix: the dense tier keeps the values)
        shp = args[0] if len(args) == 1 else VTuple(list(args))
        return M.reshape(ex, st, r, shp, kwargs.get('order', VStr('C')), node)
    return ff_orig_method(ex, st, recv, name, args, kwargs, node)


M.method = ff_method
ff_orig_index2 = M.arr_index


def ff_step2(ex, st, e):
    return isinstance(e, ast.Slice) and e.lower is None and e.upper is None and e.step is not None and ex.ev(e.step, st) == 2


def ff_arr_index2(ex, st, a, sl_, node):
    if ff_on(ex) and XF.is_vec(a, 'ivec') and not isinstance(a, FFIVec) and ff_step2(ex, st, sl_):
        used('v[::2] of an integer vector -> the entries 0, 2, 4, ..; (n + 1) // 2 of them')
        arr = ex.fresh('even', ff_IA)
        st.assume(z3.ForAll([ff_k], arr[ff_k] == a.t[2 * ff_k], patterns=[arr[ff_k]]))
        return ff_ivec((Z(a.shape[0]) + 1) / 2, arr)
    if ff_on(ex) and ff_is_mat(a) and isinstance(sl_, ast.Tuple) and len(sl_.elts) == 2 and ff_full(sl_.elts[1]) and ff_step2(ex, st, sl_.elts[0]):
        used('A[::2, :] -> rest_erows(A): the rows 0, 2, 4, ..; (rows + 1) // 2 of them')
        return ff_mat(rest_erows(a.t), (Z(a.shape[0]) + 1) / 2, a.shape[1])
    return ff_orig_index2(ex, st, a, sl_, node)


M.arr_index = ff_arr_index2
ff_orig_repeat = M.FUNCS.get('np.repeat')


@model('np.repeat')
def ff_m_repeat(ex, st, args, kwargs, node):
    a = st.deref(args[0]) if args else None
    if ff_on(ex) and len(args) == 2 and set(kwargs) == {'axis'} and kwargs['axis'] == 1 and isinstance(a, VArr) and a.tag == 'icol':
        c = ex.need_num(st, args[1], node)
        used('np.repeat(col, c, axis=1) of an (n, 1) integer column -> the (n, c) matrix whose row i is constant col[i]')
        ex.oblige(st, 'call-pre', 'repeat-count-non-negative', Z(c) >= 0, node)
        return VArr((a.shape[0], c), a.t, 'icolrep', 'i')
    if ff_orig_repeat is None:
        raise Unsupported('np.repeat pattern')
    return ff_orig_repeat(ex, st, args, kwargs, node)


ff_orig_binop = M.arr_binop


def ff_arr_binop(ex, st, op, l, r, node):
    if ff_on(ex):
        if isinstance(op, ast.Pow) and isinstance(l, VArr) and l.tag in ('icolrep', 'icol') and isinstance(r, int) and not isinstance(r, bool) and r == 2:
            used('P ** 2 for an integer matrix with constant rows (or an (n, 1) column) -> elementwise square (product abstraction mulI)')
            arr = ex.fresh('isq', ff_IA)
            st.assume(z3.ForAll([ff_k], arr[ff_k] == T.mulI(l.t[ff_k], l.t[ff_k]), patterns=[arr[ff_k]]))
            return VArr(l.shape, arr, l.tag, 'i')
        if isinstance(op, (ast.Sub, ast.Add)) and isinstance(r, VArr) and r.tag in ('icolrep', 'icol') and not isinstance(l, VArr) and is_num(l):
            used('c - P / c + P for a number c and an integer matrix with constant rows -> elementwise (a float matrix with constant rows)')
            arr = ex.fresh('cdiff', ff_RA)
            val = (to_real(l) - z3.ToReal(r.t[ff_k])) if isinstance(op, ast.Sub) else (to_real(l) + z3.ToReal(r.t[ff_k]))
            st.assume(z3.ForAll([ff_k], arr[ff_k] == val, patterns=[arr[ff_k]]))
            return VArr(r.shape, arr, 'rcolrep' if r.tag == 'icolrep' else 'rcol', 'f')
        if isinstance(op, ast.Div) and ff_is_mat(l) and isinstance(r, VArr) and r.tag in ('rcolrep', 'rcol'):
            used('A / Q for a matrix A and a matrix Q of the same shape with constant rows q[i] (or the (n, 1) column q, broadcast over the columns) -> '
                 'rest_rowdiv(A, q): row i divided by q[i]; every q[i] must be non-zero')
            ex.oblige(st, 'call-pre', 'elementwise-shapes-agree', z3.And(Z(l.shape[0]) == Z(r.shape[0]), z3.Or(z3.BoolVal(r.tag == 'rcol'), Z(l.shape[1]) == Z(r.shape[1]))), node)
            ex.oblige(st, 'safety', 'elementwise-division-by-nonzero',
                      z3.ForAll([ff_k], z3.Implies(z3.And(0 <= ff_k, ff_k < Z(r.shape[0])), r.t[ff_k] != 0)), node)
            return ff_mat(rest_rowdiv(l.t, r.t), l.shape[0], l.shape[1])
    return ff_orig_binop(ex, st, op, l, r, node)


M.arr_binop = ff_arr_binop
ff_orig_sum = M.FUNCS.get('np.sum')


@model('np.sum')
def ff_m_sum(ex, st, args, kwargs, node):
    a = st.deref(args[0]) if args else None
    if ff_on(ex) and len(args) == 1 and set(kwargs) == {'axis'} and kwargs['axis'] == 0 and ff_is_mat(a):
        used('np.sum(A, axis=0) of a matrix -> rest_colsum(A): the row of the column sums')
        return VArr((a.shape[1],), rest_colsum(a.t), 'vec')
    if ff_orig_sum is None:
        raise Unsupported('np.sum pattern')
    return ff_orig_sum(ex, st, args, kwargs, node)


ff_orig_iter_of_value = M._iter_of_value


def ff_iter_of_value(ex, st, v, node):
    w = st.deref(v)
    if ff_on(ex) and (XF.is_vec(w, 'ivec') or XF.is_vec(w, 'rvec')):
        ln = w.shape[0] if isinstance(w.shape[0], int) else (z3.simplify(w.shape[0]).as_long() if z3.is_int_value(z3.simplify(w.shape[0])) else None)
        if ln is not None:
            used('iteration over a 1-D array of concrete length -> its elements in order')
            items = list(w.items) if isinstance(w, FFIVec) else [w.t[k] for k in range(ln)]
            return ln, (lambda j, items=items: items[j]), True
    return ff_orig_iter_of_value(ex, st, v, node)


M._iter_of_value = ff_iter_of_value


# ----------------------------------------------------------------------------------------------
# func_get_full:  T = func_basis(poi_scale(X, a, b, 'cheb'), max(n));  Q = np.tensordot(Q, T[:n[j], i, j], axes=([0], [0]))
#
# theory: the fibre of the 3-D basis array (values of T_0, T_1, .. at one coordinate of one point); contractions of the FIRST axis are
# written with the weighted mode sum wsum of the TT routines (np.einsum('rmq,m->rq', G, w)) on the array with that axis brought to
# position 1: np.tensordot(G, w, ([0], [0])) = wsum(sw01(G), w) for a 3-D G, = wsum(lift(M), w) (a 1 x cols row) for a matrix M.

ff_WL = z3.ArraySort(ff_I, ff_RA)
rest_tfib = z3.Function('rest_tfib', ff_WL, ff_I, ff_I, ff_RA)       # tfib(Xs, s, k)[l] = T_l(Xs[s][k]):  func_basis(Xs, m)[:, s, k]
ff_Xs = z3.Const('X!ffv', ff_WL)
ff_s = z3.Int('s!ff')
T.GROUPS['rest_tfib'] = [
    T.A([ff_Xs, ff_s, ff_k, ff_i], z3.Implies(ff_i >= 0, rest_tfib(ff_Xs, ff_s, ff_k)[ff_i] == XF.cheb(ff_i, ff_Xs[ff_s][ff_k])), [rest_tfib(ff_Xs, ff_s, ff_k)[ff_i]]),
]


ff_orig_max = M.FUNCS['max']


@model('max')
def ff_m_max(ex, st, args, kwargs, node):
    v = st.deref(args[0]) if len(args) == 1 else None
    if ff_on(ex) and not kwargs and isinstance(v, FFIVec) and v.items:
        used('max(v) of a 1-D integer array of concrete length -> the largest entry')
        cur = Z(v.items[0])
        for x in v.items[1:]:
            cur = z3.If(Z(x) > cur, Z(x), cur)
        return cur
    return ff_orig_max(ex, st, args, kwargs, node)


ff_orig_index3 = M.arr_index


def ff_arr_index3(ex, st, a, sl_, node):
    if ff_on(ex) and isinstance(a, VArr) and a.tag == 'basis3' and isinstance(sl_, ast.Tuple) and len(sl_.elts) == 3:
        e0, e1, e2 = sl_.elts
        if isinstance(e0, ast.Slice) and e0.lower is None and e0.step is None and e0.upper is not None and not isinstance(e1, ast.Slice) and not isinstance(e2, ast.Slice):
            hi, s, k = [ex.need_num(st, ex.ev(e, st), node) for e in (e0.upper, e1, e2)]
            if all(is_intsort(x) for x in (hi, s, k)):
                used('T[:r, s, k] of the basis array -> the values T_0 .. T_{r-1} at coordinate k of point s (requires 0 <= r <= number of basis functions)')
                ex.oblige(st, 'call-pre', 'leading-count-within-the-number-of-basis-functions', z3.And(0 <= Z(hi), Z(hi) <= Z(a.shape[0])), node)
                s = M.norm_index(ex, st, s, a.shape[1], node, 'point-index')
                k = M.norm_index(ex, st, k, a.shape[2], node, 'coordinate-index')
                return V.RVec(hi, rest_tfib(a.t, Z(s), Z(k)))
    return ff_orig_index3(ex, st, a, sl_, node)


M.arr_index = ff_arr_index3
ff_orig_tensordot = M.FUNCS.get('np.tensordot')


def ff_axes00(st, v):
    v = st.deref(v)
    if not (isinstance(v, (VTuple, VList)) and len(v.items) == 2):
        return False
    for x in v.items:
        x = st.deref(x)
        if not (isinstance(x, (VTuple, VList)) and len(x.items) == 1 and isinstance(x.items[0], int) and x.items[0] == 0):
            return False
    return True


@model('np.tensordot')
def ff_m_tensordot(ex, st, args, kwargs, node):
    if ff_on(ex) and len(args) == 2 and set(kwargs) == {'axes'} and ff_axes00(st, kwargs['axes']):
        q, w = st.deref(args[0]), st.deref(args[1])
        if XF.is_vec(w, 'rvec') and isinstance(q, VArr) and q.t is not None:
            used('np.tensordot(Q, w, axes=([0], [0])) for a 1-D w -> sum_l w[l] Q[l, ...] (the first axis is contracted; requires len(w) = Q.shape[0]): '
                 'wsum(sw01(Q), w) for a 3-D Q, the row wsum(lift(Q), w) for a matrix, a number for a 1-D Q')
            ex.oblige(st, 'call-pre', 'tensordot-contracted-dims-agree', Z(q.shape[0]) == Z(w.shape[0]), node)
            if ff_is_core(q):
                return ff_mat(T.wsum(rest_sw01(q.t), w.t), q.shape[1], q.shape[2])
            if ff_is_mat(q):
                return VArr((q.shape[1],), T.wsum(rest_lift(q.t), w.t), 'vec')
            if q.ndim == 1 and q.tag == 'vec':
                return T.ent(T.wsum(rest_lift(T.tr(q.t)), w.t), 0, 0)
            if XF.is_vec(q, 'rvec'):
                return T.ent(T.wsum(rest_lift(rest_colm(q.t, Z(q.shape[0]))), w.t), 0, 0)
    if ff_orig_tensordot is None:
        raise Unsupported('np.tensordot pattern')
    return ff_orig_tensordot(ex, st, args, kwargs, node)


# ----------------------------------------------------------------------------------------------
# func_gets_full (control level):  Z.reshape(m, order='F') of the flat vector of values, only with `ex.rest_ff_fold = True`

ff_orig_reshape3 = M.reshape


def ff_reshape3(ex, st, a, shp, order, node):
    if ff_on(ex) and getattr(ex, 'rest_ff_fold', False) and XF.is_vec(a, 'rvec'):
        w = st.deref(shp)
        items = ff_int_items(st, w)
        if items is None and XF.is_vec(w, 'ivec') and z3.is_int_value(z3.simplify(Z(w.shape[0]))):
            items = [w.t[k] for k in range(z3.simplify(Z(w.shape[0])).as_long())]
        o = order.concrete() if isinstance(order, VStr) else None
        if items is not None and 1 <= len(items) <= 3 and o in ('F', 'C') and not any(ff_is_m1(x) for x in items):
            used("v.reshape(sizes, order) of a flat vector -> the array of that shape; the size must be preserved (order='F': flat position t lands at the "
                 "multi-index whose mixed-radix digits, first index fastest, are t)")
            vec = FFIVec(items)
            from ttvc import mx_misc as XM_
            ex.oblige(st, 'call-pre', 'reshape-preserves-size', Z(a.shape[0]) == XM_.pprod(vec.t, len(items)), node)
            out = VArr(tuple(items), None, 'fffold', 'f')
            out.ff_fold = (a, o)
            return out
    return ff_orig_reshape3(ex, st, a, shp, order, node)


M.reshape = ff_reshape3
