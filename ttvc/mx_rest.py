"""Model-table entries and spec symbols for contracts/rest.py (agent `rest`), four sections, each ACTIVE ONLY for executors that carry its
gate flag (ex.rest_ff: dense Chebyshev routines of func_full.py; ex.rest_af: anova_func.py; ex.rest_b2: ANOVA.build_2; ex.rest_sp:
sample_rand_poi / cdf_confidence / cross_act) and falling through to the previous hook otherwise.  Each section begins with a banner and
its own description.  All axiom groups (rest_*) are exercised by lemmas/spotcheck.py through lemmas/spotcheck_ext_rest.py."""
# ==================================================================================================
# SECTION func_full (dense Chebyshev routines)
# ==================================================================================================
"""Model-table entries and spec symbols for the dense ("full format") Chebyshev routines of teneva/func_full.py (contracts/rest.py; C12).

Everything follows the wrapping pattern of kr.py (keep the previous hook, fall through to it) and is ACTIVE ONLY for executors that carry
the flag `ex.rest_ff = True`, so that the units of the other contract files see exactly the engine they were written against.

A dense d-dimensional array (d = 1, 2, 3: concrete ndim) is a vector (tag 'rvec', Int -> Real), a matrix (tag 'mat', sort Mat) or a 3-D
array (tag 'core', sort Core - the sort is just "3-D float array", no TT meaning).  New theory symbols (all groups are exercised by
lemmas/spotcheck.py through lemmas/spotcheck_ext_rest.py, where each symbol is interpreted by the NumPy operation named here):
  rest_sw01(G), rest_sw02(G)     np.swapaxes(G, 0, 1) / np.swapaxes(G, 0, 2)                                              group 'rest_dense'
  rest_sl0(G, a)                 G[a, :, :]                                                                               group 'rest_dense'
  rest_revrows(A, lo, hi)        A[lo:hi:-1, :]  (rows lo, lo-1, .., hi+1)                                                group 'rest_dense'
  rest_fftre(A)                  np.fft.fft(A, axis=0).real                                                               group 'rest_dense'
  rest_rowset(A, i, v)           A with A[i, :] = v  (v: 1 x cols)                                                        group 'rest_dense'
  rest_lift(A)                   A[None, :, :]  (the matrix as a 3-D array with one leading index: the bridge to the 1-D operators
                                 dct1 / cstep2 / wsum of mx_func, which act along axis 1 of a 3-D array)                  group 'rest_dense'
  rest_colm(v, m), rest_col0(A)  v[:m].reshape((m, 1)) / A[:, 0]                                                          group 'rest_dense'
  FFT fact: the first m rows of the real part of the FFT of the even extension [x_0 .. x_{m-1}, x_{m-2} .. x_1] are the un-normalised
  DCT-I of x (= dct1 of mx_func, interpreted by scipy.fftpack.dct in the spot check, so np.fft.fft is compared with scipy there)
  rest_unfC(G), rest_cblk(A, j, r), rest_vfoldC(v, n)   C-order unfolding G.reshape(d0, -1), column block A[:, j*r:(j+1)*r],
                                 v.reshape(n, -1) of a row                                                                group 'rest_corder'
  commutation of column selections / column blocks with the row-wise operators                                            groups 'rest_colsel', 'rest_cblk'
"""
import ast
import z3
from ttvc import symex
from ttvc.symex import (Unsupported, ContractMismatch, NONE, VStr, VOpt, VTuple, VRef, VList, VSeq, VArr, VFunc, VOpaque, Z, is_num,
                        is_intsort)
from ttvc import models as M, theory as T, vec as V, pt as PT
from ttvc import mx_func as XF
from ttvc.models import model, used, to_real

ff_I, ff_R = z3.IntSort(), z3.RealSort()
ff_IA = z3.ArraySort(ff_I, ff_I)
ff_RA = z3.ArraySort(ff_I, ff_R)


def ff_on(ex):
    return getattr(ex, 'rest_ff', False)


# ----------------------------------------------------------------------------------------------
# theory

rest_sw01 = z3.Function('rest_sw01', T.Core, T.Core)
rest_sw02 = z3.Function('rest_sw02', T.Core, T.Core)
rest_sl0 = z3.Function('rest_sl0', T.Core, ff_I, T.Mat)
rest_revrows = z3.Function('rest_revrows', T.Mat, ff_I, ff_I, T.Mat)
rest_fftre = z3.Function('rest_fftre', T.Mat, T.Mat)
rest_rowset = z3.Function('rest_rowset', T.Mat, ff_I, T.Mat, T.Mat)
rest_lift = z3.Function('rest_lift', T.Mat, T.Core)
rest_colm = z3.Function('rest_colm', ff_RA, ff_I, T.Mat)
rest_col0 = z3.Function('rest_col0', T.Mat, ff_RA)

ff_G, ff_A, ff_B, ff_v = T.G_, T.a_, T.b_, T.c_
ff_a, ff_b, ff_j, ff_k, ff_i, ff_c, ff_lo, ff_hi, ff_n, ff_r = z3.Ints('a!ff b!ff j!ff k!ff i!ff c!ff lo!ff hi!ff n!ff r!ff')
ff_x = z3.Real('x!ff')
ff_w = z3.Const('w!ff', ff_RA)

T.GROUPS['rest_dense'] = [
    # swapped axes
    T.A([ff_G], z3.And(T.d0(rest_sw01(ff_G)) == T.d1(ff_G), T.d1(rest_sw01(ff_G)) == T.d0(ff_G), T.d2(rest_sw01(ff_G)) == T.d2(ff_G)), [rest_sw01(ff_G)]),
    T.A([ff_G], z3.And(T.d0(rest_sw02(ff_G)) == T.d2(ff_G), T.d1(rest_sw02(ff_G)) == T.d1(ff_G), T.d2(rest_sw02(ff_G)) == T.d0(ff_G)), [rest_sw02(ff_G)]),
    T.A([ff_G, ff_a, ff_j, ff_b], T.centry(rest_sw01(ff_G), ff_a, ff_j, ff_b) == T.centry(ff_G, ff_j, ff_a, ff_b), [T.centry(rest_sw01(ff_G), ff_a, ff_j, ff_b)]),
    T.A([ff_G, ff_a, ff_j, ff_b], T.centry(rest_sw02(ff_G), ff_a, ff_j, ff_b) == T.centry(ff_G, ff_b, ff_j, ff_a), [T.centry(rest_sw02(ff_G), ff_a, ff_j, ff_b)]),
    T.A([ff_G, ff_j], z3.Implies(z3.And(0 <= ff_j, ff_j < T.d1(ff_G)), T.sl(rest_sw02(ff_G), ff_j) == T.tr(T.sl(ff_G, ff_j))), [T.sl(rest_sw02(ff_G), ff_j)]),
    T.A([ff_G, ff_j], z3.Implies(z3.And(0 <= ff_j, ff_j < T.d0(ff_G)), T.sl(rest_sw01(ff_G), ff_j) == rest_sl0(ff_G, ff_j)), [T.sl(rest_sw01(ff_G), ff_j)]),
    T.A([ff_G, ff_a], z3.Implies(z3.And(0 <= ff_a, ff_a < T.d1(ff_G)), rest_sl0(rest_sw01(ff_G), ff_a) == T.sl(ff_G, ff_a)), [rest_sl0(rest_sw01(ff_G), ff_a)]),
    T.A([ff_G, ff_a], z3.And(T.rows(rest_sl0(ff_G, ff_a)) == T.d1(ff_G), T.cols(rest_sl0(ff_G, ff_a)) == T.d2(ff_G)), [rest_sl0(ff_G, ff_a)]),
    T.A([ff_G, ff_a, ff_j, ff_b], z3.Implies(z3.And(0 <= ff_a, ff_a < T.d0(ff_G)), T.ent(rest_sl0(ff_G, ff_a), ff_j, ff_b) == T.centry(ff_G, ff_a, ff_j, ff_b)),
        [T.ent(rest_sl0(ff_G, ff_a), ff_j, ff_b)]),
    # reversed row range, FFT, row store, leading rows
    T.A([ff_A, ff_lo, ff_hi], z3.Implies(z3.And(0 <= ff_hi, ff_hi <= ff_lo, ff_lo < T.rows(ff_A)),
                                         z3.And(T.rows(rest_revrows(ff_A, ff_lo, ff_hi)) == ff_lo - ff_hi, T.cols(rest_revrows(ff_A, ff_lo, ff_hi)) == T.cols(ff_A))),
        [rest_revrows(ff_A, ff_lo, ff_hi)]),
    T.A([ff_A], z3.And(T.rows(rest_fftre(ff_A)) == T.rows(ff_A), T.cols(rest_fftre(ff_A)) == T.cols(ff_A)), [rest_fftre(ff_A)]),
    T.A([ff_A, ff_i, ff_v], z3.And(T.rows(rest_rowset(ff_A, ff_i, ff_v)) == T.rows(ff_A), T.cols(rest_rowset(ff_A, ff_i, ff_v)) == T.cols(ff_A)),
        [rest_rowset(ff_A, ff_i, ff_v)]),
    T.A([ff_A, ff_i, ff_v, ff_k, ff_c], z3.Implies(z3.And(0 <= ff_i, ff_i < T.rows(ff_A), T.rows(ff_v) == 1, T.cols(ff_v) == T.cols(ff_A), 0 <= ff_k, ff_k < T.rows(ff_A),
                                                          0 <= ff_c, ff_c < T.cols(ff_A)),
                                                   T.ent(rest_rowset(ff_A, ff_i, ff_v), ff_k, ff_c) == z3.If(ff_k == ff_i, T.ent(ff_v, 0, ff_c), T.ent(ff_A, ff_k, ff_c))),
        [T.ent(rest_rowset(ff_A, ff_i, ff_v), ff_k, ff_c)]),
    T.A([ff_A, ff_r, ff_k, ff_c], z3.Implies(z3.And(0 <= ff_k, ff_k < ff_r, ff_r <= T.rows(ff_A), 0 <= ff_c, ff_c < T.cols(ff_A)),
                                             T.ent(V.trows(ff_A, ff_r), ff_k, ff_c) == T.ent(ff_A, ff_k, ff_c)), [T.ent(V.trows(ff_A, ff_r), ff_k, ff_c)]),
    # a matrix as a 3-D array with one leading index
    T.A([ff_A], z3.And(T.d0(rest_lift(ff_A)) == 1, T.d1(rest_lift(ff_A)) == T.rows(ff_A), T.d2(rest_lift(ff_A)) == T.cols(ff_A)), [rest_lift(ff_A)]),
    T.A([ff_A, ff_j, ff_b], z3.Implies(z3.And(0 <= ff_j, ff_j < T.rows(ff_A), 0 <= ff_b, ff_b < T.cols(ff_A)),
                                       T.centry(rest_lift(ff_A), 0, ff_j, ff_b) == T.ent(ff_A, ff_j, ff_b)), [T.centry(rest_lift(ff_A), 0, ff_j, ff_b)]),
    T.A([ff_A, ff_j], z3.Implies(z3.And(0 <= ff_j, ff_j < T.rows(ff_A)), T.sl(rest_lift(ff_A), ff_j) == T.row(ff_A, ff_j)), [T.sl(rest_lift(ff_A), ff_j)]),
    # the FFT of the even extension is the DCT-I (rows 0 .. m-1 of the real part)
    T.A([ff_A, ff_lo, ff_hi, ff_k, ff_c], z3.Implies(z3.And(T.rows(ff_A) >= 2, ff_lo == T.rows(ff_A) - 2, ff_hi == 0, 0 <= ff_k, ff_k < T.rows(ff_A), 0 <= ff_c, ff_c < T.cols(ff_A)),
                                                     T.ent(rest_fftre(T.vcat(ff_A, rest_revrows(ff_A, ff_lo, ff_hi))), ff_k, ff_c)
                                                     == T.centry(XF.dct1(rest_lift(ff_A)), 0, ff_k, ff_c)),
        [T.ent(rest_fftre(T.vcat(ff_A, rest_revrows(ff_A, ff_lo, ff_hi))), ff_k, ff_c)]),
    # vectors as one-column matrices
    T.A([ff_w, ff_n], z3.And(T.rows(rest_colm(ff_w, ff_n)) == ff_n, T.cols(rest_colm(ff_w, ff_n)) == 1), [rest_colm(ff_w, ff_n)]),
    T.A([ff_w, ff_n, ff_k], z3.Implies(z3.And(0 <= ff_k, ff_k < ff_n), T.ent(rest_colm(ff_w, ff_n), ff_k, 0) == ff_w[ff_k]), [T.ent(rest_colm(ff_w, ff_n), ff_k, 0)]),
    T.A([ff_A, ff_k], z3.Implies(z3.And(0 <= ff_k, ff_k < T.rows(ff_A), T.cols(ff_A) >= 1), rest_col0(ff_A)[ff_k] == T.ent(ff_A, ff_k, 0)), [rest_col0(ff_A)[ff_k]]),
]

# column selections A[:, j::n] commute with everything that acts on rows
ff_cs = lambda X_: T.colsel(X_, ff_j, ff_n)
T.GROUPS['rest_colsel'] = [
    T.A([ff_A, ff_B, ff_j, ff_n], z3.Implies(T.cols(ff_A) == T.cols(ff_B), ff_cs(T.vcat(ff_A, ff_B)) == T.vcat(ff_cs(ff_A), ff_cs(ff_B))), [ff_cs(T.vcat(ff_A, ff_B))]),
    T.A([ff_A, ff_lo, ff_hi, ff_j, ff_n], ff_cs(rest_revrows(ff_A, ff_lo, ff_hi)) == rest_revrows(ff_cs(ff_A), ff_lo, ff_hi), [ff_cs(rest_revrows(ff_A, ff_lo, ff_hi))]),
    T.A([ff_A, ff_j, ff_n], ff_cs(rest_fftre(ff_A)) == rest_fftre(ff_cs(ff_A)), [ff_cs(rest_fftre(ff_A))]),
    T.A([ff_A, ff_r, ff_j, ff_n], ff_cs(V.trows(ff_A, ff_r)) == V.trows(ff_cs(ff_A), ff_r), [ff_cs(V.trows(ff_A, ff_r))]),
    T.A([ff_x, ff_A, ff_j, ff_n], ff_cs(T.smul(ff_x, ff_A)) == T.smul(ff_x, ff_cs(ff_A)), [ff_cs(T.smul(ff_x, ff_A))]),
    T.A([ff_A, ff_i, ff_v, ff_j, ff_n], z3.Implies(T.cols(ff_v) == T.cols(ff_A), ff_cs(rest_rowset(ff_A, ff_i, ff_v)) == rest_rowset(ff_cs(ff_A), ff_i, ff_cs(ff_v))),
        [ff_cs(rest_rowset(ff_A, ff_i, ff_v))]),
    T.A([ff_A, ff_i, ff_j, ff_n], ff_cs(T.row(ff_A, ff_i)) == T.row(ff_cs(ff_A), ff_i), [ff_cs(T.row(ff_A, ff_i))]),
    # (the 'unfold' fact sl(G, j) = unfR(G)[:, j::n] read from right to left: triggered by the column selection)
    T.A([ff_G, ff_j, ff_n], z3.Implies(z3.And(ff_n == T.d1(ff_G), 0 <= ff_j, ff_j < ff_n), ff_cs(T.unfR(ff_G)) == T.sl(ff_G, ff_j)), [ff_cs(T.unfR(ff_G))]),
]


# ----------------------------------------------------------------------------------------------
# integer vectors of concrete length with known entries:  np.array(Y.shape, dtype=int),  n[k],  n[[0, k]] = n[[k, 0]]

class FFIVec(VArr):
    """1-D integer array of concrete length whose entries are known terms (`items`); t is the corresponding z3 array (stores on K(0))."""
    def __init__(self, items):
        t = z3.K(ff_I, z3.IntVal(0))
        for pos, x in enumerate(items):
            t = z3.Store(t, pos, Z(x))
        VArr.__init__(self, (len(items),), t, 'ivec', 'i')
        self.items = list(items)


def ff_int_items(st, v):
    v = st.deref(v)
    if isinstance(v, FFIVec):
        return list(v.items)
    if isinstance(v, (VTuple, VList)) and all(is_num(x) and is_intsort(x) for x in v.items):
        return list(v.items)
    return None


def ff_wrap_array(name):
    orig = M.FUNCS[name]

    def ff_m_array(ex, st, args, kwargs, node):
        if ff_on(ex) and len(args) == 1 and set(kwargs) <= {'dtype'}:
            dt = kwargs.get('dtype')
            items = ff_int_items(st, args[0])
            if items is not None and (dt is None or (isinstance(dt, M.TypeVal) and dt.name == 'int')):
                used('np.array / np.asanyarray(tuple or list of ints, dtype=int) -> integer vector with these entries (a fresh array)')
                return FFIVec(items)
        return orig(ex, st, args, kwargs, node)
    M.FUNCS[name] = ff_m_array


for ff_nm in ('np.array', 'np.asanyarray', 'np.asarray'):
    ff_wrap_array(ff_nm)


def ff_const_index_list(ex, st, e):
    """[i0, i1, ...] with concrete integers (an index list)."""
    if not isinstance(e, ast.List):
        return None
    out = []
    for x in e.elts:
        v = ex.ev(x, st)
        if not (isinstance(v, int) and not isinstance(v, bool)):
            return None
        out.append(v)
    return out


def ff_full(e):
    return isinstance(e, ast.Slice) and e.lower is None and e.upper is None and e.step is None


def ff_is_mat(v):
    return isinstance(v, VArr) and v.ndim == 2 and v.tag == 'mat' and v.t is not None


def ff_is_core(v):
    return isinstance(v, VArr) and v.ndim == 3 and v.tag == 'core' and v.t is not None


def ff_mat(t, r, c):
    return VArr((r, c), t, 'mat')


ff_orig_index = M.arr_index


def ff_arr_index(ex, st, a, sl_, node):
    if ff_on(ex) and isinstance(a, FFIVec):
        if not isinstance(sl_, (ast.Tuple, ast.Slice)):
            idx = ff_const_index_list(ex, st, sl_)
            if idx is not None:
                used('n[[i0, i1, ..]] (index list) -> the vector of the selected entries (a copy)')
                for i in idx:
                    ex.oblige(st, 'safety', 'array-index-in-range', z3.BoolVal(-len(a.items) <= i < len(a.items)), node)
                return FFIVec([a.items[i] for i in idx])
            if not isinstance(sl_, ast.List):
                iv = ex.ev(sl_, st)
                if isinstance(iv, int) and not isinstance(iv, bool):
                    ex.oblige(st, 'safety', 'array-index-in-range', z3.BoolVal(-len(a.items) <= iv < len(a.items)), node)
                    return a.items[iv] if -len(a.items) <= iv < len(a.items) else ex.fresh_int('oob')
    if ff_on(ex) and ff_is_mat(a) and isinstance(sl_, ast.Tuple) and len(sl_.elts) == 2 and ff_full(sl_.elts[1]):
        e0 = sl_.elts[0]
        rows, cols = a.shape
        if isinstance(e0, ast.Slice) and e0.step is not None and e0.lower is not None and e0.upper is not None:
            stp = ex.ev(e0.step, st)
            if isinstance(stp, int) and stp == -1:
                lo, hi = ex.need_num(st, ex.ev(e0.lower, st), node), ex.need_num(st, ex.ev(e0.upper, st), node)
                if is_intsort(lo) and is_intsort(hi):
                    used('A[lo:hi:-1, :] for 0 <= hi <= lo < rows -> the rows lo, lo-1, .., hi+1 (lo - hi of them)')
                    ex.oblige(st, 'call-pre', 'reversed-row-range-within-the-matrix', z3.And(0 <= Z(hi), Z(hi) <= Z(lo), Z(lo) < Z(rows)), node)
                    return ff_mat(rest_revrows(a.t, Z(lo), Z(hi)), Z(lo) - Z(hi), cols)
        if isinstance(e0, ast.Slice) and e0.step is None and e0.lower is None and e0.upper is not None:
            hi = ex.need_num(st, ex.ev(e0.upper, st), node)
            if is_intsort(hi):
                used('A[:r, :] for 0 <= r <= rows -> the leading r rows (trows)')
                ex.oblige(st, 'call-pre', 'leading-row-count-within-the-matrix', z3.And(0 <= Z(hi), Z(hi) <= Z(rows)), node)
                return ff_mat(V.trows(a.t, Z(hi)), hi, cols)
        if not isinstance(e0, ast.Slice):
            iv = ex.ev(e0, st)
            if is_num(iv) and is_intsort(iv):
                i = M.norm_index(ex, st, iv, rows, node, 'row-index')
                used('A[i, :] -> row i as a 1-D array (row(A, i))')
                return VArr((cols,), T.row(a.t, Z(i)), 'vec')
    return ff_orig_index(ex, st, a, sl_, node)


M.arr_index = ff_arr_index
ff_orig_setitem = M.arr_setitem


def ff_arr_setitem(ex, st, b, sl_, v, node):
    if ff_on(ex) and isinstance(b, FFIVec) and not isinstance(sl_, (ast.Tuple, ast.Slice)):
        idx = ff_const_index_list(ex, st, sl_)
        val = st.deref(v)
        if idx is not None and isinstance(val, FFIVec) and len(val.items) == len(idx):
            used('n[[i0, i1, ..]] = w (index list, vector of the same length) -> the entries are replaced one after the other')
            items = list(b.items)
            for i, x in zip(idx, val.items):
                ex.oblige(st, 'safety', 'array-index-in-range', z3.BoolVal(-len(items) <= i < len(items)), node)
                if -len(items) <= i < len(items):
                    items[i] = x
            return FFIVec(items)
    if ff_on(ex) and ff_is_mat(b) and isinstance(sl_, ast.Tuple) and len(sl_.elts) == 2 and ff_full(sl_.elts[1]) and not isinstance(sl_.elts[0], ast.Slice):
        val = st.deref(v)
        iv = ex.ev(sl_.elts[0], st)
        if isinstance(val, VArr) and val.ndim == 1 and val.tag == 'vec' and val.t is not None and is_num(iv) and is_intsort(iv):
            i = M.norm_index(ex, st, iv, b.shape[0], node, 'row-index')
            used('A[i, :] = v for a 1-D v of length cols -> rest_rowset(A, i, v)')
            ex.oblige(st, 'call-pre', 'row-assignment-length-matches', Z(val.shape[0]) == Z(b.shape[1]), node)
            return ff_mat(rest_rowset(b.t, Z(i), val.t), b.shape[0], b.shape[1])
    return ff_orig_setitem(ex, st, b, sl_, v, node)


M.arr_setitem = ff_arr_setitem


# ----------------------------------------------------------------------------------------------
# np.swapaxes(A, 0, k), Fortran-order unfolding A.reshape((m, -1), order='F') and its inverse A.reshape(n, order='F'), np.vstack, FFT

ff_orig_swapaxes = M.FUNCS.get('np.swapaxes')


@model('np.swapaxes')
def ff_m_swapaxes(ex, st, args, kwargs, node):
    a = st.deref(args[0]) if args else None
    if ff_on(ex) and len(args) == 3 and not kwargs and isinstance(a, VArr) and all(isinstance(x, int) and not isinstance(x, bool) for x in args[1:]):
        p, q = sorted(x + a.ndim if x < 0 else x for x in args[1:])
        if 0 <= p <= q < a.ndim:
            if p == q:
                used('np.swapaxes(A, k, k) -> A (a view of the same array)')
                return a
            if a.ndim == 2 and ff_is_mat(a):
                used('np.swapaxes(A, 0, 1) of a matrix -> the transposed view')
                return ff_mat(T.tr(a.t), a.shape[1], a.shape[0])
            if a.ndim == 3 and ff_is_core(a) and p == 0:
                s = a.shape
                if q == 1:
                    used('np.swapaxes(G, 0, 1) of a 3-D array -> rest_sw01(G): entry [a, j, b] = G[j, a, b]')
                    return VArr((s[1], s[0], s[2]), rest_sw01(a.t), 'core')
                used('np.swapaxes(G, 0, 2) of a 3-D array -> rest_sw02(G): entry [a, j, b] = G[b, j, a]')
                return VArr((s[2], s[1], s[0]), rest_sw02(a.t), 'core')
    if ff_orig_swapaxes is None:
        raise Unsupported('np.swapaxes calling pattern')
    return ff_orig_swapaxes(ex, st, args, kwargs, node)


ff_orig_reshape = M.reshape


def ff_is_m1(x):
    return isinstance(x, int) and not isinstance(x, bool) and x == -1


def ff_reshape(ex, st, a, shp, order, node):
    if ff_on(ex) and isinstance(a, VArr):
        items = ff_int_items(st, shp)
        o = order.concrete() if isinstance(order, VStr) else None
        if items is not None and o == 'F':
            if len(items) == 2 and ff_is_m1(items[1]) and not ff_is_m1(items[0]):
                # A.reshape((m, -1), order='F'): the unfolding along the FIRST axis - only when m is the size of that axis
                m = items[0]
                if ff_is_core(a) or ff_is_mat(a) or XF.is_vec(a, 'rvec'):
                    used("A.reshape((m, -1), order='F') with m = A.shape[0] -> the Fortran-order unfolding along the first axis (unfR for a 3-D array, "
                         "the matrix itself, the one-column matrix of a vector)")
                    ex.oblige(st, 'call-pre', 'reshape-first-dimension-is-the-size-of-the-first-axis', Z(m) == Z(a.shape[0]), node)
                    if a.ndim == 3:
                        return ff_mat(T.unfR(a.t), a.shape[0], T.mul_canon(a.shape[1], a.shape[2]))
                    if a.ndim == 2:
                        return a
                    return ff_mat(rest_colm(a.t, Z(a.shape[0])), a.shape[0], 1)
            if ff_is_mat(a) and not any(ff_is_m1(x) for x in items):
                if len(items) == 3:
                    used("A.reshape((s0, s1, s2), order='F') of an s0 x (s1 s2) matrix -> foldR(A, s1, s2)")
                    ex.oblige(st, 'call-pre', 'reshape-preserves-size', z3.And(Z(items[0]) == Z(a.shape[0]), Z(a.shape[1]) == T.mul_canon(items[1], items[2])), node)
                    return VArr(tuple(items), T.foldR(a.t, Z(items[1]), Z(items[2])), 'core')
                if len(items) == 2:
                    used("A.reshape((s0, s1), order='F') of an s0 x s1 matrix -> A")
                    ex.oblige(st, 'call-pre', 'reshape-preserves-size', z3.And(Z(items[0]) == Z(a.shape[0]), Z(items[1]) == Z(a.shape[1])), node)
                    return ff_mat(a.t, items[0], items[1])
                if len(items) == 1:
                    used("A.reshape((s0,), order='F') of an s0 x 1 matrix -> its column as a vector")
                    ex.oblige(st, 'call-pre', 'reshape-preserves-size', z3.And(Z(items[0]) == Z(a.shape[0]), Z(a.shape[1]) == 1), node)
                    return V.RVec(items[0], rest_col0(a.t))
        if isinstance(st.deref(shp), FFIVec):
            shp = VTuple(items)
    return ff_orig_reshape(ex, st, a, shp, order, node)


M.reshape = ff_reshape
ff_orig_vstack = M.FUNCS.get('np.vstack')


@model('np.vstack')
def ff_m_vstack(ex, st, args, kwargs, node):
    parts = st.deref(args[0]) if len(args) == 1 and not kwargs else None
    if ff_on(ex) and isinstance(parts, (VList, VTuple)) and len(parts.items) == 2:
        a, b = [st.deref(x) for x in parts.items]
        if ff_is_mat(a) and ff_is_mat(b):
            used('np.vstack([A, B]) for matrices -> vcat(A, B); requires equal column counts')
            ex.oblige(st, 'call-pre', 'vstack-column-counts-agree', Z(a.shape[1]) == Z(b.shape[1]), node)
            return ff_mat(T.vcat(a.t, b.t), Z(a.shape[0]) + Z(b.shape[0]), a.shape[1])
    if ff_orig_vstack is None:
        raise Unsupported('np.vstack pattern')
    return ff_orig_vstack(ex, st, args, kwargs, node)


@model('np.fft.fft')
def ff_m_fft(ex, st, args, kwargs, node):
    a = st.deref(args[0]) if args else None
    if ff_on(ex) and len(args) == 1 and set(kwargs) == {'axis'} and kwargs['axis'] == 0 and ff_is_mat(a):
        used('np.fft.fft(A, axis=0) -> complex matrix of the same shape (only its real part is used: rest_fftre)')
        return VArr(a.shape, a.t, 'cfft0', 'c')
    raise Unsupported('np.fft.fft: only fft(<matrix>, axis=0) is modelled (dense Chebyshev tier)')


ff_orig_attribute = M.attribute


def ff_attribute(ex, st, v, attr, node):
    if ff_on(ex) and isinstance(v, VArr) and v.tag == 'cfft0' and attr == 'real':
        used('np.fft.fft(A, axis=0).real -> rest_fftre(A)')
        return ff_mat(rest_fftre(v.t), v.shape[0], v.shape[1])
    return ff_orig_attribute(ex, st, v, attr, node)


M.attribute = ff_attribute


# ----------------------------------------------------------------------------------------------
# func_sum_full:  v = v.reshape(n[k], -1);  p = np.arange(n[k])[::2];  p = np.repeat(p.reshape(-1, 1), v.shape[1], axis=1);
#                 v = np.sum(v[::2, :] * 2. / (1. - p**2), axis=0);  v *= (b[k] - a[k]) / 2.
#
# theory: even rows, division of the rows by a vector, column sums with their partial sums, the Clenshaw-Curtis sum of a column (spec
# function), C-order unfolding / column blocks / row-major fold of a row

rest_erows = z3.Function('rest_erows', T.Mat, T.Mat)                       # A[::2, :]
rest_rowdiv = z3.Function('rest_rowdiv', T.Mat, ff_RA, T.Mat)              # A / q[:, None]  (row i divided by q[i])
rest_colsum = z3.Function('rest_colsum', T.Mat, T.Mat)                     # np.sum(A, axis=0) as a 1 x cols row
rest_psum = z3.Function('rest_psum', T.Mat, ff_I, ff_I, ff_R)              # psum(A, c, k) = sum_{i<k} A[i, c]
rest_ccsum = z3.Function('rest_ccsum', T.Mat, ff_I, ff_I, ff_R)            # ccsum(A, c, k) = sum_{l<k} 2 A[2l, c] / (1 - (2l)^2)  (Clenshaw-Curtis weights 2/(1-i^2), i = 2l)
rest_unfC = z3.Function('rest_unfC', T.Core, T.Mat)                        # G.reshape(d0, -1)  (C order)
rest_cblk = z3.Function('rest_cblk', T.Mat, ff_I, ff_I, T.Mat)             # A[:, j*r:(j+1)*r]
rest_vfoldC = z3.Function('rest_vfoldC', T.Mat, ff_I, T.Mat)               # v.reshape(n, -1) of a 1 x L row (C order)
ff_k1 = z3.Int('k1!ff')
ff_q = z3.Const('q!ff', ff_RA)


def ff_ccden(l):
    """1 - (2l)^2 in the engine's product abstraction (the denominator of the Clenshaw-Curtis weight of the even index i = 2l)."""
    return z3.ToReal(1 - T.mulI(2 * l, 2 * l))


T.GROUPS['rest_cc'] = [
    T.A([ff_A], z3.And(T.rows(rest_erows(ff_A)) == (T.rows(ff_A) + 1) / 2, T.cols(rest_erows(ff_A)) == T.cols(ff_A)), [rest_erows(ff_A)]),
    T.A([ff_A, ff_i, ff_c], z3.Implies(z3.And(0 <= ff_i, 2 * ff_i < T.rows(ff_A), 0 <= ff_c, ff_c < T.cols(ff_A)), T.ent(rest_erows(ff_A), ff_i, ff_c) == T.ent(ff_A, 2 * ff_i, ff_c)),
        [T.ent(rest_erows(ff_A), ff_i, ff_c)]),
    T.A([ff_A, ff_q], z3.And(T.rows(rest_rowdiv(ff_A, ff_q)) == T.rows(ff_A), T.cols(rest_rowdiv(ff_A, ff_q)) == T.cols(ff_A)), [rest_rowdiv(ff_A, ff_q)]),
    T.A([ff_A, ff_q, ff_i, ff_c], z3.Implies(z3.And(0 <= ff_i, ff_i < T.rows(ff_A), 0 <= ff_c, ff_c < T.cols(ff_A), ff_q[ff_i] != 0),
                                             T.ent(rest_rowdiv(ff_A, ff_q), ff_i, ff_c) == T.ent(ff_A, ff_i, ff_c) / ff_q[ff_i]), [T.ent(rest_rowdiv(ff_A, ff_q), ff_i, ff_c)]),
    T.A([ff_A], z3.And(T.rows(rest_colsum(ff_A)) == 1, T.cols(rest_colsum(ff_A)) == T.cols(ff_A)), [rest_colsum(ff_A)]),
    T.A([ff_A, ff_c], z3.Implies(z3.And(0 <= ff_c, ff_c < T.cols(ff_A)), T.ent(rest_colsum(ff_A), 0, ff_c) == rest_psum(ff_A, ff_c, T.rows(ff_A))), [T.ent(rest_colsum(ff_A), 0, ff_c)]),
    T.A([ff_A, ff_c], rest_psum(ff_A, ff_c, 0) == 0, [rest_psum(ff_A, ff_c, 0)]),
    T.A([ff_A, ff_c, ff_k, ff_k1], z3.Implies(z3.And(ff_k >= 0, ff_k1 == ff_k + 1, ff_k < T.rows(ff_A), 0 <= ff_c, ff_c < T.cols(ff_A)),
                                               rest_psum(ff_A, ff_c, ff_k1) == rest_psum(ff_A, ff_c, ff_k) + T.ent(ff_A, ff_k, ff_c)),
        [z3.MultiPattern(rest_psum(ff_A, ff_c, ff_k), rest_psum(ff_A, ff_c, ff_k1))]),
    T.A([ff_A, ff_c], rest_ccsum(ff_A, ff_c, 0) == 0, [rest_ccsum(ff_A, ff_c, 0)]),
    T.A([ff_A, ff_c, ff_k, ff_k1], z3.Implies(z3.And(ff_k >= 0, ff_k1 == ff_k + 1, 2 * ff_k < T.rows(ff_A), 0 <= ff_c, ff_c < T.cols(ff_A)),
                                               rest_ccsum(ff_A, ff_c, ff_k1) == rest_ccsum(ff_A, ff_c, ff_k) + (2 * T.ent(ff_A, 2 * ff_k, ff_c)) / ff_ccden(ff_k)),
        [z3.MultiPattern(rest_ccsum(ff_A, ff_c, ff_k), rest_ccsum(ff_A, ff_c, ff_k1))]),
]
ff_cb = lambda X_: rest_cblk(X_, ff_j, ff_r)
T.GROUPS['rest_corder'] = [
    T.A([ff_G], z3.And(T.rows(rest_unfC(ff_G)) == T.d0(ff_G), T.cols(rest_unfC(ff_G)) == T.mulI(T.d1(ff_G), T.d2(ff_G))), [rest_unfC(ff_G)]),
    T.A([ff_G, ff_j, ff_r], z3.Implies(z3.And(ff_r == T.d2(ff_G), 0 <= ff_j, ff_j < T.d1(ff_G)), ff_cb(rest_unfC(ff_G)) == T.sl(ff_G, ff_j)), [ff_cb(rest_unfC(ff_G))]),
    T.A([ff_A, ff_j, ff_r, ff_n], z3.Implies(z3.And(T.cols(ff_A) == T.mulI(ff_n, ff_r), 0 <= ff_j, ff_j < ff_n, ff_r >= 0),
                                             z3.And(T.rows(ff_cb(ff_A)) == T.rows(ff_A), T.cols(ff_cb(ff_A)) == ff_r)), [z3.MultiPattern(ff_cb(ff_A), T.mulI(ff_n, ff_r))]),
    T.A([ff_A, ff_j, ff_i], z3.Implies(z3.And(0 <= ff_j, ff_j < T.cols(ff_A), 0 <= ff_i, ff_i < T.rows(ff_A)), T.ent(rest_cblk(ff_A, ff_j, 1), ff_i, 0) == T.ent(ff_A, ff_i, ff_j)),
        [T.ent(rest_cblk(ff_A, ff_j, 1), ff_i, 0)]),
    T.A([ff_A, ff_n, ff_r], z3.Implies(z3.And(T.rows(ff_A) == 1, T.cols(ff_A) == T.mulI(ff_n, ff_r), ff_n >= 1, ff_r >= 1),
                                       z3.And(T.rows(rest_vfoldC(ff_A, ff_n)) == ff_n, T.cols(rest_vfoldC(ff_A, ff_n)) == ff_r)), [z3.MultiPattern(rest_vfoldC(ff_A, ff_n), T.mulI(ff_n, ff_r))]),
    T.A([ff_A, ff_n, ff_r, ff_i], z3.Implies(z3.And(T.rows(ff_A) == 1, T.cols(ff_A) == T.mulI(ff_n, ff_r), ff_n >= 1, ff_r >= 1, 0 <= ff_i, ff_i < ff_n),
                                             T.row(rest_vfoldC(ff_A, ff_n), ff_i) == rest_cblk(ff_A, ff_i, ff_r)), [z3.MultiPattern(T.row(rest_vfoldC(ff_A, ff_n), ff_i), T.mulI(ff_n, ff_r))]),
    # (blocks of length 1: the row as a column)
    T.A([ff_A, ff_n], z3.Implies(z3.And(T.rows(ff_A) == 1, T.cols(ff_A) == ff_n, ff_n >= 1), z3.And(T.rows(rest_vfoldC(ff_A, ff_n)) == ff_n, T.cols(rest_vfoldC(ff_A, ff_n)) == 1)),
        [rest_vfoldC(ff_A, ff_n)]),
    T.A([ff_A, ff_n, ff_i], z3.Implies(z3.And(T.rows(ff_A) == 1, T.cols(ff_A) == ff_n, 0 <= ff_i, ff_i < ff_n), T.ent(rest_vfoldC(ff_A, ff_n), ff_i, 0) == T.ent(ff_A, 0, ff_i)),
        [T.ent(rest_vfoldC(ff_A, ff_n), ff_i, 0)]),
]
# column blocks commute with everything that acts on rows
T.GROUPS['rest_cblk'] = [
    T.A([ff_A, ff_j, ff_r], ff_cb(rest_colsum(ff_A)) == rest_colsum(ff_cb(ff_A)), [ff_cb(rest_colsum(ff_A))]),
    T.A([ff_A, ff_q, ff_j, ff_r], ff_cb(rest_rowdiv(ff_A, ff_q)) == rest_rowdiv(ff_cb(ff_A), ff_q), [ff_cb(rest_rowdiv(ff_A, ff_q))]),
    T.A([ff_x, ff_A, ff_j, ff_r], ff_cb(T.smul(ff_x, ff_A)) == T.smul(ff_x, ff_cb(ff_A)), [ff_cb(T.smul(ff_x, ff_A))]),
    T.A([ff_A, ff_j, ff_r], ff_cb(rest_erows(ff_A)) == rest_erows(ff_cb(ff_A)), [ff_cb(rest_erows(ff_A))]),
]


def ff_ivec(n, arr):
    return VArr((n,), arr, 'ivec', 'i')


def ff_factors(st, cols, default=None):
    """The factorisation (row-major) of a column count that a C-order unfolding produced (ghost table keyed by the term)."""
    tab = st.ghost.get('ff_colfactors', {})
    return tab.get(Z(cols).get_id(), default)


def ff_set_factors(st, cols, factors):
    tab = dict(st.ghost.get('ff_colfactors', {}))
    tab[Z(cols).get_id()] = list(factors)
    st.ghost['ff_colfactors'] = tab


def ff_reshape_c(ex, st, a, shp, order, node):
    """C-order reshapes of the dense tier; None when the pattern is not one of them."""
    items = ff_int_items(st, shp)
    o = order.concrete() if isinstance(order, VStr) else None
    if items is None or o != 'C' or len(items) != 2:
        return None
    if ff_is_m1(items[1]) and not ff_is_m1(items[0]):
        m = items[0]
        if ff_is_core(a) or ff_is_mat(a) or XF.is_vec(a, 'rvec'):
            used('A.reshape(m, -1) (C order) with m = A.shape[0] -> the row-major unfolding along the first axis (rest_unfC for a 3-D array, the matrix '
                 'itself, the one-column matrix of a vector)')
            ex.oblige(st, 'call-pre', 'reshape-first-dimension-is-the-size-of-the-first-axis', Z(m) == Z(a.shape[0]), node)
            if a.ndim == 3:
                cols = T.mul_canon(a.shape[1], a.shape[2])
                ff_set_factors(st, cols, [a.shape[1], a.shape[2]])
                return ff_mat(rest_unfC(a.t), a.shape[0], cols)
            if a.ndim == 2:
                if ff_factors(st, a.shape[1]) is None:
                    ff_set_factors(st, a.shape[1], [a.shape[1]])
                return a
            ff_set_factors(st, 1, [])
            return ff_mat(rest_colm(a.t, Z(a.shape[0])), a.shape[0], 1)
        if isinstance(a, VArr) and a.ndim == 1 and a.tag == 'vec' and a.t is not None:
            f = ff_factors(st, a.shape[0])
            if f:
                used('v.reshape(m, -1) (C order) of a row of length m * r -> rest_vfoldC(v, m): the m x r matrix whose row i is the i-th block of v')
                ex.oblige(st, 'call-pre', 'reshape-first-dimension-is-the-size-of-the-next-axis', Z(m) == Z(f[0]), node)
                cols = T.mul_canon(*f[1:]) if len(f) > 1 else z3.IntVal(1)
                ff_set_factors(st, cols, f[1:])
                return ff_mat(rest_vfoldC(a.t, Z(f[0])), f[0], cols)
    if ff_is_m1(items[0]) and isinstance(items[1], int) and items[1] == 1 and XF.is_vec(a, 'ivec'):
        used('v.reshape(-1, 1) of an integer vector -> the (n, 1) column with the same entries')
        return VArr((a.shape[0], 1), a.t, 'icol', 'i')
    return None


ff_orig_reshape2 = M.reshape


def ff_reshape2(ex, st, a, shp, order, node):
    if ff_on(ex) and isinstance(a, VArr):
        out = ff_reshape_c(ex, st, a, shp, order, node)
        if out is not None:
            return out
    return ff_orig_reshape2(ex, st, a, shp, order, node)


M.reshape = ff_reshape2
ff_orig_method = M.method


def ff_method(ex, st, recv, name, args, kwargs, node):
    r = st.deref(recv)
    if ff_on(ex) and name == 'reshape' and isinstance(r, VArr) and args and set(kwargs) <= {'order'}:
        # (the base table answers X.reshape(a, -1) of a 2-D array with a fresh matrix: the dense tier keeps the values)
        shp = args[0] if len(args) == 1 else VTuple(list(args))
        return M.reshape(ex, st, r, shp, kwargs.get('order', VStr('C')), node)
    return ff_orig_method(ex, st, recv, name, args, kwargs, node)


M.method = ff_method
ff_orig_index2 = M.arr_index


def ff_step2(ex, st, e):
    return isinstance(e, ast.Slice) and e.lower is None and e.upper is None and e.step is not None and ex.ev(e.step, st) == 2


def ff_arr_index2(ex, st, a, sl_, node):
    if ff_on(ex) and XF.is_vec(a, 'ivec') and not isinstance(a, FFIVec) and ff_step2(ex, st, sl_):
        used('v[::2] of an integer vector -> the entries 0, 2, 4, ..; (n + 1) // 2 of them')
        arr = ex.fresh('even', ff_IA)
        st.assume(z3.ForAll([ff_k], arr[ff_k] == a.t[2 * ff_k], patterns=[arr[ff_k]]))
        return ff_ivec((Z(a.shape[0]) + 1) / 2, arr)
    if ff_on(ex) and ff_is_mat(a) and isinstance(sl_, ast.Tuple) and len(sl_.elts) == 2 and ff_full(sl_.elts[1]) and ff_step2(ex, st, sl_.elts[0]):
        used('A[::2, :] -> rest_erows(A): the rows 0, 2, 4, ..; (rows + 1) // 2 of them')
        return ff_mat(rest_erows(a.t), (Z(a.shape[0]) + 1) / 2, a.shape[1])
    return ff_orig_index2(ex, st, a, sl_, node)


M.arr_index = ff_arr_index2
ff_orig_repeat = M.FUNCS.get('np.repeat')


@model('np.repeat')
def ff_m_repeat(ex, st, args, kwargs, node):
    a = st.deref(args[0]) if args else None
    if ff_on(ex) and len(args) == 2 and set(kwargs) == {'axis'} and kwargs['axis'] == 1 and isinstance(a, VArr) and a.tag == 'icol':
        c = ex.need_num(st, args[1], node)
        used('np.repeat(col, c, axis=1) of an (n, 1) integer column -> the (n, c) matrix whose row i is constant col[i]')
        ex.oblige(st, 'call-pre', 'repeat-count-non-negative', Z(c) >= 0, node)
        return VArr((a.shape[0], c), a.t, 'icolrep', 'i')
    if ff_orig_repeat is None:
        raise Unsupported('np.repeat pattern')
    return ff_orig_repeat(ex, st, args, kwargs, node)


ff_orig_binop = M.arr_binop


def ff_arr_binop(ex, st, op, l, r, node):
    if ff_on(ex):
        if isinstance(op, ast.Pow) and isinstance(l, VArr) and l.tag in ('icolrep', 'icol') and isinstance(r, int) and not isinstance(r, bool) and r == 2:
            used('P ** 2 for an integer matrix with constant rows (or an (n, 1) column) -> elementwise square (product abstraction mulI)')
            arr = ex.fresh('isq', ff_IA)
            st.assume(z3.ForAll([ff_k], arr[ff_k] == T.mulI(l.t[ff_k], l.t[ff_k]), patterns=[arr[ff_k]]))
            return VArr(l.shape, arr, l.tag, 'i')
        if isinstance(op, (ast.Sub, ast.Add)) and isinstance(r, VArr) and r.tag in ('icolrep', 'icol') and not isinstance(l, VArr) and is_num(l):
            used('c - P / c + P for a number c and an integer matrix with constant rows -> elementwise (a float matrix with constant rows)')
            arr = ex.fresh('cdiff', ff_RA)
            val = (to_real(l) - z3.ToReal(r.t[ff_k])) if isinstance(op, ast.Sub) else (to_real(l) + z3.ToReal(r.t[ff_k]))
            st.assume(z3.ForAll([ff_k], arr[ff_k] == val, patterns=[arr[ff_k]]))
            return VArr(r.shape, arr, 'rcolrep' if r.tag == 'icolrep' else 'rcol', 'f')
        if isinstance(op, ast.Div) and ff_is_mat(l) and isinstance(r, VArr) and r.tag in ('rcolrep', 'rcol'):
            used('A / Q for a matrix A and a matrix Q of the same shape with constant rows q[i] (or the (n, 1) column q, broadcast over the columns) -> '
                 'rest_rowdiv(A, q): row i divided by q[i]; every q[i] must be non-zero')
            ex.oblige(st, 'call-pre', 'elementwise-shapes-agree', z3.And(Z(l.shape[0]) == Z(r.shape[0]), z3.Or(z3.BoolVal(r.tag == 'rcol'), Z(l.shape[1]) == Z(r.shape[1]))), node)
            ex.oblige(st, 'safety', 'elementwise-division-by-nonzero',
                      z3.ForAll([ff_k], z3.Implies(z3.And(0 <= ff_k, ff_k < Z(r.shape[0])), r.t[ff_k] != 0)), node)
            return ff_mat(rest_rowdiv(l.t, r.t), l.shape[0], l.shape[1])
    return ff_orig_binop(ex, st, op, l, r, node)


M.arr_binop = ff_arr_binop
ff_orig_sum = M.FUNCS.get('np.sum')


@model('np.sum')
def ff_m_sum(ex, st, args, kwargs, node):
    a = st.deref(args[0]) if args else None
    if ff_on(ex) and len(args) == 1 and set(kwargs) == {'axis'} and kwargs['axis'] == 0 and ff_is_mat(a):
        used('np.sum(A, axis=0) of a matrix -> rest_colsum(A): the row of the column sums')
        return VArr((a.shape[1],), rest_colsum(a.t), 'vec')
    if ff_orig_sum is None:
        raise Unsupported('np.sum pattern')
    return ff_orig_sum(ex, st, args, kwargs, node)


ff_orig_iter_of_value = M._iter_of_value


def ff_iter_of_value(ex, st, v, node):
    w = st.deref(v)
    if ff_on(ex) and (XF.is_vec(w, 'ivec') or XF.is_vec(w, 'rvec')):
        ln = w.shape[0] if isinstance(w.shape[0], int) else (z3.simplify(w.shape[0]).as_long() if z3.is_int_value(z3.simplify(w.shape[0])) else None)
        if ln is not None:
            used('iteration over a 1-D array of concrete length -> its elements in order')
            items = list(w.items) if isinstance(w, FFIVec) else [w.t[k] for k in range(ln)]
            return ln, (lambda j, items=items: items[j]), True
    return ff_orig_iter_of_value(ex, st, v, node)


M._iter_of_value = ff_iter_of_value


# ----------------------------------------------------------------------------------------------
# func_get_full:  T = func_basis(poi_scale(X, a, b, 'cheb'), max(n));  Q = np.tensordot(Q, T[:n[j], i, j], axes=([0], [0]))
#
# theory: the fibre of the 3-D basis array (values of T_0, T_1, .. at one coordinate of one point); contractions of the FIRST axis are
# written with the weighted mode sum wsum of the TT routines (np.einsum('rmq,m->rq', G, w)) on the array with that axis brought to
# position 1: np.tensordot(G, w, ([0], [0])) = wsum(sw01(G), w) for a 3-D G, = wsum(lift(M), w) (a 1 x cols row) for a matrix M.

ff_WL = z3.ArraySort(ff_I, ff_RA)
rest_tfib = z3.Function('rest_tfib', ff_WL, ff_I, ff_I, ff_RA)       # tfib(Xs, s, k)[l] = T_l(Xs[s][k]):  func_basis(Xs, m)[:, s, k]
ff_Xs = z3.Const('X!ffv', ff_WL)
ff_s = z3.Int('s!ff')
T.GROUPS['rest_tfib'] = [
    T.A([ff_Xs, ff_s, ff_k, ff_i], z3.Implies(ff_i >= 0, rest_tfib(ff_Xs, ff_s, ff_k)[ff_i] == XF.cheb(ff_i, ff_Xs[ff_s][ff_k])), [rest_tfib(ff_Xs, ff_s, ff_k)[ff_i]]),
]


ff_orig_max = M.FUNCS['max']


@model('max')
def ff_m_max(ex, st, args, kwargs, node):
    v = st.deref(args[0]) if len(args) == 1 else None
    if ff_on(ex) and not kwargs and isinstance(v, FFIVec) and v.items:
        used('max(v) of a 1-D integer array of concrete length -> the largest entry')
        cur = Z(v.items[0])
        for x in v.items[1:]:
            cur = z3.If(Z(x) > cur, Z(x), cur)
        return cur
    return ff_orig_max(ex, st, args, kwargs, node)


ff_orig_index3 = M.arr_index


def ff_arr_index3(ex, st, a, sl_, node):
    if ff_on(ex) and isinstance(a, VArr) and a.tag == 'basis3' and isinstance(sl_, ast.Tuple) and len(sl_.elts) == 3:
        e0, e1, e2 = sl_.elts
        if isinstance(e0, ast.Slice) and e0.lower is None and e0.step is None and e0.upper is not None and not isinstance(e1, ast.Slice) and not isinstance(e2, ast.Slice):
            hi, s, k = [ex.need_num(st, ex.ev(e, st), node) for e in (e0.upper, e1, e2)]
            if all(is_intsort(x) for x in (hi, s, k)):
                used('T[:r, s, k] of the basis array -> the values T_0 .. T_{r-1} at coordinate k of point s (requires 0 <= r <= number of basis functions)')
                ex.oblige(st, 'call-pre', 'leading-count-within-the-number-of-basis-functions', z3.And(0 <= Z(hi), Z(hi) <= Z(a.shape[0])), node)
                s = M.norm_index(ex, st, s, a.shape[1], node, 'point-index')
                k = M.norm_index(ex, st, k, a.shape[2], node, 'coordinate-index')
                return V.RVec(hi, rest_tfib(a.t, Z(s), Z(k)))
    return ff_orig_index3(ex, st, a, sl_, node)


M.arr_index = ff_arr_index3
ff_orig_tensordot = M.FUNCS.get('np.tensordot')


def ff_axes00(st, v):
    v = st.deref(v)
    if not (isinstance(v, (VTuple, VList)) and len(v.items) == 2):
        return False
    for x in v.items:
        x = st.deref(x)
        if not (isinstance(x, (VTuple, VList)) and len(x.items) == 1 and isinstance(x.items[0], int) and x.items[0] == 0):
            return False
    return True


@model('np.tensordot')
def ff_m_tensordot(ex, st, args, kwargs, node):
    if ff_on(ex) and len(args) == 2 and set(kwargs) == {'axes'} and ff_axes00(st, kwargs['axes']):
        q, w = st.deref(args[0]), st.deref(args[1])
        if XF.is_vec(w, 'rvec') and isinstance(q, VArr) and q.t is not None:
            used('np.tensordot(Q, w, axes=([0], [0])) for a 1-D w -> sum_l w[l] Q[l, ...] (the first axis is contracted; requires len(w) = Q.shape[0]): '
                 'wsum(sw01(Q), w) for a 3-D Q, the row wsum(lift(Q), w) for a matrix, a number for a 1-D Q')
            ex.oblige(st, 'call-pre', 'tensordot-contracted-dims-agree', Z(q.shape[0]) == Z(w.shape[0]), node)
            if ff_is_core(q):
                return ff_mat(T.wsum(rest_sw01(q.t), w.t), q.shape[1], q.shape[2])
            if ff_is_mat(q):
                return VArr((q.shape[1],), T.wsum(rest_lift(q.t), w.t), 'vec')
            if q.ndim == 1 and q.tag == 'vec':
                return T.ent(T.wsum(rest_lift(T.tr(q.t)), w.t), 0, 0)
            if XF.is_vec(q, 'rvec'):
                return T.ent(T.wsum(rest_lift(rest_colm(q.t, Z(q.shape[0]))), w.t), 0, 0)
    if ff_orig_tensordot is None:
        raise Unsupported('np.tensordot pattern')
    return ff_orig_tensordot(ex, st, args, kwargs, node)


# ----------------------------------------------------------------------------------------------
# func_gets_full (control level):  Z.reshape(m, order='F') of the flat vector of values, only with `ex.rest_ff_fold = True`

ff_orig_reshape3 = M.reshape


def ff_reshape3(ex, st, a, shp, order, node):
    if ff_on(ex) and getattr(ex, 'rest_ff_fold', False) and XF.is_vec(a, 'rvec'):
        w = st.deref(shp)
        items = ff_int_items(st, w)
        if items is None and XF.is_vec(w, 'ivec') and z3.is_int_value(z3.simplify(Z(w.shape[0]))):
            items = [w.t[k] for k in range(z3.simplify(Z(w.shape[0])).as_long())]
        o = order.concrete() if isinstance(order, VStr) else None
        if items is not None and 1 <= len(items) <= 3 and o in ('F', 'C') and not any(ff_is_m1(x) for x in items):
            used("v.reshape(sizes, order) of a flat vector -> the array of that shape; the size must be preserved (order='F': flat position t lands at the "
                 "multi-index whose mixed-radix digits, first index fastest, are t)")
            vec = FFIVec(items)
            from ttvc import mx_misc as XM_
            ex.oblige(st, 'call-pre', 'reshape-preserves-size', Z(a.shape[0]) == XM_.pprod(vec.t, len(items)), node)
            out = VArr(tuple(items), None, 'fffold', 'f')
            out.ff_fold = (a, o)
            return out
    return ff_orig_reshape3(ex, st, a, shp, order, node)


M.reshape = ff_reshape3


# ==================================================================================================
# SECTION anova_func
# ==================================================================================================
"""Model-table entries, value kinds and spec symbols for teneva/anova_func.py: the wrapper anova_func, ANOVA_func.__init__ and the cached
property ANOVA_func.coeffs (contracts/rest.py; C13 functional variant, C10, C09).

Everything follows the wrapping pattern of kr.py (keep the previous hook, fall through to it) and is ACTIVE ONLY for executors that carry the
flag `ex.rest_af = True` (or for the value class defined here), so that the units of the other contract files see exactly the engine they
were written against.  The units of contracts/rest.py additionally set `ex.anova` (attribute stores on `self`, methods of `self`) and
`ex.functt` (batches of points: tags 'pts' / 'ptsT', iteration over the columns of X.T) - gates of mx_anova / mx_func.

New theory symbols (z3 names; the Python variables are af_mv, af_mvsum, ...; every group is exercised by lemmas/spotcheck.py through
lemmas/spotcheck_ext_rest.py):
  rest_af_mv(A, v)            A @ v for a 2-D float array A and a 1-D float array v (needs len v = cols A): the vector of length rows A
  rest_af_mvsum(A, v, i, k)   sum_{t<k} A[i, t] * v[t]      (the defining finite sum of rest_af_mv, products abstract: rmul)          group 'rest_af_mv'
  rest_af_hsum(S, k)          sum_{t<k} S[t][0]             (sum of the leading entries of a list of vectors)                          group 'rest_af_hsum'
  rest_af_chebmat(x, L, m)    THE m x L float matrix with the entries T_i(x_j), 0 <= i < m, 0 <= j < L (cheb of mx_func): what func_basis(x, m)
                              returns for a 1-D array x of length L (unit func.func_basis proves shape and entries; a float matrix is determined by
                              its shape and its entries, so the result IS this matrix)                                                 group 'rest_af_chebmat'
  A + B = B + A               commutativity of the elementwise sum of two equally shaped matrices (madd)                              group 'rest_af_maddcomm'
  rest_af_lsqv(H, v)          scipy.linalg.lstsq(H, v)[0] for a 1-D right-hand side v: UNINTERPRETED - the unit only states which (H, v) go in and
                              where the solution goes; its VALUE is left to the bounded suite (A-LAPACK: the result is a function of its operands
                              for the fixed driver / cond of the one call site).  No axiom.
  rest_af_cvec(c), rest_af_clen(c)   the float vector behind an element code of the list of per-mode coefficient vectors and its length (no axiom)

Value kind: af_Cfs - the list `cfs` of ANOVA_func.coeffs WHILE IT IS BUILT: empty, then a number (`cfs.append(y0)`), then one float vector per
`cfs.append(vector)`; `cfs[0]` reads and `cfs[0] = x` / `cfs[0] += x` rebinds the leading number.  It is a subclass of mx_anova.CfsList, the kind
that the unit anova_more.ANOVA_func.cores consumes as `self.coeffs` (number, then a list of float vectors).
"""
import ast
import z3
from ttvc import symex
from ttvc.symex import (Unsupported, ContractMismatch, NONE, NORMAL, VStr, VOpt, VTuple, VRef, VList, VRec, VSeq, VArr, VFunc, VOpaque, Z, is_num,
                        is_intsort)
from ttvc import models as M, theory as T, vec as V
from ttvc import mx_func as XF, mx_anova as XAN
from ttvc.models import used, to_real

af_I, af_R = z3.IntSort(), z3.RealSort()
af_IA = z3.ArraySort(af_I, af_I)
af_RA = z3.ArraySort(af_I, af_R)
af_RAA = z3.ArraySort(af_I, af_RA)


def af_on(ex):
    return getattr(ex, 'rest_af', False)


# ----------------------------------------------------------------------------------------------
# theory

af_mv = z3.Function('rest_af_mv', T.Mat, af_RA, af_RA)
af_mvsum = z3.Function('rest_af_mvsum', T.Mat, af_RA, af_I, af_I, af_R)
af_hsum = z3.Function('rest_af_hsum', af_RAA, af_I, af_R)
af_lsqv = z3.Function('rest_af_lsqv', T.Mat, af_RA, af_RA)
af_chebmat = z3.Function('rest_af_chebmat', af_RA, af_I, af_I, T.Mat)
af_cvec = z3.Function('rest_af_cvec', af_I, af_RA)
af_clen = z3.Function('rest_af_clen', af_I, af_I)

af_A = T.a_
af_v = z3.Const('rest_af_v', af_RA)
af_S = z3.Const('rest_af_S', af_RAA)
af_i, af_k, af_k1, af_L, af_m, af_j = z3.Ints('rest_af_i rest_af_k rest_af_k1 rest_af_L rest_af_m rest_af_j')

T.GROUPS['rest_af_mv'] = [
    T.A([af_A, af_v, af_i], af_mvsum(af_A, af_v, af_i, 0) == 0, [af_mvsum(af_A, af_v, af_i, 0)]),
    T.A([af_A, af_v, af_i, af_k, af_k1], z3.Implies(z3.And(af_k >= 0, af_k1 == af_k + 1),
                                                    af_mvsum(af_A, af_v, af_i, af_k1)
                                                    == af_mvsum(af_A, af_v, af_i, af_k) + T.rmul(T.ent(af_A, af_i, af_k), af_v[af_k])),
        [z3.MultiPattern(af_mvsum(af_A, af_v, af_i, af_k), af_mvsum(af_A, af_v, af_i, af_k1))]),
    T.A([af_A, af_v, af_i], z3.Implies(z3.And(0 <= af_i, af_i < T.rows(af_A)),
                                       af_mv(af_A, af_v)[af_i] == af_mvsum(af_A, af_v, af_i, T.cols(af_A))),
        [af_mv(af_A, af_v)[af_i]]),
]
T.GROUPS['rest_af_hsum'] = [
    T.A([af_S], af_hsum(af_S, 0) == 0, [af_hsum(af_S, 0)]),
    T.A([af_S, af_k, af_k1], z3.Implies(z3.And(af_k >= 0, af_k1 == af_k + 1), af_hsum(af_S, af_k1) == af_hsum(af_S, af_k) + af_S[af_k][0]),
        [z3.MultiPattern(af_hsum(af_S, af_k), af_hsum(af_S, af_k1))]),
]
# A + B = B + A for equally shaped matrices (instances only relate the two sums: no matching loop); lets `lamb * I + AtA` pass for `AtA + lamb * I`
T.GROUPS['rest_af_maddcomm'] = [
    T.A([T.a_, T.b_], z3.Implies(z3.And(T.rows(T.a_) == T.rows(T.b_), T.cols(T.a_) == T.cols(T.b_)), T.madd(T.a_, T.b_) == T.madd(T.b_, T.a_)),
        [T.madd(T.a_, T.b_)]),
]
T.GROUPS['rest_af_chebmat'] = [
    T.A([af_v, af_L, af_m], z3.Implies(z3.And(af_L >= 0, af_m >= 0), z3.And(T.rows(af_chebmat(af_v, af_L, af_m)) == af_m,
                                                                            T.cols(af_chebmat(af_v, af_L, af_m)) == af_L)),
        [af_chebmat(af_v, af_L, af_m)]),
    T.A([af_v, af_L, af_m, af_i, af_j], z3.Implies(z3.And(0 <= af_i, af_i < af_m, 0 <= af_j, af_j < af_L),
                                                   T.ent(af_chebmat(af_v, af_L, af_m), af_i, af_j) == XF.cheb(af_i, af_v[af_j])),
        [T.ent(af_chebmat(af_v, af_L, af_m), af_i, af_j)]),
]


# ----------------------------------------------------------------------------------------------
# the coefficient list while it is built

class af_Cfs(XAN.CfsList):
    """`cfs = []; cfs.append(number); cfs.append(vector) ...; cfs[0] += number`: head = the leading number (Python None while the list is
    empty), tail_ref = heap reference of the VSeq of the vectors appended so far (element codes c: vector rest_af_cvec(c) of length rest_af_clen(c))."""
    def copy(self):
        return af_Cfs(self.head, self.tail_ref)


def af_tail_unwrap(ex, st, v, node):
    o = st.deref(v)
    if not XF.is_vec(o, 'rvec'):
        raise ContractMismatch('what is appended to the coefficient list after the constant term is not a 1-D float array with known entries')
    c = ex.fresh_int('cvec')
    st.assume(af_cvec(c) == o.t, af_clen(c) == Z(o.shape[0]))
    return c


def af_tail_seq(arr, n):
    return VSeq(arr, n, lambda c: V.RVec(af_clen(c), af_cvec(c)), tag='rvecs', unwrap=af_tail_unwrap)


def af_cfs_kind(ex, st):
    """type hint for `cfs = []` / `self._cfs = cfs = []` (sidecar-defined sequence kind): the empty coefficient list"""
    tail = st.alloc(af_tail_seq(ex.fresh('cfs_tail', af_IA), z3.IntVal(0)))
    return st.alloc(af_Cfs(None, tail))


def af_target_key(t):
    if isinstance(t, ast.Name):
        return t.id
    if isinstance(t, ast.Attribute) and isinstance(t.value, ast.Name):
        return f'{t.value.id}.{t.attr}'
    return None


_af_orig_st_Assign = symex.Exec.st_Assign


def _af_st_Assign(self, s, st):
    """`a = self.b = []` with a type hint: ONE new list object bound to every target (the generic path would create one per target)."""
    if af_on(self) and len(s.targets) > 1 and isinstance(s.value, ast.List) and not s.value.elts:
        keys = [af_target_key(t) for t in s.targets]
        hints = [self.type_hints.get(k) for k in keys]
        if any(h is not None for h in hints):
            if any(h is not hints[0] for h in hints):
                raise ContractMismatch(f'chained assignment of an empty list at line {s.lineno}: the targets {keys} do not carry the same type hint')
            used('a = b = [] -> ONE new (empty) list object bound to both targets')
            v = M.empty_seq(self, st, hints[0])
            for t in s.targets:
                if isinstance(t, ast.Name):
                    st.vars[t.id] = v
                else:
                    obj = st.deref(self.ev(t.value, st))
                    if not isinstance(obj, VRec):
                        raise Unsupported(f'attribute store on {type(obj).__name__} at line {t.lineno}')
                    obj.fields[t.attr] = v
            return [(st, NORMAL)]
    return _af_orig_st_Assign(self, s, st)


symex.Exec.st_Assign = _af_st_Assign

_af_orig_method = M.method


def af_method(ex, st, recv, name, args, kwargs, node):
    r = st.deref(recv)
    if isinstance(r, af_Cfs) and af_on(ex):
        if name != 'append' or len(args) != 1 or kwargs:
            raise Unsupported(f'method .{name} on the coefficient list at line {node.lineno}')
        if r.head is None:
            v = st.deref(args[0])
            if not is_num(v):
                raise ContractMismatch('the first element appended to the coefficient list is not a number (the constant term)')
            used('[].append(x) for a number x -> the one-element list [x]')
            r.head = to_real(v)
            return NONE
        used('cfs.append(vector) -> the vector becomes the last element of the list')
        return M.method(ex, st, r.tail_ref, 'append', args, kwargs, node)
    return _af_orig_method(ex, st, recv, name, args, kwargs, node)


M.method = af_method

_af_orig_subscript = M.subscript


def af_subscript(ex, st, base, sl_, node):
    b = st.deref(base)
    if isinstance(b, af_Cfs) and af_on(ex):
        if isinstance(sl_, ast.Slice):
            if sl_.step is None and sl_.upper is None and sl_.lower is not None and ex.ev(sl_.lower, st) == 1 and b.head is not None:
                used('cfs[1:] -> the list of the per-mode coefficient vectors')
                return b.tail_ref
            raise Unsupported('slice of the coefficient list other than [1:]')
        iv = ex.ev(sl_, st)
        if isinstance(iv, int) and not isinstance(iv, bool) and iv == 0:
            used('cfs[0] -> the leading number (IndexError for an empty list)')
            if b.head is None:
                ex.oblige(st, 'safety', 'list-index-in-range', False, node)
                return ex.fresh_real('undef')
            return b.head
        raise Unsupported('index into the coefficient list other than 0')
    return _af_orig_subscript(ex, st, base, sl_, node)


M.subscript = af_subscript

_af_orig_store = M.store


def af_store(ex, st, base, sl_, v, node, base_node):
    b = st.deref(base)
    if isinstance(b, af_Cfs) and af_on(ex):
        iv = ex.ev(sl_, st) if not isinstance(sl_, (ast.Slice, ast.Tuple)) else None
        val = st.deref(v)
        if isinstance(iv, int) and not isinstance(iv, bool) and iv == 0 and is_num(val):
            used('cfs[0] = x -> the leading number is replaced (IndexError for an empty list)')
            if b.head is None:
                ex.oblige(st, 'safety', 'list-index-in-range', False, node)
            b.head = to_real(val)
            return
        raise Unsupported(f'store into the coefficient list other than `cfs[0] = number` (line {node.lineno})')
    return _af_orig_store(ex, st, base, sl_, v, node, base_node)


M.store = af_store

_af_orig_havoc = M.havoc


def af_havoc(ex, st, v, name, mutated):
    if af_on(ex) and isinstance(v, VRef) and isinstance(st.heap.get(v.oid), af_Cfs):
        o = st.heap[v.oid]
        if o.head is None:
            raise ContractMismatch(f'the coefficient list {name} is still empty when the loop starts')
        _af_orig_havoc(ex, st, o.tail_ref, name + '_tail', True)           # same kind, fresh contents and length (>= 0)
        st.heap[v.oid] = af_Cfs(ex.fresh_real(name + '_head'), o.tail_ref)
        return v
    return _af_orig_havoc(ex, st, v, name, mutated)


M.havoc = af_havoc


# ----------------------------------------------------------------------------------------------
# NumPy patterns of the ridge fit:  A.T @ y  (2-D @ 1-D with denotations),  v[1:]  of a float vector

_af_orig_matmul = M.matmul


def af_matmul(ex, st, l, r, node):
    if af_on(ex) and isinstance(l, VArr) and l.ndim == 2 and l.tag == 'mat' and l.t is not None and XF.is_vec(r, 'rvec'):
        used('A @ v for a 2-D float array A and a 1-D float array v -> rest_af_mv(A, v): entry i = sum_t A[i, t] v[t], length rows A; '
             'requires len v = cols A   [axiom group rest_af_mv, spot-checked against NumPy]')
        ex.oblige(st, 'call-pre', 'matmul-inner-dims-agree', Z(l.shape[1]) == Z(r.shape[0]), node)
        out = XF.rvec(l.shape[0], af_mv(l.t, r.t))
        out.af_fresh = 'result of @ (a new array)'
        return out
    return _af_orig_matmul(ex, st, l, r, node)


M.matmul = af_matmul

_af_orig_index = M.arr_index


def af_arr_index(ex, st, a, sl_, node):
    if af_on(ex) and XF.is_vec(a, 'rvec') and isinstance(sl_, ast.Slice) and sl_.step is None and sl_.upper is None and sl_.lower is not None:
        lo = ex.ev(sl_.lower, st)
        if isinstance(lo, int) and not isinstance(lo, bool) and lo >= 0:
            used('v[lo:] of a 1-D float array for a literal lo >= 0 -> the entries from position lo on (NumPy clips: an empty array when lo > len v)')
            n = Z(a.shape[0])
            arr = ex.fresh('vtail', af_RA)
            st.assume(z3.ForAll([af_k], arr[af_k] == a.t[af_k + lo], patterns=[arr[af_k]]))
            return XF.rvec(z3.simplify(z3.If(n >= lo, n - lo, 0)), arr)
    return _af_orig_index(ex, st, a, sl_, node)


M.arr_index = af_arr_index


def af_lstsq_vec(ex, st, args, kwargs, node):
    """scipy.linalg.lstsq(H, v, ...) with a 1-D right-hand side (handed to the units through `callees={'sp.linalg.lstsq': ...}`): every keyword
    must be a parameter scipy.linalg.lstsq has, the row counts must agree; the solution is the float vector rest_af_lsqv(H, v) of length cols H.
    The call is logged (per path) in st.ghost['af_lstsq']: operands, the AST nodes of the two operand expressions, every bound parameter."""
    for kw in kwargs:
        ex.oblige(st, 'call-pre', f'scipy.linalg.lstsq-has-a-parameter-named-{kw}', z3.BoolVal(kw in XF.LSTSQ_PARAMS), node)
    if len(args) > len(XF.LSTSQ_PARAMS):
        raise Unsupported('scipy.linalg.lstsq with too many positional arguments')
    bound = dict(zip(XF.LSTSQ_PARAMS, args))
    nodes = dict(zip(XF.LSTSQ_PARAMS, node.args))
    for k in node.keywords:
        if k.arg in XF.LSTSQ_PARAMS:
            if k.arg in bound:
                raise Unsupported('scipy.linalg.lstsq: a parameter is given twice')
            bound[k.arg], nodes[k.arg] = kwargs[k.arg], k.value
    H, b = st.deref(bound.get('a')), st.deref(bound.get('b'))
    if not (isinstance(H, VArr) and H.ndim == 2 and H.tag == 'mat' and H.t is not None and XF.is_vec(b, 'rvec')):
        raise Unsupported('scipy.linalg.lstsq: only (2-D float array with a denotation, 1-D float array) is under this model')
    used('scipy.linalg.lstsq(H, v, cond, overwrite_a, overwrite_b, check_finite, lapack_driver)[0] for a 1-D v -> rest_af_lsqv(H, v): a 1-D array of '
         'length cols H, a function of (H, v) for the fixed cond / driver of the call site (value uninterpreted); requires rows H = len v; '
         'overwrite_a / overwrite_b = True allow LAPACK to destroy the two operand buffers   [A-LAPACK]')
    ex.oblige(st, 'call-pre', 'lstsq-row-counts-agree', Z(H.shape[0]) == Z(b.shape[0]), node)
    sol = XF.rvec(H.shape[1], af_lsqv(H.t, b.t))
    st.ghost['af_lstsq'] = st.ghost.get('af_lstsq', []) + [dict(H=H, b=b, bound=bound, nodes=nodes, sol=sol)]
    return VTuple([sol, VOpaque('residues'), VOpaque('rank'), VOpaque('singular values')])


# ==================================================================================================
# SECTION ANOVA.build_2
# ==================================================================================================
"""Spec symbols, theory groups and model-table entries for ANOVA.build_2 (contracts/rest.py; C13, C10).

Everything follows the wrapping pattern of kr.py (the previous hook is kept, whatever is not recognised falls through to it) and is
ACTIVE ONLY for executors that carry the flag `ex.rest_b2 = True`.  The units of contracts/rest.py additionally set `ex.anova = True`
and reuse the models of ttvc/mx_anova.py (IMat2 sample matrix, `c == x` masks with their provenance `eq_src`, KMap / KMap2 tables,
attribute stores on `self`, coded lists of integer vectors) and its spec symbols ccnt / cmean.

Spec symbols (every group is exercised by lemmas/spotcheck.py through lemmas/spotcheck_ext_rest.py):
  rest_b2_ccnt2(c1, x1, c2, x2, n)     = #{s < n : c1[s] == x1 and c2[s] == x2}            samples that carry the pair of values
  rest_b2_csum2(y, c1, x1, c2, x2, n)  = sum_{s<n, c1[s]==x1, c2[s]==x2} y[s]
  rest_b2_cmean2(y, c1, x1, c2, x2, n) = csum2 / ccnt2  (for ccnt2 > 0)                    = np.mean(y[(c1 == x1) & (c2 == x2)])
  rest_b2_tri(d, a)                    = sum_{t<a} (d - 1 - t)                             number of pairs (i1 < i2 < d) with i1 < a
  rest_b2_pos(d, a, b)                 = tri(d, a) + b - a - 1                             storage position of the pair (a, b) in the
                                         enumeration (0,1), (0,2), .., (0,d-1), (1,2), ..
  rest_b2_e1(d, m), rest_b2_e2(d, m)   the two modes of the pair stored at position m of that enumeration (inverse of pos on 0 <= a < b < d)
Theory groups:
  'rest_b2_csum2'   recursive definitions of ccnt2 / csum2 over the sample index (two-term multi-patterns: no new terms) and
                    ccnt2 >= 0 for n >= 0
  'rest_b2_sym'     ccnt2 / csum2 / cmean2 do not depend on the order of the two conditions
  'rest_b2_cmean2'  the defining equation of the conditional mean (a product of two symbolic numbers: only ever handed to
                    quantifier-free obligations)
  'rest_b2_tri'     recursive definition of tri, definition of pos (the closed form 2 tri(d, a) = a (2d - 1 - a) is DERIVED in the unit),
                    e1 / e2 invert pos on the pairs 0 <= a < b < d

Value kinds and hooks:
  b2_MaskCache   the per-call dict `cache` of build_2: keys are plain integers (arity 1) or pairs of integers (arity 2), values are
                 boolean masks `c == x` of which the PROVENANCE is stored (the column c, the value x, the length): z3 arrays
                 has / col / xv / ln indexed by (arity, first, second).  `dict()` / `{}` assigned to a name that the unit declares by
                 a type hint gives the empty cache (no key stored).  A lookup of a key that is not stored raises KeyError:
                 outside `try` it is the safety obligation `key-present`; the statement
                        try: NAME = cache[key]
                        except KeyError: <handler>
                 forks on `has[key]`: stored -> the body runs, not stored -> the handler runs (nothing else in such a body can raise).
  b2_PairTab     a mutable dict from pairs of integers to reals (`f2_curr`): the KMap2 of mx_anova plus stores; once appended to the
                 list of pair tables it is frozen (a later store would be visible through the list: Unsupported).
  m1 & m2        of two masks with provenance: the mask of the conjunction (provenance `b2_and_src`), equal lengths obliged;
  m.sum()        of such a mask: ccnt2 (an integer >= 0);  y[m]: the selected sub-vector (b2_MaskedSel2, never materialised);
  np.mean(y[m])  = cmean2, obliges a non-empty selection (NumPy returns nan with a warning otherwise: outside A-REAL) - handed to the
                 units through `callees` (b2_np_mean falls back to mx_anova.np_mean).
  enumerate(xs, start=s) is handled (ungated) by ttvc/mx_act.py: pairs (s + j, xs[j]).
"""
import ast
import z3
from ttvc import symex
from ttvc.symex import Unsupported, ContractMismatch, NONE, VTuple, VRef, VList, VSeq, VArr, Z, is_num, is_intsort
from ttvc import models as M, theory as T
from ttvc import mx_anova as XAN
from ttvc.models import used, to_real

b2_I, b2_R, b2_B = z3.IntSort(), z3.RealSort(), z3.BoolSort()
b2_IA, b2_RA, b2_BA, b2_RAA = XAN.IA, XAN.RA, XAN.BA, XAN.RAA
b2_BAA = z3.ArraySort(b2_I, b2_BA)


def b2_A3(sort):
    """(arity, first, second) -> sort"""
    return z3.ArraySort(b2_I, z3.ArraySort(b2_I, z3.ArraySort(b2_I, sort)))


def b2_on(ex):
    return getattr(ex, 'rest_b2', False)


# ----------------------------------------------------------------------------------------------
# theory

b2_ccnt2 = z3.Function('rest_b2_ccnt2', b2_IA, b2_I, b2_IA, b2_I, b2_I, b2_I)
b2_csum2 = z3.Function('rest_b2_csum2', b2_RA, b2_IA, b2_I, b2_IA, b2_I, b2_I, b2_R)
b2_cmean2 = z3.Function('rest_b2_cmean2', b2_RA, b2_IA, b2_I, b2_IA, b2_I, b2_I, b2_R)
b2_tri = z3.Function('rest_b2_tri', b2_I, b2_I, b2_I)
b2_pos = z3.Function('rest_b2_pos', b2_I, b2_I, b2_I, b2_I)
b2_e1 = z3.Function('rest_b2_e1', b2_I, b2_I, b2_I)
b2_e2 = z3.Function('rest_b2_e2', b2_I, b2_I, b2_I)

_b2_c1, _b2_c2 = z3.Consts('rest_b2_c1!v rest_b2_c2!v', b2_IA)
_b2_y = z3.Const('rest_b2_y!v', b2_RA)
_b2_x1, _b2_x2, _b2_k, _b2_j, _b2_n, _b2_d, _b2_a, _b2_b = z3.Ints('rest_b2_x1!v rest_b2_x2!v rest_b2_k!v rest_b2_j!v rest_b2_n!v rest_b2_d!v rest_b2_a!v rest_b2_b!v')


def _b2_hit(k):
    return z3.And(_b2_c1[k] == _b2_x1, _b2_c2[k] == _b2_x2)


T.GROUPS['rest_b2_csum2'] = [
    T.A([_b2_c1, _b2_x1, _b2_c2, _b2_x2], b2_ccnt2(_b2_c1, _b2_x1, _b2_c2, _b2_x2, 0) == 0, [b2_ccnt2(_b2_c1, _b2_x1, _b2_c2, _b2_x2, 0)]),
    T.A([_b2_c1, _b2_x1, _b2_c2, _b2_x2, _b2_k, _b2_j],
        z3.Implies(z3.And(_b2_k >= 0, _b2_j == _b2_k + 1),
                   b2_ccnt2(_b2_c1, _b2_x1, _b2_c2, _b2_x2, _b2_j) == b2_ccnt2(_b2_c1, _b2_x1, _b2_c2, _b2_x2, _b2_k) + z3.If(_b2_hit(_b2_k), 1, 0)),
        [z3.MultiPattern(b2_ccnt2(_b2_c1, _b2_x1, _b2_c2, _b2_x2, _b2_k), b2_ccnt2(_b2_c1, _b2_x1, _b2_c2, _b2_x2, _b2_j))]),
    T.A([_b2_c1, _b2_x1, _b2_c2, _b2_x2, _b2_n], z3.Implies(_b2_n >= 0, b2_ccnt2(_b2_c1, _b2_x1, _b2_c2, _b2_x2, _b2_n) >= 0),
        [b2_ccnt2(_b2_c1, _b2_x1, _b2_c2, _b2_x2, _b2_n)]),
    T.A([_b2_y, _b2_c1, _b2_x1, _b2_c2, _b2_x2], b2_csum2(_b2_y, _b2_c1, _b2_x1, _b2_c2, _b2_x2, 0) == 0,
        [b2_csum2(_b2_y, _b2_c1, _b2_x1, _b2_c2, _b2_x2, 0)]),
    T.A([_b2_y, _b2_c1, _b2_x1, _b2_c2, _b2_x2, _b2_k, _b2_j],
        z3.Implies(z3.And(_b2_k >= 0, _b2_j == _b2_k + 1),
                   b2_csum2(_b2_y, _b2_c1, _b2_x1, _b2_c2, _b2_x2, _b2_j)
                   == b2_csum2(_b2_y, _b2_c1, _b2_x1, _b2_c2, _b2_x2, _b2_k) + z3.If(_b2_hit(_b2_k), _b2_y[_b2_k], 0)),
        [z3.MultiPattern(b2_csum2(_b2_y, _b2_c1, _b2_x1, _b2_c2, _b2_x2, _b2_k), b2_csum2(_b2_y, _b2_c1, _b2_x1, _b2_c2, _b2_x2, _b2_j))]),
]
T.GROUPS['rest_b2_cmean2'] = [
    T.A([_b2_y, _b2_c1, _b2_x1, _b2_c2, _b2_x2, _b2_n],
        z3.Implies(b2_ccnt2(_b2_c1, _b2_x1, _b2_c2, _b2_x2, _b2_n) >= 1,
                   b2_cmean2(_b2_y, _b2_c1, _b2_x1, _b2_c2, _b2_x2, _b2_n) * z3.ToReal(b2_ccnt2(_b2_c1, _b2_x1, _b2_c2, _b2_x2, _b2_n))
                   == b2_csum2(_b2_y, _b2_c1, _b2_x1, _b2_c2, _b2_x2, _b2_n)),
        [b2_cmean2(_b2_y, _b2_c1, _b2_x1, _b2_c2, _b2_x2, _b2_n)]),
]
_b2_args = (_b2_c1, _b2_x1, _b2_c2, _b2_x2, _b2_n)
_b2_swap = (_b2_c2, _b2_x2, _b2_c1, _b2_x1, _b2_n)
# the order of the two conditions does not matter (`m2 & m1` is the same mask as `m1 & m2`): each instance creates at most the one
# swapped term, whose own instance creates nothing new
T.GROUPS['rest_b2_sym'] = [
    T.A([_b2_c1, _b2_x1, _b2_c2, _b2_x2, _b2_n], b2_ccnt2(*_b2_args) == b2_ccnt2(*_b2_swap), [b2_ccnt2(*_b2_args)]),
    T.A([_b2_y, _b2_c1, _b2_x1, _b2_c2, _b2_x2, _b2_n], b2_csum2(_b2_y, *_b2_args) == b2_csum2(_b2_y, *_b2_swap), [b2_csum2(_b2_y, *_b2_args)]),
    T.A([_b2_y, _b2_c1, _b2_x1, _b2_c2, _b2_x2, _b2_n],
        z3.Implies(b2_ccnt2(*_b2_args) >= 1, b2_cmean2(_b2_y, *_b2_args) == b2_cmean2(_b2_y, *_b2_swap)), [b2_cmean2(_b2_y, *_b2_args)]),
]
T.GROUPS['rest_b2_tri'] = [
    T.A([_b2_d], b2_tri(_b2_d, 0) == 0, [b2_tri(_b2_d, 0)]),
    T.A([_b2_d, _b2_k, _b2_j], z3.Implies(z3.And(_b2_k >= 0, _b2_j == _b2_k + 1), b2_tri(_b2_d, _b2_j) == b2_tri(_b2_d, _b2_k) + _b2_d - 1 - _b2_k),
        [z3.MultiPattern(b2_tri(_b2_d, _b2_k), b2_tri(_b2_d, _b2_j))]),
    T.A([_b2_d, _b2_a, _b2_b], b2_pos(_b2_d, _b2_a, _b2_b) == b2_tri(_b2_d, _b2_a) + _b2_b - _b2_a - 1, [b2_pos(_b2_d, _b2_a, _b2_b)]),
    T.A([_b2_d, _b2_a, _b2_b], z3.Implies(z3.And(0 <= _b2_a, _b2_a < _b2_b, _b2_b < _b2_d),
                                          z3.And(b2_e1(_b2_d, b2_pos(_b2_d, _b2_a, _b2_b)) == _b2_a, b2_e2(_b2_d, b2_pos(_b2_d, _b2_a, _b2_b)) == _b2_b)),
        [b2_pos(_b2_d, _b2_a, _b2_b)]),
]


# ----------------------------------------------------------------------------------------------
# value kinds

class b2_MaskCache:
    def __init__(self, has, col, xv, ln):
        self.has, self.col, self.xv, self.ln = has, col, xv, ln

    def copy(self):
        return b2_MaskCache(self.has, self.col, self.xv, self.ln)


class b2_PairTab(XAN.KMap2):
    def __init__(self, val, dom, frozen=False):
        super().__init__(val, dom)
        self.frozen = frozen

    def copy(self):
        return b2_PairTab(self.val, self.dom, self.frozen)


class b2_MaskedSel2(VArr):
    """y[(c1 == x1) & (c2 == x2)]: the sub-vector of the real vector y (length n) at the samples that carry the pair."""
    def __init__(self, nsel, y, src, n):
        super().__init__((nsel,), None, 'masked2', 'f')
        self.y, self.src, self.n = y, src, n


def b2_mask_cache(ex, st):
    """type hint for `cache = dict()`: the empty cache of masks"""
    used('dict() / {} -> empty dict (no key stored); here: keys = integers or pairs of integers, values = masks `c == x` [rest_b2]')
    empty = z3.K(b2_I, z3.K(b2_I, z3.K(b2_I, z3.BoolVal(False))))
    return st.alloc(b2_MaskCache(empty, ex.fresh('cache_col', b2_A3(b2_IA)), ex.fresh('cache_x', b2_A3(b2_I)), ex.fresh('cache_len', b2_A3(b2_I))))


def b2_pair_table(ex, st):
    """type hint for `f2_curr = {}`: the empty dict from pairs of integers to reals"""
    used('{} -> empty dict (no key stored); here: keys = pairs of integers, values = reals [rest_b2]')
    return st.alloc(b2_PairTab(ex.fresh('dict2val', b2_RAA), z3.K(b2_I, z3.K(b2_I, z3.BoolVal(False)))))


def b2_pair_table_seq(ex, st, arr=None, n=None):
    """A Python list of dicts from pairs of integers to reals (symbolic length): element k is the table with code arr[k]
    (values T2VAL(code), key set T2DOM(code) of mx_anova - the list kind that ANOVA.calc_2 reads)."""
    seq = VSeq(arr if arr is not None else ex.fresh('tables2', b2_IA), n if n is not None else z3.IntVal(0),
               lambda c: XAN.KMap2(XAN.T2VAL(c), XAN.T2DOM(c)), tag='tables2')

    def unwrap(ex_, st_, v, node):
        o = st_.deref(v)
        if not isinstance(o, b2_PairTab):
            raise ContractMismatch('what is appended to the list of pair tables is not a dict from pairs of indices to reals')
        if isinstance(v, VRef):
            st_.heap[v.oid].frozen = True
        c = ex_.fresh_int('table2')
        st_.assume(XAN.T2VAL(c) == o.val, XAN.T2DOM(c) == o.dom)
        return c
    seq.unwrap = unwrap
    return st.alloc(seq)


# ---- `name = dict()` / `name = {}` for a name declared by the unit

_b2_orig_st_Assign = symex.Exec.st_Assign


def _b2_st_Assign(self, s, st):
    if b2_on(self) and len(s.targets) == 1 and isinstance(s.targets[0], ast.Name) and callable(self.type_hints.get(s.targets[0].id)) \
            and getattr(self.type_hints[s.targets[0].id], 'b2_dict', False):
        v = s.value
        empty = (isinstance(v, ast.Dict) and not v.keys) or \
                (isinstance(v, ast.Call) and isinstance(v.func, ast.Name) and v.func.id == 'dict' and 'dict' not in st.vars and not v.args and not v.keywords)
        if empty:
            st.vars[s.targets[0].id] = self.type_hints[s.targets[0].id](self, st)
            return [(st, symex.NORMAL)]
    return _b2_orig_st_Assign(self, s, st)


symex.Exec.st_Assign = _b2_st_Assign


def b2_dict_hint(kind):
    """marks a type hint as the kind of an empty dict literal (only such hints are looked at by the hook above)"""
    f = lambda ex, st: kind(ex, st)
    f.b2_dict = True
    return f


# ---- keys

def _b2_key(ex, st, sl_, what):
    """(arity, first, second) of a dict key: a plain integer or a pair of integers"""
    key = ex.ev(sl_, st)
    if isinstance(key, VTuple) and len(key.items) == 2 and all(is_intsort(x) and not isinstance(x, bool) for x in key.items):
        return z3.IntVal(2), Z(key.items[0]), Z(key.items[1])
    if is_intsort(key) and not isinstance(key, bool):
        return z3.IntVal(1), Z(key), z3.IntVal(0)
    raise Unsupported(f'{what} with a key that is neither an integer nor a pair of integers')


def _b2_sel(arr, key):
    return arr[key[0]][key[1]][key[2]]


def _b2_upd(arr, key, v):
    a1 = arr[key[0]]
    return z3.Store(arr, key[0], z3.Store(a1, key[1], z3.Store(a1[key[1]], key[2], v)))


_b2_iq = z3.Int('rest_b2_i!q')


def _b2_cached_mask(ex, st, c, key):
    """the mask stored under the key: the mask `col == xv` of the recorded provenance"""
    col, xv, ln = _b2_sel(c.col, key), _b2_sel(c.xv, key), _b2_sel(c.ln, key)
    mk = ex.fresh('cmask', b2_BA)
    st.assume(z3.ForAll([_b2_iq], mk[_b2_iq] == (col[_b2_iq] == xv), patterns=[mk[_b2_iq]]))
    out = VArr((ln,), mk, 'bvec', 'b')
    out.eq_src = (col, xv)
    return out


_b2_orig_subscript = M.subscript


def b2_subscript(ex, st, base, sl_, node):
    b = st.deref(base)
    if isinstance(b, b2_MaskCache):
        if not b2_on(ex):
            raise Unsupported('cache of masks outside its tier')
        key = _b2_key(ex, st, sl_, 'dict lookup')
        used('cache[key] -> the stored mask; KeyError unless the key is stored [rest_b2]')
        ex.oblige(st, 'safety', 'key-present', _b2_sel(b.has, key), node)
        return _b2_cached_mask(ex, st, b, key)
    return _b2_orig_subscript(ex, st, base, sl_, node)


M.subscript = b2_subscript

_b2_orig_store = M.store


def b2_store(ex, st, base, sl_, v, node, base_node):
    b = st.deref(base)
    if isinstance(b, b2_MaskCache):
        if not b2_on(ex):
            raise Unsupported('cache of masks outside its tier')
        key = _b2_key(ex, st, sl_, 'dict store')
        mk = st.deref(v)
        src = getattr(mk, 'eq_src', None) if isinstance(mk, VArr) and mk.ndim == 1 and mk.tag == 'bvec' else None
        if src is None:
            raise Unsupported(f'store of something else than a mask `column == value` into the cache (line {node.lineno})')
        used('cache[key] = mask -> key stored with the mask [rest_b2]')
        b.has, b.col = _b2_upd(b.has, key, z3.BoolVal(True)), _b2_upd(b.col, key, src[0])
        b.xv, b.ln = _b2_upd(b.xv, key, src[1]), _b2_upd(b.ln, key, Z(mk.shape[0]))
        return
    if isinstance(b, b2_PairTab):
        if not b2_on(ex):
            raise Unsupported('pair table outside its tier')
        if b.frozen:
            raise Unsupported(f'store into a dict that already lives in a list (line {node.lineno}): aliasing is not modelled')
        key = ex.ev(sl_, st)
        if not (isinstance(key, VTuple) and len(key.items) == 2 and all(is_intsort(x) and not isinstance(x, bool) for x in key.items)):
            raise Unsupported('store into a dict of pairs with a key that is not a pair of integers')
        val = ex.need_num(st, v, node, 'dict-value')
        used('d[x1, x2] = v -> key (x1, x2) added, value stored [rest_b2]')
        k1, k2 = Z(key.items[0]), Z(key.items[1])
        b.val = z3.Store(b.val, k1, z3.Store(b.val[k1], k2, to_real(val)))
        b.dom = z3.Store(b.dom, k1, z3.Store(b.dom[k1], k2, z3.BoolVal(True)))
        return
    return _b2_orig_store(ex, st, base, sl_, v, node, base_node)


M.store = b2_store

_b2_orig_havoc = M.havoc


def b2_havoc(ex, st, v, name, mutated):
    o = st.heap.get(v.oid) if isinstance(v, VRef) else None
    if isinstance(o, b2_MaskCache):
        st.heap[v.oid] = b2_MaskCache(ex.fresh(name + '_has', b2_A3(b2_B)), ex.fresh(name + '_col', b2_A3(b2_IA)),
                                      ex.fresh(name + '_x', b2_A3(b2_I)), ex.fresh(name + '_len', b2_A3(b2_I)))
        return v
    if isinstance(o, b2_PairTab):
        if o.frozen:
            raise ContractMismatch(f'the dict {name} is mutated in a loop after it was appended to a list')
        st.heap[v.oid] = b2_PairTab(ex.fresh(name + '_val', b2_RAA), ex.fresh(name + '_dom', b2_BAA))
        return v
    return _b2_orig_havoc(ex, st, v, name, mutated)


M.havoc = b2_havoc


# ---- try: NAME = cache[key] / except KeyError: handler

_b2_orig_try = M.try_stmt


def b2_try_stmt(ex, st, s):
    if b2_on(ex) and not s.orelse and not s.finalbody and len(s.handlers) == 1 and s.handlers[0].name is None \
            and isinstance(s.handlers[0].type, ast.Name) and s.handlers[0].type.id == 'KeyError' and 'KeyError' not in st.vars \
            and len(s.body) == 1 and isinstance(s.body[0], ast.Assign) and len(s.body[0].targets) == 1 and isinstance(s.body[0].targets[0], ast.Name) \
            and isinstance(s.body[0].value, ast.Subscript) and isinstance(s.body[0].value.value, ast.Name):
        c = st.deref(st.vars.get(s.body[0].value.value.id))
        if isinstance(c, b2_MaskCache):
            key = _b2_key(ex, st, s.body[0].value.slice, 'dict lookup')
            used('try: v = cache[key] / except KeyError: handler -> the body runs iff the key is stored, the handler iff it is not [rest_b2]')
            if ex.decide(st, _b2_sel(c.has, key), s):
                return ex.exec_block(s.body, st)
            return ex.exec_block(s.handlers[0].body, st)
    return _b2_orig_try(ex, st, s)


M.try_stmt = b2_try_stmt


# ---- m1 & m2, m.sum(), y[m], np.mean(y[m])

_b2_orig_binop = M.arr_binop


def b2_arr_binop(ex, st, op, l, r, node):
    if b2_on(ex) and isinstance(op, ast.BitAnd) and all(isinstance(x, VArr) and x.ndim == 1 and x.tag == 'bvec' and x.t is not None
                                                         and getattr(x, 'eq_src', None) is not None for x in (l, r)):
        used('m1 & m2 of two boolean masks -> elementwise conjunction (requires equal lengths) [rest_b2]')
        ex.oblige(st, 'call-pre', 'masks-of-equal-length', Z(l.shape[0]) == Z(r.shape[0]), node)
        mk = ex.fresh('andmask', b2_BA)
        st.assume(z3.ForAll([_b2_iq], mk[_b2_iq] == z3.And(l.t[_b2_iq], r.t[_b2_iq]), patterns=[mk[_b2_iq]]))
        out = VArr(l.shape, mk, 'bvec', 'b')
        out.b2_and_src = (l.eq_src, r.eq_src)
        return out
    return _b2_orig_binop(ex, st, op, l, r, node)


M.arr_binop = b2_arr_binop


def _b2_cnt(src, n):
    return b2_ccnt2(src[0][0], src[0][1], src[1][0], src[1][1], n)


_b2_orig_method = M.method


def b2_method(ex, st, recv, name, args, kwargs, node):
    r = st.deref(recv)
    if b2_on(ex) and isinstance(r, VArr) and name == 'sum' and not args and not kwargs and getattr(r, 'b2_and_src', None) is not None:
        used('((c1 == x1) & (c2 == x2)).sum() -> ccnt2(c1, x1, c2, x2, n): the number of positions where both hold (an integer >= 0) '
             '[axiom group rest_b2_csum2, spot-checked]')
        return _b2_cnt(r.b2_and_src, Z(r.shape[0]))
    if b2_on(ex) and isinstance(r, b2_MaskedSel2):
        if name == 'mean':                 # y[m].mean(): the same statement as np.mean(y[m]) (the generic model would answer "some real")
            return b2_np_mean(ex, st, [r] + list(args), kwargs, node)
        raise Unsupported(f'method .{name} on a selection by a conjunction of masks at line {node.lineno}')
    return _b2_orig_method(ex, st, recv, name, args, kwargs, node)


M.method = b2_method

_b2_orig_index = M.arr_index


def b2_arr_index(ex, st, a, sl_, node):
    if b2_on(ex) and isinstance(a, VArr) and a.ndim == 1 and a.tag == 'rvec' and a.t is not None and isinstance(sl_, ast.Name):
        mk = st.deref(ex.ev(sl_, st))
        src = getattr(mk, 'b2_and_src', None) if isinstance(mk, VArr) else None
        if src is not None:
            used('y[(c1 == x1) & (c2 == x2)] -> the sub-vector of y at the positions where both hold (requires equal lengths) [rest_b2]')
            n = Z(a.shape[0])
            ex.oblige(st, 'call-pre', 'mask-length-is-the-vector-length', Z(mk.shape[0]) == n, node)
            nsel = ex.fresh_int('nsel2')
            st.assume(nsel == _b2_cnt(src, n))
            return b2_MaskedSel2(nsel, a.t, src, n)
    return _b2_orig_index(ex, st, a, sl_, node)


M.arr_index = b2_arr_index


def b2_np_mean(ex, st, args, kwargs, node):
    """np.mean for build_2 (handed to the units through `callees`); every other pattern: mx_anova.np_mean"""
    v = st.deref(args[0]) if len(args) == 1 and not kwargs else None
    if b2_on(ex) and isinstance(v, b2_MaskedSel2):
        used('np.mean(y[(c1 == x1) & (c2 == x2)]) -> cmean2(y, c1, x1, c2, x2, n): conditional mean over the samples that carry the pair; '
             'requires a non-empty selection (nan + warning otherwise) [axiom group rest_b2_cmean2, spot-checked]')
        ex.oblige(st, 'safety', 'mean-of-a-non-empty-selection', _b2_cnt(v.src, v.n) >= 1, node)
        return b2_cmean2(v.y, v.src[0][0], v.src[0][1], v.src[1][0], v.src[1][1], v.n)
    return XAN.np_mean(ex, st, args, kwargs, node)


# ==================================================================================================
# SECTION sample_rand_poi / cdf_confidence / cross_act
# ==================================================================================================
"""Model-table entries for the units of contracts/rest.py (sample.sample_rand_poi: C14 / C10;  stat.cdf_confidence: C18 / C10;
cross_act._inter_update: Generator.permutation, C10).

Everything follows the wrapping pattern of kr.py / mx_misc.py: the previous hook is kept and every pattern that is not recognised
falls through to it.  ALL hooks of this module are active only for executors that carry the flag `ex.rest_sp = True`, so that no
other unit sees a different engine.  New value kinds (float analogues of mx_misc.VRows / 'imat'):
  * `sp_VRowsF`: the list of d float vectors of one common length m built by `[rand.uniform(lo_k, hi_k, m) for k in ..]`
    (row k = arr[k], an Int -> Real array); the d draws are logged as ONE family in st.ghost['drawlog'] (see mx_misc.listcomp2);
  * tag 'rest_sp_fmat': np.vstack of such a list (d x m float matrix, rows = the vectors) and its transpose.
np.log / np.clip occur in no other function of teneva; their models (`sp_m_log`, `sp_m_clip`) are NOT put into models.FUNCS but
handed to the one executor that needs them through `callees={'np.log': .., 'np.clip': ..}` (symex looks a dotted NumPy name up in
the unit's callees first), so the lenient tiers of other units keep treating these names exactly as before.
"""
import ast
import z3
from ttvc.symex import Unsupported, ContractMismatch, NONE, VStr, VOpt, VTuple, VRef, VList, VSeq, VArr, VOpaque, Z, is_num, is_intsort
from ttvc import models as M, theory as T, vec as V, pt as PT, rnd as R
from ttvc import mx_misc as XM
from ttvc.models import model, used, to_real

_sp_i = z3.Int('rest_sp_i')


def sp_on(ex):
    return getattr(ex, 'rest_sp', False)


# ----------------------------------------------------------------------------------------------
# sample.sample_rand_poi:  [rand.uniform(a[i], b[i], int(m)) for i in range(d)]  ->  np.vstack(X)  ->  .T

_sp_orig_method = M.method


def sp_method(ex, st, recv, name, args, kwargs, node):
    r = st.deref(recv)
    if sp_on(ex) and isinstance(r, R.VGen) and name == 'uniform' and len(args) == 3 and not kwargs:
        p0, p1 = [to_real(ex.need_num(st, a, node)) for a in args[:2]]
        s_ = ex.need_num(st, args[2], node)
        used('Generator.uniform(low, high, size) with a positional integer size -> float vector of that length (integer size >= 0 required); '
             'entries in [low, high] when low <= high')
        ex.oblige(st, 'call-pre', 'draw-size-is-a-non-negative-integer', z3.And(z3.BoolVal(is_intsort(s_)), Z(s_) >= 0), node)
        arr = ex.fresh('uniform', XM.RA)
        st.assume(z3.ForAll([_sp_i], z3.Implies(p0 <= p1, z3.And(p0 <= arr[_sp_i], arr[_sp_i] <= p1)), patterns=[arr[_sp_i]]))
        out = XM.rvec(s_, arr)
        XM.log_draw(st, r, 'uniform', (p0, p1), [s_], arr)
        return out
    if sp_on(ex) and isinstance(r, R.VGen) and name == 'permutation' and len(args) == 1 and not kwargs:
        k = ex.need_num(st, args[0], node)
        if not is_intsort(k):
            raise Unsupported('Generator.permutation of something else than an integer')
        used('Generator.permutation(k) for an integer k >= 0 -> integer vector of length k, a permutation of arange(k): entries in [0, k), pairwise distinct')
        ex.oblige(st, 'call-pre', 'permutation-of-a-non-negative-integer', Z(k) >= 0, node)
        arr = ex.fresh('perm', XM.IA)
        i2 = z3.Int('rest_sp_i2')
        st.assume(z3.ForAll([_sp_i], z3.Implies(z3.And(0 <= _sp_i, _sp_i < Z(k)), z3.And(0 <= arr[_sp_i], arr[_sp_i] < Z(k))), patterns=[arr[_sp_i]]))
        st.assume(z3.ForAll([_sp_i, i2], z3.Implies(z3.And(0 <= _sp_i, _sp_i < i2, i2 < Z(k)), arr[_sp_i] != arr[i2]),
                            patterns=[z3.MultiPattern(arr[_sp_i], arr[i2])]))
        out = XM.ivec(k, arr)
        XM.log_draw(st, r, 'permutation', (Z(k),), [k], arr)
        return out
    return _sp_orig_method(ex, st, recv, name, args, kwargs, node)


M.method = sp_method


class sp_VRowsF(VSeq):
    """List of d float vectors of one common length m (row j = arr[j], an Int -> Real array)."""
    def __init__(self, arr, n, m):
        VSeq.__init__(self, arr, n, lambda t, m=m: XM.rvec(m, t), 'rest_sp_fvrows')
        self.m = m

    def copy(self):
        return sp_VRowsF(self.arr, self.n, self.m)


_sp_orig_listcomp = M.listcomp


def sp_listcomp(ex, st, e):
    """[rand.uniform(lo(k), hi(k), m) for k in seq]: one draw per element, in the order of the elements."""
    g = e.generators[0] if len(e.generators) == 1 else None
    if not sp_on(ex) or g is None or g.ifs \
            or not any(isinstance(x, ast.Call) and isinstance(x.func, ast.Attribute) and x.func.attr == 'uniform' for x in ast.walk(e.elt)):
        return _sp_orig_listcomp(ex, st, e)
    it = M.iteration(ex, st, g.iter, e)
    if it.concrete is not None:
        return _sp_orig_listcomp(ex, st, e)
    npc, saved = len(st.pc), dict(st.vars)
    nd0, log0 = st.ghost.get('ndraw', z3.IntVal(0)), st.ghost.get('drawlog', [])
    nrc0 = len(st.ghost.get('randcalls', []))
    j = ex.fresh_int('lc')
    cnt0 = ex.cnt
    st.pc.append(z3.And(j >= 0, j < it.n))
    st.ghost['ndraw'], st.ghost['drawlog'] = nd0 + j, []
    try:
        ex.assign(g.target, it.bind(ex, st, j), st)
        elt = st.deref(ex.ev(e.elt, st))          # obligations raised here (index ranges, draw size) carry the guard 0 <= j < n
    finally:
        for k in list(st.vars):
            if k not in saved:
                del st.vars[k]
            else:
                st.vars[k] = saved[k]
    new = st.ghost.get('drawlog', [])
    del st.pc[npc:]                      # facts about the per-element fresh symbols are dropped; what is kept is stated below for every j
    if not (XM.is_vec1(elt) and elt.tag == 'rvec' and len(new) == 1 and new[0]['out'] is elt.t and new[0]['method'] == 'uniform'
            and len(new[0]['shape']) == 1):
        raise Unsupported('list comprehension with draws: the element must be the result of exactly one Generator.uniform of a vector')
    if not any(v is new[0]['gen'] for v in saved.values()) or len(st.ghost.get('randcalls', [])) != nrc0:
        # a generator made while the element is evaluated (`_rand(seed).uniform(..)`, `default_rng().uniform(..)`) would be a new
        # object per element; the generic evaluation sees only one of them
        raise Unsupported('list comprehension with draws: the generator must exist before the comprehension (no generator per element)')
    (p0, p1), m = new[0]['params'], Z(new[0]['shape'][0])
    if XM._consts_after(p0, cnt0) or XM._consts_after(p1, cnt0) or XM._consts_after(m, cnt0) or M._mentions(m, j):
        raise Unsupported('list comprehension with draws: limits / size depend on per-element intermediate values')
    used('[rand.uniform(lo_k, hi_k, m) for k in seq] -> one draw per element in list order; list of len(seq) float vectors of length m, '
         'vector k with entries in [lo_k, hi_k] when lo_k <= hi_k')
    rows = ex.fresh('rows', z3.ArraySort(z3.IntSort(), XM.RA))
    st.assume(z3.ForAll([j, _sp_i], z3.Implies(z3.And(0 <= j, j < it.n, p0 <= p1), z3.And(p0 <= rows[j][_sp_i], rows[j][_sp_i] <= p1)),
                        patterns=[rows[j][_sp_i]]))
    fam = dict(new[0])
    fam.update(idx=nd0 + j, family=(j, it.n), out=rows)
    st.ghost['drawlog'] = log0 + [fam]
    st.ghost['ndraw'] = nd0 + it.n
    return st.alloc(sp_VRowsF(rows, it.n, m))


M.listcomp = sp_listcomp
_sp_orig_vstack = M.FUNCS['np.vstack']


def sp_m_vstack(ex, st, args, kwargs, node):
    v = st.deref(args[0]) if args else None
    if sp_on(ex) and isinstance(v, sp_VRowsF) and len(args) == 1 and not kwargs:
        used('np.vstack(list of d float vectors of length m) -> d x m matrix whose rows are the vectors (d >= 1 required)')
        ex.oblige(st, 'call-pre', 'vstack-needs-at-least-one-array', v.n >= 1, node)
        out = VArr((v.n, v.m), None, 'rest_sp_fmat', 'f')
        out.rows, out.transposed = v.arr, False
        return out
    return _sp_orig_vstack(ex, st, args, kwargs, node)


M.FUNCS['np.vstack'] = sp_m_vstack


def sp_fmat_entry(a, i, j):
    """Entry [i, j] of a 'rest_sp_fmat' array (rows stacked by np.vstack, possibly transposed)."""
    return a.rows[j][i] if a.transposed else a.rows[i][j]


_sp_orig_attribute = M.attribute


def sp_attribute(ex, st, v, attr, node):
    if sp_on(ex) and isinstance(v, VArr) and v.tag == 'rest_sp_fmat' and attr == 'T':
        used('ndarray.T of a matrix -> transposed')
        out = VArr((v.shape[1], v.shape[0]), None, 'rest_sp_fmat', v.dtype)
        out.rows, out.transposed = v.rows, not v.transposed
        return out
    return _sp_orig_attribute(ex, st, v, attr, node)


M.attribute = sp_attribute


# ----------------------------------------------------------------------------------------------
# stat.cdf_confidence:  np.log (natural logarithm, uninterpreted `ln` with the facts of the group 'rest_sp_ln') and np.clip
sp_ln = z3.Function('rest_sp_ln', T.R, T.R)
_sp_x, _sp_y = z3.Reals('rest_sp_x rest_sp_y')


def sp_ln_mono(x, y):
    """ln is monotone on the positive reals"""
    return z3.Implies(z3.And(0 < x, x <= y), sp_ln(x) <= sp_ln(y))


def sp_ln_sign(x):
    """ln is non-negative from 1 on and non-positive on (0, 1]"""
    return z3.And(z3.Implies(x >= 1, sp_ln(x) >= 0), z3.Implies(z3.And(0 < x, x <= 1), sp_ln(x) <= 0))


T.GROUPS['rest_sp_ln'] = [
    sp_ln(1) == 0,
    T.A([_sp_x, _sp_y], sp_ln_mono(_sp_x, _sp_y), [z3.MultiPattern(sp_ln(_sp_x), sp_ln(_sp_y))]),
    T.A([_sp_x], z3.Implies(_sp_x >= 1, sp_ln(_sp_x) >= 0), [sp_ln(_sp_x)]),
    T.A([_sp_x], z3.Implies(z3.And(0 < _sp_x, _sp_x <= 1), sp_ln(_sp_x) <= 0), [sp_ln(_sp_x)]),
]


def sp_m_log(ex, st, args, kwargs, node):
    """np.log of a positive number.  The facts about ln that are handed out are the INSTANCES, for this argument, of the axioms
    of the spot-checked group 'rest_sp_ln' (sign, monotonicity against ln(1) = 0) - quantifier free, so that the arithmetic
    obligations of the caller stay outside e-matching."""
    if not sp_on(ex) or len(args) != 1 or kwargs:
        raise Unsupported('np.log calling pattern')
    v = st.deref(args[0])
    if isinstance(v, VArr):
        raise Unsupported('np.log of an array')
    x = to_real(ex.need_num(st, v, node))
    ex.oblige(st, 'safety', 'log-of-positive', x > 0, node)
    used('np.log(x) for a number x > 0 -> ln(x) (uninterpreted; ln(1) = 0, monotone, ln(x) >= 0 for x >= 1, ln(x) <= 0 for 0 < x <= 1)   [A-REAL]')
    one = z3.RealVal(1)
    st.assume(sp_ln(one) == 0, sp_ln_sign(x), sp_ln_mono(one, x), sp_ln_mono(x, one))
    st.ghost['rest_sp_ln'] = st.ghost.get('rest_sp_ln', []) + [x]
    return sp_ln(x)


def sp_clip(v, lo, hi):
    """np.clip(v, lo, hi) = minimum(maximum(v, lo), hi), per element"""
    mx = z3.If(v < lo, lo, v)
    return z3.If(mx > hi, hi, mx)


def sp_m_clip(ex, st, args, kwargs, node):
    if not sp_on(ex) or len(args) != 3 or kwargs:
        raise Unsupported('np.clip calling pattern')
    a = st.deref(args[0])
    if not PT.is_pt(a):
        raise Unsupported('np.clip of a value outside the pointwise tier')
    lo, hi = [to_real(ex.need_num(st, x, node)) for x in args[1:]]
    used('np.clip(A, lo, hi) with numbers lo, hi -> array of the shape of A, elementwise minimum(maximum(A, lo), hi) (float result for a float A)')
    return PT.pt(a.shape, sp_clip(to_real(a.t), lo, hi))
