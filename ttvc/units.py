def run(unit, tier):
    raise NotImplementedError
def meta(units):
    return {}
