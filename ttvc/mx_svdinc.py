"""Model-table entries for the strengthened shape contract of teneva.svd.svd_incomplete (C20, contracts/strengthen_svdinc.py).

Gate: every handler below is active only for an executor with `ex.svdinc = True` and falls through to the previous hook otherwise
(wrapping pattern of kr.py).  No new theory symbols, no axioms.

  X[:, k, :]      (also X[k, :, :], X[:, :, k]) of a 3-D array WITHOUT denotation (np.array([...]) of equally shaped 2-D arrays) -> the
                  2-D array without that axis; k must be a valid index of the axis;
  np.squeeze(X)   of an array without denotation / of a list of equally shaped arrays -> EVERY axis of length 1 is removed: one path
                  per case (ex.decide on `dim == 1` for every axis whose length is not a literal), so the number of axes of the result is
                  concrete on each path (same treatment as mx_act.m_squeeze_chain for chains of tensordot);
  np.array(L)     of a list comprehension of 2-D arrays (models.listcomp: sequence kind 'optarr', shapes only) -> 3-D array
                  (len L, rows, cols); requires a non-empty list of arrays (no None) that all have the shape of the first one;
  L[:hi]          of a symbolic list -> the prefix of length hi as the SAME sequence with a shorter length (no fresh symbol, so that facts about
                  `f(L[:hi])` inside a list comprehension do not depend on a per-element symbol); requires 0 <= hi <= len L;
  X[...]          of a 0-dimensional array -> IndexError in NumPy: obligation `False`; the path is dead afterwards, and on a dead path
                  (a literal False in the path condition, i.e. after a definite exception) `G[:, j, :] = <uninterpreted>` is a no-op
                  instead of Unsupported, so that ONE definite failure does not turn the whole unit undecided;
  np.empty(shape) additionally requires every dimension to be an integer (NumPy raises TypeError for a float);
  Generator.choice(k, s) WITH replacement (model of mx_misc: s entries in [0, k)) additionally states the multiset counts of ttvc/rnd.py that
                  hold for ANY s draws from [0, k): 0 <= cnt(v) <= s, cnt(v) = 0 outside [0, k)  (nothing bounds cnt(v) by 1: levels may
                  repeat), so that a contract about counts fails only where repetition matters."""
import ast
import z3
from ttvc.symex import Unsupported, VSeq, VArr, VOpaque, Z, is_num, is_intsort
from ttvc import models as M, rnd as R
from ttvc.models import model, used


def on(ex):
    return getattr(ex, 'svdinc', False)


def _full(e):
    return isinstance(e, ast.Slice) and e.lower is None and e.upper is None and e.step is None


_orig_index = M.arr_index


def dead(st):
    return any(z3.is_false(f) for f in st.pc)


def arr_index(ex, st, a, sl_, node):
    if on(ex) and isinstance(a, VArr) and a.ndim == 0:
        used('indexing a 0-dimensional array raises IndexError')
        ex.oblige(st, 'safety', 'indexed-array-has-at-least-one-axis', False, node)
        return VArr((), None, None, a.dtype)
    if on(ex) and isinstance(a, VArr) and a.ndim == 3 and a.t is None and a.tag is None and isinstance(sl_, ast.Tuple) and len(sl_.elts) == 3 \
            and sum(1 for e in sl_.elts if _full(e)) == 2 and not any(isinstance(e, ast.Slice) and not _full(e) for e in sl_.elts):
        ax = [k for k, e in enumerate(sl_.elts) if not _full(e)][0]
        e = sl_.elts[ax]
        if not (isinstance(e, ast.Constant) and (e.value is None or e.value is Ellipsis)):
            kv = ex.ev(e, st)
            if is_num(kv) and is_intsort(kv):
                M.norm_index(ex, st, kv, a.shape[ax], node, ('first', 'middle', 'last')[ax] + '-axis-index')
                used('X[:, k, :] (X[k, :, :], X[:, :, k]) of a 3-D array -> the 2-D array of the two other axes; requires a valid index k')
                return VArr(tuple(n for k, n in enumerate(a.shape) if k != ax), None, None, a.dtype)
    return _orig_index(ex, st, a, sl_, node)


M.arr_index = arr_index
_orig_subscript = M.subscript


def subscript(ex, st, base, sl_, node):
    b = st.deref(base)
    if on(ex) and isinstance(b, VSeq) and isinstance(sl_, ast.Slice) and sl_.lower is None and sl_.step is None and sl_.upper is not None:
        hi = ex.need_num(st, ex.ev(sl_.upper, st), node)
        if is_intsort(hi):
            used('list[:hi] -> prefix of length hi (requires 0 <= hi <= len)')
            ex.oblige(st, 'restriction', 'slice-in-range', z3.And(Z(hi) >= 0, Z(hi) <= b.n), node)
            return st.alloc(VSeq(b.arr, Z(hi), b.wrap, b.tag, getattr(b, 'unwrap', None)))
    return _orig_subscript(ex, st, base, sl_, node)


M.subscript = subscript
_j = z3.Int('j!v')


def _stack_optarr(ex, st, v, node):
    """np.array of a symbolic list of equally shaped 2-D arrays (codes with orows / ocols)."""
    used('np.array([A_0, A_1, ...]) of equally shaped 2-D arrays -> one more leading axis; requires a non-empty list without None '
         'whose members all have the shape of A_0')
    a0 = v.arr[0]
    ex.oblige(st, 'call-pre', 'stacked-list-is-non-empty', v.n >= 1, node)
    ex.oblige(st, 'call-pre', 'stacked-arrays-have-one-common-shape',
              z3.ForAll([_j], z3.Implies(z3.And(0 <= _j, _j < v.n), z3.And(v.arr[_j] != 0, M.OROWS(v.arr[_j]) == M.OROWS(a0),
                                                                           M.OCOLS(v.arr[_j]) == M.OCOLS(a0))), patterns=[v.arr[_j]]), node)
    return VArr((v.n, M.OROWS(a0), M.OCOLS(a0)), None, None, 'f')


_orig_array = {n: M.FUNCS[n] for n in ('np.array', 'np.asanyarray', 'np.asarray')}


def _mk_array(name):
    def m_array(ex, st, args, kwargs, node):
        v = st.deref(args[0]) if args else None
        if on(ex) and len(args) == 1 and not kwargs and isinstance(v, VSeq) and v.tag == 'optarr':
            return _stack_optarr(ex, st, v, node)
        return _orig_array[name](ex, st, args, kwargs, node)
    return m_array


for _n in _orig_array:
    M.FUNCS[_n] = _mk_array(_n)
_orig_squeeze = M.FUNCS.get('np.squeeze')


@model('np.squeeze')
def m_squeeze_shape(ex, st, args, kwargs, node):
    a = st.deref(args[0]) if args else None
    if on(ex) and len(args) == 1 and not kwargs:
        if isinstance(a, VSeq) and (a.tag.startswith('arr') or a.tag == 'optarr'):
            a = st.deref(M.FUNCS['np.array'](ex, st, args, {}, node))         # np.squeeze(list) = np.squeeze(np.array(list))
        if isinstance(a, VArr) and a.t is None and a.tag is None:
            used('np.squeeze(X) -> every axis of length 1 is removed (a case split over the axes whose length may be 1)')
            keep = [n for n in a.shape if not ex.decide(st, Z(n) == 1, node)]
            return VArr(tuple(keep), None, None, a.dtype)
    if _orig_squeeze is None:
        raise Unsupported('np.squeeze pattern')
    return _orig_squeeze(ex, st, args, kwargs, node)


_orig_store = M.store


def store(ex, st, base, sl_, v, node, base_node):
    if on(ex) and dead(st) and isinstance(st.deref(v), VOpaque):
        return
    return _orig_store(ex, st, base, sl_, v, node, base_node)


M.store = store
_orig_empty = M.FUNCS['np.empty']


def m_empty_int(ex, st, args, kwargs, node):
    if on(ex) and args and ast.unparse(node.func) == 'np.empty':
        for s_ in M.shape_arg(ex, st, args[0], node):
            ex.oblige(st, 'call-pre', 'dimension-is-an-integer', z3.BoolVal(bool(is_intsort(s_))), node)
    return _orig_empty(ex, st, args, kwargs, node)


M.FUNCS['np.empty'] = m_empty_int


_orig_method = M.method
_v = z3.Int('v!sv')


def method(ex, st, recv, name, args, kwargs, node):
    out = _orig_method(ex, st, recv, name, args, kwargs, node)
    r = st.deref(recv)
    if on(ex) and isinstance(r, R.VGen) and name == 'choice' and kwargs.get('replace', True) is True and 'p' not in kwargs and len(args) == 2 \
            and isinstance(out, VArr) and out.ndim == 1 and out.tag == 'ivec' and out.t is not None and not callable(out.t):
        k = ex.need_num(st, args[0], node)
        if is_num(k) and is_intsort(k):
            used('Generator.choice(k, s) with replacement: every value is drawn between 0 and s times, values outside [0, k) never')
            s_ = Z(out.shape[0])
            st.assume(z3.ForAll([_v], z3.And(R.cnt(out.t, _v) >= 0, R.cnt(out.t, _v) <= s_,
                                             z3.Implies(z3.Or(_v < 0, _v >= Z(k)), R.cnt(out.t, _v) == 0)), patterns=[R.cnt(out.t, _v)]))
    return out


M.method = method
