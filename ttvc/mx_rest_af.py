"""Model-table entries, value kinds and spec symbols for teneva/anova_func.py: the wrapper anova_func, ANOVA_func.__init__ and the cached
property ANOVA_func.coeffs (contracts/rest_af.py; C13 functional variant, C10, C09).

Everything follows the wrapping pattern of kr.py (keep the previous hook, fall through to it) and is ACTIVE ONLY for executors that carry the
flag `ex.rest_af = True` (or for the value class defined here), so that the units of the other contract files see exactly the engine they
were written against.  The units of contracts/rest_af.py additionally set `ex.anova` (attribute stores on `self`, methods of `self`) and
`ex.functt` (batches of points: tags 'pts' / 'ptsT', iteration over the columns of X.T) - gates of mx_anova / mx_func.

New theory symbols (z3 names; the Python variables are af_mv, af_mvsum, ...; every group is exercised by lemmas/spotcheck.py through
lemmas/spotcheck_ext_rest_af.py):
  rest_af_mv(A, v)            A @ v for a 2-D float array A and a 1-D float array v (needs len v = cols A): the vector of length rows A
  rest_af_mvsum(A, v, i, k)   sum_{t<k} A[i, t] * v[t]      (the defining finite sum of rest_af_mv, products abstract: rmul)          group 'rest_af_mv'
  rest_af_hsum(S, k)          sum_{t<k} S[t][0]             (sum of the leading entries of a list of vectors)                          group 'rest_af_hsum'
  rest_af_chebmat(x, L, m)    THE m x L float matrix with the entries T_i(x_j), 0 <= i < m, 0 <= j < L (cheb of mx_func): what func_basis(x, m)
                              returns for a 1-D array x of length L (unit func.func_basis proves shape and entries; a float matrix is determined by
                              its shape and its entries, so the result IS this matrix)                                                 group 'rest_af_chebmat'
  A + B = B + A               commutativity of the elementwise sum of two equally shaped matrices (madd)                              group 'rest_af_maddcomm'
  rest_af_lsqv(H, v)          scipy.linalg.lstsq(H, v)[0] for a 1-D right-hand side v: UNINTERPRETED - the unit only states which (H, v) go in and
                              where the solution goes; its VALUE is left to the bounded suite (A-LAPACK: the result is a function of its operands
                              for the fixed driver / cond of the one call site).  No axiom.
  rest_af_cvec(c), rest_af_clen(c)   the float vector behind an element code of the list of per-mode coefficient vectors and its length (no axiom)

Value kind: af_Cfs - the list `cfs` of ANOVA_func.coeffs WHILE IT IS BUILT: empty, then a number (`cfs.append(y0)`), then one float vector per
`cfs.append(vector)`; `cfs[0]` reads and `cfs[0] = x` / `cfs[0] += x` rebinds the leading number.  It is a subclass of mx_anova.CfsList, the kind
that the unit anova_more.ANOVA_func.cores consumes as `self.coeffs` (number, then a list of float vectors).
"""
import ast
import z3
from ttvc import symex
from ttvc.symex import (Unsupported, ContractMismatch, NONE, NORMAL, VStr, VOpt, VTuple, VRef, VList, VRec, VSeq, VArr, VFunc, VOpaque, Z, is_num,
                        is_intsort)
from ttvc import models as M, theory as T, vec as V
from ttvc import mx_func as XF, mx_anova as XAN
from ttvc.models import used, to_real

af_I, af_R = z3.IntSort(), z3.RealSort()
af_IA = z3.ArraySort(af_I, af_I)
af_RA = z3.ArraySort(af_I, af_R)
af_RAA = z3.ArraySort(af_I, af_RA)


def af_on(ex):
    return getattr(ex, 'rest_af', False)


# ----------------------------------------------------------------------------------------------
# theory

af_mv = z3.Function('rest_af_mv', T.Mat, af_RA, af_RA)
af_mvsum = z3.Function('rest_af_mvsum', T.Mat, af_RA, af_I, af_I, af_R)
af_hsum = z3.Function('rest_af_hsum', af_RAA, af_I, af_R)
af_lsqv = z3.Function('rest_af_lsqv', T.Mat, af_RA, af_RA)
af_chebmat = z3.Function('rest_af_chebmat', af_RA, af_I, af_I, T.Mat)
af_cvec = z3.Function('rest_af_cvec', af_I, af_RA)
af_clen = z3.Function('rest_af_clen', af_I, af_I)

af_A = T.a_
af_v = z3.Const('rest_af_v', af_RA)
af_S = z3.Const('rest_af_S', af_RAA)
af_i, af_k, af_k1, af_L, af_m, af_j = z3.Ints('rest_af_i rest_af_k rest_af_k1 rest_af_L rest_af_m rest_af_j')

T.GROUPS['rest_af_mv'] = [
    T.A([af_A, af_v, af_i], af_mvsum(af_A, af_v, af_i, 0) == 0, [af_mvsum(af_A, af_v, af_i, 0)]),
    T.A([af_A, af_v, af_i, af_k, af_k1], z3.Implies(z3.And(af_k >= 0, af_k1 == af_k + 1),
                                                    af_mvsum(af_A, af_v, af_i, af_k1)
                                                    == af_mvsum(af_A, af_v, af_i, af_k) + T.rmul(T.ent(af_A, af_i, af_k), af_v[af_k])),
        [z3.MultiPattern(af_mvsum(af_A, af_v, af_i, af_k), af_mvsum(af_A, af_v, af_i, af_k1))]),
    T.A([af_A, af_v, af_i], z3.Implies(z3.And(0 <= af_i, af_i < T.rows(af_A)),
                                       af_mv(af_A, af_v)[af_i] == af_mvsum(af_A, af_v, af_i, T.cols(af_A))),
        [af_mv(af_A, af_v)[af_i]]),
]
T.GROUPS['rest_af_hsum'] = [
    T.A([af_S], af_hsum(af_S, 0) == 0, [af_hsum(af_S, 0)]),
    T.A([af_S, af_k, af_k1], z3.Implies(z3.And(af_k >= 0, af_k1 == af_k + 1), af_hsum(af_S, af_k1) == af_hsum(af_S, af_k) + af_S[af_k][0]),
        [z3.MultiPattern(af_hsum(af_S, af_k), af_hsum(af_S, af_k1))]),
]
# A + B = B + A for equally shaped matrices (instances only relate the two sums: no matching loop); lets `lamb * I + AtA` pass for `AtA + lamb * I`
T.GROUPS['rest_af_maddcomm'] = [
    T.A([T.a_, T.b_], z3.Implies(z3.And(T.rows(T.a_) == T.rows(T.b_), T.cols(T.a_) == T.cols(T.b_)), T.madd(T.a_, T.b_) == T.madd(T.b_, T.a_)),
        [T.madd(T.a_, T.b_)]),
]
T.GROUPS['rest_af_chebmat'] = [
    T.A([af_v, af_L, af_m], z3.Implies(z3.And(af_L >= 0, af_m >= 0), z3.And(T.rows(af_chebmat(af_v, af_L, af_m)) == af_m,
                                                                            T.cols(af_chebmat(af_v, af_L, af_m)) == af_L)),
        [af_chebmat(af_v, af_L, af_m)]),
    T.A([af_v, af_L, af_m, af_i, af_j], z3.Implies(z3.And(0 <= af_i, af_i < af_m, 0 <= af_j, af_j < af_L),
                                                   T.ent(af_chebmat(af_v, af_L, af_m), af_i, af_j) == XF.cheb(af_i, af_v[af_j])),
        [T.ent(af_chebmat(af_v, af_L, af_m), af_i, af_j)]),
]


# ----------------------------------------------------------------------------------------------
# the coefficient list while it is built

class af_Cfs(XAN.CfsList):
    """`cfs = []; cfs.append(number); cfs.append(vector) ...; cfs[0] += number`: head = the leading number (Python None while the list is
    empty), tail_ref = heap reference of the VSeq of the vectors appended so far (element codes c: vector rest_af_cvec(c) of length rest_af_clen(c))."""
    def copy(self):
        return af_Cfs(self.head, self.tail_ref)


def af_tail_unwrap(ex, st, v, node):
    o = st.deref(v)
    if not XF.is_vec(o, 'rvec'):
        raise ContractMismatch('what is appended to the coefficient list after the constant term is not a 1-D float array with known entries')
    c = ex.fresh_int('cvec')
    st.assume(af_cvec(c) == o.t, af_clen(c) == Z(o.shape[0]))
    return c


def af_tail_seq(arr, n):
    return VSeq(arr, n, lambda c: V.RVec(af_clen(c), af_cvec(c)), tag='rvecs', unwrap=af_tail_unwrap)


def af_cfs_kind(ex, st):
    """type hint for `cfs = []` / `self._cfs = cfs = []` (sidecar-defined sequence kind): the empty coefficient list"""
    tail = st.alloc(af_tail_seq(ex.fresh('cfs_tail', af_IA), z3.IntVal(0)))
    return st.alloc(af_Cfs(None, tail))


def af_target_key(t):
    if isinstance(t, ast.Name):
        return t.id
    if isinstance(t, ast.Attribute) and isinstance(t.value, ast.Name):
        return f'{t.value.id}.{t.attr}'
    return None


_af_orig_st_Assign = symex.Exec.st_Assign


def _af_st_Assign(self, s, st):
    """`a = self.b = []` with a type hint: ONE new list object bound to every target (the generic path would create one per target)."""
    if af_on(self) and len(s.targets) > 1 and isinstance(s.value, ast.List) and not s.value.elts:
        keys = [af_target_key(t) for t in s.targets]
        hints = [self.type_hints.get(k) for k in keys]
        if any(h is not None for h in hints):
            if any(h is not hints[0] for h in hints):
                raise ContractMismatch(f'chained assignment of an empty list at line {s.lineno}: the targets {keys} do not carry the same type hint')
            used('a = b = [] -> ONE new (empty) list object bound to both targets')
            v = M.empty_seq(self, st, hints[0])
            for t in s.targets:
                if isinstance(t, ast.Name):
                    st.vars[t.id] = v
                else:
                    obj = st.deref(self.ev(t.value, st))
                    if not isinstance(obj, VRec):
                        raise Unsupported(f'attribute store on {type(obj).__name__} at line {t.lineno}')
                    obj.fields[t.attr] = v
            return [(st, NORMAL)]
    return _af_orig_st_Assign(self, s, st)


symex.Exec.st_Assign = _af_st_Assign

_af_orig_method = M.method


def af_method(ex, st, recv, name, args, kwargs, node):
    r = st.deref(recv)
    if isinstance(r, af_Cfs) and af_on(ex):
        if name != 'append' or len(args) != 1 or kwargs:
            raise Unsupported(f'method .{name} on the coefficient list at line {node.lineno}')
        if r.head is None:
            v = st.deref(args[0])
            if not is_num(v):
                raise ContractMismatch('the first element appended to the coefficient list is not a number (the constant term)')
            used('[].append(x) for a number x -> the one-element list [x]')
            r.head = to_real(v)
            return NONE
        used('cfs.append(vector) -> the vector becomes the last element of the list')
        return M.method(ex, st, r.tail_ref, 'append', args, kwargs, node)
    return _af_orig_method(ex, st, recv, name, args, kwargs, node)


M.method = af_method

_af_orig_subscript = M.subscript


def af_subscript(ex, st, base, sl_, node):
    b = st.deref(base)
    if isinstance(b, af_Cfs) and af_on(ex):
        if isinstance(sl_, ast.Slice):
            if sl_.step is None and sl_.upper is None and sl_.lower is not None and ex.ev(sl_.lower, st) == 1 and b.head is not None:
                used('cfs[1:] -> the list of the per-mode coefficient vectors')
                return b.tail_ref
            raise Unsupported('slice of the coefficient list other than [1:]')
        iv = ex.ev(sl_, st)
        if isinstance(iv, int) and not isinstance(iv, bool) and iv == 0:
            used('cfs[0] -> the leading number (IndexError for an empty list)')
            if b.head is None:
                ex.oblige(st, 'safety', 'list-index-in-range', False, node)
                return ex.fresh_real('undef')
            return b.head
        raise Unsupported('index into the coefficient list other than 0')
    return _af_orig_subscript(ex, st, base, sl_, node)


M.subscript = af_subscript

_af_orig_store = M.store


def af_store(ex, st, base, sl_, v, node, base_node):
    b = st.deref(base)
    if isinstance(b, af_Cfs) and af_on(ex):
        iv = ex.ev(sl_, st) if not isinstance(sl_, (ast.Slice, ast.Tuple)) else None
        val = st.deref(v)
        if isinstance(iv, int) and not isinstance(iv, bool) and iv == 0 and is_num(val):
            used('cfs[0] = x -> the leading number is replaced (IndexError for an empty list)')
            if b.head is None:
                ex.oblige(st, 'safety', 'list-index-in-range', False, node)
            b.head = to_real(val)
            return
        raise Unsupported(f'store into the coefficient list other than `cfs[0] = number` (line {node.lineno})')
    return _af_orig_store(ex, st, base, sl_, v, node, base_node)


M.store = af_store

_af_orig_havoc = M.havoc


def af_havoc(ex, st, v, name, mutated):
    if af_on(ex) and isinstance(v, VRef) and isinstance(st.heap.get(v.oid), af_Cfs):
        o = st.heap[v.oid]
        if o.head is None:
            raise ContractMismatch(f'the coefficient list {name} is still empty when the loop starts')
        _af_orig_havoc(ex, st, o.tail_ref, name + '_tail', True)           # same kind, fresh contents and length (>= 0)
        st.heap[v.oid] = af_Cfs(ex.fresh_real(name + '_head'), o.tail_ref)
        return v
    return _af_orig_havoc(ex, st, v, name, mutated)


M.havoc = af_havoc


# ----------------------------------------------------------------------------------------------
# NumPy patterns of the ridge fit:  A.T @ y  (2-D @ 1-D with denotations),  v[1:]  of a float vector

_af_orig_matmul = M.matmul


def af_matmul(ex, st, l, r, node):
    if af_on(ex) and isinstance(l, VArr) and l.ndim == 2 and l.tag == 'mat' and l.t is not None and XF.is_vec(r, 'rvec'):
        used('A @ v for a 2-D float array A and a 1-D float array v -> rest_af_mv(A, v): entry i = sum_t A[i, t] v[t], length rows A; '
             'requires len v = cols A   [axiom group rest_af_mv, spot-checked against NumPy]')
        ex.oblige(st, 'call-pre', 'matmul-inner-dims-agree', Z(l.shape[1]) == Z(r.shape[0]), node)
        out = XF.rvec(l.shape[0], af_mv(l.t, r.t))
        out.af_fresh = 'result of @ (a new array)'
        return out
    return _af_orig_matmul(ex, st, l, r, node)


M.matmul = af_matmul

_af_orig_index = M.arr_index


def af_arr_index(ex, st, a, sl_, node):
    if af_on(ex) and XF.is_vec(a, 'rvec') and isinstance(sl_, ast.Slice) and sl_.step is None and sl_.upper is None and sl_.lower is not None:
        lo = ex.ev(sl_.lower, st)
        if isinstance(lo, int) and not isinstance(lo, bool) and lo >= 0:
            used('v[lo:] of a 1-D float array for a literal lo >= 0 -> the entries from position lo on (NumPy clips: an empty array when lo > len v)')
            n = Z(a.shape[0])
            arr = ex.fresh('vtail', af_RA)
            st.assume(z3.ForAll([af_k], arr[af_k] == a.t[af_k + lo], patterns=[arr[af_k]]))
            return XF.rvec(z3.simplify(z3.If(n >= lo, n - lo, 0)), arr)
    return _af_orig_index(ex, st, a, sl_, node)


M.arr_index = af_arr_index


def af_lstsq_vec(ex, st, args, kwargs, node):
    """scipy.linalg.lstsq(H, v, ...) with a 1-D right-hand side (handed to the units through `callees={'sp.linalg.lstsq': ...}`): every keyword
    must be a parameter scipy.linalg.lstsq has, the row counts must agree; the solution is the float vector rest_af_lsqv(H, v) of length cols H.
    The call is logged (per path) in st.ghost['af_lstsq']: operands, the AST nodes of the two operand expressions, every bound parameter."""
    for kw in kwargs:
        ex.oblige(st, 'call-pre', f'scipy.linalg.lstsq-has-a-parameter-named-{kw}', z3.BoolVal(kw in XF.LSTSQ_PARAMS), node)
    if len(args) > len(XF.LSTSQ_PARAMS):
        raise Unsupported('scipy.linalg.lstsq with too many positional arguments')
    bound = dict(zip(XF.LSTSQ_PARAMS, args))
    nodes = dict(zip(XF.LSTSQ_PARAMS, node.args))
    for k in node.keywords:
        if k.arg in XF.LSTSQ_PARAMS:
            if k.arg in bound:
                raise Unsupported('scipy.linalg.lstsq: a parameter is given twice')
            bound[k.arg], nodes[k.arg] = kwargs[k.arg], k.value
    H, b = st.deref(bound.get('a')), st.deref(bound.get('b'))
    if not (isinstance(H, VArr) and H.ndim == 2 and H.tag == 'mat' and H.t is not None and XF.is_vec(b, 'rvec')):
        raise Unsupported('scipy.linalg.lstsq: only (2-D float array with a denotation, 1-D float array) is under this model')
    used('scipy.linalg.lstsq(H, v, cond, overwrite_a, overwrite_b, check_finite, lapack_driver)[0] for a 1-D v -> rest_af_lsqv(H, v): a 1-D array of '
         'length cols H, a function of (H, v) for the fixed cond / driver of the call site (value uninterpreted); requires rows H = len v; '
         'overwrite_a / overwrite_b = True allow LAPACK to destroy the two operand buffers   [A-LAPACK]')
    ex.oblige(st, 'call-pre', 'lstsq-row-counts-agree', Z(H.shape[0]) == Z(b.shape[0]), node)
    sol = XF.rvec(H.shape[1], af_lsqv(H.t, b.t))
    st.ghost['af_lstsq'] = st.ghost.get('af_lstsq', []) + [dict(H=H, b=b, bound=bound, nodes=nodes, sol=sol)]
    return VTuple([sol, VOpaque('residues'), VOpaque('rank'), VOpaque('singular values')])
