"""Model-table entries for the units of contracts/misc.py (grid_prep_opt / grid_flat, matrix_delta, poly, the random
constructors, sample_rand / sample_square; C18, C19, C14, C10, C11).

Everything here follows the wrapping pattern of kr.py: the previous hook is kept and every pattern that is not recognised
falls through to it.  New value kinds:
  * constant / elementwise-mapped 1-D vectors ('rvec' / 'ivec' with a z3 array as denotation) for np.ones(d) * c,
    np.asanyarray(list), and the (1, n) row / (reps, n) repeated-row matrices built from them (tags 'rowmat', 'rowrep');
  * `TypeFn`: a Python type object that is also callable (`kind(opt)` next to `dtype=kind`);
  * `VStar`: a starred call argument (`f(*xs)`), accepted only by the models that expect it;
  * nested function definitions (`def f(size): return expr`) as closures over the current state.
"""
import ast
import z3
from ttvc import symex
from ttvc.symex import (Unsupported, ContractMismatch, NONE, VStr, VOpt, VTuple, VRef, VList, VSeq, VArr, VFunc, VOpaque, Z, is_num,
                        is_intsort, quick_unsat)
from ttvc import models as M, theory as T, vec as V, rnd as R
from ttvc.models import model, used, to_real

IA = z3.ArraySort(z3.IntSort(), z3.IntSort())
RA = z3.ArraySort(z3.IntSort(), z3.RealSort())
_i = z3.Int('i!m')


class TypeFn(M.TypeVal, VFunc):
    """`int` / `float` passed as a parameter: usable as dtype (TypeVal) and callable (`kind(opt)` -> int(opt) / float(opt))."""
    def __init__(self, name):
        M.TypeVal.__init__(self, name)
        self.handler = lambda ex, st, args, kwargs, node: M.FUNCS[name](ex, st, args, kwargs, node)


class VStar:
    """`*xs` in a call: the sequence value, unpacked by the callee model."""
    def __init__(self, value):
        self.value = value


def _ev_Starred(self, e, st):
    return VStar(self.ev(e.value, st))


if not hasattr(symex.Exec, 'ev_Starred'):
    symex.Exec.ev_Starred = _ev_Starred


# ----------------------------------------------------------------------------------------------
# nested function definitions:  def f(a, b): return <expr>      (closures of tensors.rand / rand_norm / poly)

def _st_FunctionDef(self, s, st):
    body = [b for b in s.body if not (isinstance(b, ast.Expr) and isinstance(b.value, ast.Constant))]
    if len(body) != 1 or not isinstance(body[0], ast.Return) or body[0].value is None or s.args.defaults or s.args.vararg \
            or s.args.kwarg or s.args.kwonlyargs or s.decorator_list:
        raise Unsupported(f'nested function {s.name} is not of the form `def f(args): return expr` (line {s.lineno})')
    params = [a.arg for a in s.args.args]
    expr = body[0].value

    def handler(ex, st_, args, kwargs, node, params=params, expr=expr, name=s.name):
        if kwargs or len(args) != len(params):
            raise Unsupported(f'call of the local function {name} with keywords / wrong arity')
        used('local `def f(args): return expr` -> the expression evaluated in the enclosing scope at call time (closure)')
        saved = {p: st_.vars[p] for p in params if p in st_.vars}
        for p, a in zip(params, args):
            st_.vars[p] = a
        try:
            return ex.ev(expr, st_)
        finally:
            for p in params:
                if p in saved:
                    st_.vars[p] = saved[p]
                else:
                    st_.vars.pop(p, None)

    st.vars[s.name] = VFunc('local:' + s.name, handler)
    return [(st, symex.NORMAL)]


if not hasattr(symex.Exec, 'st_FunctionDef'):
    symex.Exec.st_FunctionDef = _st_FunctionDef


# ----------------------------------------------------------------------------------------------
# 1-D vectors with a denotation

def rvec(n, arr, dtype='f'):
    return V.RVec(n, arr, (), 'rvec', dtype)


def ivec(n, arr, dtype='i'):
    return VArr((n,), arr, 'ivec', dtype)


def is_vec1(v):
    return isinstance(v, VArr) and v.ndim == 1 and v.tag in ('rvec', 'ivec') and v.t is not None and not callable(v.t)


def _num(ex, st, v, node):
    return ex.need_num(st, v, node) if isinstance(v, VOpt) else v


_orig_ones = M.FUNCS['np.ones']


@model('np.ones')
def m_ones(ex, st, args, kwargs, node):
    a0 = _num(ex, st, args[0], node) if args else None
    if len(args) == 1 and is_num(a0) and set(kwargs) <= {'dtype'} and ast.unparse(node.func) == 'np.ones':
        dt = kwargs.get('dtype', M.TypeVal('float'))
        if isinstance(dt, M.TypeVal) and dt.name in ('int', 'float'):
            used('np.ones(d, dtype) for a number d -> vector of d ones (requires d >= 0)')
            ex.oblige(st, 'call-pre', 'non-negative-dimension', Z(a0) >= 0, node)
            if dt.name == 'int':
                return ivec(a0, z3.K(z3.IntSort(), z3.IntVal(1)))
            return rvec(a0, z3.K(z3.IntSort(), z3.RealVal(1)))
    return _orig_ones(ex, st, args, kwargs, node)


_orig_binop = M.arr_binop


def arr_binop(ex, st, op, l, r, node):
    if isinstance(op, ast.Mult):
        a, c = (l, r) if isinstance(l, VArr) else (r, l)
        if is_vec1(a) and not isinstance(c, VArr) and a.tag == 'ivec' and a.dtype == 'i':
            c = ex.need_num(st, c, node)
            if is_intsort(c):
                used('integer vector * integer -> elementwise product')
                arr = ex.fresh('ivscaled', IA)
                st.assume(z3.ForAll([_i], arr[_i] == a.t[_i] * Z(c), patterns=[arr[_i]]))
                return ivec(a.shape[0], arr)
            used('integer vector * float -> elementwise product (float result)')
            arr = ex.fresh('scaled', RA)
            st.assume(z3.ForAll([_i], arr[_i] == z3.ToReal(a.t[_i]) * to_real(c), patterns=[arr[_i]]))
            return rvec(a.shape[0], arr)
        if is_vec1(a) and a.tag == 'rvec' and not isinstance(c, VArr) and a is r:
            return _orig_binop(ex, st, op, r, l, node)          # c * v  ==  v * c  (elementwise)
    return _orig_binop(ex, st, op, l, r, node)


M.arr_binop = arr_binop

_orig_array = M.FUNCS['np.asanyarray']


def m_array(ex, st, args, kwargs, node):
    v = st.deref(args[0]) if args else None
    dt = kwargs.get('dtype')
    dn = dt.name if isinstance(dt, M.TypeVal) else None
    if len(args) == 1 and set(kwargs) <= {'dtype'} and (dt is None or dn in ('int', 'float')):
        if isinstance(v, VSeq) and v.tag == 'real':
            if dn == 'int':
                used('np.asanyarray(list of floats, dtype=int) -> elementwise truncation toward zero')
                arr = ex.fresh('trunc', IA)
                x = v.arr[_i]
                st.assume(z3.ForAll([_i], arr[_i] == z3.If(x >= 0, z3.ToInt(x), -z3.ToInt(-x)), patterns=[arr[_i]]))
                return ivec(v.n, arr)
            used('np.asanyarray(list of floats) -> vector with the same elements')
            return rvec(v.n, v.arr)
        if isinstance(v, VSeq) and v.tag == 'int' and dn == 'float':
            used('np.asanyarray(list of ints, dtype=float) -> vector with the same (converted) elements')
            arr = ex.fresh('tofloat', RA)
            st.assume(z3.ForAll([_i], arr[_i] == z3.ToReal(v.arr[_i]), patterns=[arr[_i]]))
            return rvec(v.n, arr)
        if is_vec1(v) and v.tag == 'rvec':
            if dn == 'int':
                used('np.asanyarray(float vector, dtype=int) -> elementwise truncation toward zero')
                arr = ex.fresh('trunc', IA)
                x = v.t[_i]
                st.assume(z3.ForAll([_i], arr[_i] == z3.If(x >= 0, z3.ToInt(x), -z3.ToInt(-x)), patterns=[arr[_i]]))
                return ivec(v.shape[0], arr)
            used('np.asanyarray(vector) -> the same vector')
            return rvec(v.shape[0], v.t)
        if is_vec1(v) and v.tag == 'ivec' and dn == 'float':
            used('np.asanyarray(int vector, dtype=float) -> vector with the same (converted) elements')
            arr = ex.fresh('tofloat', RA)
            st.assume(z3.ForAll([_i], arr[_i] == z3.ToReal(v.t[_i]), patterns=[arr[_i]]))
            return rvec(v.shape[0], arr)
    return _orig_array(ex, st, args, kwargs, node)


for _n in ('np.array', 'np.asanyarray', 'np.asarray'):
    M.FUNCS[_n] = m_array


# ---- (1, n) row view and (reps, n) repeated rows
_orig_method = M.method


def method(ex, st, recv, name, args, kwargs, node):
    r = st.deref(recv)
    if name == 'reshape' and is_vec1(r) and len(args) == 1 and not kwargs:
        shp = st.deref(args[0])
        if isinstance(shp, (VTuple, VList)) and len(shp.items) == 2 and shp.items[0] == 1 and shp.items[1] == -1:
            used('v.reshape((1, -1)) -> the vector as a 1 x n row')
            out = VArr((1, r.shape[0]), None, 'rowmat', r.dtype)
            out.vec = r
            return out
    return _orig_method(ex, st, recv, name, args, kwargs, node)


M.method = method
_orig_repeat = M.FUNCS.get('np.repeat')


@model('np.repeat')
def m_repeat(ex, st, args, kwargs, node):
    a = st.deref(args[0]) if args else None
    if isinstance(a, VArr) and a.tag == 'rowmat' and len(args) == 2 and kwargs.get('axis') == 0 and set(kwargs) == {'axis'}:
        c = ex.need_num(st, args[1], node)
        used('np.repeat(row (1 x n), reps, axis=0) -> reps x n matrix whose rows all equal the row (requires integer reps >= 0)')
        ex.oblige(st, 'call-pre', 'repeat-count-is-an-integer', z3.BoolVal(is_intsort(c)), node)
        ex.oblige(st, 'call-pre', 'repeat-count-non-negative', Z(c) >= 0, node)
        out = VArr((c, a.shape[1]), None, 'rowrep', a.dtype)
        out.vec = a.vec
        return out
    if _orig_repeat is None:
        raise Unsupported('np.repeat pattern')
    return _orig_repeat(ex, st, args, kwargs, node)


# ----------------------------------------------------------------------------------------------
# grid_flat:  [np.arange(k).reshape(1, -1) for k in n] -> np.meshgrid(*I, indexing=..) -> np.array(..).reshape((d, -1), order=..) -> .T
#
# pprod(n, k) = n[0] * ... * n[k-1]  (prefix products of the mode sizes, in the engine's product abstraction mulI)
pprod = z3.Function('pprod', T.IDX, z3.IntSort(), z3.IntSort())
sprod = z3.Function('sprod', T.IDX, z3.IntSort(), z3.IntSort(), z3.IntSort())     # sprod(n, d, k) = n[k+1] * ... * n[d-1]  (no axioms: C order only shows up in wrong code)
_n = z3.Const('n!g', T.IDX)
_k, _k2 = z3.Ints('k!g k2!g')
T.GROUPS['pprod'] = [
    T.A([_n], pprod(_n, 0) == 1, [pprod(_n, 0)]),
    T.A([_n, _k, _k2], z3.Implies(z3.And(_k >= 0, _k2 == _k + 1), pprod(_n, _k2) == T.mulI(pprod(_n, _k), _n[_k])),
        [z3.MultiPattern(pprod(_n, _k), pprod(_n, _k2))]),
]

_orig_arange = M.FUNCS['np.arange']


@model('np.arange')
def m_arange(ex, st, args, kwargs, node):
    out = _orig_arange(ex, st, args, kwargs, node)
    if isinstance(out, VArr) and out.ndim == 1 and len(args) == 1 and not kwargs:
        out.arange_n = Z(out.shape[0])
    return out


def _reshape_row(ex, st, r, args, kwargs):
    """v.reshape((1, -1)) / v.reshape(1, -1) of a vector with a denotation -> the 1 x n row view, else None."""
    if kwargs or not is_vec1(r):
        return None
    if len(args) == 1:
        shp = st.deref(args[0])
        items = shp.items if isinstance(shp, (VTuple, VList)) else None
    else:
        items = list(args)
    if items is None or len(items) != 2 or not (isinstance(items[0], int) and items[0] == 1 and isinstance(items[1], int) and items[1] == -1):
        return None
    used('v.reshape((1, -1)) -> the vector as a 1 x n row')
    out = VArr((1, r.shape[0]), None, 'rowmat', r.dtype)
    out.vec = r
    return out


class VMeshList:
    """Result of np.meshgrid(*rows, indexing=..) for rows that are aranges: d arrays of the common shape lens (permuted for 'xy'),
    array k holds the index along its own axis."""
    def __init__(self, lens, d, indexing):
        self.lens, self.d, self.indexing = lens, d, indexing


class VGridStack:
    """np.array(meshgrid list): shape (d, m_0, ..., m_{d-1})."""
    def __init__(self, mesh, dtype):
        self.mesh, self.dtype = mesh, dtype


def grid_elem(g, t, k):
    """Entry of the 'gridmat' array g at flat position t for component k (X[k, t], or I[t, k] after .T)."""
    lens, d = g.lens, g.d
    if g.indexing == 'ij':
        m, ax = lens, k
    else:                       # 'xy': the first two axes are swapped (for d >= 2)
        m = z3.If(d >= 2, z3.Store(z3.Store(lens, 0, lens[1]), 1, lens[0]), lens)
        ax = z3.If(d >= 2, z3.If(k == 0, 1, z3.If(k == 1, 0, k)), k)
    if g.order == 'F':
        return (t / pprod(m, ax)) % lens[k]
    return (t / sprod(m, d, ax)) % lens[k]


_orig_listcomp = M.listcomp


def listcomp(ex, st, e):
    g = e.generators[0] if len(e.generators) == 1 else None
    if g is None or g.ifs or not any(isinstance(x, ast.Call) and ast.unparse(x.func) == 'np.arange' for x in ast.walk(e.elt)):
        return _orig_listcomp(ex, st, e)
    it = M.iteration(ex, st, g.iter, e)
    if it.concrete is not None:
        return _orig_listcomp(ex, st, e)
    npc, nobl, assumed, saved = len(st.pc), len(st.obl), set(st.assumed), dict(st.vars)
    j = ex.fresh_int('lc')
    st.pc.append(z3.And(j >= 0, j < it.n))
    try:
        cur = it.bind(ex, st, j)
        ex.assign(g.target, cur, st)
        elt = st.deref(ex.ev(e.elt, st))
    except Unsupported:
        elt = None
    finally:
        for k in list(st.vars):
            if k not in saved:
                del st.vars[k]
            else:
                st.vars[k] = saved[k]
    vecv = getattr(elt, 'vec', None) if isinstance(elt, VArr) and elt.tag == 'rowmat' else None
    an = getattr(vecv, 'arange_n', None)
    if an is None:
        del st.pc[npc:]
        del st.obl[nobl:]
        st.assumed.clear()
        st.assumed.update(assumed)
        return _orig_listcomp(ex, st, e)
    guard, added = st.pc[npc], st.pc[npc + 1:]
    del st.pc[npc:]
    for f in added:
        st.pc.append(z3.Implies(guard, f) if (f.get_id() in st.assumed or M._mentions(f, j)) else f)
    used('[np.arange(k).reshape(1, -1) for k in n] -> list of index rows 0..k-1, one per mode')
    src = st.deref(ex.ev(g.iter, st))
    base = src.arr if isinstance(src, VSeq) and src.tag == 'int' else (src.t if is_vec1(src) else None)
    if base is not None and is_intsort(cur) and z3.eq(z3.simplify(an), z3.simplify(Z(cur))):
        lens = base                        # arange(k) for the iterated k itself: the lengths are the iterated sequence
    else:
        lens = ex.fresh('lens', IA)
        st.assume(z3.ForAll([j], z3.Implies(z3.And(j >= 0, j < it.n), lens[j] == an), patterns=[lens[j]]))
    return st.alloc(VSeq(lens, it.n, lambda t: VOpaque('index row'), tag='aranges'))


M.listcomp = listcomp


@model('np.meshgrid')
def m_meshgrid(ex, st, args, kwargs, node):
    if len(args) != 1 or not isinstance(args[0], VStar) or not set(kwargs) <= {'indexing'}:
        raise Unsupported('np.meshgrid calling pattern')
    rows = st.deref(args[0].value)
    if not (isinstance(rows, VSeq) and rows.tag == 'aranges'):
        raise Unsupported('np.meshgrid of other than a list of index rows')
    ind = kwargs.get('indexing', VStr('xy'))
    ind = ind.concrete() if isinstance(ind, VStr) else None
    if ind not in ('ij', 'xy'):
        raise Unsupported('np.meshgrid indexing')
    used("np.meshgrid(*rows, indexing='ij'|'xy') of index rows 0..n_k-1 -> d arrays of shape (n_0, .., n_{d-1}) (first two axes swapped "
         "for 'xy'), array k holding the index i_k of its own axis (inputs are flattened)")
    return VMeshList(rows.arr, rows.n, ind)


_orig_array2 = M.FUNCS['np.array']


def m_array2(ex, st, args, kwargs, node):
    v = st.deref(args[0]) if args else None
    if isinstance(v, VMeshList) and len(args) == 1 and set(kwargs) <= {'dtype'}:
        dt = kwargs.get('dtype')
        used('np.array(list of d equally shaped arrays) -> one array with a new leading axis of length d')
        return VGridStack(v, 'i' if isinstance(dt, M.TypeVal) and dt.name == 'int' else 'f')
    return _orig_array2(ex, st, args, kwargs, node)


for _nm in ('np.array', 'np.asanyarray', 'np.asarray'):
    M.FUNCS[_nm] = m_array2

_orig_method2 = M.method


def method2(ex, st, recv, name, args, kwargs, node):
    r = st.deref(recv)
    if name == 'reshape':
        row = _reshape_row(ex, st, r, args, kwargs)
        if row is not None:
            return row
    if isinstance(r, VGridStack):
        if name != 'reshape' or len(args) != 1 or not set(kwargs) <= {'order'}:
            raise Unsupported(f'method .{name} on the stacked index grids')
        shp = st.deref(args[0])
        order = kwargs.get('order', VStr('C'))
        order = order.concrete() if isinstance(order, VStr) else None
        if not (isinstance(shp, (VTuple, VList)) and len(shp.items) == 2 and isinstance(shp.items[1], int) and shp.items[1] == -1) \
                or order not in ('C', 'F'):
            raise Unsupported('reshape pattern of the stacked index grids')
        a = Z(ex.need_num(st, shp.items[0], node))
        used("stack.reshape((d, -1), order) of a (d, m_0, .., m_{d-1}) array -> d x prod(m) matrix; order='F': column t holds the entries at "
             "the multi-index whose FIRST component runs fastest (i_k = (t div prod(m[:k])) mod m_k), order='C': last component fastest")
        ex.oblige(st, 'call-pre', 'reshape-keeps-the-leading-axis-of-length-d', a == r.mesh.d, node)
        out = VArr((r.mesh.d, pprod(r.mesh.lens, r.mesh.d)), None, 'gridmat', r.dtype)
        out.lens, out.d, out.indexing, out.order, out.transposed = r.mesh.lens, r.mesh.d, r.mesh.indexing, order, False
        return out
    return _orig_method2(ex, st, recv, name, args, kwargs, node)


M.method = method2
_orig_attribute = M.attribute


def attribute(ex, st, v, attr, node):
    if isinstance(v, VArr) and v.tag == 'gridmat' and attr == 'T':
        used('ndarray.T of a matrix -> transposed')
        out = VArr((v.shape[1], v.shape[0]), None, 'gridmat', v.dtype)
        out.lens, out.d, out.indexing, out.order, out.transposed = v.lens, v.d, v.indexing, v.order, not v.transposed
        return out
    return _orig_attribute(ex, st, v, attr, node)


M.attribute = attribute


# ----------------------------------------------------------------------------------------------
# QTT-matrix cores (matrices.matrix_delta): a 4-D array of shape (r1, m, n, r2) is denoted by the 3-D core of shape (r1, m*n, r2)
# obtained by merging the two mode axes in C order:  G4[a, i, j, b] = G3[a, n*i + j, b].  The chain over the merged indices
# ix[k] = n*i_k + j_k is the entry of the TT-matrix at row multi-index i, column multi-index j.

def mk_mcore22(t):
    return VArr((T.d0(t), 2, 2, T.d2(t)), t, 'mcore')


_orig_zeros = M.FUNCS['np.zeros']


@model('np.zeros')
def m_zeros4(ex, st, args, kwargs, node):
    if len(args) == 1 and not kwargs and ast.unparse(node.func) == 'np.zeros':
        shp = st.deref(args[0])
        if isinstance(shp, (VTuple, VList)) and len(shp.items) == 4 and all(is_num(x) for x in shp.items) \
                and isinstance(shp.items[1], int) and isinstance(shp.items[2], int):
            r1, m, n, r2 = shp.items
            used('np.zeros((r1, m, n, r2)) -> zero TT-matrix core, denoted by the 3-D zero core with the merged mode index n*i + j')
            for s_ in (r1, r2):
                ex.oblige(st, 'call-pre', 'non-negative-dimension', Z(s_) >= 0, node)
            return VArr((r1, m, n, r2), T.zc(Z(r1), Z(m * n), Z(r2)), 'mcore')
    return _orig_zeros(ex, st, args, kwargs, node)


_orig_setitem = M.arr_setitem


def arr_setitem(ex, st, b, sl_, v, node):
    if isinstance(b, VArr) and b.tag == 'mcore' and b.ndim == 4 and b.t is not None and isinstance(sl_, ast.Tuple) and len(sl_.elts) == 4 \
            and not any(isinstance(e, ast.Slice) for e in sl_.elts) and isinstance(b.shape[2], int):
        i0, i3 = ex.ev(sl_.elts[0], st), ex.ev(sl_.elts[3], st)
        if i0 == 0 and i3 == 0:
            used('G[0, i, j, 0] = x on a TT-matrix core with r1 = r2 = 1 -> cset(G, n*i + j, x)')
            ex.oblige(st, 'call-pre', 'element-store-on-a-rank-one-core', z3.And(Z(b.shape[0]) == 1, Z(b.shape[3]) == 1), node)
            i = M.norm_index(ex, st, ex.need_num(st, ex.ev(sl_.elts[1], st), node), b.shape[1], node, 'row-mode-index')
            j = M.norm_index(ex, st, ex.need_num(st, ex.ev(sl_.elts[2], st), node), b.shape[2], node, 'column-mode-index')
            x = to_real(ex.need_num(st, v, node))
            return VArr(b.shape, T.cset(b.t, b.shape[2] * Z(i) + Z(j), x), 'mcore')
    return _orig_setitem(ex, st, b, sl_, v, node)


M.arr_setitem = arr_setitem
_orig_empty_seq = M.empty_seq


def empty_seq(ex, st, kind):
    if kind == 'qttm':          # list of 4-D TT-matrix cores with mode sizes 2 x 2
        return st.alloc(VSeq(ex.fresh('empty', T.TT), z3.IntVal(0), mk_mcore22, tag='mcore22'))
    return _orig_empty_seq(ex, st, kind)


M.empty_seq = empty_seq
_orig_unwrap = M.unwrap_elem


def unwrap_elem(ex, st, seq, v, node):
    if seq.tag == 'mcore22':
        v = st.deref(v)
        if isinstance(v, VArr) and v.tag == 'mcore' and v.ndim == 4 and v.t is not None and v.shape[1] == 2 and v.shape[2] == 2:
            return v.t
        raise Unsupported('storing something else than a (r1, 2, 2, r2) core into a QTT-matrix list')
    return _orig_unwrap(ex, st, seq, v, node)


M.unwrap_elem = unwrap_elem


# ----------------------------------------------------------------------------------------------
# tensors.poly: cores whose slices are explicit 1 x 2 / 2 x 2 / 2 x 1 matrices, written slice by slice
m12 = z3.Function('m12', T.R, T.R, T.Mat)                       # np.array([[x, y]])
m21 = z3.Function('m21', T.R, T.R, T.Mat)                       # np.array([[x], [y]])
m22 = z3.Function('m22', T.R, T.R, T.R, T.R, T.Mat)             # np.array([[a, b], [c, e]])
csl = z3.Function('csl', T.Core, T.I, T.Mat, T.Core)            # G with G[:, j, :] = A
powf = z3.Function('powf', T.R, T.R, T.R)                       # x ** p for a symbolic exponent (uninterpreted, no axioms)
_a, _b, _c, _e, _x, _y = z3.Reals('a!s b!s c!s e!s x!s y!s')
_G = z3.Const('G!s', T.Core)
_A = z3.Const('A!s', T.Mat)
_j, _m = z3.Ints('j!s m!s')
T.GROUPS['small'] = [
    T.A([_x, _y], z3.And(T.rows(m12(_x, _y)) == 1, T.cols(m12(_x, _y)) == 2, T.ent(m12(_x, _y), 0, 0) == _x, T.ent(m12(_x, _y), 0, 1) == _y),
        [m12(_x, _y)]),
    T.A([_x, _y], z3.And(T.rows(m21(_x, _y)) == 2, T.cols(m21(_x, _y)) == 1, T.ent(m21(_x, _y), 0, 0) == _x, T.ent(m21(_x, _y), 1, 0) == _y),
        [m21(_x, _y)]),
    T.A([_a, _b, _c, _e], z3.And(T.rows(m22(_a, _b, _c, _e)) == 2, T.cols(m22(_a, _b, _c, _e)) == 2), [m22(_a, _b, _c, _e)]),
    T.A([_G, _j, _A], z3.And(T.d0(csl(_G, _j, _A)) == T.d0(_G), T.d1(csl(_G, _j, _A)) == T.d1(_G), T.d2(csl(_G, _j, _A)) == T.d2(_G)),
        [csl(_G, _j, _A)]),
    T.A([_G, _j, _A, _m], z3.Implies(z3.And(T.rows(_A) == T.d0(_G), T.cols(_A) == T.d2(_G), 0 <= _j, _j < T.d1(_G)),
                                     T.sl(csl(_G, _j, _A), _m) == z3.If(_m == _j, _A, T.sl(_G, _m))), [T.sl(csl(_G, _j, _A), _m)]),
    T.A([_x, _y, _a, _b, _c, _e], T.mm(m12(_x, _y), m22(_a, _b, _c, _e))
        == m12(T.rmul(_x, _a) + T.rmul(_y, _c), T.rmul(_x, _b) + T.rmul(_y, _e)), [T.mm(m12(_x, _y), m22(_a, _b, _c, _e))]),
    T.A([_x, _y, _a, _b], T.mm(m12(_x, _y), m21(_a, _b)) == T.sc(T.rmul(_x, _a) + T.rmul(_y, _b)), [T.mm(m12(_x, _y), m21(_a, _b))]),
]

_orig_power = M.power


def power(ex, st, a, b, node):
    try:
        return _orig_power(ex, st, a, b, node)
    except ContractMismatch:
        raise
    except Unsupported:
        if is_num(a) and is_num(b):
            used('x ** p for a symbolic exponent -> powf(x, p) (uninterpreted: only the identity of the term is used)')
            return powf(to_real(a), to_real(b))
        raise


M.power = power


def _nums(ex, st, v):
    """The numbers of a literal list [a, b, ...] (None if it is something else)."""
    v = st.deref(v)
    if isinstance(v, (VList, VTuple)) and v.items and all(is_num(x) for x in v.items):
        return [to_real(x) for x in v.items]
    return None


_orig_array3 = M.FUNCS['np.array']


def m_array3(ex, st, args, kwargs, node):
    if len(args) == 1 and not kwargs:
        v = st.deref(args[0])
        flat = _nums(ex, st, v)
        if flat is not None and len(flat) == 2:
            used('np.array([a, b]) -> the vector (a, b)')
            out = VArr((2,), None, 'lit1', 'f')
            out.lit = tuple(flat)
            return out
        if isinstance(v, (VList, VTuple)) and len(v.items) == 2:
            rows_ = [_nums(ex, st, r) for r in v.items]
            if all(r is not None and len(r) == 2 for r in rows_):
                used('np.array([[a, b], [c, e]]) -> the 2 x 2 matrix')
                out = VArr((2, 2), m22(rows_[0][0], rows_[0][1], rows_[1][0], rows_[1][1]), 'mat', 'f')
                out.lit = (tuple(rows_[0]), tuple(rows_[1]))
                return out
    return _orig_array3(ex, st, args, kwargs, node)


for _nm in ('np.array', 'np.asanyarray', 'np.asarray'):
    M.FUNCS[_nm] = m_array3

_orig_setitem2 = M.arr_setitem


def arr_setitem2(ex, st, b, sl_, v, node):
    if isinstance(b, VArr) and b.ndim == 3 and b.tag == 'core' and b.t is not None and isinstance(sl_, ast.Tuple) and len(sl_.elts) == 3 \
            and not isinstance(sl_.elts[1], ast.Slice):
        full = lambda e: isinstance(e, ast.Slice) and e.lower is None and e.upper is None and e.step is None
        e0, e1, e2 = sl_.elts
        val = st.deref(v)
        lit = getattr(val, 'lit', None) if isinstance(val, VArr) else None
        A_ = None
        if lit is not None and val.ndim == 1 and not isinstance(e0, ast.Slice) and full(e2) and ex.ev(e0, st) == 0:
            used('G[0, m, :] = (a, b) on a core with r1 = 1, r2 = 2 -> slice m becomes the row [[a, b]]')
            ex.oblige(st, 'call-pre', 'row-store-fills-the-whole-slice (r1 = 1, r2 = 2)', z3.And(Z(b.shape[0]) == 1, Z(b.shape[2]) == 2), node)
            A_ = m12(*lit)
        elif lit is not None and val.ndim == 1 and full(e0) and not isinstance(e2, ast.Slice) and ex.ev(e2, st) == 0:
            used('G[:, m, 0] = (a, b) on a core with r1 = 2, r2 = 1 -> slice m becomes the column [[a], [b]]')
            ex.oblige(st, 'call-pre', 'column-store-fills-the-whole-slice (r1 = 2, r2 = 1)', z3.And(Z(b.shape[0]) == 2, Z(b.shape[2]) == 1), node)
            A_ = m21(*lit)
        elif lit is not None and val.ndim == 2 and full(e0) and full(e2):
            used('G[:, m, :] = 2 x 2 matrix on a core with r1 = r2 = 2 -> slice m becomes that matrix')
            ex.oblige(st, 'call-pre', 'slice-assignment-shape-matches (r1 = 2, r2 = 2)', z3.And(Z(b.shape[0]) == 2, Z(b.shape[2]) == 2), node)
            A_ = val.t
        if A_ is not None:
            m = M.norm_index(ex, st, ex.need_num(st, ex.ev(e1, st), node), b.shape[1], node, 'mode-index')
            return VArr(b.shape, csl(b.t, Z(m), A_), 'core')
    return _orig_setitem2(ex, st, b, sl_, v, node)


M.arr_setitem = arr_setitem2
