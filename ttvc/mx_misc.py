"""Model-table entries for the units of contracts/misc.py (grid_prep_opt / grid_flat, matrix_delta, poly, the random
constructors, sample_rand / sample_square; C18, C19, C14, C10, C11).

Everything here follows the wrapping pattern of kr.py: the previous hook is kept and every pattern that is not recognised
falls through to it.  New value kinds:
  * constant / elementwise-mapped 1-D vectors ('rvec' / 'ivec' with a z3 array as denotation) for np.ones(d) * c,
    np.asanyarray(list), and the (1, n) row / (reps, n) repeated-row matrices built from them (tags 'rowmat', 'rowrep');
  * `TypeFn`: a Python type object that is also callable (`kind(opt)` next to `dtype=kind`);
  * `VStar`: a starred call argument (`f(*xs)`), accepted only by the models that expect it;
  * nested function definitions (`def f(size): return expr`) as closures over the current state.
"""
import ast
import z3
from ttvc import symex
from ttvc.symex import (Unsupported, ContractMismatch, NONE, VStr, VOpt, VTuple, VRef, VList, VSeq, VArr, VFunc, VOpaque, Z, is_num,
                        is_intsort, quick_unsat)
from ttvc import models as M, theory as T, vec as V, rnd as R
from ttvc.models import model, used, to_real

IA = z3.ArraySort(z3.IntSort(), z3.IntSort())
RA = z3.ArraySort(z3.IntSort(), z3.RealSort())
_i = z3.Int('i!m')


class TypeFn(M.TypeVal, VFunc):
    """`int` / `float` passed as a parameter: usable as dtype (TypeVal) and callable (`kind(opt)` -> int(opt) / float(opt))."""
    def __init__(self, name):
        M.TypeVal.__init__(self, name)
        self.handler = lambda ex, st, args, kwargs, node: M.FUNCS[name](ex, st, args, kwargs, node)


class VStar:
    """`*xs` in a call: the sequence value, unpacked by the callee model."""
    def __init__(self, value):
        self.value = value


def _ev_Starred(self, e, st):
    return VStar(self.ev(e.value, st))


if not hasattr(symex.Exec, 'ev_Starred'):
    symex.Exec.ev_Starred = _ev_Starred


# ----------------------------------------------------------------------------------------------
# nested function definitions:  def f(a, b): return <expr>      (closures of tensors.rand / rand_norm / poly)

def _st_FunctionDef(self, s, st):
    body = [b for b in s.body if not (isinstance(b, ast.Expr) and isinstance(b.value, ast.Constant))]
    if len(body) != 1 or not isinstance(body[0], ast.Return) or body[0].value is None or s.args.defaults or s.args.vararg \
            or s.args.kwarg or s.args.kwonlyargs or s.decorator_list:
        raise Unsupported(f'nested function {s.name} is not of the form `def f(args): return expr` (line {s.lineno})')
    params = [a.arg for a in s.args.args]
    expr = body[0].value

    def handler(ex, st_, args, kwargs, node, params=params, expr=expr, name=s.name):
        if kwargs or len(args) != len(params):
            raise Unsupported(f'call of the local function {name} with keywords / wrong arity')
        used('local `def f(args): return expr` -> the expression evaluated in the enclosing scope at call time (closure)')
        saved = {p: st_.vars[p] for p in params if p in st_.vars}
        for p, a in zip(params, args):
            st_.vars[p] = a
        try:
            return ex.ev(expr, st_)
        finally:
            for p in params:
                if p in saved:
                    st_.vars[p] = saved[p]
                else:
                    st_.vars.pop(p, None)

    st.vars[s.name] = VFunc('local:' + s.name, handler)
    return [(st, symex.NORMAL)]


if not hasattr(symex.Exec, 'st_FunctionDef'):
    symex.Exec.st_FunctionDef = _st_FunctionDef


# ----------------------------------------------------------------------------------------------
# 1-D vectors with a denotation

def rvec(n, arr, dtype='f'):
    return V.RVec(n, arr, (), 'rvec', dtype)


def ivec(n, arr, dtype='i'):
    return VArr((n,), arr, 'ivec', dtype)


def is_vec1(v):
    return isinstance(v, VArr) and v.ndim == 1 and v.tag in ('rvec', 'ivec') and v.t is not None and not callable(v.t)


def _num(ex, st, v, node):
    return ex.need_num(st, v, node) if isinstance(v, VOpt) else v


_orig_ones = M.FUNCS['np.ones']


@model('np.ones')
def m_ones(ex, st, args, kwargs, node):
    a0 = _num(ex, st, args[0], node) if args else None
    if len(args) == 1 and is_num(a0) and set(kwargs) <= {'dtype'} and ast.unparse(node.func) == 'np.ones':
        dt = kwargs.get('dtype', M.TypeVal('float'))
        if isinstance(dt, M.TypeVal) and dt.name in ('int', 'float'):
            used('np.ones(d, dtype) for a number d -> vector of d ones (requires d >= 0)')
            ex.oblige(st, 'call-pre', 'non-negative-dimension', Z(a0) >= 0, node)
            if dt.name == 'int':
                return ivec(a0, z3.K(z3.IntSort(), z3.IntVal(1)))
            return rvec(a0, z3.K(z3.IntSort(), z3.RealVal(1)))
    return _orig_ones(ex, st, args, kwargs, node)


_orig_binop = M.arr_binop


def arr_binop(ex, st, op, l, r, node):
    if isinstance(op, ast.Mult):
        a, c = (l, r) if isinstance(l, VArr) else (r, l)
        if is_vec1(a) and not isinstance(c, VArr) and a.tag == 'ivec' and a.dtype == 'i':
            c = ex.need_num(st, c, node)
            if is_intsort(c):
                used('integer vector * integer -> elementwise product')
                arr = ex.fresh('ivscaled', IA)
                st.assume(z3.ForAll([_i], arr[_i] == a.t[_i] * Z(c), patterns=[arr[_i]]))
                return ivec(a.shape[0], arr)
            used('integer vector * float -> elementwise product (float result)')
            arr = ex.fresh('scaled', RA)
            st.assume(z3.ForAll([_i], arr[_i] == z3.ToReal(a.t[_i]) * to_real(c), patterns=[arr[_i]]))
            return rvec(a.shape[0], arr)
        if is_vec1(a) and a.tag == 'rvec' and not isinstance(c, VArr) and a is r:
            return _orig_binop(ex, st, op, r, l, node)          # c * v  ==  v * c  (elementwise)
    return _orig_binop(ex, st, op, l, r, node)


M.arr_binop = arr_binop

_orig_array = M.FUNCS['np.asanyarray']


def m_array(ex, st, args, kwargs, node):
    v = st.deref(args[0]) if args else None
    dt = kwargs.get('dtype')
    dn = dt.name if isinstance(dt, M.TypeVal) else None
    if len(args) == 1 and set(kwargs) <= {'dtype'} and (dt is None or dn in ('int', 'float')):
        if isinstance(v, VSeq) and v.tag == 'real':
            if dn == 'int':
                used('np.asanyarray(list of floats, dtype=int) -> elementwise truncation toward zero')
                arr = ex.fresh('trunc', IA)
                x = v.arr[_i]
                st.assume(z3.ForAll([_i], arr[_i] == z3.If(x >= 0, z3.ToInt(x), -z3.ToInt(-x)), patterns=[arr[_i]]))
                return ivec(v.n, arr)
            used('np.asanyarray(list of floats) -> vector with the same elements')
            return rvec(v.n, v.arr)
        if isinstance(v, VSeq) and v.tag == 'int' and dn == 'float':
            used('np.asanyarray(list of ints, dtype=float) -> vector with the same (converted) elements')
            arr = ex.fresh('tofloat', RA)
            st.assume(z3.ForAll([_i], arr[_i] == z3.ToReal(v.arr[_i]), patterns=[arr[_i]]))
            return rvec(v.n, arr)
        if is_vec1(v) and v.tag == 'rvec':
            if dn == 'int':
                used('np.asanyarray(float vector, dtype=int) -> elementwise truncation toward zero')
                arr = ex.fresh('trunc', IA)
                x = v.t[_i]
                st.assume(z3.ForAll([_i], arr[_i] == z3.If(x >= 0, z3.ToInt(x), -z3.ToInt(-x)), patterns=[arr[_i]]))
                return ivec(v.shape[0], arr)
            used('np.asanyarray(vector) -> the same vector')
            return rvec(v.shape[0], v.t)
        if is_vec1(v) and v.tag == 'ivec' and dn == 'float':
            used('np.asanyarray(int vector, dtype=float) -> vector with the same (converted) elements')
            arr = ex.fresh('tofloat', RA)
            st.assume(z3.ForAll([_i], arr[_i] == z3.ToReal(v.t[_i]), patterns=[arr[_i]]))
            return rvec(v.shape[0], arr)
    return _orig_array(ex, st, args, kwargs, node)


for _n in ('np.array', 'np.asanyarray', 'np.asarray'):
    M.FUNCS[_n] = m_array


# ---- (reps, n) repeated rows of a (1, n) row view (the row view itself: _reshape_row / method2 below)
_orig_repeat = M.FUNCS.get('np.repeat')


@model('np.repeat')
def m_repeat(ex, st, args, kwargs, node):
    a = st.deref(args[0]) if args else None
    if isinstance(a, VArr) and a.tag == 'rowmat' and len(args) == 2 and kwargs.get('axis') == 0 and set(kwargs) == {'axis'}:
        c = ex.need_num(st, args[1], node)
        used('np.repeat(row (1 x n), reps, axis=0) -> reps x n matrix whose rows all equal the row (requires integer reps >= 0)')
        ex.oblige(st, 'call-pre', 'repeat-count-is-an-integer', z3.BoolVal(is_intsort(c)), node)
        ex.oblige(st, 'call-pre', 'repeat-count-non-negative', Z(c) >= 0, node)
        out = VArr((c, a.shape[1]), None, 'rowrep', a.dtype)
        out.vec = a.vec
        return out
    if _orig_repeat is None:
        raise Unsupported('np.repeat pattern')
    return _orig_repeat(ex, st, args, kwargs, node)


# ----------------------------------------------------------------------------------------------
# grid_flat:  [np.arange(k).reshape(1, -1) for k in n] -> np.meshgrid(*I, indexing=..) -> np.array(..).reshape((d, -1), order=..) -> .T
#
# pprod(n, k) = n[0] * ... * n[k-1]  (prefix products of the mode sizes, in the engine's product abstraction mulI)
pprod = z3.Function('pprod', T.IDX, z3.IntSort(), z3.IntSort())
sprod = z3.Function('sprod', T.IDX, z3.IntSort(), z3.IntSort(), z3.IntSort())     # sprod(n, d, k) = n[k+1] * ... * n[d-1]  (no axioms: C order only shows up in wrong code)
_n = z3.Const('n!g', T.IDX)
_k, _k2 = z3.Ints('k!g k2!g')
T.GROUPS['pprod'] = [
    T.A([_n], pprod(_n, 0) == 1, [pprod(_n, 0)]),
    T.A([_n, _k, _k2], z3.Implies(z3.And(_k >= 0, _k2 == _k + 1), pprod(_n, _k2) == T.mulI(pprod(_n, _k), _n[_k])),
        [z3.MultiPattern(pprod(_n, _k), pprod(_n, _k2))]),
]

_orig_arange = M.FUNCS['np.arange']


@model('np.arange')
def m_arange(ex, st, args, kwargs, node):
    out = _orig_arange(ex, st, args, kwargs, node)
    if isinstance(out, VArr) and out.ndim == 1 and len(args) == 1 and not kwargs:
        out.arange_n = Z(out.shape[0])
    return out


def _reshape_row(ex, st, r, args, kwargs):
    """v.reshape((1, -1)) / v.reshape(1, -1) of a vector with a denotation -> the 1 x n row view, else None."""
    if kwargs or not is_vec1(r):
        return None
    if len(args) == 1:
        shp = st.deref(args[0])
        items = shp.items if isinstance(shp, (VTuple, VList)) else None
    else:
        items = list(args)
    if items is None or len(items) != 2 or not (isinstance(items[0], int) and items[0] == 1 and isinstance(items[1], int) and items[1] == -1):
        return None
    used('v.reshape((1, -1)) -> the vector as a 1 x n row')
    out = VArr((1, r.shape[0]), None, 'rowmat', r.dtype)
    out.vec = r
    return out


class VMeshList:
    """Result of np.meshgrid(*rows, indexing=..) for rows that are aranges: d arrays of the common shape lens (permuted for 'xy'),
    array k holds the index along its own axis."""
    def __init__(self, lens, d, indexing):
        self.lens, self.d, self.indexing = lens, d, indexing


class VGridStack:
    """np.array(meshgrid list): shape (d, m_0, ..., m_{d-1})."""
    def __init__(self, mesh, dtype):
        self.mesh, self.dtype = mesh, dtype


def grid_elem(g, t, k):
    """Entry of the 'gridmat' array g at flat position t for component k (X[k, t], or I[t, k] after .T)."""
    lens, d = g.lens, g.d
    if g.indexing == 'ij':
        m, ax = lens, k
    else:                       # 'xy': the first two axes are swapped (for d >= 2)
        m = z3.If(d >= 2, z3.Store(z3.Store(lens, 0, lens[1]), 1, lens[0]), lens)
        ax = z3.If(d >= 2, z3.If(k == 0, 1, z3.If(k == 1, 0, k)), k)
    if g.order == 'F':
        return (t / pprod(m, ax)) % lens[k]
    return (t / sprod(m, d, ax)) % lens[k]


_orig_listcomp = M.listcomp


def listcomp(ex, st, e):
    g = e.generators[0] if len(e.generators) == 1 else None
    if g is None or g.ifs or not any(isinstance(x, ast.Call) and ast.unparse(x.func) == 'np.arange' for x in ast.walk(e.elt)):
        return _orig_listcomp(ex, st, e)
    it = M.iteration(ex, st, g.iter, e)
    if it.concrete is not None:
        return _orig_listcomp(ex, st, e)
    npc, nobl, assumed, saved = len(st.pc), len(st.obl), set(st.assumed), dict(st.vars)
    j = ex.fresh_int('lc')
    st.pc.append(z3.And(j >= 0, j < it.n))
    try:
        cur = it.bind(ex, st, j)
        ex.assign(g.target, cur, st)
        elt = st.deref(ex.ev(e.elt, st))
    except Unsupported:
        elt = None
    finally:
        for k in list(st.vars):
            if k not in saved:
                del st.vars[k]
            else:
                st.vars[k] = saved[k]
    vecv = getattr(elt, 'vec', None) if isinstance(elt, VArr) and elt.tag == 'rowmat' else None
    an = getattr(vecv, 'arange_n', None)
    if an is None:
        del st.pc[npc:]
        del st.obl[nobl:]
        st.assumed.clear()
        st.assumed.update(assumed)
        return _orig_listcomp(ex, st, e)
    guard, added = st.pc[npc], st.pc[npc + 1:]
    del st.pc[npc:]
    for f in added:
        st.pc.append(z3.Implies(guard, f) if (f.get_id() in st.assumed or M._mentions(f, j)) else f)
    used('[np.arange(k).reshape(1, -1) for k in n] -> list of index rows 0..k-1, one per mode')
    src = st.deref(ex.ev(g.iter, st))
    base = src.arr if isinstance(src, VSeq) and src.tag == 'int' else (src.t if is_vec1(src) else None)
    if base is not None and is_intsort(cur) and z3.eq(z3.simplify(an), z3.simplify(Z(cur))):
        lens = base                        # arange(k) for the iterated k itself: the lengths are the iterated sequence
    else:
        lens = ex.fresh('lens', IA)
        st.assume(z3.ForAll([j], z3.Implies(z3.And(j >= 0, j < it.n), lens[j] == an), patterns=[lens[j]]))
    return st.alloc(VSeq(lens, it.n, lambda t: VOpaque('index row'), tag='aranges'))


M.listcomp = listcomp


@model('np.meshgrid')
def m_meshgrid(ex, st, args, kwargs, node):
    if len(args) != 1 or not isinstance(args[0], VStar) or not set(kwargs) <= {'indexing'}:
        raise Unsupported('np.meshgrid calling pattern')
    rows = st.deref(args[0].value)
    if not (isinstance(rows, VSeq) and rows.tag == 'aranges'):
        raise Unsupported('np.meshgrid of other than a list of index rows')
    ind = kwargs.get('indexing', VStr('xy'))
    ind = ind.concrete() if isinstance(ind, VStr) else None
    if ind not in ('ij', 'xy'):
        raise Unsupported('np.meshgrid indexing')
    used("np.meshgrid(*rows, indexing='ij'|'xy') of index rows 0..n_k-1 -> d arrays of shape (n_0, .., n_{d-1}) (first two axes swapped "
         "for 'xy'), array k holding the index i_k of its own axis (inputs are flattened)")
    return VMeshList(rows.arr, rows.n, ind)


_orig_array2 = M.FUNCS['np.array']


def m_array2(ex, st, args, kwargs, node):
    v = st.deref(args[0]) if args else None
    if isinstance(v, VMeshList) and len(args) == 1 and set(kwargs) <= {'dtype'}:
        dt = kwargs.get('dtype')
        used('np.array(list of d equally shaped arrays) -> one array with a new leading axis of length d')
        return VGridStack(v, 'i' if isinstance(dt, M.TypeVal) and dt.name == 'int' else 'f')
    return _orig_array2(ex, st, args, kwargs, node)


for _nm in ('np.array', 'np.asanyarray', 'np.asarray'):
    M.FUNCS[_nm] = m_array2

_orig_method2 = M.method


def method2(ex, st, recv, name, args, kwargs, node):
    r = st.deref(recv)
    if name == 'reshape':
        row = _reshape_row(ex, st, r, args, kwargs)
        if row is not None:
            return row
    if isinstance(r, VGridStack):
        if name != 'reshape' or len(args) != 1 or not set(kwargs) <= {'order'}:
            raise Unsupported(f'method .{name} on the stacked index grids')
        shp = st.deref(args[0])
        order = kwargs.get('order', VStr('C'))
        order = order.concrete() if isinstance(order, VStr) else None
        if not (isinstance(shp, (VTuple, VList)) and len(shp.items) == 2 and isinstance(shp.items[1], int) and shp.items[1] == -1) \
                or order not in ('C', 'F'):
            raise Unsupported('reshape pattern of the stacked index grids')
        a = Z(ex.need_num(st, shp.items[0], node))
        used("stack.reshape((d, -1), order) of a (d, m_0, .., m_{d-1}) array -> d x prod(m) matrix; order='F': column t holds the entries at "
             "the multi-index whose FIRST component runs fastest (i_k = (t div prod(m[:k])) mod m_k), order='C': last component fastest")
        ex.oblige(st, 'call-pre', 'reshape-keeps-the-leading-axis-of-length-d', a == r.mesh.d, node)
        out = VArr((r.mesh.d, pprod(r.mesh.lens, r.mesh.d)), None, 'gridmat', r.dtype)
        out.lens, out.d, out.indexing, out.order, out.transposed = r.mesh.lens, r.mesh.d, r.mesh.indexing, order, False
        return out
    return _orig_method2(ex, st, recv, name, args, kwargs, node)


M.method = method2
_orig_attribute = M.attribute


def attribute(ex, st, v, attr, node):
    if isinstance(v, VArr) and v.tag == 'gridmat' and attr == 'T':
        used('ndarray.T of a matrix -> transposed')
        out = VArr((v.shape[1], v.shape[0]), None, 'gridmat', v.dtype)
        out.lens, out.d, out.indexing, out.order, out.transposed = v.lens, v.d, v.indexing, v.order, not v.transposed
        return out
    return _orig_attribute(ex, st, v, attr, node)


M.attribute = attribute


# ----------------------------------------------------------------------------------------------
# QTT-matrix cores (matrices.matrix_delta): a 4-D array of shape (r1, m, n, r2) is denoted by the 3-D core of shape (r1, m*n, r2)
# obtained by merging the two mode axes in C order:  G4[a, i, j, b] = G3[a, n*i + j, b].  The chain over the merged indices
# ix[k] = n*i_k + j_k is the entry of the TT-matrix at row multi-index i, column multi-index j.

def mk_mcore22(t):
    return VArr((T.d0(t), 2, 2, T.d2(t)), t, 'mcore')


_orig_zeros = M.FUNCS['np.zeros']


@model('np.zeros')
def m_zeros4(ex, st, args, kwargs, node):
    if len(args) == 1 and not kwargs and ast.unparse(node.func) == 'np.zeros':
        shp = st.deref(args[0])
        if isinstance(shp, (VTuple, VList)) and len(shp.items) == 4 and all(is_num(x) for x in shp.items) \
                and isinstance(shp.items[1], int) and isinstance(shp.items[2], int):
            r1, m, n, r2 = shp.items
            used('np.zeros((r1, m, n, r2)) -> zero TT-matrix core, denoted by the 3-D zero core with the merged mode index n*i + j')
            for s_ in (r1, r2):
                ex.oblige(st, 'call-pre', 'non-negative-dimension', Z(s_) >= 0, node)
            return VArr((r1, m, n, r2), T.zc(Z(r1), Z(m * n), Z(r2)), 'mcore')
    return _orig_zeros(ex, st, args, kwargs, node)


_orig_setitem = M.arr_setitem


def arr_setitem(ex, st, b, sl_, v, node):
    if isinstance(b, VArr) and b.tag == 'mcore' and b.ndim == 4 and b.t is not None and isinstance(sl_, ast.Tuple) and len(sl_.elts) == 4 \
            and not any(isinstance(e, ast.Slice) for e in sl_.elts) and isinstance(b.shape[2], int):
        i0, i3 = ex.ev(sl_.elts[0], st), ex.ev(sl_.elts[3], st)
        if i0 == 0 and i3 == 0:
            used('G[0, i, j, 0] = x on a TT-matrix core with r1 = r2 = 1 -> cset(G, n*i + j, x)')
            ex.oblige(st, 'call-pre', 'element-store-on-a-rank-one-core', z3.And(Z(b.shape[0]) == 1, Z(b.shape[3]) == 1), node)
            i = M.norm_index(ex, st, ex.need_num(st, ex.ev(sl_.elts[1], st), node), b.shape[1], node, 'row-mode-index')
            j = M.norm_index(ex, st, ex.need_num(st, ex.ev(sl_.elts[2], st), node), b.shape[2], node, 'column-mode-index')
            x = to_real(ex.need_num(st, v, node))
            return VArr(b.shape, T.cset(b.t, b.shape[2] * Z(i) + Z(j), x), 'mcore')
    return _orig_setitem(ex, st, b, sl_, v, node)


M.arr_setitem = arr_setitem
_orig_empty_seq = M.empty_seq


def empty_seq(ex, st, kind):
    if kind == 'qttm':          # list of 4-D TT-matrix cores with mode sizes 2 x 2
        return st.alloc(VSeq(ex.fresh('empty', T.TT), z3.IntVal(0), mk_mcore22, tag='mcore22'))
    return _orig_empty_seq(ex, st, kind)


M.empty_seq = empty_seq
_orig_unwrap = M.unwrap_elem


def unwrap_elem(ex, st, seq, v, node):
    if seq.tag == 'mcore22':
        v = st.deref(v)
        if isinstance(v, VArr) and v.tag == 'mcore' and v.ndim == 4 and v.t is not None and v.shape[1] == 2 and v.shape[2] == 2:
            return v.t
        raise Unsupported('storing something else than a (r1, 2, 2, r2) core into a QTT-matrix list')
    return _orig_unwrap(ex, st, seq, v, node)


M.unwrap_elem = unwrap_elem


# ----------------------------------------------------------------------------------------------
# tensors.poly: cores whose slices are explicit 1 x 2 / 2 x 2 / 2 x 1 matrices, written slice by slice
m12 = z3.Function('m12', T.R, T.R, T.Mat)                       # np.array([[x, y]])
m21 = z3.Function('m21', T.R, T.R, T.Mat)                       # np.array([[x], [y]])
m22 = z3.Function('m22', T.R, T.R, T.R, T.R, T.Mat)             # np.array([[a, b], [c, e]])
csl = z3.Function('csl', T.Core, T.I, T.Mat, T.Core)            # G with G[:, j, :] = A
powf = z3.Function('powf', T.R, T.R, T.R)                       # x ** p for a symbolic exponent (uninterpreted, no axioms)
_a, _b, _c, _e, _x, _y = z3.Reals('a!s b!s c!s e!s x!s y!s')
_G = z3.Const('G!s', T.Core)
_A = z3.Const('A!s', T.Mat)
_j, _m = z3.Ints('j!s m!s')
T.GROUPS['small'] = [
    T.A([_x, _y], z3.And(T.rows(m12(_x, _y)) == 1, T.cols(m12(_x, _y)) == 2, T.ent(m12(_x, _y), 0, 0) == _x, T.ent(m12(_x, _y), 0, 1) == _y),
        [m12(_x, _y)]),
    T.A([_x, _y], z3.And(T.rows(m21(_x, _y)) == 2, T.cols(m21(_x, _y)) == 1, T.ent(m21(_x, _y), 0, 0) == _x, T.ent(m21(_x, _y), 1, 0) == _y),
        [m21(_x, _y)]),
    T.A([_a, _b, _c, _e], z3.And(T.rows(m22(_a, _b, _c, _e)) == 2, T.cols(m22(_a, _b, _c, _e)) == 2), [m22(_a, _b, _c, _e)]),
    T.A([_G, _j, _A], z3.And(T.d0(csl(_G, _j, _A)) == T.d0(_G), T.d1(csl(_G, _j, _A)) == T.d1(_G), T.d2(csl(_G, _j, _A)) == T.d2(_G)),
        [csl(_G, _j, _A)]),
    T.A([_G, _j, _A, _m], z3.Implies(z3.And(T.rows(_A) == T.d0(_G), T.cols(_A) == T.d2(_G), 0 <= _j, _j < T.d1(_G)),
                                     T.sl(csl(_G, _j, _A), _m) == z3.If(_m == _j, _A, T.sl(_G, _m))), [T.sl(csl(_G, _j, _A), _m)]),
    T.A([_x, _y, _a, _b, _c, _e], T.mm(m12(_x, _y), m22(_a, _b, _c, _e))
        == m12(T.rmul(_x, _a) + T.rmul(_y, _c), T.rmul(_x, _b) + T.rmul(_y, _e)), [T.mm(m12(_x, _y), m22(_a, _b, _c, _e))]),
    T.A([_x, _y, _a, _b], T.mm(m12(_x, _y), m21(_a, _b)) == T.sc(T.rmul(_x, _a) + T.rmul(_y, _b)), [T.mm(m12(_x, _y), m21(_a, _b))]),
]

_orig_power = M.power


def power(ex, st, a, b, node):
    try:
        return _orig_power(ex, st, a, b, node)
    except ContractMismatch:
        raise
    except Unsupported:
        if is_num(a) and is_num(b):
            used('x ** p for a symbolic exponent -> powf(x, p) (uninterpreted: only the identity of the term is used)')
            return powf(to_real(a), to_real(b))
        raise


M.power = power


def _nums(ex, st, v):
    """The numbers of a literal list [a, b, ...] (None if it is something else)."""
    v = st.deref(v)
    if isinstance(v, (VList, VTuple)) and v.items and all(is_num(x) for x in v.items):
        return [to_real(x) for x in v.items]
    return None


_orig_array3 = M.FUNCS['np.array']


def m_array3(ex, st, args, kwargs, node):
    if len(args) == 1 and not kwargs:
        v = st.deref(args[0])
        flat = _nums(ex, st, v)
        if flat is not None and len(flat) == 2:
            used('np.array([a, b]) -> the vector (a, b)')
            out = VArr((2,), None, 'lit1', 'f')
            out.lit = tuple(flat)
            return out
        if isinstance(v, (VList, VTuple)) and len(v.items) == 2:
            rows_ = [_nums(ex, st, r) for r in v.items]
            if all(r is not None and len(r) == 2 for r in rows_):
                used('np.array([[a, b], [c, e]]) -> the 2 x 2 matrix')
                out = VArr((2, 2), m22(rows_[0][0], rows_[0][1], rows_[1][0], rows_[1][1]), 'mat', 'f')
                out.lit = (tuple(rows_[0]), tuple(rows_[1]))
                return out
    return _orig_array3(ex, st, args, kwargs, node)


for _nm in ('np.array', 'np.asanyarray', 'np.asarray'):
    M.FUNCS[_nm] = m_array3

_orig_setitem2 = M.arr_setitem


def arr_setitem2(ex, st, b, sl_, v, node):
    if isinstance(b, VArr) and b.ndim == 3 and b.tag == 'core' and b.t is not None and isinstance(sl_, ast.Tuple) and len(sl_.elts) == 3 \
            and not isinstance(sl_.elts[1], ast.Slice):
        full = lambda e: isinstance(e, ast.Slice) and e.lower is None and e.upper is None and e.step is None
        e0, e1, e2 = sl_.elts
        val = st.deref(v)
        lit = getattr(val, 'lit', None) if isinstance(val, VArr) else None
        A_ = None
        if lit is not None and val.ndim == 1 and not isinstance(e0, ast.Slice) and full(e2) and ex.ev(e0, st) == 0:
            used('G[0, m, :] = (a, b) on a core with r1 = 1, r2 = 2 -> slice m becomes the row [[a, b]]')
            ex.oblige(st, 'call-pre', 'row-store-fills-the-whole-slice (r1 = 1, r2 = 2)', z3.And(Z(b.shape[0]) == 1, Z(b.shape[2]) == 2), node)
            A_ = m12(*lit)
        elif lit is not None and val.ndim == 1 and full(e0) and not isinstance(e2, ast.Slice) and ex.ev(e2, st) == 0:
            used('G[:, m, 0] = (a, b) on a core with r1 = 2, r2 = 1 -> slice m becomes the column [[a], [b]]')
            ex.oblige(st, 'call-pre', 'column-store-fills-the-whole-slice (r1 = 2, r2 = 1)', z3.And(Z(b.shape[0]) == 2, Z(b.shape[2]) == 1), node)
            A_ = m21(*lit)
        elif lit is not None and val.ndim == 2 and full(e0) and full(e2):
            used('G[:, m, :] = 2 x 2 matrix on a core with r1 = r2 = 2 -> slice m becomes that matrix')
            ex.oblige(st, 'call-pre', 'slice-assignment-shape-matches (r1 = 2, r2 = 2)', z3.And(Z(b.shape[0]) == 2, Z(b.shape[2]) == 2), node)
            A_ = val.t
        if A_ is not None:
            m = M.norm_index(ex, st, ex.need_num(st, ex.ev(e1, st), node), b.shape[1], node, 'mode-index')
            return VArr(b.shape, csl(b.t, Z(m), A_), 'core')
    return _orig_setitem2(ex, st, b, sl_, v, node)


M.arr_setitem = arr_setitem2


# ----------------------------------------------------------------------------------------------
# tensors.rand_custom: integer vectors (products, concatenation with a literal head, cumulative sums) and the flat random
# vector that is cut into Fortran-ordered cores
fcut = z3.Function('fcut', RA, T.I, T.I, T.I, T.I, T.Core)     # np.reshape(v[lo:lo+a*b*c], (a, b, c), order='F')
fcutC = z3.Function('fcutC', RA, T.I, T.I, T.I, T.I, T.Core)   # the same in C order (only shows up in wrong code)
_v = z3.Const('v!f', RA)
_lo, _p, _q, _r = z3.Ints('lo!f p!f q!f r!f')
T.GROUPS['fcut'] = [
    T.A([_v, _lo, _p, _q, _r], z3.And(T.d0(fcut(_v, _lo, _p, _q, _r)) == _p, T.d1(fcut(_v, _lo, _p, _q, _r)) == _q,
                                      T.d2(fcut(_v, _lo, _p, _q, _r)) == _r), [fcut(_v, _lo, _p, _q, _r)]),
    T.A([_v, _lo, _p, _q, _r], z3.And(T.d0(fcutC(_v, _lo, _p, _q, _r)) == _p, T.d1(fcutC(_v, _lo, _p, _q, _r)) == _q,
                                      T.d2(fcutC(_v, _lo, _p, _q, _r)) == _r), [fcutC(_v, _lo, _p, _q, _r)]),
]


def _groupings(fs):
    """All ways of writing the product of 2 or 3 dimension terms with the binary mulI (the real product is associative and
    commutative; mulI only knows commutativity)."""
    if len(fs) == 2:
        return [T.mulI(fs[0], fs[1])]
    a, b, c = fs
    return [T.mulI(T.mulI(a, b), c), T.mulI(T.mulI(a, c), b), T.mulI(T.mulI(b, c), a)]


_orig_binop3 = M.arr_binop


def arr_binop3(ex, st, op, l, r, node):
    if isinstance(op, ast.Mult) and is_vec1(l) and is_vec1(r) and l.tag == 'ivec' and r.tag == 'ivec' and l.dtype == 'i' and r.dtype == 'i':
        fs = list(getattr(l, 'factors', [l.t])) + list(getattr(r, 'factors', [r.t]))
        if len(fs) <= 3:
            used('integer vector * integer vector -> elementwise product (requires equal lengths), in the product abstraction mulI')
            ex.oblige(st, 'call-pre', 'elementwise-shapes-agree', Z(l.shape[0]) == Z(r.shape[0]), node)
            arr = ex.fresh('ivprod', IA)
            st.assume(z3.ForAll([_i], z3.And([arr[_i] == g for g in _groupings([f[_i] for f in fs])]), patterns=[arr[_i]]))
            out = ivec(l.shape[0], arr)
            out.factors = fs
            out.pos = bool(getattr(l, 'pos', False) and getattr(r, 'pos', False))       # flag of ttvc/shp.py (entries >= 1)
            return out
    return _orig_binop3(ex, st, op, l, r, node)


M.arr_binop = arr_binop3
_orig_concat = M.FUNCS['np.concatenate']


@model('np.concatenate')
def m_concat_head(ex, st, args, kwargs, node):
    parts = st.deref(args[0]) if args else None
    if isinstance(parts, (VList, VTuple)) and len(parts.items) == 2 and not kwargs and len(args) == 1:
        head, tail = [st.deref(x) for x in parts.items]
        if isinstance(head, VList) and head.items and all(isinstance(x, int) for x in head.items) and is_vec1(tail) and tail.tag == 'ivec':
            used('np.concatenate(([c0, ..], v)) -> the literal head followed by the elements of v')
            m = len(head.items)
            arr = ex.fresh('cat', IA)
            for k, x in enumerate(head.items):
                st.assume(arr[k] == x)
            st.assume(z3.ForAll([_i], z3.Implies(_i >= m, arr[_i] == tail.t[_i - m]), patterns=[arr[_i]]))
            return ivec(Z(tail.shape[0]) + m, arr)
    return _orig_concat(ex, st, args, kwargs, node)


_orig_cumsum = M.FUNCS['np.cumsum']


@model('np.cumsum')
def m_cumsum_int(ex, st, args, kwargs, node):
    v = st.deref(args[0]) if args else None
    if is_vec1(v) and v.tag == 'ivec' and len(args) == 1 and not kwargs:
        used('np.cumsum(v) -> c with c[0] = v[0], c[t+1] = c[t] + v[t+1]; non-decreasing if every element of v is >= 0')
        n = Z(v.shape[0])
        c = ex.fresh('cum', IA)
        i2 = z3.Int('i2!m')
        st.assume(c[0] == v.t[0])
        st.assume(z3.ForAll([_i, i2], z3.Implies(z3.And(0 <= _i, i2 == _i + 1), c[i2] == c[_i] + v.t[i2]), patterns=[z3.MultiPattern(c[_i], c[i2])]))
        st.assume(z3.Implies(z3.ForAll([_i], z3.Implies(z3.And(0 <= _i, _i < n), v.t[_i] >= 0), patterns=[v.t[_i]]),
                             z3.ForAll([_i, i2], z3.Implies(z3.And(0 <= _i, _i <= i2, i2 < n), c[_i] <= c[i2]), patterns=[z3.MultiPattern(c[_i], c[i2])])))
        return ivec(v.shape[0], c)
    return _orig_cumsum(ex, st, args, kwargs, node)


_orig_method3 = M.method


def method3(ex, st, recv, name, args, kwargs, node):
    r = st.deref(recv)
    if name == 'astype' and is_vec1(r) and r.tag == 'ivec' and r.dtype == 'i' and len(args) == 1 and not kwargs \
            and isinstance(args[0], M.TypeVal) and args[0].name == 'int':
        used('int_vector.astype(int) -> the same vector')
        return r
    return _orig_method3(ex, st, recv, name, args, kwargs, node)


M.method = method3
_orig_index = M.arr_index


def arr_index(ex, st, a, sl_, node):
    if is_vec1(a) and a.tag == 'rvec' and isinstance(sl_, ast.Slice) and sl_.step is None and sl_.lower is not None and sl_.upper is not None:
        lo = ex.need_num(st, ex.ev(sl_.lower, st), node)
        hi = ex.need_num(st, ex.ev(sl_.upper, st), node)
        if is_intsort(lo) and is_intsort(hi):
            used('v[lo:hi] of a float vector -> the block of hi - lo consecutive elements starting at lo (0 <= lo <= hi <= len required here)')
            ex.oblige(st, 'restriction', 'slice-in-range', z3.And(Z(lo) >= 0, Z(lo) <= Z(hi), Z(hi) <= Z(a.shape[0])), node)
            out = VArr((Z(hi) - Z(lo),), None, 'flatcut', a.dtype)
            out.base, out.lo = a.t, Z(lo)
            return out
    return _orig_index(ex, st, a, sl_, node)


M.arr_index = arr_index
_orig_reshape = M.reshape


def reshape(ex, st, a, shp, order, node):
    if isinstance(a, VArr) and a.tag == 'flatcut':
        dims = M.shape_arg(ex, st, shp, node)
        o = order.concrete() if isinstance(order, VStr) else None
        if len(dims) == 3 and all(is_intsort(x) and not (isinstance(x, int) and x < 0) for x in dims) and o in ('F', 'C'):
            used("block.reshape((a, b, c), order) of a block of a flat vector -> the core filled in that order; the size must be preserved")
            ex.oblige(st, 'call-pre', 'reshape-preserves-size', Z(a.shape[0]) == T.mul_canon(*dims), node)
            t = (fcut if o == 'F' else fcutC)(a.base, a.lo, Z(dims[0]), Z(dims[1]), Z(dims[2]))
            return VArr(tuple(dims), t, 'core')
        raise Unsupported('reshape pattern of a block of the flat vector')
    return _orig_reshape(ex, st, a, shp, order, node)


M.reshape = reshape


# ----------------------------------------------------------------------------------------------
# draws from a numpy Generator (ttvc/rnd.py: VGen): every draw is appended to the draw log  st.ghost['drawlog']  as a dict
# (gen, method, params, shape, out, idx); idx = st.ghost['ndraw'] (z3 Int, position of the draw in the stream of this run)

def log_draw(st, gen, method_, params, shape, out):
    idx = st.ghost.get('ndraw', z3.IntVal(0))
    st.ghost['drawlog'] = st.ghost.get('drawlog', []) + [dict(gen=gen, method=method_, params=params, shape=list(shape), out=out, idx=idx)]
    st.ghost['ndraw'] = idx + 1


_orig_method4 = M.method


def method4(ex, st, recv, name, args, kwargs, node):
    r = st.deref(recv)
    if isinstance(r, R.VGen) and name in ('uniform', 'normal') and len(args) == 2 and set(kwargs) == {'size'}:
        p0, p1 = [to_real(ex.need_num(st, a, node)) for a in args]
        shp = M.shape_arg(ex, st, kwargs['size'], node)
        used(f'Generator.{name}(p0, p1, size=shape) -> float array of that shape (integer dimensions >= 0 required); uniform: entries in [p0, p1]')
        for s_ in shp:
            ex.oblige(st, 'call-pre', 'draw-size-is-a-non-negative-integer', z3.And(z3.BoolVal(is_intsort(s_)), Z(s_) >= 0), node)
        if len(shp) == 1:
            arr = ex.fresh(name, RA)
            if name == 'uniform':
                st.assume(z3.ForAll([_i], z3.Implies(p0 <= p1, z3.And(p0 <= arr[_i], arr[_i] <= p1)), patterns=[arr[_i]]))
            out = rvec(shp[0], arr)
            log_draw(st, r, name, (p0, p1), shp, arr)
            return out
        if len(shp) == 3:
            t = ex.fresh(name, T.Core)
            st.assume(T.d0(t) == Z(shp[0]), T.d1(t) == Z(shp[1]), T.d2(t) == Z(shp[2]))
            st.ghost['draws'] = st.ghost.get('draws', 0) + 1
            log_draw(st, r, name, (p0, p1), shp, t)
            return M.mk_core(t)
        raise Unsupported(f'Generator.{name} with a {len(shp)}-dimensional size')
    return _orig_method4(ex, st, recv, name, args, kwargs, node)


M.method = method4


# ----------------------------------------------------------------------------------------------
# tensors.rand_stab: rectangular identity np.eye(a, b), `G[:, p, :] += X`, and the stream of 3-D draws of a generator
eyer = z3.Function('eyer', T.I, T.I, T.Mat)                       # np.eye(a, b)
drawc = z3.Function('drawc', T.I, T.I, T.Core)                    # the core returned by draw number idx of this run from generator #gid (no axioms)
_a1, _b1, _c1, _p1 = z3.Ints('a!e b!e c!e p!e')
T.GROUPS['eyer'] = [
    T.A([_a1, _b1], z3.And(T.rows(eyer(_a1, _b1)) == _a1, T.cols(eyer(_a1, _b1)) == _b1), [eyer(_a1, _b1)]),
    T.A([_a1, _b1, _p1, _c1], z3.Implies(z3.And(_p1 == _b1, _a1 >= 0, _b1 >= 0, _c1 >= 0, z3.Or(_b1 >= _a1, _b1 >= _c1)),
                                         T.mm(eyer(_a1, _b1), eyer(_p1, _c1)) == eyer(_a1, _c1)), [T.mm(eyer(_a1, _b1), eyer(_p1, _c1))]),
    T.A([_a1, _b1, _p1, _c1], z3.Implies(z3.And(0 <= _p1, _p1 < _a1, 0 <= _c1, _c1 < _b1), T.ent(eyer(_a1, _b1), _p1, _c1) == z3.If(_p1 == _c1, 1, 0)),
        [T.ent(eyer(_a1, _b1), _p1, _c1)]),
]
_GID = [0]


def gen_id(g):
    if not hasattr(g, 'gid'):
        _GID[0] += 1
        g.gid = z3.IntVal(_GID[0])
    return g.gid


_orig_eye = M.FUNCS['np.eye']


@model('np.eye')
def m_eye2(ex, st, args, kwargs, node):
    if len(args) == 2 and not kwargs:
        a, b = [ex.need_num(st, x, node) for x in args]
        if is_intsort(a) and is_intsort(b):
            used('np.eye(a, b) -> the a x b matrix with ones on the main diagonal (a, b >= 0 required)')
            ex.oblige(st, 'call-pre', 'non-negative-dimension', z3.And(Z(a) >= 0, Z(b) >= 0), node)
            return VArr((a, b), eyer(Z(a), Z(b)), 'mat')
        raise Unsupported('np.eye with non-integer dimensions')
    return _orig_eye(ex, st, args, kwargs, node)


_orig_setitem3 = M.arr_setitem


def arr_setitem3(ex, st, b, sl_, v, node):
    """G[:, p, :] += X  (arrives here as G[:, p, :] = madd(sl(G, p), X))."""
    if isinstance(b, VArr) and b.ndim == 3 and b.tag == 'core' and b.t is not None and isinstance(sl_, ast.Tuple) and len(sl_.elts) == 3:
        full = lambda e: isinstance(e, ast.Slice) and e.lower is None and e.upper is None and e.step is None
        e0, e1, e2 = sl_.elts
        val = st.deref(v)
        if full(e0) and full(e2) and not isinstance(e1, ast.Slice) and isinstance(val, VArr) and val.ndim == 2 and val.tag == 'mat' \
                and val.t is not None and z3.is_app(val.t) and val.t.decl().eq(T.madd) and z3.is_app(val.t.arg(0)) and val.t.arg(0).decl().eq(T.sl) \
                and z3.eq(val.t.arg(0).arg(0), b.t):
            m = M.norm_index(ex, st, ex.need_num(st, ex.ev(e1, st), node), b.shape[1], node, 'mode-index')
            if z3.eq(z3.simplify(val.t.arg(0).arg(1)), z3.simplify(Z(m))):
                used('G[:, p, :] += X -> slice p becomes sl(G, p) + X (shapes must agree)')
                ex.oblige(st, 'call-pre', 'slice-assignment-shape-matches', z3.And(Z(val.shape[0]) == Z(b.shape[0]), Z(val.shape[1]) == Z(b.shape[2])), node)
                return VArr(b.shape, csl(b.t, Z(m), val.t), 'core')
    return _orig_setitem3(ex, st, b, sl_, v, node)


M.arr_setitem = arr_setitem3
_orig_method5 = M.method


def method5(ex, st, recv, name, args, kwargs, node):
    r = st.deref(recv)
    nlog = len(st.ghost.get('drawlog', []))
    out = _orig_method5(ex, st, recv, name, args, kwargs, node)
    log = st.ghost.get('drawlog', [])
    if isinstance(r, R.VGen) and len(log) == nlog + 1 and len(log[-1]['shape']) == 3 and log[-1]['gen'] is r:
        st.assume(log[-1]['out'] == drawc(gen_id(r), log[-1]['idx']))      # names the draw: "draw number idx from this generator"
    return out


M.method = method5


# ----------------------------------------------------------------------------------------------
# sample.sample_rand / sample_square: Generator.choice with replacement, lists of drawn index vectors, np.vstack(..).T

def _population(ex, st, a, node):
    """Size of the population of Generator.choice(a, ..): an int n stands for arange(n)."""
    a = st.deref(a)
    if isinstance(a, VArr) and a.ndim == 1 and getattr(a, 'arange_n', None) is not None:
        return a.arange_n
    if is_num(a) and is_intsort(a):
        return Z(a)
    return None


_orig_method6 = M.method


def method6(ex, st, recv, name, args, kwargs, node):
    r = st.deref(recv)
    if isinstance(r, R.VGen) and name == 'choice' and args and kwargs.get('replace', True) is True and set(kwargs) <= {'size', 'p', 'replace'}:
        pop = _population(ex, st, args[0], node)
        size = args[1] if len(args) == 2 else kwargs.get('size')
        if pop is not None and len(args) <= 2 and not (len(args) == 2 and 'size' in kwargs):
            used('Generator.choice(a, size, p, replace=True) (a: int n or arange(n)) -> size indices in [0, n) (one index without size); '
                 'requires n >= 1, len(p) = n')
            ex.oblige(st, 'call-pre', 'choice-from-a-non-empty-population', pop >= 1, node)
            pv = st.deref(kwargs['p']) if 'p' in kwargs else None
            if isinstance(pv, VArr) and pv.ndim == 1:
                ex.oblige(st, 'call-pre', 'choice-probabilities-have-the-length-of-the-population', Z(pv.shape[0]) == pop, node)
            elif pv is not None and not isinstance(pv, VOpaque):
                raise Unsupported('Generator.choice: probabilities')
            if size is None:
                c = ex.fresh_int('choice')
                st.assume(0 <= c, c < pop)
                log_draw(st, r, 'choice', (pop, 'p' in kwargs), [], c)
                return c
            s_ = ex.need_num(st, size, node)
            ex.oblige(st, 'call-pre', 'draw-size-is-a-non-negative-integer', z3.And(z3.BoolVal(is_intsort(s_)), Z(s_) >= 0), node)
            arr = ex.fresh('choice', IA)
            st.assume(z3.ForAll([_i], z3.And(0 <= arr[_i], arr[_i] < pop), patterns=[arr[_i]]))
            out = ivec(s_, arr)
            out.lo, out.hi = z3.IntVal(0), pop
            log_draw(st, r, 'choice', (pop, 'p' in kwargs), [s_], arr)
            return out
    return _orig_method6(ex, st, recv, name, args, kwargs, node)


M.method = method6


class VRows(VSeq):
    """List of d integer vectors of one common length m (row j = arr[j], an Int -> Int array)."""
    def __init__(self, arr, n, m):
        VSeq.__init__(self, arr, n, lambda t, m=m: ivec(m, t), 'ivrows')
        self.m = m

    def copy(self):
        return VRows(self.arr, self.n, self.m)


def _consts_after(term, cnt0):
    """Names of the engine-made fresh constants (name!N with N > cnt0) that occur in a term."""
    out, stack, seen = set(), [term], set()
    while stack:
        t = stack.pop()
        if t.get_id() in seen:
            continue
        seen.add(t.get_id())
        if z3.is_const(t) and t.decl().kind() == z3.Z3_OP_UNINTERPRETED:
            nm = t.decl().name()
            if '!' in nm and nm.rsplit('!', 1)[1].isdigit() and int(nm.rsplit('!', 1)[1]) > cnt0:
                out.add(nm)
        elif z3.is_app(t):
            stack.extend(t.children())
        elif z3.is_quantifier(t):
            stack.append(t.body())
    return out


_orig_listcomp2 = M.listcomp


def listcomp2(ex, st, e):
    """[rand.choice(population(k), m) for k in n]: one draw per element, in the order of the elements."""
    g = e.generators[0] if len(e.generators) == 1 else None
    if g is None or g.ifs or not any(isinstance(x, ast.Call) and isinstance(x.func, ast.Attribute) and x.func.attr == 'choice' for x in ast.walk(e.elt)):
        return _orig_listcomp2(ex, st, e)
    it = M.iteration(ex, st, g.iter, e)
    if it.concrete is not None:
        return _orig_listcomp2(ex, st, e)
    cnt0, npc, saved = ex.cnt, len(st.pc), dict(st.vars)
    nd0, log0 = st.ghost.get('ndraw', z3.IntVal(0)), st.ghost.get('drawlog', [])
    j = ex.fresh_int('lc')
    cnt0 = ex.cnt
    st.pc.append(z3.And(j >= 0, j < it.n))
    st.ghost['ndraw'], st.ghost['drawlog'] = nd0 + j, []
    try:
        ex.assign(g.target, it.bind(ex, st, j), st)
        elt = st.deref(ex.ev(e.elt, st))
    finally:
        for k in list(st.vars):
            if k not in saved:
                del st.vars[k]
            else:
                st.vars[k] = saved[k]
    new = st.ghost.get('drawlog', [])
    del st.pc[npc:]                      # facts about the per-element fresh symbols are dropped; what is kept is stated below for every j
    if not (is_vec1(elt) and elt.tag == 'ivec' and getattr(elt, 'hi', None) is not None and len(new) == 1 and new[0]['out'] is elt.t):
        raise Unsupported('list comprehension with draws: the element must be the result of exactly one Generator.choice')
    hi, m = elt.hi, Z(elt.shape[0])
    if _consts_after(hi, cnt0) or _consts_after(m, cnt0) or M._mentions(m, j):
        raise Unsupported('list comprehension with draws: population / size depend on per-element intermediate values')
    used('[rand.choice(population_k, m) for k in seq] -> one draw per element in list order; list of len(seq) index vectors of length m, '
         'vector k with entries in [0, population_k)')
    rows = ex.fresh('rows', z3.ArraySort(z3.IntSort(), IA))
    st.assume(z3.ForAll([j, _i], z3.Implies(z3.And(0 <= j, j < it.n), z3.And(0 <= rows[j][_i], rows[j][_i] < hi)), patterns=[rows[j][_i]]))
    fam = dict(new[0])
    fam.update(idx=nd0 + j, family=(j, it.n), out=rows)
    st.ghost['drawlog'] = log0 + [fam]
    st.ghost['ndraw'] = nd0 + it.n
    return st.alloc(VRows(rows, it.n, m))


M.listcomp = listcomp2


@model('np.vstack')
def m_vstack(ex, st, args, kwargs, node):
    v = st.deref(args[0]) if args else None
    if isinstance(v, VRows) and len(args) == 1 and not kwargs:
        used('np.vstack(list of d vectors of length m) -> d x m matrix whose rows are the vectors (d >= 1 required)')
        ex.oblige(st, 'call-pre', 'vstack-needs-at-least-one-array', v.n >= 1, node)
        out = VArr((v.n, v.m), None, 'imat', 'i')
        out.rows, out.transposed = v.arr, False
        return out
    raise Unsupported('np.vstack pattern')


def imat_entry(a, i, j):
    """Entry [i, j] of an 'imat' array (rows stacked by np.vstack, possibly transposed)."""
    return a.rows[j][i] if a.transposed else a.rows[i][j]


_orig_attribute2 = M.attribute


def attribute2(ex, st, v, attr, node):
    if isinstance(v, VArr) and v.tag == 'imat' and attr == 'T':
        used('ndarray.T of a matrix -> transposed')
        out = VArr((v.shape[1], v.shape[0]), None, 'imat', v.dtype)
        out.rows, out.transposed = v.rows, not v.transposed
        return out
    return _orig_attribute2(ex, st, v, attr, node)


M.attribute = attribute2


# ----------------------------------------------------------------------------------------------
# sample.sample_square (control / shape tier, lenient): only active for executors with `ex.misc_shapes = True`, so that the
# lenient units of other modules keep seeing opaque values where they did before
def _on(ex):
    return getattr(ex, 'misc_shapes', False)


_orig_iteration = M.iteration


def iteration(ex, st, it, node):
    if _on(ex) and isinstance(it, ast.Call) and ast.unparse(it.func) == 'enumerate' and len(it.args) == 1 \
            and [k.arg for k in it.keywords] == ['start']:
        start = Z(ex.need_num(st, ex.ev(it.keywords[0].value, st), node))
        inner = _orig_iteration(ex, st, it.args[0], node)
        used('enumerate(seq, start=s) -> pairs (s + j, seq[j])')
        if inner.concrete is not None:
            return M.Iteration(concrete=[VTuple([z3.simplify(start + i), b]) for i, b in enumerate(inner.concrete)])
        return M.Iteration(n=inner.n, bind=lambda ex_, st_, j: VTuple([start + j, inner.bind(ex_, st_, j)]))
    return _orig_iteration(ex, st, it, node)


M.iteration = iteration
_orig_iter_of_value = M._iter_of_value


def _iter_of_value(ex, st, v, node):
    w = st.deref(v)
    if _on(ex) and isinstance(w, VArr) and w.ndim == 3:
        used('iteration over a 3-D array -> its 2-D slices along the first axis')
        return Z(w.shape[0]), (lambda j, w=w: VArr(tuple(w.shape[1:]), None, None, w.dtype)), False
    return _orig_iter_of_value(ex, st, v, node)


M._iter_of_value = _iter_of_value
_orig_reshape2 = M.reshape


def reshape2(ex, st, a, shp, order, node):
    if _on(ex) and isinstance(a, VArr) and a.ndim == 3:
        dims = M.shape_arg(ex, st, shp, node)
        if len(dims) == 2 and all(is_intsort(x) and not (isinstance(x, int) and x < 0) for x in dims):
            used('G.reshape(a, b) of a 3-D array -> a x b matrix; the size must be preserved (shape only)')
            ex.oblige(st, 'call-pre', 'reshape-preserves-size', T.mul_canon(*a.shape) == T.mul_canon(*dims), node)
            return VArr(tuple(dims), None, None, a.dtype)
    return _orig_reshape2(ex, st, a, shp, order, node)


M.reshape = reshape2
_orig_einsum = M.FUNCS['np.einsum']


@model('np.einsum')
def m_einsum_kr(ex, st, args, kwargs, node):
    sub = args[0].concrete() if args and isinstance(args[0], VStr) else None
    if _on(ex) and (sub or '').replace(' ', '') == 'kr,riq->kiq' and len(args) == 3 and set(kwargs) <= {'optimize'}:
        Q, G = st.deref(args[1]), st.deref(args[2])
        if isinstance(Q, VArr) and Q.ndim == 2 and isinstance(G, VArr) and G.ndim == 3:
            used("np.einsum('kr,riq->kiq', Q, G) -> array of shape (rows Q, n, r2); requires cols Q = r1 (shape only)")
            ex.oblige(st, 'call-pre', 'einsum-contracted-dimensions-agree', Z(Q.shape[1]) == Z(G.shape[0]), node)
            return VArr((Q.shape[0], G.shape[1], G.shape[2]), None, None)
    return _orig_einsum(ex, st, args, kwargs, node)


@model('np.unique')
def m_unique(ex, st, args, kwargs, node):
    a = st.deref(args[0]) if args else None
    if _on(ex) and isinstance(a, VArr) and a.ndim == 2 and len(args) == 1 and kwargs.get('axis') == 0 and set(kwargs) == {'axis'}:
        used('np.unique(A, axis=0) -> the distinct rows of A (sorted): u x cols with u <= rows and u >= 1 if rows >= 1')
        u = ex.fresh_int('nunique')
        st.assume(u >= 0, u <= Z(a.shape[0]), z3.Implies(Z(a.shape[0]) >= 1, u >= 1))
        st.ghost['nunique'] = st.ghost.get('nunique', []) + [u]
        return VArr((u, a.shape[1]), None, None, a.dtype)
    if ex.lenient:
        return VOpaque('np.unique')
    raise Unsupported('np.unique pattern')


_orig_method7 = M.method


def method7(ex, st, recv, name, args, kwargs, node):
    r = st.deref(recv)
    if isinstance(r, R.VGen) and name == 'shuffle' and len(args) == 1 and not kwargs:
        out = _orig_method7(ex, st, recv, name, args, kwargs, node)
        log_draw(st, r, 'shuffle', (), [], args[0])
        return out
    if _on(ex) and isinstance(r, VArr) and r.t is None and name == 'astype' and len(args) == 1 and not kwargs and isinstance(args[0], M.TypeVal) \
            and args[0].name in ('int', 'float'):
        used('A.astype(int | float) -> array of the same shape with that dtype')
        return VArr(r.shape, None, None, 'i' if args[0].name == 'int' else 'f')
    return _orig_method7(ex, st, recv, name, args, kwargs, node)


M.method = method7


# ----------------------------------------------------------------------------------------------
# stat.cdf_getter: sorted sample, np.linspace, np.r_[head, v], np.searchsorted(.., 'right') and the returned closure
cntle = z3.Function('cntle', RA, T.I, T.R, T.I)      # number of k < n with a[k] <= z
ascp = z3.Function('ascp', RA, T.I, T.B)             # a[0] <= a[1] <= .. <= a[n-1]
_s = z3.Const('a!c', RA)
_nn, _ii, _i3 = z3.Ints('n!c i!c i3!c')
_z1, _z2 = z3.Reals('z!c z2!c')
T.GROUPS['cntle'] = [
    T.A([_s, _nn, _z1], z3.Implies(_nn >= 0, z3.And(0 <= cntle(_s, _nn, _z1), cntle(_s, _nn, _z1) <= _nn)), [cntle(_s, _nn, _z1)]),
    T.A([_s, _nn, _z1, _z2], z3.Implies(_z1 <= _z2, cntle(_s, _nn, _z1) <= cntle(_s, _nn, _z2)),
        [z3.MultiPattern(cntle(_s, _nn, _z1), cntle(_s, _nn, _z2))]),
    # in an ascending vector the insertion point "a[i-1] <= z < a[i]" is the number of elements <= z
    T.A([_s, _nn, _z1, _ii], z3.Implies(z3.And(ascp(_s, _nn), 0 <= _ii, _ii <= _nn, z3.Implies(_ii > 0, _s[_ii - 1] <= _z1), z3.Implies(_ii < _nn, _z1 < _s[_ii])),
                                        cntle(_s, _nn, _z1) == _ii), [z3.MultiPattern(ascp(_s, _nn), cntle(_s, _nn, _z1), _s[_ii])]),
]


class RCat:
    """np.r_"""


M.GLOBAL_NAMES['np.r_'] = RCat()
_orig_array4 = M.FUNCS['np.array']


def m_array4(ex, st, args, kwargs, node):
    if len(args) == 1 and set(kwargs) == {'copy'} and kwargs['copy'] is True:
        v = st.deref(args[0])
        if isinstance(v, VSeq) and v.tag == 'real':
            used('np.array(list of floats, copy=True) -> a new vector with the same elements')
            return rvec(v.n, v.arr)
        if is_vec1(v) and v.tag == 'rvec':
            used('np.array(vector, copy=True) -> a new vector with the same elements')
            return rvec(v.shape[0], v.t)
        raise Unsupported('np.array(x, copy=True) of this value')
    return _orig_array4(ex, st, args, kwargs, node)


M.FUNCS['np.array'] = m_array4


@model('np.linspace')
def m_linspace(ex, st, args, kwargs, node):
    if len(args) != 3 or kwargs:
        raise Unsupported('np.linspace calling pattern')
    a, b, n = [ex.need_num(st, x, node) for x in args]
    if not is_intsort(n):
        raise Unsupported('np.linspace with a non-integer count')
    used('np.linspace(a, b, n) -> n equidistant points: y[0] = a, y[k] (n-1) = a (n-1) + k (b-a), y[n-1] = b for n >= 2 (n >= 1 required here)')
    ex.oblige(st, 'call-pre', 'linspace-count-positive', Z(n) >= 1, node)
    y = ex.fresh('linspace', RA)
    a_, b_, nr = to_real(a), to_real(b), z3.ToReal(Z(n))
    st.assume(y[0] == a_, z3.Implies(Z(n) >= 2, y[Z(n) - 1] == b_))
    out = rvec(n, y)
    out.linspace = (a_, b_, Z(n))            # the defining relation is handed out per instance (non-linear): see linspace_fact
    return out


def linspace_fact(v, k):
    a_, b_, n = v.linspace
    return z3.Implies(z3.And(0 <= k, k < n), v.t[k] * (z3.ToReal(n) - 1) == a_ * (z3.ToReal(n) - 1) + z3.ToReal(k) * (b_ - a_))


_orig_subscript = M.subscript


def subscript(ex, st, base, sl_, node):
    b = st.deref(base)
    if isinstance(b, RCat):
        if not (isinstance(sl_, ast.Tuple) and len(sl_.elts) == 2):
            raise Unsupported('np.r_ pattern')
        head_src = ast.unparse(sl_.elts[0]).replace(' ', '')
        tail = st.deref(ex.ev(sl_.elts[1], st))
        if not (is_vec1(tail) and tail.tag == 'rvec'):
            raise Unsupported('np.r_[c, v] with something else than a float vector v')
        used('np.r_[c, v] -> the vector (c, v[0], v[1], ..); c = -np.inf is kept symbolic (smaller than every real: A-REAL has no infinities)')
        arr = ex.fresh('r_', RA)
        st.assume(z3.ForAll([_i], z3.Implies(_i >= 1, arr[_i] == tail.t[_i - 1]), patterns=[arr[_i]]))
        out = rvec(Z(tail.shape[0]) + 1, arr)
        out.tail = tail
        if head_src == '-np.inf':
            out.neginf_head = True
        else:
            c = ex.need_num(st, ex.ev(sl_.elts[0], st), node)
            st.assume(arr[0] == to_real(c))
        for a_ in ('linspace',):
            if hasattr(tail, a_):
                out.tail_linspace = tail
        return out
    return _orig_subscript(ex, st, base, sl_, node)


M.subscript = subscript


@model('np.searchsorted')
def m_searchsorted(ex, st, args, kwargs, node):
    if len(args) != 3 or kwargs or not (isinstance(args[2], VStr) and args[2].concrete() in ('left', 'right')):
        raise Unsupported('np.searchsorted calling pattern')
    a, z = st.deref(args[0]), ex.need_num(st, args[1], node)
    tail = getattr(a, 'tail', None)
    if not (is_vec1(a) and getattr(a, 'neginf_head', False) and tail is not None and getattr(tail, 'asc', False)):
        raise Unsupported("np.searchsorted: only on (-inf, ascending vector)")
    used("np.searchsorted((-inf, s_0 <= .. <= s_{n-1}), z, side) -> 1 + i with s[i-1] <= z < s[i] for 'right' (insertion point after equal "
         "elements), s[i-1] < z <= s[i] for 'left'")
    n, zr = Z(tail.shape[0]), to_real(z)
    i = ex.fresh_int('ins')
    if args[2].concrete() == 'right':
        st.assume(0 <= i, i <= n, z3.Implies(i > 0, tail.t[i - 1] <= zr), z3.Implies(i < n, zr < tail.t[i]))
    else:
        st.assume(0 <= i, i <= n, z3.Implies(i > 0, tail.t[i - 1] < zr), z3.Implies(i < n, zr <= tail.t[i]))
    st.ghost['searchsorted'] = st.ghost.get('searchsorted', []) + [dict(i=i, z=zr, s=tail.t, n=n)]
    return i + 1


_orig_method8 = M.method


def method8(ex, st, recv, name, args, kwargs, node):
    r = st.deref(recv)
    if name == 'sort' and not args and not kwargs and is_vec1(r) and r.tag == 'rvec' and isinstance(node, ast.Call) \
            and isinstance(node.func, ast.Attribute) and isinstance(node.func.value, ast.Name) and st.vars.get(node.func.value.id) is r:
        used('v.sort() -> v is replaced by its ascending rearrangement (same multiset: the number of elements <= z is unchanged for every z)')
        n = Z(r.shape[0])
        s = ex.fresh('sorted', RA)
        i2 = z3.Int('i2!m')
        st.assume(ascp(s, n))
        st.assume(z3.ForAll([_i, i2], z3.Implies(z3.And(0 <= _i, _i <= i2, i2 < n), s[_i] <= s[i2]), patterns=[z3.MultiPattern(s[_i], s[i2])]))
        st.assume(z3.ForAll([_z1], cntle(s, n, _z1) == cntle(r.t, n, _z1), patterns=[cntle(s, n, _z1)]))
        out = rvec(r.shape[0], s)
        out.asc, out.sorted_from = True, r.t
        st.vars[node.func.value.id] = out
        return NONE
    return _orig_method8(ex, st, recv, name, args, kwargs, node)


M.method = method8
