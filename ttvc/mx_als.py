"""Model-table entries and spec symbols for TT-ALS (C07; units in contracts/als_more.py).

Everything follows the wrapping pattern of kr.py (the previous hook is kept, whatever is not recognised falls through to it)
and is only active for the value classes / tags created here, or for executors that carry the gate `ex.als = True`.

Value kinds (tags of VArr):
  'cvec'   1-D real array of length n, denoted by an n x 1 matrix (a COLUMN; the older tag 'vec' is a 1 x n row)
  'colw'   w[:, None] of a 'cvec' (shape (n, 1)); multiplying a matrix by it scales the rows
  'bcM'    X[:, :, None] of a matrix (shape (s, a, 1));  'bcR'  X[:, None, :] of a matrix (shape (s, 1, b))
  'fsp'    product of a 'bcM' and a 'bcR' value, shape (s, a, b): entry [s, a, b] = P[s, a] * R[s, b]
  'icols'  2-D integer array given by its columns (z3 array Int -> (Int -> Int)): I[:, k] is the integer vector cols[k]

Spec symbols (all interpreted in lemmas/spotcheck_ext_als.py; every axiom group below is exercised by the spot check):
  dscale(w, A)      = w[:, None] * A                 rows of A scaled by the entries of the column w   (diag(w) A)
  had(a, b)         = a * b                          entrywise product of two columns
  lsq(M, b)         = scipy.linalg.lstsq(M, b)[0]    A least-squares solution: its defining equations are the axioms 'lsq'
  meq(a, b)         a = b as matrices (a predicate, so that the spot check may compare with a tolerance: lsq is not exact in floats)
  invertible(M), nonneg(w)
  rowg(A, ix, n)    = A[ix[:n], :]                   row gather (also y[ix] for a column);  colg(A, ix, n) = A[:, ix[:n]]
  krrows(P, R)      = (P[:, :, None] * R[:, None, :]).reshape(s, -1)    row-wise Kronecker product: row s = kron(P[s, :], R[s, :])
  vecC(X)           = X.reshape(-1)  (C order, as a column);   unvecC(v, a, b) = v.reshape(a, b)
  dg(A)             = diagonal of a square matrix as a column
  cputsl(G, k, X)   = G with G[:, k, :] = X
  ndist(v, m)       = np.unique(v[:m]).size;  covers(v, m, n): every value of [0, n) occurs among v[0..m-1];
  inrng(v, m, n): all of v[0..m-1] lie in [0, n);  occ / miss: Skolem functions of covers
"""
import ast
import z3
from ttvc import symex
from ttvc.symex import Unsupported, ContractMismatch, NONE, VStr, VOpt, VTuple, VRef, VList, VRec, VSeq, VArr, VFunc, VOpaque, Z, \
    is_num, is_intsort, quick_unsat
from ttvc import models as M, theory as T
from ttvc.models import model, used, to_real

I, R, B = z3.IntSort(), z3.RealSort(), z3.BoolSort()
IA = z3.ArraySort(I, I)
Mat, Core = T.Mat, T.Core


def _on(ex):
    return getattr(ex, 'als', False)


# ----------------------------------------------------------------------------------------------
# theory

dscale = z3.Function('dscale', Mat, Mat, Mat)
had = z3.Function('had', Mat, Mat, Mat)
lsq = z3.Function('lsq', Mat, Mat, Mat)
meq = z3.Function('meq', Mat, Mat, B)
invertible = z3.Function('invertible', Mat, B)
nonneg = z3.Function('nonneg', Mat, B)
rowg = z3.Function('rowg', Mat, IA, I, Mat)
colg = z3.Function('colg', Mat, IA, I, Mat)
krrows = z3.Function('krrows', Mat, Mat, Mat)
vecC = z3.Function('vecC', Mat, Mat)
unvecC = z3.Function('unvecC', Mat, I, I, Mat)
dg = z3.Function('dg', Mat, Mat)
cputsl = z3.Function('cputsl', Core, I, Mat, Core)

a_, b_, c_, w_ = z3.Consts('a!als b!als c!als w!als', Mat)
G_ = z3.Const('G!als', Core)
ix_ = z3.Const('ix!als', IA)
m_, n_, k_, j_ = z3.Ints('m!als n!als k!als j!als')
x_ = z3.Real('x!als')
A = T.A
rows, cols, mm, tr, madd, smul, eye = T.rows, T.cols, T.mm, T.tr, T.madd, T.smul, T.eye


def ridge(At, lamb, wt=None):
    """A^T A + lamb I  /  A^T diag(w) A + lamb I  as the code builds it."""
    inner = mm(tr(At), At) if wt is None else mm(tr(At), dscale(wt, At))
    return madd(inner, smul(to_real(lamb), eye(cols(At))))


T.GROUPS['als_shape'] = [
    A([w_, a_], z3.And(rows(dscale(w_, a_)) == rows(a_), cols(dscale(w_, a_)) == cols(a_)), [dscale(w_, a_)]),
    A([a_, b_], z3.And(rows(had(a_, b_)) == rows(a_), cols(had(a_, b_)) == cols(a_)), [had(a_, b_)]),
    A([a_, b_], z3.And(rows(lsq(a_, b_)) == cols(a_), cols(lsq(a_, b_)) == cols(b_)), [lsq(a_, b_)]),
    A([a_, ix_, n_], z3.And(rows(rowg(a_, ix_, n_)) == n_, cols(rowg(a_, ix_, n_)) == cols(a_)), [rowg(a_, ix_, n_)]),
    A([a_, ix_, n_], z3.And(rows(colg(a_, ix_, n_)) == rows(a_), cols(colg(a_, ix_, n_)) == n_), [colg(a_, ix_, n_)]),
    A([a_, b_], z3.And(rows(krrows(a_, b_)) == rows(a_), cols(krrows(a_, b_)) == T.mulI(cols(a_), cols(b_))), [krrows(a_, b_)]),
    A([a_], z3.And(rows(vecC(a_)) == T.mulI(rows(a_), cols(a_)), cols(vecC(a_)) == 1), [vecC(a_)]),
    A([a_, m_, n_], z3.And(rows(unvecC(a_, m_, n_)) == m_, cols(unvecC(a_, m_, n_)) == n_), [unvecC(a_, m_, n_)]),
    A([a_], z3.And(rows(dg(a_)) == rows(a_), cols(dg(a_)) == 1), [dg(a_)]),
    A([G_, k_, a_], z3.And(T.d0(cputsl(G_, k_, a_)) == T.d0(G_), T.d1(cputsl(G_, k_, a_)) == T.d1(G_),
                           T.d2(cputsl(G_, k_, a_)) == T.d2(G_)), [cputsl(G_, k_, a_)]),
]

# ---- the defining equations of a least-squares solution (what scipy.linalg.lstsq is trusted for) and the ridge systems
T.GROUPS['lsq'] = [
    # a least-squares solution satisfies the normal equations
    A([a_, b_], z3.Implies(rows(a_) == rows(b_), meq(mm(tr(a_), mm(a_, lsq(a_, b_))), mm(tr(a_), b_))), [lsq(a_, b_)]),
    # a square invertible system is solved exactly
    A([a_, b_], z3.Implies(z3.And(invertible(a_), rows(a_) == rows(b_)), meq(mm(a_, lsq(a_, b_)), b_)), [lsq(a_, b_)]),
    # A^T A + x I is invertible for x > 0 (positive definite); the same with non-negative weights
    A([a_, x_], z3.Implies(x_ > 0, invertible(madd(mm(tr(a_), a_), smul(x_, eye(cols(a_)))))),
      [madd(mm(tr(a_), a_), smul(x_, eye(cols(a_))))]),
    A([a_, w_, x_], z3.Implies(z3.And(x_ > 0, nonneg(w_), rows(w_) == rows(a_)),
                               invertible(madd(mm(tr(a_), dscale(w_, a_)), smul(x_, eye(cols(a_)))))),
      [madd(mm(tr(a_), dscale(w_, a_)), smul(x_, eye(cols(a_))))]),
    # (diag(w) A)^T y = A^T (diag(w) y)
    A([a_, w_, b_], z3.Implies(z3.And(rows(w_) == rows(a_), rows(b_) == rows(a_)),
                               mm(tr(dscale(w_, a_)), b_) == mm(tr(a_), dscale(w_, b_))), [mm(tr(dscale(w_, a_)), b_)]),
    A([a_, b_], had(a_, b_) == had(b_, a_), [had(a_, b_)]),
    A([a_, ix_, n_], z3.Implies(nonneg(a_), nonneg(rowg(a_, ix_, n_))), [rowg(a_, ix_, n_)]),
]

# ---- layout of the design matrix against the layout of the solution (both C order)
T.GROUPS['krvec'] = [
    # row s of krrows(P, R) applied to vec(X) is P[s, :] X R[s, :]^T
    A([a_, b_, c_], z3.Implies(z3.And(rows(a_) == rows(b_), cols(a_) == rows(c_), cols(b_) == cols(c_)),
                               mm(krrows(a_, b_), vecC(c_)) == dg(mm(mm(a_, c_), tr(b_)))), [mm(krrows(a_, b_), vecC(c_))]),
    A([a_, m_, n_], z3.Implies(z3.And(m_ >= 1, n_ >= 1, rows(a_) == T.mulI(m_, n_), cols(a_) == 1), vecC(unvecC(a_, m_, n_)) == a_),
      [unvecC(a_, m_, n_)]),
    A([a_], unvecC(vecC(a_), rows(a_), cols(a_)) == a_, [vecC(a_)]),
    A([a_, b_], z3.Implies(z3.And(rows(a_) == rows(b_), cols(a_) == cols(b_)), vecC(madd(a_, b_)) == madd(vecC(a_), vecC(b_))),
      [vecC(madd(a_, b_))]),
]

T.GROUPS['cputsl'] = [
    A([G_, k_, a_, j_], T.sl(cputsl(G_, k_, a_), j_) == z3.If(j_ == k_, a_, T.sl(G_, j_)), [T.sl(cputsl(G_, k_, a_), j_)]),
]


# ----------------------------------------------------------------------------------------------
# values

def cvec(t, n=None):
    return VArr((rows(t) if n is None else n,), t, 'cvec')


def is_cvec(v):
    return isinstance(v, VArr) and v.ndim == 1 and v.tag == 'cvec' and v.t is not None


def is_mat(v):
    return isinstance(v, VArr) and v.ndim == 2 and v.tag == 'mat' and v.t is not None


def _full(e):
    return isinstance(e, ast.Slice) and e.lower is None and e.upper is None and e.step is None


def _newaxis(e):
    return (isinstance(e, ast.Constant) and e.value is None) or (isinstance(e, ast.Attribute) and ast.unparse(e) == 'np.newaxis')


# ---- binary operators
_orig_binop = M.arr_binop


def arr_binop(ex, st, op, l, r, node):
    if isinstance(l, VArr) and isinstance(r, VArr):
        if isinstance(op, ast.MatMult) and is_mat(l) and is_cvec(r):
            used('A @ v for a matrix and a 1-D array -> mm(A, v) with v as a column; requires cols(A) = len(v)')
            ex.oblige(st, 'call-pre', 'matmul-inner-dims-agree', Z(l.shape[1]) == Z(r.shape[0]), node)
            return cvec(mm(l.t, r.t), l.shape[0])
        if isinstance(op, ast.Mult):
            for cw, mt in ((l, r), (r, l)):
                if cw.tag == 'colw' and is_mat(mt):
                    used('w[:, None] * A -> rows of A scaled by w (dscale); requires len(w) = rows(A)')
                    ex.oblige(st, 'call-pre', 'row-scaling-lengths-agree', Z(cw.shape[0]) == Z(mt.shape[0]), node)
                    return VArr(mt.shape, dscale(cw.t, mt.t), 'mat')
            if is_cvec(l) and is_cvec(r):
                used('u * v for two 1-D arrays -> entrywise product (had); requires equal lengths')
                ex.oblige(st, 'call-pre', 'elementwise-shapes-agree', Z(l.shape[0]) == Z(r.shape[0]), node)
                return cvec(had(l.t, r.t), l.shape[0])
            for p, q in ((l, r), (r, l)):
                if p.tag == 'bcM' and q.tag == 'bcR':
                    used('X[:, :, None] * Z[:, None, :] -> 3-D array of the products X[s, a] * Z[s, b]; requires equal row counts')
                    ex.oblige(st, 'call-pre', 'broadcast-leading-axes-agree', Z(p.shape[0]) == Z(q.shape[0]), node)
                    return VArr((p.shape[0], p.shape[1], q.shape[2]), (p.t, q.t), 'fsp')
            if {l.tag, r.tag} & {'bcM', 'bcR', 'colw', 'fsp'}:
                raise Unsupported(f'broadcast product of {l.tag} and {r.tag} at line {node.lineno}')
        if isinstance(op, (ast.Add, ast.Sub)) and is_cvec(l) and is_cvec(r):
            used('u +- v for two 1-D arrays -> madd / madd with smul(-1, .); requires equal lengths')
            ex.oblige(st, 'call-pre', 'elementwise-shapes-agree', Z(l.shape[0]) == Z(r.shape[0]), node)
            return cvec(madd(l.t, r.t if isinstance(op, ast.Add) else smul(-1, r.t)), l.shape[0])
    return _orig_binop(ex, st, op, l, r, node)


M.arr_binop = arr_binop


# ---- indexing
_orig_index = M.arr_index


def _ivec(st, e, ex):
    v = st.deref(ex.ev(e, st))
    return v if (isinstance(v, VArr) and v.ndim == 1 and v.tag == 'ivec' and v.t is not None and not callable(v.t)) else None


def arr_index(ex, st, a, sl_, node):
    elts = sl_.elts if isinstance(sl_, ast.Tuple) else [sl_]
    if isinstance(a, VArr):
        if is_cvec(a) and len(elts) == 2 and _full(elts[0]) and _newaxis(elts[1]):
            used('w[:, None] of a 1-D array -> column of shape (n, 1)')
            return VArr((a.shape[0], 1), a.t, 'colw')
        if is_cvec(a) and len(elts) == 1 and not isinstance(elts[0], ast.Slice):
            iv = _ivec(st, elts[0], ex)
            if iv is not None:
                used('y[idx] with an integer vector -> the gathered entries (rowg); the indices must be in range')
                _gather_in_range(ex, st, iv, a.shape[0], node)
                return cvec(rowg(a.t, iv.t, Z(iv.shape[0])), iv.shape[0])
        if is_mat(a) and len(elts) == 2:
            e0, e1 = elts
            if _full(e0) and not isinstance(e1, ast.Slice) and not _newaxis(e1):
                iv = _ivec(st, e1, ex)
                if iv is not None and _on(ex):
                    used('A[:, idx] with an integer vector -> the gathered columns (colg); the indices must be in range')
                    _gather_in_range(ex, st, iv, a.shape[1], node)
                    return VArr((a.shape[0], iv.shape[0]), colg(a.t, iv.t, Z(iv.shape[0])), 'mat')
            if _full(e1) and not isinstance(e0, ast.Slice) and not _newaxis(e0):
                iv = _ivec(st, e0, ex)
                if iv is not None and _on(ex):
                    used('A[idx, :] with an integer vector -> the gathered rows (rowg); the indices must be in range')
                    _gather_in_range(ex, st, iv, a.shape[0], node)
                    return VArr((iv.shape[0], a.shape[1]), rowg(a.t, iv.t, Z(iv.shape[0])), 'mat')
        if is_mat(a) and len(elts) == 3 and _on(ex):
            if _full(elts[0]) and _full(elts[1]) and _newaxis(elts[2]):
                used('X[:, :, None] -> 3-D view (s, a, 1) of a matrix')
                return VArr((a.shape[0], a.shape[1], 1), a.t, 'bcM')
            if _full(elts[0]) and _newaxis(elts[1]) and _full(elts[2]):
                used('X[:, None, :] -> 3-D view (s, 1, b) of a matrix')
                return VArr((a.shape[0], 1, a.shape[1]), a.t, 'bcR')
        if a.tag == 'icols' and a.ndim == 2 and len(elts) == 2 and _full(elts[0]) and not isinstance(elts[1], ast.Slice):
            kv = ex.need_num(st, ex.ev(elts[1], st), node)
            k = M.norm_index(ex, st, kv, a.shape[1], node, 'col-index')
            used('I[:, k] of an integer matrix -> its k-th column as an integer vector')
            return VArr((a.shape[0],), a.t[Z(k)], 'ivec', 'i')
    return _orig_index(ex, st, a, sl_, node)


def _gather_in_range(ex, st, iv, n, node):
    s = z3.Int('s!g')
    L = Z(iv.shape[0])
    ex.oblige(st, 'safety', 'gather-indices-in-range',
              z3.ForAll([s], z3.Implies(z3.And(0 <= s, s < L), z3.And(0 <= iv.t[s], iv.t[s] < Z(n))), patterns=[iv.t[s]]), node)


M.arr_index = arr_index


# ---- reshape
_orig_reshape = M.reshape


def reshape(ex, st, a, shp, order, node):
    if isinstance(a, VArr) and (a.tag in ('fsp', 'cvec') or (is_mat(a) and _on(ex))):
        o = order.concrete() if isinstance(order, VStr) else 'C'
        dims = M.shape_arg(ex, st, shp, node)
        neg = lambda x: isinstance(x, int) and x == -1
        if o == 'C' and a.tag == 'fsp' and len(dims) == 2 and neg(dims[1]) and not neg(dims[0]):
            used('(X[:, :, None] * Z[:, None, :]).reshape(s, -1) (C order) -> krrows(X, Z): row s is kron(X[s, :], Z[s, :])')
            ex.oblige(st, 'call-pre', 'reshape-keeps-the-leading-axis', Z(dims[0]) == Z(a.shape[0]), node)
            p, q = a.t
            return VArr((a.shape[0], T.mul_canon(a.shape[1], a.shape[2])), krrows(p, q), 'mat')
        if o == 'C' and is_mat(a) and len(dims) == 1 and neg(dims[0]):
            used('X.reshape(-1) of a matrix (C order) -> vecC(X) as a 1-D array')
            return cvec(vecC(a.t), T.mul_canon(a.shape[0], a.shape[1]))
        if o == 'C' and is_cvec(a) and len(dims) == 2 and not neg(dims[0]) and not neg(dims[1]):
            used('v.reshape(a, b) of a 1-D array (C order) -> unvecC(v, a, b); requires len(v) = a * b')
            ex.oblige(st, 'call-pre', 'reshape-preserves-size', Z(a.shape[0]) == T.mul_canon(dims[0], dims[1]), node)
            return VArr((dims[0], dims[1]), unvecC(a.t, Z(dims[0]), Z(dims[1])), 'mat')
        if a.tag in ('fsp', 'cvec'):
            raise Unsupported(f'reshape of a {a.tag} value to {dims} (order {o}) at line {node.lineno}')
    return _orig_reshape(ex, st, a, shp, order, node)


M.reshape = reshape


# ---- methods: .reshape on the new kinds (models.method only routes some receivers to M.reshape), dict.pop
_orig_method = M.method


def method(ex, st, recv, name, args, kwargs, node):
    r = st.deref(recv)
    if name == 'reshape' and isinstance(r, VArr) and (r.tag in ('fsp', 'cvec') or (is_mat(r) and _on(ex) and len(args) == 1)):
        shp = args[0] if len(args) == 1 else VTuple(args)
        return M.reshape(ex, st, r, shp, kwargs.get('order', VStr('C')), node)
    if name == 'copy' and isinstance(r, VArr) and _on(ex):
        used('ndarray.copy() -> same value, fresh buffer')
        c = VArr(r.shape, r.t, r.tag, r.dtype, r.note)
        c.origin, c.copy_of = c, r            # provenance (contracts state "the result is built on a copy of the argument")
        return c
    if name == 'pop' and isinstance(r, VRec) and len(args) == 2 and isinstance(args[0], VStr) and args[0].concrete() is not None:
        used('dict.pop(key, default) -> removes the key if present')
        return r.fields.pop(args[0].concrete(), args[1])
    return _orig_method(ex, st, recv, name, args, kwargs, node)


M.method = method


# ---- slice store  G[:, k, :] = X  /  G[:, k, :] += X  on a core with a denotation
_orig_store = M.store


def _is_slice_put(ex, st, b, sl_, val):
    return _on(ex) and isinstance(b, VArr) and b.ndim == 3 and b.tag == 'core' and b.t is not None and isinstance(sl_, ast.Tuple) \
        and len(sl_.elts) == 3 and _full(sl_.elts[0]) and _full(sl_.elts[2]) and not isinstance(sl_.elts[1], ast.Slice) and is_mat(val)


def _slice_put(ex, st, b, sl_, val, node, name):
    j = M.norm_index(ex, st, ex.need_num(st, ex.ev(sl_.elts[1], st), node), b.shape[1], node, 'mode-index')
    used('G[:, j, :] = X on a core -> cputsl(G, j, X); requires X of shape (r1, r2)')
    ex.oblige(st, 'call-pre', 'slice-assignment-shape-matches',
              z3.And(Z(val.shape[0]) == Z(b.shape[0]), Z(val.shape[1]) == Z(b.shape[2])), node)
    new = VArr(b.shape, cputsl(b.t, Z(j), val.t), 'core')
    new.origin = getattr(b, 'origin', None)        # provenance (contracts state "the result is built on a copy of the argument")
    st.ghost['slice_stores'] = st.ghost.get('slice_stores', []) + [dict(name=name, j=Z(j), old=b, X=val, new=new)]
    return new


def store(ex, st, base, sl_, v, node, base_node):
    b = st.deref(base)
    val = st.deref(v)
    if isinstance(base_node, ast.Name) and _is_slice_put(ex, st, b, sl_, val):
        st.vars[base_node.id] = _slice_put(ex, st, b, sl_, val, node, base_node.id)
        return
    return _orig_store(ex, st, base, sl_, v, node, base_node)


M.store = store


class own_slice_writes:
    """`with X.own_slice_writes():` around U.run - for gated executors BOTH `G[:, k, :] = X` and `G[:, k, :] += X` (which the
    executor turns into `G[:, k, :] = sl(G, k) + X`) denote cputsl(G, k, .); other extension modules have their own symbol for
    the augmented form, which would otherwise answer first."""
    def __enter__(self):
        self.prev = prev = M.arr_setitem

        def arr_setitem(ex, st, b, sl_, v, node):
            val = st.deref(v)
            if _is_slice_put(ex, st, b, sl_, val):
                return _slice_put(ex, st, b, sl_, val, node, None)
            return prev(ex, st, b, sl_, v, node)
        M.arr_setitem = arr_setitem
        return self

    def __exit__(self, *exc):
        M.arr_setitem = self.prev
        return False


# ----------------------------------------------------------------------------------------------
# NumPy / SciPy entries

@model('np.identity')
def m_identity(ex, st, args, kwargs, node):
    n = ex.need_num(st, args[0], node)
    used('np.identity(n) -> eye(n)')
    return VArr((n, n), T.eye(Z(n)), 'mat')


_orig_copy = M.FUNCS.get('np.copy')


@model('np.copy')
def m_npcopy(ex, st, args, kwargs, node):
    v = st.deref(args[0])
    if isinstance(v, VArr):
        used('np.copy(x) -> same value, fresh buffer')
        return VArr(v.shape, v.t, v.tag, v.dtype, v.note)
    if isinstance(v, VOpaque):
        return VOpaque('copy')
    if _orig_copy is not None:
        return _orig_copy(ex, st, args, kwargs, node)
    raise Unsupported('np.copy of a non-array')


def _flag(v, default):
    if v is None:
        return default
    if isinstance(v, bool):
        return v
    raise Unsupported('overwrite flag that is not a literal')


@model('sp.linalg.lstsq', 'scipy.linalg.lstsq')
def m_sp_lstsq(ex, st, args, kwargs, node):
    if len(args) != 2 or not set(kwargs) <= {'overwrite_a', 'overwrite_b', 'lapack_driver', 'cond', 'check_finite'}:
        raise Unsupported('scipy.linalg.lstsq calling pattern')
    Am, b = st.deref(args[0]), st.deref(args[1])
    if isinstance(Am, VOpaque) or isinstance(b, VOpaque):
        if ex.lenient:
            return VTuple([VOpaque('x'), VOpaque('res'), VOpaque('rank'), VOpaque('s')])
        raise Unsupported('scipy.linalg.lstsq of opaque arrays')
    if not (isinstance(Am, VArr) and isinstance(b, VArr) and Am.ndim == 2 and b.ndim == 1):
        raise Unsupported('scipy.linalg.lstsq: only (2-D matrix, 1-D right-hand side) is modelled')
    used('scipy.linalg.lstsq(M, b, ...) -> (x, residues, rank, s) with x = lsq(M, b), a least-squares solution: M^T M x = M^T b, and '
         'M x = b if M is square and invertible; requires rows(M) = len(b); with overwrite_a / overwrite_b the buffers of M / b '
         'may be destroyed   [A-LAPACK]')
    ex.oblige(st, 'call-pre', 'lstsq-rows-agree', Z(Am.shape[0]) == Z(b.shape[0]), node)
    if is_mat(Am) and is_cvec(b):
        x = cvec(lsq(Am.t, b.t), Am.shape[1])
    else:
        x = VArr((Am.shape[1],), None, None)
    st.ghost['solver_calls'] = st.ghost.get('solver_calls', []) + [
        dict(M=Am, b=b, x=x, ow_a=_flag(kwargs.get('overwrite_a'), False), ow_b=_flag(kwargs.get('overwrite_b'), False))]
    rank = ex.fresh_int('rank')
    st.assume(rank >= 0, rank <= Z(Am.shape[0]), rank <= Z(Am.shape[1]))
    return VTuple([x, VOpaque('residues'), rank, VOpaque('s')])
