"""Model-table entries and spec symbols for TT-ALS (C07; units in contracts/als_more.py).

Everything follows the wrapping pattern of kr.py (the previous hook is kept, whatever is not recognised falls through to it)
and is only active for the value classes / tags created here, or for executors that carry the gate `ex.als = True`.

Value kinds (tags of VArr):
  'cvec'   1-D real array of length n, denoted by an n x 1 matrix (a COLUMN; the older tag 'vec' is a 1 x n row)
  'colw'   w[:, None] of a 'cvec' (shape (n, 1)); multiplying a matrix by it scales the rows
  'bcM'    X[:, :, None] of a matrix (shape (s, a, 1));  'bcR'  X[:, None, :] of a matrix (shape (s, 1, b))
  'fsp'    product of a 'bcM' and a 'bcR' value, shape (s, a, b): entry [s, a, b] = P[s, a] * R[s, b]
  'icols'  2-D integer array given by its columns (z3 array Int -> (Int -> Int)): I[:, k] is the integer vector cols[k]

Spec symbols (all interpreted in lemmas/spotcheck_ext_als.py; every axiom group below is exercised by the spot check):
  dscale(w, A)      = w[:, None] * A                 rows of A scaled by the entries of the column w   (diag(w) A)
  had(a, b)         = a * b                          entrywise product of two columns
  lsq(M, b)         = scipy.linalg.lstsq(M, b)[0]    A least-squares solution: its defining equations are the axioms 'lsq'
  meq(a, b)         a = b as matrices (a predicate, so that the spot check may compare with a tolerance: lsq is not exact in floats)
  invertible(M), nonneg(w)
  rowg(A, ix, n)    = A[ix[:n], :]                   row gather (also y[ix] for a column);  colg(A, ix, n) = A[:, ix[:n]]
  krrows(P, R)      = (P[:, :, None] * R[:, None, :]).reshape(s, -1)    row-wise Kronecker product: row s = kron(P[s, :], R[s, :])
  vecC(X)           = X.reshape(-1)  (C order, as a column);   unvecC(v, a, b) = v.reshape(a, b)
  dg(A)             = diagonal of a square matrix as a column
  cputsl(G, k, X)   = G with G[:, k, :] = X
  ndist(v, m)       = np.unique(v[:m]).size;  covers(v, m, n): every value of [0, n) occurs among v[0..m-1];
  inrng(v, m, n): all of v[0..m-1] lie in [0, n);  occ / miss: Skolem functions of covers
"""
import ast
import z3
from ttvc import symex
from ttvc.symex import Unsupported, ContractMismatch, NONE, VStr, VOpt, VTuple, VRef, VList, VRec, VSeq, VArr, VFunc, VOpaque, Z, \
    is_num, is_intsort, quick_unsat
from ttvc import models as M, theory as T
from ttvc.models import model, used, to_real

I, R, B = z3.IntSort(), z3.RealSort(), z3.BoolSort()
IA = z3.ArraySort(I, I)
Mat, Core = T.Mat, T.Core


def _on(ex):
    return getattr(ex, 'als', False)


# ----------------------------------------------------------------------------------------------
# theory

dscale = z3.Function('dscale', Mat, Mat, Mat)
had = z3.Function('had', Mat, Mat, Mat)
lsq = z3.Function('lsq', Mat, Mat, Mat)
meq = z3.Function('meq', Mat, Mat, B)
invertible = z3.Function('invertible', Mat, B)
nonneg = z3.Function('nonneg', Mat, B)
rowg = z3.Function('rowg', Mat, IA, I, Mat)
colg = z3.Function('colg', Mat, IA, I, Mat)
krrows = z3.Function('krrows', Mat, Mat, Mat)
vecC = z3.Function('vecC', Mat, Mat)
unvecC = z3.Function('unvecC', Mat, I, I, Mat)
dg = z3.Function('dg', Mat, Mat)
cputsl = z3.Function('cputsl', Core, I, Mat, Core)

a_, b_, c_, w_ = z3.Consts('a!als b!als c!als w!als', Mat)
G_ = z3.Const('G!als', Core)
ix_ = z3.Const('ix!als', IA)
m_, n_, k_, j_ = z3.Ints('m!als n!als k!als j!als')
x_ = z3.Real('x!als')
A = T.A
rows, cols, mm, tr, madd, smul, eye = T.rows, T.cols, T.mm, T.tr, T.madd, T.smul, T.eye


def ridge(At, lamb, wt=None):
    """A^T A + lamb I  /  A^T diag(w) A + lamb I  as the code builds it."""
    inner = mm(tr(At), At) if wt is None else mm(tr(At), dscale(wt, At))
    return madd(inner, smul(to_real(lamb), eye(cols(At))))


T.GROUPS['als_shape'] = [
    A([w_, a_], z3.And(rows(dscale(w_, a_)) == rows(a_), cols(dscale(w_, a_)) == cols(a_)), [dscale(w_, a_)]),
    A([a_, b_], z3.And(rows(had(a_, b_)) == rows(a_), cols(had(a_, b_)) == cols(a_)), [had(a_, b_)]),
    A([a_, b_], z3.And(rows(lsq(a_, b_)) == cols(a_), cols(lsq(a_, b_)) == cols(b_)), [lsq(a_, b_)]),
    A([a_, ix_, n_], z3.And(rows(rowg(a_, ix_, n_)) == n_, cols(rowg(a_, ix_, n_)) == cols(a_)), [rowg(a_, ix_, n_)]),
    A([a_, ix_, n_], z3.And(rows(colg(a_, ix_, n_)) == rows(a_), cols(colg(a_, ix_, n_)) == n_), [colg(a_, ix_, n_)]),
    A([a_, b_], z3.And(rows(krrows(a_, b_)) == rows(a_), cols(krrows(a_, b_)) == T.mulI(cols(a_), cols(b_))), [krrows(a_, b_)]),
    A([a_], z3.And(rows(vecC(a_)) == T.mulI(rows(a_), cols(a_)), cols(vecC(a_)) == 1), [vecC(a_)]),
    A([a_, m_, n_], z3.And(rows(unvecC(a_, m_, n_)) == m_, cols(unvecC(a_, m_, n_)) == n_), [unvecC(a_, m_, n_)]),
    A([a_], z3.And(rows(dg(a_)) == rows(a_), cols(dg(a_)) == 1), [dg(a_)]),
    A([G_, k_, a_], z3.And(T.d0(cputsl(G_, k_, a_)) == T.d0(G_), T.d1(cputsl(G_, k_, a_)) == T.d1(G_),
                           T.d2(cputsl(G_, k_, a_)) == T.d2(G_)), [cputsl(G_, k_, a_)]),
]

# ---- the defining equations of a least-squares solution (what scipy.linalg.lstsq is trusted for) and the ridge systems
T.GROUPS['lsq'] = [
    # a least-squares solution satisfies the normal equations
    A([a_, b_], z3.Implies(rows(a_) == rows(b_), meq(mm(tr(a_), mm(a_, lsq(a_, b_))), mm(tr(a_), b_))), [lsq(a_, b_)]),
    # a square invertible system is solved exactly
    A([a_, b_], z3.Implies(z3.And(invertible(a_), rows(a_) == rows(b_)), meq(mm(a_, lsq(a_, b_)), b_)), [lsq(a_, b_)]),
    # A^T A + x I is invertible for x > 0 (positive definite); the same with non-negative weights
    A([a_, x_], z3.Implies(x_ > 0, invertible(madd(mm(tr(a_), a_), smul(x_, eye(cols(a_)))))),
      [madd(mm(tr(a_), a_), smul(x_, eye(cols(a_))))]),
    A([a_, w_, x_], z3.Implies(z3.And(x_ > 0, nonneg(w_), rows(w_) == rows(a_)),
                               invertible(madd(mm(tr(a_), dscale(w_, a_)), smul(x_, eye(cols(a_)))))),
      [madd(mm(tr(a_), dscale(w_, a_)), smul(x_, eye(cols(a_))))]),
    # (diag(w) A)^T y = A^T (diag(w) y)
    A([a_, w_, b_], z3.Implies(z3.And(rows(w_) == rows(a_), rows(b_) == rows(a_)),
                               mm(tr(dscale(w_, a_)), b_) == mm(tr(a_), dscale(w_, b_))), [mm(tr(dscale(w_, a_)), b_)]),
    A([a_, b_], had(a_, b_) == had(b_, a_), [had(a_, b_)]),
    A([a_, ix_, n_], z3.Implies(nonneg(a_), nonneg(rowg(a_, ix_, n_))), [rowg(a_, ix_, n_)]),
]

# ---- layout of the design matrix against the layout of the solution (both C order)
T.GROUPS['krvec'] = [
    # row s of krrows(P, R) applied to vec(X) is P[s, :] X R[s, :]^T
    A([a_, b_, c_], z3.Implies(z3.And(rows(a_) == rows(b_), cols(a_) == rows(c_), cols(b_) == cols(c_)),
                               mm(krrows(a_, b_), vecC(c_)) == dg(mm(mm(a_, c_), tr(b_)))), [mm(krrows(a_, b_), vecC(c_))]),
    A([a_, m_, n_], z3.Implies(z3.And(m_ >= 1, n_ >= 1, rows(a_) == T.mulI(m_, n_), cols(a_) == 1), vecC(unvecC(a_, m_, n_)) == a_),
      [unvecC(a_, m_, n_)]),
    A([a_], unvecC(vecC(a_), rows(a_), cols(a_)) == a_, [vecC(a_)]),
    A([a_, b_], z3.Implies(z3.And(rows(a_) == rows(b_), cols(a_) == cols(b_)), vecC(madd(a_, b_)) == madd(vecC(a_), vecC(b_))),
      [vecC(madd(a_, b_))]),
]

T.GROUPS['cputsl'] = [
    A([G_, k_, a_, j_], T.sl(cputsl(G_, k_, a_), j_) == z3.If(j_ == k_, a_, T.sl(G_, j_)), [T.sl(cputsl(G_, k_, a_), j_)]),
]


# ----------------------------------------------------------------------------------------------
# values

def cvec(t, n=None):
    return VArr((rows(t) if n is None else n,), t, 'cvec')


def is_cvec(v):
    return isinstance(v, VArr) and v.ndim == 1 and v.tag == 'cvec' and v.t is not None


def is_mat(v):
    return isinstance(v, VArr) and v.ndim == 2 and v.tag == 'mat' and v.t is not None


def _full(e):
    return isinstance(e, ast.Slice) and e.lower is None and e.upper is None and e.step is None


def _newaxis(e):
    return (isinstance(e, ast.Constant) and e.value is None) or (isinstance(e, ast.Attribute) and ast.unparse(e) == 'np.newaxis')


# ---- binary operators
_orig_binop = M.arr_binop


def arr_binop(ex, st, op, l, r, node):
    if isinstance(l, VArr) and isinstance(r, VArr):
        if isinstance(op, ast.MatMult) and is_mat(l) and is_cvec(r):
            used('A @ v for a matrix and a 1-D array -> mm(A, v) with v as a column; requires cols(A) = len(v)')
            ex.oblige(st, 'call-pre', 'matmul-inner-dims-agree', Z(l.shape[1]) == Z(r.shape[0]), node)
            return cvec(mm(l.t, r.t), l.shape[0])
        if isinstance(op, ast.Mult):
            for cw, mt in ((l, r), (r, l)):
                if cw.tag == 'colw' and is_mat(mt):
                    used('w[:, None] * A -> rows of A scaled by w (dscale); requires len(w) = rows(A)')
                    ex.oblige(st, 'call-pre', 'row-scaling-lengths-agree', Z(cw.shape[0]) == Z(mt.shape[0]), node)
                    return VArr(mt.shape, dscale(cw.t, mt.t), 'mat')
            if is_cvec(l) and is_cvec(r):
                used('u * v for two 1-D arrays -> entrywise product (had); requires equal lengths')
                ex.oblige(st, 'call-pre', 'elementwise-shapes-agree', Z(l.shape[0]) == Z(r.shape[0]), node)
                return cvec(had(l.t, r.t), l.shape[0])
            for p, q in ((l, r), (r, l)):
                if p.tag == 'bcM' and q.tag == 'bcR':
                    used('X[:, :, None] * Z[:, None, :] -> 3-D array of the products X[s, a] * Z[s, b]; requires equal row counts')
                    ex.oblige(st, 'call-pre', 'broadcast-leading-axes-agree', Z(p.shape[0]) == Z(q.shape[0]), node)
                    return VArr((p.shape[0], p.shape[1], q.shape[2]), (p.t, q.t), 'fsp')
            if {l.tag, r.tag} & {'bcM', 'bcR', 'colw', 'fsp'}:
                raise Unsupported(f'broadcast product of {l.tag} and {r.tag} at line {node.lineno}')
        if isinstance(op, (ast.Add, ast.Sub)) and is_cvec(l) and is_cvec(r):
            used('u +- v for two 1-D arrays -> madd / madd with smul(-1, .); requires equal lengths')
            ex.oblige(st, 'call-pre', 'elementwise-shapes-agree', Z(l.shape[0]) == Z(r.shape[0]), node)
            return cvec(madd(l.t, r.t if isinstance(op, ast.Add) else smul(-1, r.t)), l.shape[0])
    return _orig_binop(ex, st, op, l, r, node)


M.arr_binop = arr_binop


# ---- indexing
_orig_index = M.arr_index


def _ivec(st, e, ex):
    v = st.deref(ex.ev(e, st))
    return v if (isinstance(v, VArr) and v.ndim == 1 and v.tag == 'ivec' and v.t is not None and not callable(v.t)) else None


def arr_index(ex, st, a, sl_, node):
    elts = sl_.elts if isinstance(sl_, ast.Tuple) else [sl_]
    if isinstance(a, VArr):
        if is_cvec(a) and len(elts) == 2 and _full(elts[0]) and _newaxis(elts[1]):
            used('w[:, None] of a 1-D array -> column of shape (n, 1)')
            return VArr((a.shape[0], 1), a.t, 'colw')
        if is_cvec(a) and len(elts) == 1 and not isinstance(elts[0], ast.Slice):
            iv = _ivec(st, elts[0], ex)
            if iv is not None:
                used('y[idx] with an integer vector -> the gathered entries (rowg); the indices must be in range')
                _gather_in_range(ex, st, iv, a.shape[0], node)
                return cvec(rowg(a.t, iv.t, Z(iv.shape[0])), iv.shape[0])
        if is_mat(a) and len(elts) == 2:
            e0, e1 = elts
            if _full(e0) and not isinstance(e1, ast.Slice) and not _newaxis(e1):
                iv = _ivec(st, e1, ex)
                if iv is not None and _on(ex):
                    used('A[:, idx] with an integer vector -> the gathered columns (colg); the indices must be in range')
                    _gather_in_range(ex, st, iv, a.shape[1], node)
                    return VArr((a.shape[0], iv.shape[0]), colg(a.t, iv.t, Z(iv.shape[0])), 'mat')
            if _full(e1) and not isinstance(e0, ast.Slice) and not _newaxis(e0):
                iv = _ivec(st, e0, ex)
                if iv is not None and _on(ex):
                    used('A[idx, :] with an integer vector -> the gathered rows (rowg); the indices must be in range')
                    _gather_in_range(ex, st, iv, a.shape[0], node)
                    return VArr((iv.shape[0], a.shape[1]), rowg(a.t, iv.t, Z(iv.shape[0])), 'mat')
        if is_mat(a) and len(elts) == 3 and _on(ex):
            if _full(elts[0]) and _full(elts[1]) and _newaxis(elts[2]):
                used('X[:, :, None] -> 3-D view (s, a, 1) of a matrix')
                return VArr((a.shape[0], a.shape[1], 1), a.t, 'bcM')
            if _full(elts[0]) and _newaxis(elts[1]) and _full(elts[2]):
                used('X[:, None, :] -> 3-D view (s, 1, b) of a matrix')
                return VArr((a.shape[0], 1, a.shape[1]), a.t, 'bcR')
        if a.tag == 'icols' and a.ndim == 2 and len(elts) == 2 and _full(elts[0]) and not isinstance(elts[1], ast.Slice):
            kv = ex.need_num(st, ex.ev(elts[1], st), node)
            k = M.norm_index(ex, st, kv, a.shape[1], node, 'col-index')
            used('I[:, k] of an integer matrix -> its k-th column as an integer vector')
            return VArr((a.shape[0],), a.t[Z(k)], 'ivec', 'i')
    return _orig_index(ex, st, a, sl_, node)


def _gather_in_range(ex, st, iv, n, node):
    s = z3.Int('s!g')
    L = Z(iv.shape[0])
    ex.oblige(st, 'safety', 'gather-indices-in-range',
              z3.ForAll([s], z3.Implies(z3.And(0 <= s, s < L), z3.And(0 <= iv.t[s], iv.t[s] < Z(n))), patterns=[iv.t[s]]), node)


M.arr_index = arr_index


# ---- reshape
_orig_reshape = M.reshape


def reshape(ex, st, a, shp, order, node):
    if isinstance(a, VArr) and (a.tag in ('fsp', 'cvec') or (is_mat(a) and _on(ex))):
        o = order.concrete() if isinstance(order, VStr) else 'C'
        dims = M.shape_arg(ex, st, shp, node)
        neg = lambda x: isinstance(x, int) and x == -1
        if o == 'C' and a.tag == 'fsp' and len(dims) == 2 and neg(dims[1]) and not neg(dims[0]):
            used('(X[:, :, None] * Z[:, None, :]).reshape(s, -1) (C order) -> krrows(X, Z): row s is kron(X[s, :], Z[s, :])')
            ex.oblige(st, 'call-pre', 'reshape-keeps-the-leading-axis', Z(dims[0]) == Z(a.shape[0]), node)
            p, q = a.t
            return VArr((a.shape[0], T.mul_canon(a.shape[1], a.shape[2])), krrows(p, q), 'mat')
        if o == 'C' and is_mat(a) and len(dims) == 1 and neg(dims[0]):
            used('X.reshape(-1) of a matrix (C order) -> vecC(X) as a 1-D array')
            return cvec(vecC(a.t), T.mul_canon(a.shape[0], a.shape[1]))
        if o == 'C' and is_cvec(a) and len(dims) == 2 and not neg(dims[0]) and not neg(dims[1]):
            used('v.reshape(a, b) of a 1-D array (C order) -> unvecC(v, a, b); requires len(v) = a * b')
            ex.oblige(st, 'call-pre', 'reshape-preserves-size', Z(a.shape[0]) == T.mul_canon(dims[0], dims[1]), node)
            return VArr((dims[0], dims[1]), unvecC(a.t, Z(dims[0]), Z(dims[1])), 'mat')
        if a.tag in ('fsp', 'cvec'):
            raise Unsupported(f'reshape of a {a.tag} value to {dims} (order {o}) at line {node.lineno}')
    return _orig_reshape(ex, st, a, shp, order, node)


M.reshape = reshape


# ---- methods: .reshape on the new kinds (models.method only routes some receivers to M.reshape), dict.pop
_orig_method = M.method


def method(ex, st, recv, name, args, kwargs, node):
    r = st.deref(recv)
    if name == 'reshape' and isinstance(r, VArr) and (r.tag in ('fsp', 'cvec') or (is_mat(r) and _on(ex) and len(args) == 1)):
        shp = args[0] if len(args) == 1 else VTuple(args)
        return M.reshape(ex, st, r, shp, kwargs.get('order', VStr('C')), node)
    if name == 'copy' and isinstance(r, VArr) and _on(ex):
        used('ndarray.copy() -> same value, fresh buffer')
        c = VArr(r.shape, r.t, r.tag, r.dtype, r.note)
        c.origin, c.copy_of = c, r            # provenance (contracts state "the result is built on a copy of the argument")
        return c
    if name == 'pop' and isinstance(r, VRec) and len(args) == 2 and isinstance(args[0], VStr) and args[0].concrete() is not None:
        used('dict.pop(key, default) -> removes the key if present')
        return r.fields.pop(args[0].concrete(), args[1])
    return _orig_method(ex, st, recv, name, args, kwargs, node)


M.method = method


# ---- slice store  G[:, k, :] = X  /  G[:, k, :] += X  on a core with a denotation
_orig_store = M.store


def _is_slice_put(ex, st, b, sl_, val):
    return _on(ex) and isinstance(b, VArr) and b.ndim == 3 and b.tag == 'core' and b.t is not None and isinstance(sl_, ast.Tuple) \
        and len(sl_.elts) == 3 and _full(sl_.elts[0]) and _full(sl_.elts[2]) and not isinstance(sl_.elts[1], ast.Slice) and is_mat(val)


def _slice_put(ex, st, b, sl_, val, node, name):
    j = M.norm_index(ex, st, ex.need_num(st, ex.ev(sl_.elts[1], st), node), b.shape[1], node, 'mode-index')
    used('G[:, j, :] = X on a core -> cputsl(G, j, X); requires X of shape (r1, r2)')
    ex.oblige(st, 'call-pre', 'slice-assignment-shape-matches',
              z3.And(Z(val.shape[0]) == Z(b.shape[0]), Z(val.shape[1]) == Z(b.shape[2])), node)
    new = VArr(b.shape, cputsl(b.t, Z(j), val.t), 'core')
    new.origin = getattr(b, 'origin', None)        # provenance (contracts state "the result is built on a copy of the argument")
    st.ghost['slice_stores'] = st.ghost.get('slice_stores', []) + [dict(name=name, j=Z(j), old=b, X=val, new=new)]
    return new


def store(ex, st, base, sl_, v, node, base_node):
    b = st.deref(base)
    val = st.deref(v)
    if isinstance(base_node, ast.Name) and _is_slice_put(ex, st, b, sl_, val):
        st.vars[base_node.id] = _slice_put(ex, st, b, sl_, val, node, base_node.id)
        return
    return _orig_store(ex, st, base, sl_, v, node, base_node)


M.store = store


class own_slice_writes:
    """`with X.own_slice_writes():` around U.run - for gated executors BOTH `G[:, k, :] = X` and `G[:, k, :] += X` (which the
    executor turns into `G[:, k, :] = sl(G, k) + X`) denote cputsl(G, k, .); other extension modules have their own symbol for
    the augmented form, which would otherwise answer first."""
    def __enter__(self):
        self.prev = prev = M.arr_setitem

        def arr_setitem(ex, st, b, sl_, v, node):
            val = st.deref(v)
            if _is_slice_put(ex, st, b, sl_, val):
                return _slice_put(ex, st, b, sl_, val, node, None)
            return prev(ex, st, b, sl_, v, node)
        M.arr_setitem = arr_setitem
        return self

    def __exit__(self, *exc):
        M.arr_setitem = self.prev
        return False


# ----------------------------------------------------------------------------------------------
# NumPy / SciPy entries

@model('np.identity')
def m_identity(ex, st, args, kwargs, node):
    n = ex.need_num(st, args[0], node)
    used('np.identity(n) -> eye(n)')
    return VArr((n, n), T.eye(Z(n)), 'mat')


_orig_copy = M.FUNCS.get('np.copy')


@model('np.copy')
def m_npcopy(ex, st, args, kwargs, node):
    v = st.deref(args[0])
    if isinstance(v, VArr):
        used('np.copy(x) -> same value, fresh buffer')
        return VArr(v.shape, v.t, v.tag, v.dtype, v.note)
    if isinstance(v, VOpaque):
        return VOpaque('copy')
    if _orig_copy is not None:
        return _orig_copy(ex, st, args, kwargs, node)
    raise Unsupported('np.copy of a non-array')


def _flag(v, default):
    if v is None:
        return default
    if isinstance(v, bool):
        return v
    raise Unsupported('overwrite flag that is not a literal')


@model('sp.linalg.lstsq', 'scipy.linalg.lstsq')
def m_sp_lstsq(ex, st, args, kwargs, node):
    if len(args) != 2 or not set(kwargs) <= {'overwrite_a', 'overwrite_b', 'lapack_driver', 'cond', 'check_finite'}:
        raise Unsupported('scipy.linalg.lstsq calling pattern')
    Am, b = st.deref(args[0]), st.deref(args[1])
    if isinstance(Am, VOpaque) or isinstance(b, VOpaque):
        if ex.lenient:
            return VTuple([VOpaque('x'), VOpaque('res'), VOpaque('rank'), VOpaque('s')])
        raise Unsupported('scipy.linalg.lstsq of opaque arrays')
    if not (isinstance(Am, VArr) and isinstance(b, VArr) and Am.ndim == 2 and b.ndim == 1):
        raise Unsupported('scipy.linalg.lstsq: only (2-D matrix, 1-D right-hand side) is modelled')
    used('scipy.linalg.lstsq(M, b, ...) -> (x, residues, rank, s) with x = lsq(M, b), a least-squares solution: M^T M x = M^T b, and '
         'M x = b if M is square and invertible; requires rows(M) = len(b); with overwrite_a / overwrite_b the buffers of M / b '
         'may be destroyed   [A-LAPACK]')
    ex.oblige(st, 'call-pre', 'lstsq-rows-agree', Z(Am.shape[0]) == Z(b.shape[0]), node)
    if is_mat(Am) and is_cvec(b):
        x = cvec(lsq(Am.t, b.t), Am.shape[1])
    else:
        x = VArr((Am.shape[1],), None, None)
    st.ghost['solver_calls'] = st.ghost.get('solver_calls', []) + [
        dict(M=Am, b=b, x=x, ow_a=_flag(kwargs.get('overwrite_a'), False), ow_b=_flag(kwargs.get('overwrite_b'), False))]
    rank = ex.fresh_int('rank')
    st.assume(rank >= 0, rank <= Z(Am.shape[0]), rank <= Z(Am.shape[1]))
    return VTuple([x, VOpaque('residues'), rank, VOpaque('s')])


# ----------------------------------------------------------------------------------------------
# opt_einsum.contract: the shape rule of an einsum; `out=` is written in place (and returned)

def _unopt(ex, st, v, node, what):
    v = st.deref(v)
    if isinstance(v, VOpt):
        ex.oblige(st, 'safety', f'{what}-not-None', z3.Not(v.isnone), node)
        v = st.deref(v.val)
    return v


@model('opt_einsum.contract')
def m_contract(ex, st, args, kwargs, node):
    spec = args[0].concrete() if args and isinstance(args[0], VStr) else None
    if spec is None or '->' not in spec or not set(kwargs) <= {'out'}:
        raise Unsupported('opt_einsum.contract: only contract("<explicit subscripts with ->>", operands..., out=) is modelled')
    ins, res = spec.replace(' ', '').split('->')
    terms = ins.split(',')
    raw = list(args[1:])
    if len(terms) != len(raw):
        raise Unsupported('opt_einsum.contract: number of operands does not match the subscripts')
    ops = [_unopt(ex, st, a, node, 'contract-operand') for a in raw]
    outraw = kwargs.get('out')
    outv = _unopt(ex, st, outraw, node, 'contract-out') if outraw is not None else None
    used('opt_einsum.contract(subscripts, operands..., out=) -> einsum shape rule: an index letter has one dimension in all operands; '
         'the result has the dimensions of the output letters; with out= the result is written into that array (same shape required)')
    event = dict(spec=spec, ops=ops, raw=raw, out=outv, outraw=outraw, line=node.lineno)
    st.ghost['contracts'] = st.ghost.get('contracts', []) + [event]
    if any(isinstance(o, VOpaque) for o in ops) or isinstance(outv, VOpaque):
        if ex.lenient:
            return outv if outv is not None else VOpaque('contract')
        raise Unsupported('opt_einsum.contract of opaque arrays')
    dims = {}
    check = getattr(ex, 'als_contract_shapes', True)
    for t, o in zip(terms, ops):
        if not isinstance(o, VArr) or o.ndim != len(t):
            raise Unsupported(f'opt_einsum.contract: operand for "{t}" is not an array with {len(t)} dimensions (line {node.lineno})')
        for c, dim in zip(t, o.shape):
            if c in dims:
                if check:
                    ex.oblige(st, 'call-pre', f'contract-index-{c}-dimensions-agree', Z(dims[c]) == Z(dim), node)
            else:
                dims[c] = dim
    if not set(res) <= set(dims) or len(set(res)) != len(res):
        raise Unsupported('opt_einsum.contract: malformed output subscripts')
    shp = tuple(dims[c] for c in res)
    event['shape'] = shp
    if outv is not None:
        if not isinstance(outv, VArr) or outv.ndim != len(shp):
            raise Unsupported('opt_einsum.contract: out= is not an array of the result rank')
        if check:
            ex.oblige(st, 'call-pre', 'contract-out-has-the-result-shape', z3.And([Z(a) == Z(b) for a, b in zip(outv.shape, shp)]), node)
        return outv
    return VArr(shp, None, None)


@model('dict')
def m_dict(ex, st, args, kwargs, node):
    if args:
        raise Unsupported('dict(<positional>)')
    used('dict(key=value, ...) -> a new dict with these literal keys')
    return st.alloc(VRec(dict(kwargs)))


# ----------------------------------------------------------------------------------------------
# slice coverage:  np.unique(I[:, k]).size != n_k

ndist = z3.Function('ndist', IA, I, I)
covers = z3.Function('covers', IA, I, I, B)
inrng = z3.Function('inrng', IA, I, I, B)
occ = z3.Function('occ', IA, I, I, I)
miss = z3.Function('miss', IA, I, I, I)
v_ = z3.Const('v!als', IA)
s_ = z3.Int('s!als')

T.GROUPS['cover'] = [
    # pigeonhole: m entries of [0, n) have n distinct values iff every value of [0, n) occurs
    A([v_, m_, n_], z3.Implies(z3.And(m_ >= 0, n_ >= 0, inrng(v_, m_, n_)), (ndist(v_, m_) == n_) == covers(v_, m_, n_)),
      [z3.MultiPattern(ndist(v_, m_), covers(v_, m_, n_)), z3.MultiPattern(ndist(v_, m_), miss(v_, m_, n_))]),
    A([v_, m_, n_, j_], z3.Implies(z3.And(covers(v_, m_, n_), 0 <= j_, j_ < n_),
                                   z3.And(0 <= occ(v_, m_, j_), occ(v_, m_, j_) < m_, v_[occ(v_, m_, j_)] == j_)),
      [z3.MultiPattern(covers(v_, m_, n_), occ(v_, m_, j_))]),
    A([v_, m_, n_], z3.Implies(z3.Not(covers(v_, m_, n_)), z3.And(0 <= miss(v_, m_, n_), miss(v_, m_, n_) < n_)),
      [covers(v_, m_, n_), miss(v_, m_, n_)]),
    A([v_, m_, n_, s_], z3.Implies(z3.And(z3.Not(covers(v_, m_, n_)), 0 <= s_, s_ < m_), v_[s_] != miss(v_, m_, n_)),
      [z3.MultiPattern(covers(v_, m_, n_), v_[s_]), z3.MultiPattern(miss(v_, m_, n_), v_[s_])]),
    A([v_, m_], z3.And(0 <= ndist(v_, m_), z3.Implies(m_ >= 0, ndist(v_, m_) <= m_)), [ndist(v_, m_)]),
]


def m_unique_als(ex, st, args, kwargs, node):
    """np.unique(v) of an integer vector with a denotation (pass as callees={'np.unique': X.m_unique_als}: the model-table entry
    'np.unique' belongs to another extension module)."""
    v = st.deref(args[0]) if args else None
    if len(args) == 1 and not kwargs and isinstance(v, VArr) and v.ndim == 1 and v.tag == 'ivec' and v.t is not None and not callable(v.t):
        used('np.unique(v) of an integer vector -> sorted distinct values: ndist(v, len) of them')
        return VArr((ndist(v.t, Z(v.shape[0])),), None, None, 'i')
    return M.FUNCS['np.unique'](ex, st, args, kwargs, node)


# ----------------------------------------------------------------------------------------------
# shape tier of als._optimize_core_adaptive (gated): boolean masks with a sample count, dict-of-masks caches, try / except KeyError
# on a dict with literal keys, 4-D merged core

class VMaskMap(M.VMap):
    """dict  mode index -> boolean mask over the samples  (the i1 / i2 caches): only the mask length is kept."""
    def __init__(self, name='maskmap', n=None):
        M.VMap.__init__(self, name)
        self.n = n

    def copy(self):
        c = VMaskMap(self.name, self.n)
        c.writes = self.writes
        return c


def new_mask(ex, st, n):
    """A boolean mask of length n with its number of True entries (any() <=> count >= 1, sum() = count)."""
    mk = VArr((n,), None, 'mask', 'b')
    mk.count = ex.fresh_int('ntrue')
    st.assume(mk.count >= 0, mk.count <= Z(n))
    return mk


def _is_mask(v):
    return isinstance(v, VArr) and v.ndim == 1 and v.dtype == 'b'


def _count(ex, st, mk):
    if getattr(mk, 'count', None) is None:
        mk.count = ex.fresh_int('ntrue')
        st.assume(mk.count >= 0, mk.count <= Z(mk.shape[0]))
    return mk.count


_orig_subscript = M.subscript


def subscript(ex, st, base, sl_, node):
    b = st.deref(base)
    if isinstance(b, VMaskMap):
        ex.ev(sl_, st)
        if b.n is None:
            raise Unsupported('lookup in a mask cache before anything was stored in it')
        used('cache[k] of a dict of boolean masks -> a boolean mask of the common length (contents not interpreted)')
        return new_mask(ex, st, b.n)
    return _orig_subscript(ex, st, base, sl_, node)


M.subscript = subscript
_orig_store2 = M.store


def store2(ex, st, base, sl_, v, node, base_node):
    b = st.deref(base)
    val = st.deref(v)
    if isinstance(b, VMaskMap):
        ex.ev(sl_, st)
        if not _is_mask(val):
            raise Unsupported('a mask cache stores something that is not a boolean vector')
        if b.n is None:
            b.n = val.shape[0]
        else:
            ex.oblige(st, 'call-pre', 'cached-masks-have-one-common-length', Z(b.n) == Z(val.shape[0]), node)
        b.writes += 1
        return
    if _on(ex) and isinstance(b, VArr) and b.ndim == 4 and isinstance(base_node, ast.Name) and isinstance(sl_, ast.Tuple) and len(sl_.elts) == 4 \
            and _full(sl_.elts[0]) and _full(sl_.elts[3]) and not isinstance(sl_.elts[1], ast.Slice) and not isinstance(sl_.elts[2], ast.Slice):
        i1 = M.norm_index(ex, st, ex.need_num(st, ex.ev(sl_.elts[1], st), node), b.shape[1], node, 'mode-index')
        i2 = M.norm_index(ex, st, ex.need_num(st, ex.ev(sl_.elts[2], st), node), b.shape[2], node, 'mode-index')
        used('Q[:, k1, k2, :] = X on a 4-D array -> requires X of shape (Q.shape[0], Q.shape[3]); contents not interpreted')
        ex.oblige(st, 'call-pre', 'block-assignment-shape-matches',
                  z3.And(Z(val.shape[0]) == Z(b.shape[0]), Z(val.shape[1]) == Z(b.shape[3])) if isinstance(val, VArr) and val.ndim == 2 else False, node)
        new = VArr(b.shape, None, None, b.dtype)
        new.init = getattr(b, 'init', None)               # provenance: how the array was allocated (np.zeros / np.empty)
        st.vars[base_node.id] = new
        st.ghost['block_stores'] = st.ghost.get('block_stores', []) + [(i1, i2)]
        return
    return _orig_store2(ex, st, base, sl_, v, node, base_node)


M.store = store2
_orig_binop2 = M.arr_binop


def arr_binop2(ex, st, op, l, r, node):
    if isinstance(op, ast.BitAnd) and _is_mask(l) and _is_mask(r):
        used('mask1 & mask2 -> boolean mask of the same length (requires equal lengths)')
        ex.oblige(st, 'call-pre', 'elementwise-shapes-agree', Z(l.shape[0]) == Z(r.shape[0]), node)
        return new_mask(ex, st, l.shape[0])
    if _on(ex) and isinstance(op, ast.Mult) and isinstance(l, VArr) and isinstance(r, VArr):
        for p, q in ((l, r), (r, l)):
            if p.tag == 'bcMs' and q.tag == 'bcRs':
                used('X[:, :, None] * Z[:, None, :] -> 3-D array (s, a, b); requires equal row counts (shape only)')
                ex.oblige(st, 'call-pre', 'broadcast-leading-axes-agree', Z(p.shape[0]) == Z(q.shape[0]), node)
                return VArr((p.shape[0], p.shape[1], q.shape[2]), None, 'fsps')
        if {l.tag, r.tag} & {'bcMs', 'bcRs', 'fsps'}:
            raise Unsupported(f'broadcast product of {l.tag} and {r.tag} at line {node.lineno}')
    return _orig_binop2(ex, st, op, l, r, node)


M.arr_binop = arr_binop2
_orig_index2 = M.arr_index


def arr_index2(ex, st, a, sl_, node):
    elts = sl_.elts if isinstance(sl_, ast.Tuple) else [sl_]
    if _on(ex) and isinstance(a, VArr) and a.t is None:
        if a.ndim == 2 and len(elts) == 2:
            e0, e1 = elts
            for fe, ie, ax in ((e0, e1, 1), (e1, e0, 0)):
                if _full(fe) and isinstance(ie, ast.Name) and _is_mask(st.vars.get(ie.id)):
                    mk = st.vars[ie.id]
                    used('A[:, mask] / A[mask, :] with a boolean mask -> as many columns / rows as the mask has True entries')
                    ex.oblige(st, 'call-pre', 'boolean-mask-has-the-length-of-the-axis', Z(mk.shape[0]) == Z(a.shape[ax]), node)
                    c = _count(ex, st, mk)
                    return VArr((a.shape[0], c) if ax == 1 else (c, a.shape[1]), None, None, a.dtype)
        if a.ndim == 1 and len(elts) == 1 and isinstance(elts[0], ast.Name) and _is_mask(st.vars.get(elts[0].id)):
            mk = st.vars[elts[0].id]
            used('v[mask] with a boolean mask -> as many entries as the mask has True entries')
            ex.oblige(st, 'call-pre', 'boolean-mask-has-the-length-of-the-axis', Z(mk.shape[0]) == Z(a.shape[0]), node)
            return VArr((_count(ex, st, mk),), None, None, a.dtype)
        if a.ndim == 2 and len(elts) == 3 and a.tag in (None, 'mat'):
            if _full(elts[0]) and _full(elts[1]) and _newaxis(elts[2]):
                return VArr((a.shape[0], a.shape[1], 1), None, 'bcMs')
            if _full(elts[0]) and _newaxis(elts[1]) and _full(elts[2]):
                return VArr((a.shape[0], 1, a.shape[1]), None, 'bcRs')
    return _orig_index2(ex, st, a, sl_, node)


M.arr_index = arr_index2
_orig_reshape2 = M.reshape


def reshape2(ex, st, a, shp, order, node):
    if _on(ex) and isinstance(a, VArr) and (isinstance(order, VStr) and order.concrete() == 'C'):
        neg = lambda x: isinstance(x, int) and x == -1
        if a.tag == 'fsps' or (a.t is None and a.ndim in (1, 4)) or (a.ndim == 2 and a.tag == 'mat'):
            dims = M.shape_arg(ex, st, shp, node)
            if a.tag == 'fsps' and len(dims) == 2 and neg(dims[1]) and not neg(dims[0]):
                ex.oblige(st, 'call-pre', 'reshape-keeps-the-leading-axis', Z(dims[0]) == Z(a.shape[0]), node)
                return VArr((a.shape[0], T.mul_canon(a.shape[1], a.shape[2])), None, None)
            if a.ndim == 1 and a.t is None and len(dims) == 2 and not neg(dims[0]) and not neg(dims[1]):
                used('v.reshape(a, b) of a 1-D array -> requires len(v) = a * b (shape only)')
                ex.oblige(st, 'call-pre', 'reshape-preserves-size', Z(a.shape[0]) == T.mul_canon(dims[0], dims[1]), node)
                return VArr((dims[0], dims[1]), None, None)
            if a.ndim == 4 and a.t is None and len(dims) == 2 and neg(dims[1]) and M._same(st, dims[0], T.mul_canon(a.shape[0], a.shape[1])):
                used('Q.reshape(s0 * s1, -1) of a 4-D array -> SOME matrix of shape (s0 * s1, s2 * s3) (contents not interpreted)')
                t = ex.fresh('Qs', T.Mat)
                r_, c_ = T.mul_canon(a.shape[0], a.shape[1]), T.mul_canon(a.shape[2], a.shape[3])
                st.assume(T.rows(t) == r_, T.cols(t) == c_)
                return VArr((r_, c_), t, 'mat')
            if a.ndim == 2 and a.tag == 'mat' and len(dims) == 3 and neg(dims[0]) and not neg(dims[1]) and not neg(dims[2]):
                used('V.reshape(-1, n, r) of a matrix (C order) -> 3-D array (rows(V), n, r); requires cols(V) = n * r (shape only)')
                ex.oblige(st, 'call-pre', 'reshape-preserves-size', Z(a.shape[1]) == T.mul_canon(dims[1], dims[2]), node)
                g = ex.fresh('core', T.Core)
                st.assume(T.d0(g) == Z(a.shape[0]), T.d1(g) == Z(dims[1]), T.d2(g) == Z(dims[2]))
                return M.mk_core(g)
    return _orig_reshape2(ex, st, a, shp, order, node)


M.reshape = reshape2
_orig_method2 = M.method


def method2(ex, st, recv, name, args, kwargs, node):
    r = st.deref(recv)
    if _is_mask(r) and not args and not kwargs and name in ('any', 'sum'):
        c = _count(ex, st, r)
        used('mask.any() / mask.sum() of a boolean vector -> (count >= 1) / count of its True entries')
        return c >= 1 if name == 'any' else c
    if _on(ex) and name == 'reshape' and isinstance(r, VArr) and args:
        flat = []
        for a in args:
            if type(a).__name__ == 'VStar':
                inner = st.deref(a.value)
                if not isinstance(inner, (VTuple, VList)):
                    raise Unsupported('reshape(*x) with a non-tuple')
                flat.extend(inner.items)
            else:
                flat.append(a)
        if len(flat) != len(args) or r.tag == 'fsps' or (r.t is None and r.ndim in (1, 4)):
            shp = flat[0] if len(flat) == 1 else VTuple(flat)
            return M.reshape(ex, st, r, shp, kwargs.get('order', VStr('C')), node)
    return _orig_method2(ex, st, recv, name, args, kwargs, node)


M.method = method2
_orig_try = M.try_stmt


def try_stmt(ex, st, s):
    """try: x = d['key'] / except KeyError: handler  - for a dict with literal keys the lookup raises iff the key is absent."""
    if _on(ex) and not s.orelse and not s.finalbody and len(s.handlers) == 1 and s.handlers[0].name is None \
            and isinstance(s.handlers[0].type, ast.Name) and s.handlers[0].type.id == 'KeyError' and len(s.body) == 1 \
            and isinstance(s.body[0], ast.Assign) and isinstance(s.body[0].value, ast.Subscript) and isinstance(s.body[0].value.value, ast.Name) \
            and isinstance(s.body[0].value.slice, ast.Constant) and isinstance(s.body[0].value.slice.value, str):
        d_ = st.deref(st.vars.get(s.body[0].value.value.id))
        if isinstance(d_, VRec):
            used('try: x = d[key] / except KeyError -> the handler runs iff the literal key is absent from the dict')
            if s.body[0].value.slice.value in d_.fields:
                return ex.exec_block(s.body, st)
            return ex.exec_block(s.handlers[0].body, st)
    return _orig_try(ex, st, s)


M.try_stmt = try_stmt


@model('np.prod')
def m_prod(ex, st, args, kwargs, node):
    v = st.deref(args[0])
    if len(args) == 1 and not kwargs and isinstance(v, (VTuple, VList)) and v.items and all(is_intsort(x) for x in v.items):
        used('np.prod((a, b, ...)) of integers -> the product (canonical product of dimensions)')
        return T.mul_canon(*v.items)
    raise Unsupported('np.prod pattern')


# ----------------------------------------------------------------------------------------------
# als_func._optimize_core: three-factor design matrix, C-order flattening of a core, in-place writes, relative top-coefficient test
#
#   vec3(G)            = G.reshape(-1) (C order, as a column);   unvec3(v, a, b, c) = v.reshape(a, b, c)
#   cadd(G, H)         = G + H
#   ctrunc(G, n)       = G[:, :n, :];    cpre(G, H) = G with its leading d1(H) mode slices replaced by those of H (a write through
#                        the view G[:, :d1(H), :])
#   maxabsC(G), maxabsM(A) = np.abs(.).max()
#   fpred(P, H, G, R)  = the model values  sum_{k,j,l} P[i,k] H[i,j] G[k,j,l] R[i,l]   (TT-Tucker prediction at the samples)

vec3 = z3.Function('vec3', Core, Mat)
unvec3 = z3.Function('unvec3', Mat, I, I, I, Core)
cadd = z3.Function('cadd', Core, Core, Core)
ctrunc = z3.Function('ctrunc', Core, I, Core)
cpre = z3.Function('cpre', Core, Core, Core)
maxabsC = z3.Function('maxabsC', Core, R)
maxabsM = z3.Function('maxabsM', Mat, R)
fpred = z3.Function('fpred', Mat, Mat, Core, Mat, Mat)
H_ = z3.Const('H!als', Core)
p_, q_ = z3.Ints('p!als q!als')
d0, d1, d2, sl = T.d0, T.d1, T.d2, T.sl


def size3(g):
    return T.mul_canon(d0(g), d1(g), d2(g))


T.GROUPS['als3'] = [
    A([a_, m_, n_, k_], z3.And(d0(unvec3(a_, m_, n_, k_)) == m_, d1(unvec3(a_, m_, n_, k_)) == n_, d2(unvec3(a_, m_, n_, k_)) == k_),
      [unvec3(a_, m_, n_, k_)]),
    A([G_], z3.And(rows(vec3(G_)) == size3(G_), cols(vec3(G_)) == 1), [vec3(G_)]),
    A([a_, m_, n_, k_], z3.Implies(z3.And(m_ >= 1, n_ >= 1, k_ >= 1, rows(a_) == T.mulI(T.mulI(m_, n_), k_), cols(a_) == 1),
                                   vec3(unvec3(a_, m_, n_, k_)) == a_), [unvec3(a_, m_, n_, k_)]),
    A([G_], unvec3(vec3(G_), d0(G_), d1(G_), d2(G_)) == G_, [vec3(G_)]),
    A([G_, H_], z3.And(d0(cadd(G_, H_)) == d0(G_), d1(cadd(G_, H_)) == d1(G_), d2(cadd(G_, H_)) == d2(G_)), [cadd(G_, H_)]),
    A([G_, H_], z3.Implies(z3.And(d0(G_) == d0(H_), d1(G_) == d1(H_), d2(G_) == d2(H_)), vec3(cadd(G_, H_)) == madd(vec3(G_), vec3(H_))),
      [cadd(G_, H_)]),
    A([G_, n_], z3.Implies(z3.And(0 <= n_, n_ <= d1(G_)),
                           z3.And(d0(ctrunc(G_, n_)) == d0(G_), d1(ctrunc(G_, n_)) == n_, d2(ctrunc(G_, n_)) == d2(G_))), [ctrunc(G_, n_)]),
    A([G_, n_, j_], z3.Implies(z3.And(0 <= j_, j_ < n_, n_ <= d1(G_)), sl(ctrunc(G_, n_), j_) == sl(G_, j_)), [sl(ctrunc(G_, n_), j_)]),
    A([G_, H_], z3.And(d0(cpre(G_, H_)) == d0(G_), d1(cpre(G_, H_)) == d1(G_), d2(cpre(G_, H_)) == d2(G_)), [cpre(G_, H_)]),
    A([G_, H_, j_], z3.Implies(z3.And(d0(H_) == d0(G_), d2(H_) == d2(G_), d1(H_) <= d1(G_), 0 <= j_, j_ < d1(G_)),
                               sl(cpre(G_, H_), j_) == z3.If(j_ < d1(H_), sl(H_, j_), sl(G_, j_))), [sl(cpre(G_, H_), j_)]),
    A([G_], maxabsC(G_) >= 0, [maxabsC(G_)]),
    A([a_], maxabsM(a_) >= 0, [maxabsM(a_)]),
    A([G_, j_], z3.Implies(z3.And(0 <= j_, j_ < d1(G_)), maxabsM(sl(G_, j_)) <= maxabsC(G_)), [maxabsM(sl(G_, j_))]),
]
# layout of the three-factor design matrix against the C-order flattening of the core
T.GROUPS['kr3vec'] = [
    A([a_, b_, c_, G_], z3.Implies(z3.And(rows(a_) == rows(b_), rows(b_) == rows(c_), cols(a_) == d0(G_), cols(b_) == d1(G_), cols(c_) == d2(G_)),
                                   mm(krrows(krrows(a_, b_), c_), vec3(G_)) == fpred(a_, b_, G_, c_)),
      [mm(krrows(krrows(a_, b_), c_), vec3(G_))]),
]


class VMaxAbs:
    """np.abs(X).max(): a non-negative real kept apart from ordinary numbers because `a / b < c` on two of them is evaluated with
    the IEEE result for b = 0 (nan / inf compare False) instead of an A-REAL division."""
    def __init__(self, term):
        self.term = term


class VRatio:
    def __init__(self, num, den):
        self.num, self.den = num, den


_orig_exec_binop = symex.Exec.binop


def _exec_binop(self, st, op, l, r, node):
    if isinstance(l, VMaxAbs) or isinstance(r, VMaxAbs):
        if isinstance(op, ast.Div) and isinstance(l, VMaxAbs) and isinstance(r, VMaxAbs):
            return VRatio(l.term, r.term)
        raise Unsupported(f'arithmetic on np.abs(.).max() other than a quotient of two of them (line {node.lineno})')
    return _orig_exec_binop(self, st, op, l, r, node)


symex.Exec.binop = _exec_binop
_orig_exec_compare = symex.Exec.compare


def _exec_compare(self, st, op, l, r, node):
    if isinstance(l, VRatio) or isinstance(r, VRatio) or isinstance(l, VMaxAbs) or isinstance(r, VMaxAbs):
        if isinstance(l, VRatio) and isinstance(op, ast.Lt) and is_num(self.need_num(st, r, node)):
            used('a / b < c for two non-negative floats a <= b (np.abs(.).max() values): true iff b > 0 and a < c * b; for b = 0 the '
                 'quotient is nan (0 / 0, RuntimeWarning only) and the comparison is False   [IEEE 754, A-REAL otherwise]')
            c = to_real(self.need_num(st, r, node))
            return z3.And(l.den > 0, l.num < c * l.den)
        if isinstance(l, VMaxAbs) and not isinstance(r, (VMaxAbs, VRatio)) and isinstance(op, (ast.Lt, ast.LtE, ast.Gt, ast.GtE)):
            c = to_real(self.need_num(st, r, node))
            return {ast.Lt: l.term < c, ast.LtE: l.term <= c, ast.Gt: l.term > c, ast.GtE: l.term >= c}[type(op)]
        raise Unsupported(f'comparison of np.abs(.).max() values other than `ratio < number` / `value < number` (line {node.lineno})')
    return _orig_exec_compare(self, st, op, l, r, node)


symex.Exec.compare = _exec_compare

_orig_method3 = M.method


def method3(ex, st, recv, name, args, kwargs, node):
    r = st.deref(recv)
    if _on(ex) and isinstance(r, VArr):
        if name == 'max' and not args and not kwargs and r.note and r.note[0] == 'abs':
            src = r.note[1]
            if isinstance(src, VArr) and src.t is not None and src.tag in ('core', 'mat'):
                used('np.abs(X).max() -> maxabsC(X) / maxabsM(X) >= 0 (requires a non-empty array)')
                for s_dim in src.shape:
                    ex.oblige(st, 'call-pre', 'max-of-non-empty', Z(s_dim) >= 1, node)
                return VMaxAbs(maxabsC(src.t) if src.tag == 'core' else maxabsM(src.t))
        if name == 'reshape' and r.ndim == 3 and r.tag == 'core' and r.t is not None and len(args) == 1 and isinstance(args[0], int) and args[0] == -1 \
                and kwargs.get('order') is None:
            used('G.reshape(-1) of a core (C order) -> vec3(G) as a 1-D array')
            return cvec(vec3(r.t), T.mul_canon(*r.shape))
    return _orig_method3(ex, st, recv, name, args, kwargs, node)


M.method = method3
_orig_reshape3 = M.reshape


def reshape3(ex, st, a, shp, order, node):
    if isinstance(a, VArr) and (isinstance(order, VStr) and order.concrete() == 'C'):
        if is_cvec(a) or a.tag == 'kr3':
            dims = M.shape_arg(ex, st, shp, node)
            neg = lambda x: isinstance(x, int) and x == -1
            if is_cvec(a) and len(dims) == 3 and not any(neg(x) for x in dims):
                used('v.reshape(a, b, c) of a 1-D array (C order) -> unvec3(v, a, b, c); requires len(v) = a * b * c')
                ex.oblige(st, 'call-pre', 'reshape-preserves-size', Z(a.shape[0]) == T.mul_canon(*dims), node)
                return VArr(tuple(dims), unvec3(a.t, *[Z(x) for x in dims]), 'core')
            if a.tag == 'kr3' and len(dims) == 2 and neg(dims[1]) and not neg(dims[0]):
                used('contract("..i.. three factors ->i...").reshape(m, -1) (C order) -> krrows(krrows(F1, F2), F3): row i is kron(F1[i], F2[i], F3[i])')
                ex.oblige(st, 'call-pre', 'reshape-keeps-the-leading-axis', Z(dims[0]) == Z(a.shape[0]), node)
                f1, f2, f3 = a.t
                return VArr((a.shape[0], T.mul_canon(a.shape[1], a.shape[2], a.shape[3])), krrows(krrows(f1, f2), f3), 'mat')
            if a.tag == 'kr3':
                raise Unsupported(f'reshape of a three-factor product to {dims} at line {node.lineno}')
    return _orig_reshape3(ex, st, a, shp, order, node)


M.reshape = reshape3
_orig_method4 = M.method


def method4(ex, st, recv, name, args, kwargs, node):
    r = st.deref(recv)
    if name == 'reshape' and isinstance(r, VArr) and r.tag == 'kr3':
        shp = args[0] if len(args) == 1 else VTuple(args)
        return M.reshape(ex, st, r, shp, kwargs.get('order', VStr('C')), node)
    return _orig_method4(ex, st, recv, name, args, kwargs, node)


M.method = method4
_plain_contract = M.FUNCS['opt_einsum.contract']


@model('opt_einsum.contract')
def m_contract3(ex, st, args, kwargs, node):
    """contract('li,ik,ij->ikjl', Yr, Yl, Hk): three matrices that share the sample index, nothing summed: a 4-D array with the sample
    index first, kept as the triple of sample-major factors in the order of the output letters."""
    spec = args[0].concrete() if args and isinstance(args[0], VStr) else None
    if _on(ex) and spec and '->' in spec and not kwargs and len(args) == 4:
        ins, res = spec.replace(' ', '').split('->')
        terms = ins.split(',')
        ops = [st.deref(a) for a in args[1:]]
        if len(terms) == 3 and all(len(t) == 2 for t in terms) and all(is_mat(o) for o in ops) and len(res) == 4 and len(set(res)) == 4:
            shared = set(terms[0]) & set(terms[1]) & set(terms[2])
            letters = [c for t in terms for c in t]
            if len(shared) == 1 and res[0] in shared and sorted(set(letters)) == sorted(res) and len(set(letters)) == 4:
                i_ = res[0]
                fac, dim, mrows = {}, {}, None
                for t, o in zip(terms, ops):
                    c = t[0] if t[1] == i_ else t[1]
                    sample_first = t[0] == i_
                    fac[c] = o.t if sample_first else tr(o.t)
                    dim[c] = o.shape[1] if sample_first else o.shape[0]
                    rws = o.shape[0] if sample_first else o.shape[1]
                    if mrows is None:
                        mrows = rws
                    else:
                        ex.oblige(st, 'call-pre', f'contract-index-{i_}-dimensions-agree', Z(mrows) == Z(rws), node)
                used('opt_einsum.contract of three matrices sharing one (sample) index, no summation, sample index first in the output -> '
                     '4-D array of the products, in the order of the output letters')
                out = VArr((mrows,) + tuple(dim[c] for c in res[1:]), tuple(fac[c] for c in res[1:]), 'kr3')
                st.ghost['contracts'] = st.ghost.get('contracts', []) + [dict(spec=spec, ops=ops, raw=list(args[1:]), out=None, outraw=None, line=node.lineno, shape=out.shape)]
                return out
    return _plain_contract(ex, st, args, kwargs, node)


# ---- views and in-place writes of a core (gated)
_orig_index3 = M.arr_index


def arr_index3(ex, st, a, sl_, node):
    elts = sl_.elts if isinstance(sl_, ast.Tuple) else [sl_]
    if _on(ex) and isinstance(a, VArr) and a.t is not None:
        lead = lambda e: isinstance(e, ast.Slice) and e.lower is None and e.step is None and e.upper is not None
        if a.ndim == 3 and a.tag == 'core' and len(elts) == 3 and _full(elts[0]) and _full(elts[2]) and lead(elts[1]):
            u = ex.need_num(st, ex.ev(elts[1].upper, st), node)
            n = (a.shape[1] + u) if isinstance(u, int) and u < 0 else u
            used('G[:, :n, :] -> ctrunc(G, n) (a VIEW of the leading n mode slices; requires 0 <= n <= mode size)')
            ex.oblige(st, 'safety', 'leading-block-in-range', z3.And(Z(n) >= 0, Z(n) <= Z(a.shape[1])), node)
            v = VArr((a.shape[0], n, a.shape[2]), ctrunc(a.t, Z(n)), 'core')
            v.view_of = a
            return v
        if is_mat(a) and len(elts) == 2 and _full(elts[0]) and lead(elts[1]):
            u = ex.need_num(st, ex.ev(elts[1].upper, st), node)
            if isinstance(u, int) and u < 0:
                from ttvc import vec as V
                n = a.shape[1] + u
                used('A[:, :-c] -> lcols(A, cols - c) (requires cols >= c)')
                ex.oblige(st, 'safety', 'leading-block-in-range', Z(n) >= 0, node)
                return VArr((a.shape[0], n), V.lcols(a.t, Z(n)), 'mat')
    return _orig_index3(ex, st, a, sl_, node)


M.arr_index = arr_index3
_orig_store3 = M.store


def store3(ex, st, base, sl_, v, node, base_node):
    b = st.deref(base)
    val = st.deref(v)
    if _on(ex) and isinstance(b, VArr) and b.ndim == 3 and isinstance(base_node, ast.Name) and isinstance(sl_, ast.Constant) and sl_.value is Ellipsis \
            and isinstance(val, VArr) and val.ndim == 3 and val.tag == 'core' and val.t is not None:
        used('G[...] = X -> every entry of G is overwritten by X (requires equal shapes); the array object stays the same')
        ex.oblige(st, 'call-pre', 'full-assignment-shape-matches', z3.And([Z(x) == Z(y) for x, y in zip(val.shape, b.shape)]), node)
        new = VArr(b.shape, val.t, 'core')
        new.view_of = getattr(b, 'view_of', None)
        st.vars[base_node.id] = new
        st.ghost['full_writes'] = st.ghost.get('full_writes', []) + [dict(name=base_node.id, old=b, new=new)]
        return
    return _orig_store3(ex, st, base, sl_, v, node, base_node)


M.store = store3
_orig_binop3 = M.arr_binop


def arr_binop3(ex, st, op, l, r, node):
    if _on(ex) and isinstance(op, ast.Add) and isinstance(l, VArr) and isinstance(r, VArr) and l.ndim == 3 and r.ndim == 3 \
            and l.tag == 'core' and r.tag == 'core' and l.t is not None and r.t is not None:
        used('G + H for two cores -> cadd(G, H) (requires equal shapes)')
        ex.oblige(st, 'call-pre', 'elementwise-shapes-agree', z3.And([Z(x) == Z(y) for x, y in zip(l.shape, r.shape)]), node)
        return VArr(l.shape, cadd(l.t, r.t), 'core')
    return _orig_binop3(ex, st, op, l, r, node)


M.arr_binop = arr_binop3


# ----------------------------------------------------------------------------------------------
# pieces for the sweep part of als_func.als_func (gated): range objects as values, list(seq), elementwise conditional comprehension

@model('range')
def m_range_value(ex, st, args, kwargs, node):
    """`rng = range(...)`: the iteration object as a value (`for k in rng` then iterates it)."""
    it = M.iteration(ex, st, node, node)
    if it.concrete is not None:
        return it
    base = it.bind
    used('range(...) object bound to a name -> iterated later by `for k in <name>`')
    return M.Iteration(n=it.n, bind=lambda *a: base(None, None, a[-1]))


@model('list')
def m_list_copy(ex, st, args, kwargs, node):
    v = st.deref(args[0]) if len(args) == 1 and not kwargs else None
    if isinstance(v, VSeq):
        used('list(seq) -> a new list with the same elements')
        return st.alloc(VSeq(v.arr, v.n, v.wrap, v.tag, getattr(v, 'unwrap', None)))
    if isinstance(v, VList):
        return st.alloc(VList(list(v.items)))
    raise Unsupported('list(...) of this value')


_orig_listcomp = M.listcomp


def listcomp(ex, st, e):
    """[A if test else B for x in seq] with cores A, B: element j is A_j where test_j holds and B_j elsewhere (the stock model
    would decide the test once for the generic element, i.e. for all elements alike)."""
    if _on(ex) and len(e.generators) == 1 and not e.generators[0].ifs and isinstance(e.elt, ast.IfExp) and ex._pure(e.elt):
        g = e.generators[0]
        it = M.iteration(ex, st, g.iter, e)
        if it.concrete is None:
            saved = dict(st.vars)
            try:
                j = ex.fresh_int('lc')
                guard = z3.And(j >= 0, j < it.n)
                mark = len(st.pc)
                st.pc.append(guard)
                ex.assign(g.target, it.bind(ex, st, j), st)
                c = ex.truth(st, ex.ev(e.elt.test, st), e)
                if isinstance(c, bool):
                    raise Unsupported('conditional comprehension with a constant test')
                vals = []
                for cond, br in ((c, e.elt.body), (z3.Not(c), e.elt.orelse)):
                    m2 = len(st.pc)
                    st.pc.append(cond)
                    v = st.deref(ex.ev(br, st))
                    added = st.pc[m2 + 1:]
                    del st.pc[m2:]
                    st.pc.extend(z3.Implies(cond, f) for f in added)
                    vals.append(v)
                added = st.pc[mark + 1:]
                del st.pc[mark:]
                a, b = vals
                if not all(isinstance(v, VArr) and v.ndim == 3 and v.tag == 'core' and v.t is not None for v in vals):
                    raise Unsupported('conditional comprehension whose branches are not cores with a denotation')
                arr = ex.fresh('lc', T.TT)
                used('[A if test else B for x in seq] -> element j is A_j if test_j else B_j')
                st.assume(z3.ForAll([j], z3.Implies(guard, z3.And(*([arr[j] == z3.If(c, a.t, b.t)] + list(added)))), patterns=[arr[j]]))
                return st.alloc(VSeq(arr, it.n, M.mk_core, 'core'))
            finally:
                for k in list(st.vars):
                    if k not in saved:
                        del st.vars[k]
                    else:
                        st.vars[k] = saved[k]
    return _orig_listcomp(ex, st, e)


M.listcomp = listcomp


_orig_attribute = M.attribute


def attribute(ex, st, v, attr, node):
    if _on(ex) and isinstance(v, VOpt) and isinstance(st.deref(v.val), VArr):
        ex.oblige(st, 'safety', 'attribute-of-not-None', z3.Not(v.isnone), node)
        return _orig_attribute(ex, st, st.deref(v.val), attr, node)
    return _orig_attribute(ex, st, v, attr, node)


M.attribute = attribute
