"""Model-table entries for the shape-level reasoning about teneva.svd.svd_incomplete (C20) and similar code: integer
vectors with arithmetic, strided / one-sided slices, lists of arrays, np.linalg.lstsq."""
import ast
import z3
from ttvc.symex import Unsupported, NONE, VStr, VOpt, VTuple, VRef, VList, VSeq, VArr, VOpaque, Z, is_num, is_intsort, quick_unsat
from ttvc import models as M, theory as T
from ttvc.models import model, used

IA = z3.ArraySort(z3.IntSort(), z3.IntSort())
_i = z3.Int('i!s')


def clipped(lo, hi, n):
    """Length of a[lo:hi] on an axis of length n for 0 <= lo (NumPy clips the bounds)."""
    lo, hi, n = Z(lo), Z(hi), Z(n)
    hi_c = z3.If(hi > n, n, hi)
    lo_c = z3.If(lo > n, n, lo)
    return z3.If(hi_c - lo_c >= 0, hi_c - lo_c, 0)


_orig_npmax = M.FUNCS['np.max']


@model('np.max')
def m_max_axis(ex, st, args, kwargs, node):
    v = st.deref(args[0])
    if kwargs.get('axis') == 0 and isinstance(v, VArr) and v.ndim == 2:
        used('np.max(I, axis=0) -> vector of column maxima (requires at least one row)')
        ex.oblige(st, 'call-pre', 'max-over-non-empty-axis', Z(v.shape[0]) >= 1, node)
        arr = ex.fresh('colmax', IA)
        out = VArr((v.shape[1],), arr, 'ivec', v.dtype)
        if getattr(v, 'nonneg', False):
            st.assume(z3.ForAll([_i], arr[_i] >= 0, patterns=[arr[_i]]))
        return out
    return _orig_npmax(ex, st, args, kwargs, node)


_orig_binop = M.arr_binop


def arr_binop(ex, st, op, l, r, node):
    if isinstance(l, VArr) and l.ndim == 1 and l.tag == 'ivec' and l.t is not None and not isinstance(r, VArr) \
            and isinstance(op, (ast.Add, ast.Sub)):
        c = ex.need_num(st, r, node)
        if is_intsort(c):
            used('integer vector +- integer -> elementwise')
            arr = ex.fresh('ivshift', IA)
            f = (lambda x: x + Z(c)) if isinstance(op, ast.Add) else (lambda x: x - Z(c))
            st.assume(z3.ForAll([_i], arr[_i] == f(l.t[_i]), patterns=[arr[_i]]))
            return VArr(l.shape, arr, 'ivec', 'i')
    return _orig_binop(ex, st, op, l, r, node)


M.arr_binop = arr_binop
_orig_index = M.arr_index


def arr_index(ex, st, a, sl_, node):
    elts = sl_.elts if isinstance(sl_, ast.Tuple) else [sl_]
    full = lambda e: isinstance(e, ast.Slice) and e.lower is None and e.upper is None and e.step is None
    # v[lo:hi] on a 1-D array without denotation
    if isinstance(a, VArr) and a.ndim == 1 and a.tag not in ('ivec', 'rvec', 'vec', 'pt') and len(elts) == 1 \
            and isinstance(elts[0], ast.Slice) and elts[0].step is None:
        lohi = M.slice_parts(ex, st, elts[0], a.shape[0], node)
        lo, hi = lohi
        ex.oblige(st, 'restriction', 'slice-in-range', z3.And(Z(lo) >= 0, Z(lo) <= Z(hi), Z(hi) <= Z(a.shape[0])), node)
        return VArr((Z(hi) - Z(lo),), None, None, a.dtype)
    # A[lo:hi] (rows) on 2-D / 3-D arrays
    if isinstance(a, VArr) and a.ndim in (2, 3) and len(elts) == 1 and isinstance(elts[0], ast.Slice) and elts[0].step is None:
        lo = 0 if elts[0].lower is None else ex.need_num(st, ex.ev(elts[0].lower, st), node)
        hi = a.shape[0] if elts[0].upper is None else ex.need_num(st, ex.ev(elts[0].upper, st), node)
        used('A[lo:hi] -> block of rows (NumPy clips the bounds to the axis length)')
        ex.oblige(st, 'safety', 'slice-start-non-negative', Z(lo) >= 0, node)
        return VArr((clipped(lo, hi, a.shape[0]),) + tuple(a.shape[1:]), None, None, a.dtype)
    # A[::step, :m]
    if isinstance(a, VArr) and a.ndim == 2 and len(elts) == 2 and all(isinstance(e, ast.Slice) for e in elts) \
            and elts[0].lower is None and elts[0].upper is None and elts[0].step is not None:
        step = Z(ex.need_num(st, ex.ev(elts[0].step, st), node))
        ex.oblige(st, 'safety', 'slice-step-positive', step >= 1, node)
        used('A[::s, :m] -> every s-th row (ceil(rows / s) of them), leading m columns')
        cnt = ex.fresh_int('nrows')
        st.assume(cnt >= 0, step * (cnt - 1) < Z(a.shape[0]), Z(a.shape[0]) <= step * cnt)       # cnt = ceil(rows / step)
        e1 = elts[1]
        if e1.lower is None and e1.step is None and e1.upper is not None:
            m = ex.need_num(st, ex.ev(e1.upper, st), node)
            cols = clipped(0, m, a.shape[1])
        elif full(e1):
            cols = a.shape[1]
        else:
            raise Unsupported('strided slice pattern')
        return VArr((cnt, cols), None, None, a.dtype)
    # X[None, ...]
    if isinstance(a, VArr) and len(elts) == 2 and isinstance(elts[0], ast.Constant) and elts[0].value is None \
            and isinstance(elts[1], ast.Constant) and elts[1].value is Ellipsis:
        used('X[None, ...] -> new leading axis of length 1')
        return VArr((1,) + tuple(a.shape), None, None, a.dtype)
    return _orig_index(ex, st, a, sl_, node)


M.arr_index = arr_index
_orig_method = M.method


def method(ex, st, recv, name, args, kwargs, node):
    r = st.deref(recv)
    if isinstance(r, VArr) and name == 'reshape' and r.ndim == 1 and len(args) == 2:
        a0, a1 = args
        if a1 == -1 and not (isinstance(a0, int) and a0 == -1):
            used('v.reshape(a, -1) -> a x c with a * c = len v  (divisibility of the length is a precondition of NumPy)')
            a = Z(ex.need_num(st, a0, node))
            c = ex.fresh_int('cols')
            st.assume(c >= 0, a * c == Z(r.shape[0]))
            ex.oblige(st, 'call-pre', 'reshape-rows-positive', a >= 1, node)
            return VArr((a, c), None, None, r.dtype)
        if a0 == -1 and not (isinstance(a1, int) and a1 == -1):
            used('v.reshape(-1, c) -> a x c with a * c = len v  (divisibility of the length is a precondition of NumPy)')
            c = Z(ex.need_num(st, a1, node))
            a = ex.fresh_int('rows')
            st.assume(a >= 0, a * c == Z(r.shape[0]))
            ex.oblige(st, 'call-pre', 'reshape-cols-positive', c >= 1, node)
            return VArr((a, c), None, None, r.dtype)
    return _orig_method(ex, st, recv, name, args, kwargs, node)


M.method = method
_orig_array = M.FUNCS['np.array']


def m_array(ex, st, args, kwargs, node):
    v = st.deref(args[0])
    if isinstance(v, VSeq) and v.tag.startswith('arr'):
        el = v.get(z3.IntVal(0))
        used('np.array([A_0, A_1, ...]) of equally shaped arrays -> one more leading axis')
        return VArr((v.n,) + tuple(el.shape), None, None, el.dtype)
    return _orig_array(ex, st, args, kwargs, node)


for _n in ('np.array', 'np.asanyarray', 'np.asarray'):
    M.FUNCS[_n] = m_array


@model('np.linalg.lstsq')
def m_lstsq(ex, st, args, kwargs, node):
    A, b = st.deref(args[0]), st.deref(args[1])
    if not (isinstance(A, VArr) and isinstance(b, VArr)):
        raise Unsupported('np.linalg.lstsq of non-arrays')
    used('np.linalg.lstsq(A, b) -> requires a 2-D A and a 1-D / 2-D b with as many rows; solution of shape (cols A[, cols b])')
    ex.oblige(st, 'call-pre', 'lstsq-needs-a-2-dimensional-matrix', z3.BoolVal(A.ndim == 2), node)
    ex.oblige(st, 'call-pre', 'lstsq-right-hand-side-1d-or-2d', z3.BoolVal(b.ndim in (1, 2)), node)
    if A.ndim != 2 or b.ndim not in (1, 2):
        return VTuple([VOpaque('x'), VOpaque('res'), VOpaque('rank'), VOpaque('s')])
    ex.oblige(st, 'call-pre', 'lstsq-rows-agree', Z(A.shape[0]) == Z(b.shape[0]), node)
    shp = (A.shape[1],) if b.ndim == 1 else (A.shape[1], b.shape[1])
    return VTuple([VArr(shp, None, None), VOpaque('res'), VOpaque('rank'), VOpaque('s')])


_orig_store = M.store


def store(ex, st, base, sl_, v, node, base_node):
    b = st.deref(base)
    val = st.deref(v)
    full = lambda e: isinstance(e, ast.Slice) and e.lower is None and e.upper is None and e.step is None
    if isinstance(b, VArr) and b.ndim == 3 and isinstance(sl_, ast.Tuple) and len(sl_.elts) == 3 and full(sl_.elts[0]) \
            and full(sl_.elts[2]) and not isinstance(sl_.elts[1], ast.Slice) and isinstance(val, VArr) and isinstance(base_node, ast.Name) \
            and b.t is None:
        j = ex.need_num(st, ex.ev(sl_.elts[1], st), node)
        used('G[:, j, :] = X -> slice assignment; requires X of shape (r1, r2) and a valid mode index')
        M.norm_index(ex, st, j, b.shape[1], node, 'mode-index')
        ex.oblige(st, 'call-pre', 'slice-assignment-shape-matches',
                  z3.And(z3.BoolVal(val.ndim == 2), Z(val.shape[0]) == Z(b.shape[0]), Z(val.shape[-1]) == Z(b.shape[2])) if val.ndim == 2
                  else z3.BoolVal(False), node)
        st.vars[base_node.id] = VArr(b.shape, None, None, b.dtype)
        return
    return _orig_store(ex, st, base, sl_, v, node, base_node)


M.store = store
_orig_listcomp = M.listcomp


def _mentions(f, c):
    stack, seen = [f], set()
    while stack:
        t = stack.pop()
        if t.get_id() in seen:
            continue
        seen.add(t.get_id())
        if z3.is_const(t) and t.get_id() == c.get_id():
            return True
        if z3.is_app(t):
            stack.extend(t.children())
        elif z3.is_quantifier(t):
            stack.append(t.body())
    return False


def listcomp(ex, st, e):
    try:
        return _orig_listcomp(ex, st, e)
    except Unsupported as err:
        if 'element type' not in str(err):
            raise
    # list of equally shaped arrays: [f(x) for x in rows]
    g = e.generators[0]
    it = M.iteration(ex, st, g.iter, e)
    saved = dict(st.vars)
    try:
        j = ex.fresh_int('lc')
        mark = len(st.pc)
        st.pc.append(z3.And(j >= 0, j < it.n))
        ex.assign(g.target, it.bind(ex, st, j), st)
        elt = st.deref(ex.ev(e.elt, st))
        _guard, _added = st.pc[mark], st.pc[mark + 1:]
        del st.pc[mark:]
        for _f in _added:
            # definitions of fresh symbols that do not depend on the generic position stay as they are; everything else
            # (assumed obligations, facts about the generic element) stays guarded by 0 <= j < n
            if _f.get_id() not in st.assumed and not _mentions(_f, j):
                st.pc.append(_f)
            else:
                st.pc.append(z3.Implies(_guard, _f))
    finally:
        for k in list(st.vars):
            if k not in saved:
                del st.vars[k]
            else:
                st.vars[k] = saved[k]
    if isinstance(elt, VArr) and elt.t is None:
        used('[f(x) for x in rows] with array results -> list of equally shaped arrays')
        shp, dt = elt.shape, elt.dtype
        return st.alloc(VSeq(ex.fresh('lc', IA), it.n, lambda t, shp=shp, dt=dt: VArr(shp, None, None, dt), tag=f'arr{len(shp)}'))
    raise Unsupported('list comprehension element type')


M.listcomp = listcomp


# ---- positive integer vectors (mode sizes, ranks): products, sums, dot products with sign information
def _pos(v):
    return isinstance(v, VArr) and getattr(v, 'pos', False)


_orig_binop2 = M.arr_binop


def arr_binop2(ex, st, op, l, r, node):
    if isinstance(l, VArr) and isinstance(r, VArr) and l.ndim == 1 and r.ndim == 1 and l.tag == 'ivec' and r.tag == 'ivec' \
            and isinstance(op, ast.Mult):
        used('integer vector * integer vector -> elementwise product (requires equal lengths)')
        ex.oblige(st, 'call-pre', 'elementwise-shapes-agree', Z(l.shape[0]) == Z(r.shape[0]), node)
        out = VArr(l.shape, ex.fresh('ivprod', IA), 'ivec', 'i')
        out.pos = _pos(l) and _pos(r)
        return out
    return _orig_binop2(ex, st, op, l, r, node)


M.arr_binop = arr_binop2
_orig_index2 = M.arr_index


def arr_index2(ex, st, a, sl_, node):
    out = _orig_index2(ex, st, a, sl_, node)
    if isinstance(out, VArr) and _pos(a) and out.ndim == 1:
        out.pos = True
    if _pos(a) and is_intsort(out) and not isinstance(out, int):
        st.assume(out >= 1)
    return out


M.arr_index = arr_index2


@model('np.dot')
def m_dot(ex, st, args, kwargs, node):
    a, b = st.deref(args[0]), st.deref(args[1])
    if isinstance(a, VArr) and isinstance(b, VArr) and a.ndim == 1 and b.ndim == 1:
        used('np.dot(u, v) for vectors -> scalar (requires equal lengths; >= len for vectors with entries >= 1)')
        ex.oblige(st, 'call-pre', 'dot-lengths-agree', Z(a.shape[0]) == Z(b.shape[0]), node)
        s = ex.fresh_int('dot') if a.dtype == 'i' and b.dtype == 'i' else ex.fresh_real('dot')
        if _pos(a) and _pos(b):
            st.assume(s >= Z(a.shape[0]))
        return s
    raise Unsupported('np.dot pattern')


@model('np.sum')
def m_sum(ex, st, args, kwargs, node):
    a = st.deref(args[0])
    if isinstance(a, VArr) and a.ndim == 1 and not kwargs:
        used('np.sum(v) -> scalar (>= len v for a vector with entries >= 1)')
        s = ex.fresh_int('sum') if a.dtype == 'i' else ex.fresh_real('sum')
        if _pos(a):
            st.assume(s >= Z(a.shape[0]))
        return s
    raise Unsupported('np.sum pattern')


@model('np.tensordot')
def m_tensordot(ex, st, args, kwargs, node):
    """np.tensordot(A, B, 1): contraction of the last axis of A with the first axis of B (shape level)."""
    a, b = st.deref(args[0]), st.deref(args[1])
    axes = args[2] if len(args) > 2 else kwargs.get('axes', 2)
    if isinstance(a, VOpaque) or isinstance(b, VOpaque):
        if ex.lenient:
            return VOpaque('tensordot')
        raise Unsupported('tensordot of an uninterpreted value')
    if not (isinstance(axes, int) and axes == 1 and isinstance(a, VArr) and isinstance(b, VArr) and a.ndim >= 1 and b.ndim >= 1):
        raise Unsupported(f'tensordot pattern at line {node.lineno}')
    used('np.tensordot(A, B, 1) -> shape A.shape[:-1] + B.shape[1:], contracted dimensions must agree')
    ex.oblige(st, 'call-pre', 'tensordot-contracted-dims-agree', Z(a.shape[-1]) == Z(b.shape[0]), node)
    shp = tuple(a.shape[:-1]) + tuple(b.shape[1:])
    if len(shp) == 3:
        t = ex.fresh('td', T.Core)
        st.assume(T.d0(t) == Z(shp[0]), T.d1(t) == Z(shp[1]), T.d2(t) == Z(shp[2]))
        return M.mk_core(t)
    if len(shp) == 2:
        t = ex.fresh('td', T.Mat)
        st.assume(T.rows(t) == Z(shp[0]), T.cols(t) == Z(shp[1]))
        return M.mk_mat(t)
    return VArr(shp, None, None)
