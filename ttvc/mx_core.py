"""Model-table entries and spec symbols for the units of contracts/core_more.py:
act_one.interface / get_and_grad (C01), svd.svd_matrix / transformation.full_matrix (C03), core.core_dot* / core_qr_rand (C04, C10),
data.cache_to_data (C10).

Everything follows the wrapping pattern of kr.py (keep the previous hook, fall through to it) and is only active for executors that
carry the gate named at each section (`ex.core_iface`, `ex.core_perm`, `ex.core_ops`, `ex.core_cache`), so that no other unit sees a
different value than before.

New theory symbols (every axiom group is exercised by lemmas/spotcheck.py through lemmas/spotcheck_ext_core.py):
  lch(Ms, m)    = [[1]] @ Ms[0] @ ... @ Ms[m-1]          left partial product of a sequence of matrices   (lch(Ms, 0) = [[1]])
  rch(Ms, k, d) = Ms[k] @ ... @ Ms[d-1] @ [[1]]          right partial product                             (rch(Ms, d, d) = [[1]])
  cnorm(a)      = np.linalg.norm(a)                      Frobenius norm of a matrix / 2-norm of a column
  cslput(G,k,a) = G with G[:, k, :] replaced by a        slice assignment (get_and_grad)
  nonsing(a)    = a is square and non-singular           domain of np.linalg.solve (core_dot_inv)
and the datatype OptMat = none | some(Mat) for lists of optional vectors (no axioms: z3's datatype theory).
"""
import ast
import z3
from ttvc import symex
from ttvc.symex import Unsupported, ContractMismatch, NONE, VStr, VOpt, VTuple, VRef, VList, VRec, VSeq, VArr, VOpaque, Z, is_num, \
    is_intsort, quick_unsat
from ttvc import models as M, theory as T
from ttvc.models import used, model, to_real

I, R = z3.IntSort(), z3.RealSort()
IA = z3.ArraySort(I, I)
RA = z3.ArraySort(I, R)
MS = z3.ArraySort(I, T.Mat)            # a sequence of matrices Ms[k]

# ----------------------------------------------------------------------------------------------
# theory: partial products of a matrix sequence, norms of columns, positive scalars

lch = z3.Function('lch', MS, I, T.Mat)
rch = z3.Function('rch', MS, I, I, T.Mat)
cnorm = z3.Function('cnorm', T.Mat, R)
_Ms = z3.Const('Ms!c', MS)
_k, _j, _d = z3.Ints('k!c j!c d!c')
_x, _y = z3.Reals('x!c y!c')
_a, _b, _c3 = z3.Consts('a!c b!c c!c', T.Mat)

T.GROUPS['mchain'] = [
    T.A([_Ms], lch(_Ms, 0) == T.sc(1), [lch(_Ms, 0)]),
    T.A([_Ms, _k, _j], z3.Implies(z3.And(_k >= 0, _j == _k + 1), lch(_Ms, _j) == T.mm(lch(_Ms, _k), _Ms[_k])),
        [z3.MultiPattern(lch(_Ms, _k), lch(_Ms, _j))]),
    T.A([_Ms, _d], rch(_Ms, _d, _d) == T.sc(1), [rch(_Ms, _d, _d)]),
    T.A([_Ms, _k, _j, _d], z3.Implies(z3.And(_k >= 0, _j == _k + 1, _j <= _d), rch(_Ms, _k, _d) == T.mm(_Ms[_k], rch(_Ms, _j, _d))),
        [z3.MultiPattern(rch(_Ms, _k, _d), rch(_Ms, _j, _d))]),
]
# the 1 x 1 matrix [[1]] is a unit of the matrix product; transposes
T.GROUPS['sc1'] = [
    T.A([_a], z3.Implies(T.rows(_a) == 1, T.mm(T.sc(1), _a) == _a), [T.mm(T.sc(1), _a)]),
    T.A([_a], z3.Implies(T.cols(_a) == 1, T.mm(_a, T.sc(1)) == _a), [T.mm(_a, T.sc(1))]),
    T.A([_x], T.tr(T.sc(_x)) == T.sc(_x), [T.tr(T.sc(_x))]),
    T.A([_a, _b], z3.Implies(T.cols(_a) == T.rows(_b), T.mm(T.tr(_b), T.tr(_a)) == T.tr(T.mm(_a, _b))), [T.mm(T.tr(_b), T.tr(_a))]),
]
# norms and positive scalars (products / quotients of scalars stay abstract: rmul, divf)
T.GROUPS['cnorm'] = [
    T.A([_a], cnorm(_a) >= 0, [cnorm(_a)]),
    T.A([_x, _a], z3.Implies(_x > 0, (cnorm(T.smul(_x, _a)) > 0) == (cnorm(_a) > 0)), [cnorm(T.smul(_x, _a))]),
    T.A([_a], cnorm(T.tr(_a)) == cnorm(_a), [cnorm(T.tr(_a))]),
    T.A([_a], z3.Implies(cnorm(_a) > 0, cnorm(T.smul(T.divf(1, cnorm(_a)), _a)) == 1), [T.smul(T.divf(1, cnorm(_a)), _a)]),
    T.A([_x, _y], z3.Implies(z3.And(_x > 0, _y > 0), T.rmul(_x, _y) > 0), [T.rmul(_x, _y)]),
    T.A([_x, _y], z3.Implies(z3.And(_x > 0, _y > 0), T.divf(_x, _y) > 0), [T.divf(_x, _y)]),
]
# associativity of the matrix product (lemmas/TTAlg.lean: ax_assoc); NOT for e-matching axiom sets - instances are passed as hints
T.GROUPS['mmassoc'] = [
    T.A([_a, _b, _c3], z3.Implies(z3.And(T.cols(_a) == T.rows(_b), T.cols(_b) == T.rows(_c3)),
                                  T.mm(T.mm(_a, _b), _c3) == T.mm(_a, T.mm(_b, _c3))), [T.mm(T.mm(_a, _b), _c3)]),
]


def assoc(a, b, c):
    """Instance of 'mmassoc' (a hint)."""
    return z3.Implies(z3.And(T.cols(a) == T.rows(b), T.cols(b) == T.rows(c)), T.mm(T.mm(a, b), c) == T.mm(a, T.mm(b, c)))


# ----------------------------------------------------------------------------------------------
# act_one.interface   (gate: ex.core_iface)
#
# Value kinds:
#   'cvec'    1-D float array of length n whose denotation `t` is the n x 1 matrix with the same entries (a COLUMN; the tag 'vec' of
#             models.py is the 1 x n row view).  `A @ v` for a matrix A and a column v is mm(A, v).
#   'optvec'  list of symbolic length whose elements are None or 1-D float arrays: z3 array Int -> OptMat with
#             OptMat = none | some(mat)  (an algebraic datatype: `[None] * n` is the constant array `none`).
# A cvec that is the result of divisions by numbers carries `.scal`, the list of the scalar factors (proof hint for the sidecar).

OptMat = z3.Datatype('OptMat')
OptMat.declare('none')
OptMat.declare('some', ('mat', T.Mat))
OptMat = OptMat.create()
PHI = z3.ArraySort(I, OptMat)


def _iface(ex):
    return getattr(ex, 'core_iface', False)


def mk_cvec(t, scal=()):
    v = VArr((T.rows(t),), t, 'cvec')
    v.scal = list(scal)
    return v


def is_cvec(v):
    return isinstance(v, VArr) and v.ndim == 1 and v.tag == 'cvec' and v.t is not None


def _phi_wrap(t):
    return VOpt(OptMat.is_none(t), mk_cvec(OptMat.mat(t)))


def _phi_unwrap(ex, st, v, node):
    v = st.deref(v)
    if v is NONE:
        return OptMat.none
    if is_cvec(v):
        st.ghost['iface_last'] = v
        return OptMat.some(v.t)
    if isinstance(v, VArr) and v.ndim == 1 and v.tag == 'rvec' and v.t is not None and not callable(v.t) and z3.is_K(v.t) \
            and z3.is_true(z3.simplify(Z(v.shape[0]) == 1)):
        used('the 1-D array [c] (np.ones(1)) seen as a column -> the 1 x 1 matrix sc(c)')
        return OptMat.some(T.sc(v.t.arg(0)))
    raise Unsupported('storing this value into a list of optional vectors')


def mk_optvec(arr, n):
    return VSeq(arr, n, _phi_wrap, 'optvec', unwrap=_phi_unwrap)


_orig_list_repeat = M.list_repeat


def list_repeat(ex, st, lst, n, node):
    if _iface(ex) and len(lst.items) == 1 and lst.items[0] is NONE:
        used('[None] * n -> list of n entries None (requires n >= 0)')
        ex.oblige(st, 'call-pre', 'list-repeat-count-non-negative', Z(n) >= 0, node)
        return st.alloc(mk_optvec(z3.K(I, OptMat.none), Z(n)))
    return _orig_list_repeat(ex, st, lst, n, node)


M.list_repeat = list_repeat


def _is_rev(sl_):
    return isinstance(sl_, ast.Slice) and sl_.lower is None and sl_.upper is None and isinstance(sl_.step, ast.UnaryOp) \
        and isinstance(sl_.step.op, ast.USub) and isinstance(sl_.step.operand, ast.Constant) and sl_.step.operand.value == 1 \
        and not isinstance(sl_.step.operand.value, bool)


_orig_subscript = M.subscript
_kr = z3.Int('k!rv')


def subscript(ex, st, base, sl_, node):
    if (_iface(ex) or _cache(ex)) and _is_rev(sl_):
        b = st.deref(base)
        if isinstance(b, VSeq) and b.tag in (('core', 'optvec', 'wvec') if _iface(ex) else ('dictkeys', 'dictvals')):
            used('list[::-1] -> NEW list with the elements in reverse order (the original list is untouched)')
            arr = ex.fresh('rev', b.arr.sort())
            st.assume(z3.ForAll([_kr], arr[_kr] == b.arr[b.n - 1 - _kr], patterns=[arr[_kr]]))
            out = b.copy()
            out.arr = arr
            if hasattr(b, 'w'):
                out.w = b.w
            if hasattr(b, 'lens'):               # mx_act.WSeq: the lengths of the weight vectors travel with them
                lens = ex.fresh('revlen', b.lens.sort())
                st.assume(z3.ForAll([_kr], lens[_kr] == b.lens[b.n - 1 - _kr], patterns=[lens[_kr]]))
                out.lens = lens
            return st.alloc(out)
        if isinstance(b, VArr) and b.ndim == 1 and b.tag == 'ivec' and b.t is not None and not callable(b.t):
            used('v[::-1] of a 1-D integer array -> the reversed vector')
            arr = ex.fresh('revi', b.t.sort())
            st.assume(z3.ForAll([_kr], arr[_kr] == b.t[Z(b.shape[0]) - 1 - _kr], patterns=[arr[_kr]]))
            return VArr(b.shape, arr, 'ivec', b.dtype)
    return _orig_subscript(ex, st, base, sl_, node)


M.subscript = subscript


def _unopt(ex, st, v, node):
    """An optional column used as an array operand: None would raise TypeError -> safety obligation."""
    if isinstance(v, VOpt) and is_cvec(v.val):
        ex.oblige(st, 'safety', 'array-operand-not-None', z3.Not(v.isnone), node)
        return v.val
    return v


_orig_exec_binop = symex.Exec.binop


def _exec_binop(self, st, op, l, r, node):
    if _iface(self):
        l, r = _unopt(self, st, l, node), _unopt(self, st, r, node)
    return _orig_exec_binop(self, st, op, l, r, node)


symex.Exec.binop = _exec_binop
_orig_binop = M.arr_binop


def arr_binop(ex, st, op, l, r, node):
    if _iface(ex):
        if isinstance(op, ast.MatMult) and isinstance(l, VArr) and l.ndim == 2 and l.tag == 'mat' and l.t is not None and is_cvec(r):
            used('A @ v for a matrix A and a 1-D array v -> the 1-D array with the entries of mm(A, column(v)); requires cols(A) = len(v)')
            ex.oblige(st, 'call-pre', 'matmul-inner-dims-agree', Z(l.shape[1]) == Z(r.shape[0]), node)
            out = mk_cvec(T.mm(l.t, r.t))
            out.shape = (l.shape[0],)
            return out
        if isinstance(op, ast.Div) and is_cvec(l) and not isinstance(r, VArr):
            c = ex.need_num(st, r, node)
            ex.oblige(st, 'safety', 'division-by-nonzero', Z(c) != 0, node)
            used('v / c for a 1-D array v and a number c -> smul(1 / c, v), the quotient 1 / c kept abstract (divf)   [A-REAL]')
            x = T.divf(z3.RealVal(1), to_real(c))
            out = mk_cvec(T.smul(x, l.t), list(getattr(l, 'scal', [])) + [x])
            out.shape = l.shape
            return out
        if is_cvec(l) or is_cvec(r):
            raise Unsupported(f'operation {type(op).__name__} on a column vector at line {node.lineno}')
    return _orig_binop(ex, st, op, l, r, node)


M.arr_binop = arr_binop
_orig_norm = M.FUNCS['np.linalg.norm']


@model('np.linalg.norm')
def m_norm_cvec(ex, st, args, kwargs, node):
    if _iface(ex) and len(args) == 1 and not kwargs:
        v = _unopt(ex, st, st.deref(args[0]), node)
        if is_cvec(v):
            used('np.linalg.norm(v) of a 1-D float array -> cnorm(column(v)), the Euclidean norm (>= 0)   [A-REAL]')
            return cnorm(v.t)
    return _orig_norm(ex, st, args, kwargs, node)


# ----------------------------------------------------------------------------------------------
# act_one.get_and_grad   (gate: ex.core_grad, together with ex.core_iface)
#
#   cslput(G, k, a)   = G with the mode slice G[:, k, :] replaced by the matrix a  (what `Q[:, k, :] = a` does to the array Q)
# `for Q, .. in zip(grad, ..): Q[:, k, :] = a` writes INTO the array that lives in the list: elements handed out by the iteration over
# a list of cores remember where they came from (`.origin`), and the slice assignment is written through to that list (the contract
# of the loop must name the list in its `havoc` option: the engine does not see this mutation).

cslput = z3.Function('cslput', T.Core, I, T.Mat, T.Core)
_G = z3.Const('G!c', T.Core)
T.GROUPS['cslput'] = [
    T.A([_G, _k, _a], z3.And(T.d0(cslput(_G, _k, _a)) == T.d0(_G), T.d1(cslput(_G, _k, _a)) == T.d1(_G), T.d2(cslput(_G, _k, _a)) == T.d2(_G)),
        [cslput(_G, _k, _a)]),
    T.A([_G, _k, _a, _j], z3.Implies(z3.And(0 <= _k, _k < T.d1(_G), T.rows(_a) == T.d0(_G), T.cols(_a) == T.d2(_G)),
                                     T.sl(cslput(_G, _k, _a), _j) == z3.If(_j == _k, _a, T.sl(_G, _j))), [T.sl(cslput(_G, _k, _a), _j)]),
]


def _grad(ex):
    return getattr(ex, 'core_grad', False)


_orig_iteration = M.iteration


def iteration(ex, st, it, node):
    if _grad(ex) and isinstance(it, ast.Name):
        v = st.vars.get(it.id)
        if isinstance(v, VRef) and isinstance(st.heap.get(v.oid), VSeq) and st.heap[v.oid].tag == 'core':
            oid = v.oid
            used('for G in list_of_arrays -> G is the array object that is in the list at that moment (an alias: writes into G are writes into the list)')

            def bind(ex_, st_, j, oid=oid):
                g = st_.heap[oid].get(j)            # the array that is in the list NOW (the list may be written to by the loop body)
                g.origin = (oid, j)
                return g
            return M.Iteration(n=st.heap[oid].n, bind=bind)
    return _orig_iteration(ex, st, it, node)


M.iteration = iteration
_orig_setitem = M.arr_setitem


def _full(e):
    return isinstance(e, ast.Slice) and e.lower is None and e.upper is None and e.step is None


def arr_setitem(ex, st, b, sl_, v, node):
    if _grad(ex) and isinstance(b, VArr) and b.ndim == 3 and b.tag == 'core' and b.t is not None and isinstance(sl_, ast.Tuple) \
            and len(sl_.elts) == 3 and _full(sl_.elts[0]) and _full(sl_.elts[2]) and not isinstance(sl_.elts[1], ast.Slice):
        a = st.deref(v)
        if not (isinstance(a, VArr) and a.ndim == 2 and a.tag == 'mat' and a.t is not None):
            raise Unsupported('slice assignment G[:, k, :] = <value without a matrix denotation>')
        k = M.norm_index(ex, st, ex.need_num(st, ex.ev(sl_.elts[1], st), node), b.shape[1], node, 'mode-index')
        used('G[:, k, :] = a (a matrix of shape (r1, r2)) -> cslput(G, k, a), written through to the list the array lives in')
        ex.oblige(st, 'call-pre', 'slice-assignment-shapes-agree', z3.And(Z(a.shape[0]) == Z(b.shape[0]), Z(a.shape[1]) == Z(b.shape[2])), node)
        new = M.mk_core(cslput(b.t, Z(k), a.t))
        origin = getattr(b, 'origin', None)
        if getattr(b, 'shared', False):
            if origin is None or not isinstance(st.heap.get(origin[0]), VSeq):
                raise Unsupported('slice assignment into an array that lives in a container of unknown origin')
            seq = st.heap[origin[0]]
            upd = ex.fresh('updsl', seq.arr.sort())
            st.assume(upd == z3.Store(seq.arr, origin[1], new.t))
            seq.arr = upd
            new.shared, new.origin = True, origin
        return new
    return _orig_setitem(ex, st, b, sl_, v, node)


M.arr_setitem = arr_setitem
_orig_outer = M.FUNCS.get('np.outer')


@model('np.outer')
def m_outer_cvec(ex, st, args, kwargs, node):
    if _grad(ex) and len(args) == 2 and not kwargs:
        u, v = [_unopt(ex, st, st.deref(a), node) for a in args]
        if is_cvec(u) and is_cvec(v):
            used('np.outer(u, v) of two 1-D arrays -> the matrix column(u) @ column(v)^T')
            return VArr((u.shape[0], v.shape[0]), T.mm(u.t, T.tr(v.t)), 'mat')
    if _orig_outer is None:
        raise Unsupported('np.outer pattern')
    return _orig_outer(ex, st, args, kwargs, node)


_orig_method = M.method


def method(ex, st, recv, name, args, kwargs, node):
    if _iface(ex) and name == 'item' and not args and not kwargs:
        r = _unopt(ex, st, st.deref(recv), node)
        if is_cvec(r):
            used('v.item() of a 1-D array of length 1 -> its single entry (requires size 1)')
            ex.oblige(st, 'call-pre', 'item-size-1', Z(r.shape[0]) == 1, node)
            return T.ent(r.t, 0, 0)
    return _orig_method(ex, st, recv, name, args, kwargs, node)


M.method = method


# ----------------------------------------------------------------------------------------------
# svd.svd_matrix / transformation.full_matrix: the index-interleaving permutations   (gate: ex.core_perm)
#
# Dense arrays of symbolic dimension are models.VNd values (only the shape sequence is interpreted).  What the two functions do to
# such an array is recorded as provenance `.src` (a Python tuple) so that the contract can state WHICH array reaches svd / is returned:
#     ('reshape', order, base)        X.reshape(shape, order=..)   (the size compatibility of a reshape is NOT modelled)
#     ('transpose', base, prm)        X.transpose(prm): axis a of the result is axis prm[a] of X; prm must be a permutation of the axes
# Integer index arrays built on the way: 'icol' (n, 1) column of an integer vector, 'icols2' (n, 2) two columns side by side,
# 'irows2' (2, c): the Fortran-order reshape of a vector of length 2c to two rows (M[a, k] = v[a + 2k]).

def _perm(ex):
    return getattr(ex, 'core_perm', False)


_kp, _jp = z3.Ints('k!p j!p')


def _ivec(n, arr):
    return VArr((n,), arr, 'ivec', 'i')


def _is_ivec(v):
    return isinstance(v, VArr) and v.ndim == 1 and v.tag == 'ivec' and v.t is not None and not callable(v.t)


_orig_arange = M.FUNCS['np.arange']


@model('np.arange')
def m_arange2(ex, st, args, kwargs, node):
    if _perm(ex) and len(args) == 2 and not kwargs:
        lo, hi = [ex.need_num(st, a, node) for a in args]
        if is_intsort(lo) and is_intsort(hi):
            used('np.arange(lo, hi) for integers lo <= hi -> the integer vector lo, lo+1, .., hi-1')
            ex.oblige(st, 'call-pre', 'arange-bounds-ordered', Z(lo) <= Z(hi), node)
            arr = ex.fresh('arange', IA)
            st.assume(z3.ForAll([_kp], arr[_kp] == Z(lo) + _kp, patterns=[arr[_kp]]))
            return _ivec(z3.simplify(Z(hi) - Z(lo)), arr)
    return _orig_arange(ex, st, args, kwargs, node)


_orig_list_repeat2 = M.list_repeat


def list_repeat2(ex, st, lst, n, node):
    if _perm(ex) and len(lst.items) == 2 and all(is_intsort(x) for x in lst.items):
        used('[a, b] * n -> the list a, b, a, b, .. of length 2n (requires n >= 0)')
        ex.oblige(st, 'call-pre', 'list-repeat-count-non-negative', Z(n) >= 0, node)
        arr = ex.fresh('rep2', IA)
        st.assume(z3.ForAll([_kp], arr[_kp] == z3.If(_kp % 2 == 0, Z(lst.items[0]), Z(lst.items[1])), patterns=[arr[_kp]]))
        return st.alloc(VSeq(arr, 2 * Z(n), lambda t: t, tag='int'))
    return _orig_list_repeat2(ex, st, lst, n, node)


M.list_repeat = list_repeat2
_orig_hstack = M.FUNCS['np.hstack']


@model('np.hstack')
def m_hstack_cols(ex, st, args, kwargs, node):
    parts = st.deref(args[0]) if args else None
    if _perm(ex) and isinstance(parts, (VTuple, VList)) and len(parts.items) == 2:
        a, b = [st.deref(x) for x in parts.items]
        if isinstance(a, VArr) and isinstance(b, VArr) and a.tag == 'icol' and b.tag == 'icol':
            used('np.hstack((u, v)) of two integer columns (n, 1) -> the (n, 2) matrix with rows (u[k], v[k]); requires equal lengths')
            ex.oblige(st, 'call-pre', 'hstack-rows-agree', Z(a.shape[0]) == Z(b.shape[0]), node)
            return VArr((a.shape[0], 2), (a.t, b.t), 'icols2', 'i')
    return _orig_hstack(ex, st, args, kwargs, node)


def _order(kwargs):
    o = kwargs.get('order', VStr('C'))
    return o.concrete() if isinstance(o, VStr) else None


def _nd_shape(st, v):
    """(shape sequence object, z3 array, length) of a dense array value: VNd, or a VArr of concrete ndim."""
    if isinstance(v, M.VNd):
        s = st.deref(v.shape_ref)
        if isinstance(s, VSeq) and s.tag == 'int':
            return s.arr, s.n
    return None


_orig_method_p = M.method


def method_perm(ex, st, recv, name, args, kwargs, node):
    if _perm(ex):
        r = st.deref(recv)
        items = list(args)
        if len(args) == 1 and isinstance(st.deref(args[0]), (VTuple, VList)):
            items = list(st.deref(args[0]).items)
        lits = [x for x in items] if all(isinstance(x, int) and not isinstance(x, bool) for x in items) else None
        if name == 'reshape' and _is_ivec(r) and set(kwargs) <= {'order'} and lits is not None:
            o = _order(kwargs)
            if lits == [-1, 1]:
                used('v.reshape(-1, 1) of an integer vector -> the (n, 1) column with the same entries')
                return VArr((r.shape[0], 1), r.t, 'icol', 'i')
            if lits == [2, -1] and o == 'F':
                used("v.reshape(2, -1, order='F') of an integer vector of even length 2c -> the (2, c) matrix M[a, k] = v[a + 2k]")
                c = ex.fresh_int('half')
                ex.oblige(st, 'call-pre', 'reshape-preserves-size (even length)', Z(r.shape[0]) % 2 == 0, node)
                st.assume(2 * c == Z(r.shape[0]))
                return VArr((2, c), r.t, 'irows2', 'i')
        if name == 'reshape' and isinstance(r, VArr) and r.tag == 'icols2' and lits == [-1] and not kwargs:
            used('(n, 2) integer matrix .reshape(-1) (C order) -> the vector of length 2n with entries row by row: u[0], v[0], u[1], v[1], ..')
            u, v = r.t
            arr = ex.fresh('flat', IA)
            st.assume(z3.ForAll([_kp], arr[_kp] == z3.If(_kp % 2 == 0, u[_kp / 2], v[_kp / 2]), patterns=[arr[_kp]]))
            return _ivec(2 * Z(r.shape[0]), arr)
        if name == 'reshape' and isinstance(r, VArr) and r.tag == 'irows2' and lits == [-1] and not kwargs:
            used('(2, c) integer matrix .reshape(-1) (C order) -> the vector of length 2c: first row, then second row')
            c = Z(r.shape[1])
            arr = ex.fresh('flat', IA)
            st.assume(z3.ForAll([_kp], arr[_kp] == z3.If(_kp < c, r.t[2 * _kp], r.t[2 * (_kp - c) + 1]), patterns=[arr[_kp]]))
            return _ivec(2 * c, arr)
        dense = isinstance(r, M.VNd) or (isinstance(r, VArr) and r.ndim == 2 and r.tag in (None, 'mat'))
        if name == 'reshape' and dense and set(kwargs) <= {'order'} and _order(kwargs) in ('F', 'C'):
            shp = st.deref(args[0]) if len(args) == 1 else None
            if isinstance(shp, VSeq) and shp.tag == 'int':
                used('X.reshape(list_of_sizes, order) of a dense array -> dense array with that shape (the size compatibility is NOT modelled)')
                out = M.VNd(st.alloc(shp.copy()))
                out.src = ('reshape', _order(kwargs), r)
                return out
            if isinstance(r, M.VNd) and len(items) == 2 and all(is_num(x) and is_intsort(x) and not (isinstance(x, int) and x < 0) for x in items):
                used('X.reshape(a, b, order) of a dense array -> a x b matrix (the size compatibility is NOT modelled)')
                out = VArr((items[0], items[1]), None, None)
                out.src = ('reshape', _order(kwargs), r)
                return out
        if name == 'transpose' and isinstance(r, M.VNd) and len(args) == 1 and not kwargs and _is_ivec(st.deref(args[0])):
            prm = st.deref(args[0])
            sh = _nd_shape(st, r)
            if sh is None:
                raise Unsupported('transpose of a dense array of unknown shape')
            sarr, n = sh
            used('X.transpose(prm) -> axis a of the result is axis prm[a] of X; prm must be a permutation of range(X.ndim) (else ValueError)')
            ex.oblige(st, 'call-pre', 'transpose-one-axis-number-per-axis', Z(prm.shape[0]) == n, node)
            ex.oblige(st, 'call-pre', 'transpose-axis-numbers-in-range',
                      z3.ForAll([_kp], z3.Implies(z3.And(0 <= _kp, _kp < n), z3.And(0 <= prm.t[_kp], prm.t[_kp] < n)), patterns=[prm.t[_kp]]), node)
            ex.oblige(st, 'call-pre', 'transpose-no-axis-repeated',
                      z3.ForAll([_kp, _jp], z3.Implies(z3.And(0 <= _kp, _kp < _jp, _jp < n), prm.t[_kp] != prm.t[_jp]),
                                patterns=[z3.MultiPattern(prm.t[_kp], prm.t[_jp])]), node)
            arr = ex.fresh('tshape', IA)
            st.assume(z3.ForAll([_kp], arr[_kp] == sarr[prm.t[_kp]], patterns=[arr[_kp]]))
            out = M.VNd(st.alloc(VSeq(arr, n, lambda t: t, tag='int')))
            out.src = ('transpose', r, prm)
            return out
    return _orig_method_p(ex, st, recv, name, args, kwargs, node)


M.method = method_perm


# ----------------------------------------------------------------------------------------------
# core.core_dot / core_dot_inv / core_dot_maxvol / core_qr_rand   (gate: ex.core_ops)
#
#   nonsing(A)   A is a square non-singular matrix (the domain of np.linalg.solve); only axiom: nonsing(A^T) = nonsing(A)
# Selections `A[:, ind]` / `A[ind, :]` with an integer vector record their provenance `.src = ('cols' | 'rows', A, ind)`.
# Draws are logged in st.ghost['core_draws'] as (generator, shape, matrix term).

nonsing = z3.Function('nonsing', T.Mat, z3.BoolSort())
T.GROUPS['trtr'] = [T.A([_a], T.tr(T.tr(_a)) == _a, [T.tr(T.tr(_a))]),
                    T.A([_a], nonsing(T.tr(_a)) == nonsing(_a), [nonsing(T.tr(_a))])]


def _ops(ex):
    return getattr(ex, 'core_ops', False)


def _wrap_array(name):
    orig = M.FUNCS[name]

    def m_array_1x1(ex, st, args, kwargs, node):
        if _ops(ex) and len(args) == 1 and not kwargs:
            v = st.deref(args[0])
            if isinstance(v, VList) and len(v.items) == 1:
                w = st.deref(v.items[0])
                if isinstance(w, VList) and len(w.items) == 1 and is_num(w.items[0]):
                    used('np.array([[c]]) for a number c -> the 1 x 1 matrix sc(c)')
                    return VArr((1, 1), T.sc(to_real(w.items[0])), 'mat')
        return orig(ex, st, args, kwargs, node)
    M.FUNCS[name] = m_array_1x1


for _nm in ('np.array', 'np.asanyarray', 'np.asarray'):      # later extension modules chain through any of the three names
    _wrap_array(_nm)


@model('np.linalg.solve')
def m_solve(ex, st, args, kwargs, node):
    if not _ops(ex) or len(args) != 2 or kwargs:
        raise Unsupported('np.linalg.solve pattern')
    a, b = st.deref(args[0]), st.deref(args[1])
    if not (isinstance(a, VArr) and isinstance(b, VArr) and a.ndim == 2 and b.ndim == 2 and a.tag == 'mat' and b.tag == 'mat'
            and a.t is not None and b.t is not None):
        raise Unsupported('np.linalg.solve of values without a matrix denotation')
    used('np.linalg.solve(A, B) -> X with A @ X = B; requires A square and non-singular (else LinAlgError) and rows(B) = rows(A)   [A-LAPACK]')
    ex.oblige(st, 'call-pre', 'solve-square-system', Z(a.shape[0]) == Z(a.shape[1]), node)
    ex.oblige(st, 'call-pre', 'solve-right-hand-side-rows-agree', Z(b.shape[0]) == Z(a.shape[0]), node)
    ex.oblige(st, 'call-pre', 'solve-matrix-non-singular', nonsing(a.t), node)
    x = ex.fresh('Xsolve', T.Mat)
    st.assume(T.rows(x) == Z(a.shape[1]), T.cols(x) == Z(b.shape[1]), T.mm(a.t, x) == b.t)
    st.ghost.setdefault('solves', []).append((a.t, b.t, x))
    return M.mk_mat(x)


_orig_method_o = M.method


def method_ops(ex, st, recv, name, args, kwargs, node):
    if _ops(ex):
        r = st.deref(recv)
        if type(r).__name__ == 'VGen' and name == 'normal' and not args and set(kwargs) == {'size'}:
            shp = M.shape_arg(ex, st, kwargs['size'], node)
            if len(shp) == 2:
                used('Generator.normal(size=(a, b)) -> a x b float matrix with arbitrary real entries (requires a, b >= 0); the draw is logged')
                for s_ in shp:
                    ex.oblige(st, 'call-pre', 'draw-size-is-a-non-negative-integer', z3.And(z3.BoolVal(is_intsort(s_)), Z(s_) >= 0), node)
                t = ex.fresh('noise', T.Mat)
                st.assume(T.rows(t) == Z(shp[0]), T.cols(t) == Z(shp[1]))
                st.ghost['core_draws'] = st.ghost.get('core_draws', []) + [(r, tuple(shp), t)]
                return VArr(tuple(shp), t, 'mat')
    return _orig_method_o(ex, st, recv, name, args, kwargs, node)


M.method = method_ops
_orig_index_o = M.arr_index


def arr_index_ops(ex, st, a, sl_, node):
    if _ops(ex) and isinstance(a, VArr) and a.ndim == 2 and isinstance(sl_, ast.Tuple) and len(sl_.elts) == 2:
        e0, e1 = sl_.elts
        for ax, (full_e, idx_e) in enumerate(((e1, e0), (e0, e1))):
            if _full(full_e) and not isinstance(idx_e, ast.Slice):
                iv = st.deref(ex.ev(idx_e, st))
                if _is_ivec(iv):
                    n = Z(a.shape[ax])
                    used('A[:, ind] / A[ind, :] with an integer vector -> the selected columns / rows in that order; every index must lie in [-n, n)')
                    ex.oblige(st, 'safety', 'selection-indices-in-range',
                              z3.ForAll([_kp], z3.Implies(z3.And(0 <= _kp, _kp < Z(iv.shape[0])), z3.And(-n <= iv.t[_kp], iv.t[_kp] < n)),
                                        patterns=[iv.t[_kp]]), node)
                    shp = (iv.shape[0], a.shape[1]) if ax == 0 else (a.shape[0], iv.shape[0])
                    out = VArr(shp, None, None, a.dtype)
                    out.src = ('rows' if ax == 0 else 'cols', a, iv)
                    return out
                break
    return _orig_index_o(ex, st, a, sl_, node)


M.arr_index = arr_index_ops
_orig_reshape_o = M.reshape


def reshape_ops(ex, st, a, shp, order, node):
    """A reshape between a matrix and a 3-D array that is none of the unfolding / folding patterns: NumPy requires the sizes to agree
    (else ValueError).  Sizes that are not provably equal become a failing obligation; provably equal ones stay Unsupported."""
    if not _ops(ex):
        return _orig_reshape_o(ex, st, a, shp, order, node)
    try:
        return _orig_reshape_o(ex, st, a, shp, order, node)
    except ContractMismatch:
        raise
    except Unsupported:
        dims = M.shape_arg(ex, st, shp, node)
        if isinstance(a, VArr) and a.ndim in (2, 3) and len(dims) in (2, 3) and all(is_intsort(x) and not (isinstance(x, int) and x < 0) for x in dims):
            same = T.mul_canon(*a.shape) == T.mul_canon(*dims)
            if quick_unsat(list(T.GROUPS['mulI']) + list(st.pc) + [z3.Not(same)]):
                raise                   # a legitimate reshape that the engine cannot denote: undecided
            used('reshape(A, shape) outside the unfolding patterns: the size must be preserved (else ValueError)')
            ex.oblige(st, 'call-pre', 'reshape-preserves-size', same, node)
            return VArr(tuple(dims), None, None, a.dtype)
        raise


M.reshape = reshape_ops


@model('np.random.normal', 'np.random.randn', 'np.random.rand', 'np.random.uniform')
def m_global_random(ex, st, args, kwargs, node):
    """Draws from the GLOBAL NumPy generator (C10 forbids them in seeded functions): logged with the generator 'global'."""
    if _ops(ex) and ast.unparse(node.func) == 'np.random.normal' and not args and set(kwargs) == {'size'}:
        shp = M.shape_arg(ex, st, kwargs['size'], node)
        if len(shp) == 2:
            used('np.random.normal(size=(a, b)) -> a x b float matrix drawn from the process-wide generator (logged as generator "global")')
            t = ex.fresh('gnoise', T.Mat)
            st.assume(T.rows(t) == Z(shp[0]), T.cols(t) == Z(shp[1]))
            st.ghost['core_draws'] = st.ghost.get('core_draws', []) + [('global', tuple(shp), t)]
            return VArr(tuple(shp), t, 'mat')
    raise Unsupported(f'call of {ast.unparse(node.func)} at line {node.lineno}: not in the model table')


# ----------------------------------------------------------------------------------------------
# data.cache_to_data   (gate: ex.core_cache)
#
# VDict: a dict with n entries in insertion order whose keys are tuples of w integers (key s = the integer sequence keys[s]) and
# whose values are numbers (vals[s]) - the cache of cross().  `d.keys()` / `d.values()` give the sequences of keys / values in insertion
# order (tags 'dictkeys' / 'dictvals'); `[x for x in seq]` copies such a sequence into a new list; np.array of the key list is the
# (n, w) integer matrix of the keys (the 1-D empty array for n = 0), np.array of the value list the float vector of the values.
# Every mutating access (d[k] = v, clear / pop / popitem / update / setdefault) is counted in `.writes`.

KEYS = z3.ArraySort(I, IA)


class VKey:
    """One key tuple (only passed around)."""
    def __init__(self, t):
        self.t = t


class VDict:
    def __init__(self, keys, w, vals, n, writes=0):
        self.keys, self.w, self.vals, self.n, self.writes = keys, w, vals, n, writes

    def copy(self):
        return VDict(self.keys, self.w, self.vals, self.n, self.writes)


def _cache(ex):
    return getattr(ex, 'core_cache', False)


def _mk_keyseq(d):
    s = VSeq(d.keys, d.n, lambda t: VKey(t), 'dictkeys')
    s.w = d.w
    return s


_MUTATORS = ('clear', 'pop', 'popitem', 'update', 'setdefault', '__setitem__', '__delitem__')
_orig_method_c = M.method


def method_cache(ex, st, recv, name, args, kwargs, node):
    if _cache(ex):
        r = st.deref(recv)
        if isinstance(r, VDict):
            if name == 'keys' and not args and not kwargs:
                used('dict.keys() -> the keys in insertion order')
                return st.alloc(_mk_keyseq(r))
            if name == 'values' and not args and not kwargs:
                used('dict.values() -> the values in insertion order (same order as keys())')
                return st.alloc(VSeq(r.vals, r.n, lambda t: t, 'dictvals'))
            if name in _MUTATORS:
                used(f'dict.{name}(..) -> the dict is modified (contents not followed)')
                r.writes += 1
                r.keys, r.vals, r.n = ex.fresh('keys', KEYS), ex.fresh('vals', RA), ex.fresh_int('nkeys')
                st.assume(r.n >= 0)
                return VOpaque('dict-method') if name != 'clear' else NONE
            raise Unsupported(f'dict method .{name}')
        if isinstance(r, VRec) and name in ('keys', 'values') and not args and not kwargs and not r.fields:
            used('{}.keys() / {}.values() of an empty dict -> nothing to iterate over')
            return st.alloc(VList([]))
        if isinstance(r, VRec) and name in _MUTATORS:
            st.ghost['dict_mutations'] = st.ghost.get('dict_mutations', 0) + 1
            return NONE
    return _orig_method_c(ex, st, recv, name, args, kwargs, node)


M.method = method_cache
_orig_store_c = M.store


def store_cache(ex, st, base, sl_, v, node, base_node):
    if _cache(ex):
        b = st.deref(base)
        if isinstance(b, VDict):
            used('d[k] = v -> the dict is modified (contents not followed)')
            b.writes += 1
            b.keys, b.vals, b.n = ex.fresh('keys', KEYS), ex.fresh('vals', RA), ex.fresh_int('nkeys')
            st.assume(b.n >= 1)
            return
        if isinstance(b, VRec):
            st.ghost['dict_mutations'] = st.ghost.get('dict_mutations', 0) + 1
    return _orig_store_c(ex, st, base, sl_, v, node, base_node)


M.store = store_cache
_orig_listcomp_c = M.listcomp


def listcomp_cache(ex, st, e):
    if _cache(ex) and len(e.generators) == 1 and not e.generators[0].ifs and isinstance(e.elt, ast.Name) \
            and isinstance(e.generators[0].target, ast.Name) and e.elt.id == e.generators[0].target.id:
        src = st.deref(ex.ev(e.generators[0].iter, st))
        if isinstance(src, VSeq) and src.tag in ('dictkeys', 'dictvals'):
            used('[x for x in seq] -> a NEW list with the same elements in the same order')
            out = src.copy()
            if hasattr(src, 'w'):
                out.w = src.w
            return st.alloc(out)
        if isinstance(src, VList) and not src.items:
            return st.alloc(VList([]))
        raise Unsupported('identity list comprehension over this iterable')
    return _orig_listcomp_c(ex, st, e)


M.listcomp = listcomp_cache


def _wrap_array_cache(name):
    orig = M.FUNCS[name]

    def m_array_cache(ex, st, args, kwargs, node):
        if _cache(ex) and len(args) == 1 and set(kwargs) <= {'dtype'}:
            v = st.deref(args[0])
            dt = kwargs.get('dtype')
            if isinstance(v, VSeq) and v.tag == 'dictkeys' and (dt is None or (isinstance(dt, M.TypeVal) and dt.name == 'int')):
                from ttvc import mx_act as XA
                if ex.decide(st, v.n == 0, node):
                    used('np.array([], dtype=int) -> the empty 1-D integer array')
                    return VArr((0,), None, None, 'i')
                used('np.array(list of n >= 1 tuples of w integers, dtype=int) -> the (n, w) integer matrix whose rows are the tuples, in list order')
                return XA.idx_batch(v.arr, v.n, v.w)
            if isinstance(v, VSeq) and v.tag == 'dictvals' and dt is None:
                from ttvc import mx_act as XA
                used('np.array(list of n numbers) -> the float vector of these numbers, in list order')
                return XA.mk_wvec(v.n, v.arr)
        return orig(ex, st, args, kwargs, node)
    M.FUNCS[name] = m_array_cache


for _nm in ('np.array', 'np.asanyarray', 'np.asarray'):
    _wrap_array_cache(_nm)
