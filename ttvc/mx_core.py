"""Model-table entries and spec symbols for the units of contracts/core_more.py:
act_one.interface / get_and_grad (C01), svd.svd_matrix / transformation.full_matrix (C03), core.core_dot* / core_qr_rand (C04, C10),
data.cache_to_data (C10).

Everything follows the wrapping pattern of kr.py (keep the previous hook, fall through to it) and is only active for executors that
carry the gate named at each section (`ex.core_iface`, `ex.core_perm`, `ex.core_ops`, `ex.core_cache`), so that no other unit sees a
different value than before.

New theory symbols (every axiom group is exercised by lemmas/spotcheck.py through lemmas/spotcheck_ext_core.py):
  lch(Ms, m)    = [[1]] @ Ms[0] @ ... @ Ms[m-1]          left partial product of a sequence of matrices   (lch(Ms, 0) = [[1]])
  rch(Ms, k, d) = Ms[k] @ ... @ Ms[d-1] @ [[1]]          right partial product                             (rch(Ms, d, d) = [[1]])
  cnorm(a)      = np.linalg.norm(a)                      Frobenius norm of a matrix / 2-norm of a column
"""
import ast
import z3
from ttvc import symex
from ttvc.symex import Unsupported, ContractMismatch, NONE, VStr, VOpt, VTuple, VRef, VList, VRec, VSeq, VArr, VOpaque, Z, is_num, \
    is_intsort, quick_unsat
from ttvc import models as M, theory as T
from ttvc.models import used, model, to_real

I, R = z3.IntSort(), z3.RealSort()
IA = z3.ArraySort(I, I)
RA = z3.ArraySort(I, R)
MS = z3.ArraySort(I, T.Mat)            # a sequence of matrices Ms[k]

# ----------------------------------------------------------------------------------------------
# theory: partial products of a matrix sequence, norms of columns, positive scalars

lch = z3.Function('lch', MS, I, T.Mat)
rch = z3.Function('rch', MS, I, I, T.Mat)
cnorm = z3.Function('cnorm', T.Mat, R)
_Ms = z3.Const('Ms!c', MS)
_k, _j, _d = z3.Ints('k!c j!c d!c')
_x, _y = z3.Reals('x!c y!c')
_a, _b, _c3 = z3.Consts('a!c b!c c!c', T.Mat)

T.GROUPS['mchain'] = [
    T.A([_Ms], lch(_Ms, 0) == T.sc(1), [lch(_Ms, 0)]),
    T.A([_Ms, _k, _j], z3.Implies(z3.And(_k >= 0, _j == _k + 1), lch(_Ms, _j) == T.mm(lch(_Ms, _k), _Ms[_k])),
        [z3.MultiPattern(lch(_Ms, _k), lch(_Ms, _j))]),
    T.A([_Ms, _d], rch(_Ms, _d, _d) == T.sc(1), [rch(_Ms, _d, _d)]),
    T.A([_Ms, _k, _j, _d], z3.Implies(z3.And(_k >= 0, _j == _k + 1, _j <= _d), rch(_Ms, _k, _d) == T.mm(_Ms[_k], rch(_Ms, _j, _d))),
        [z3.MultiPattern(rch(_Ms, _k, _d), rch(_Ms, _j, _d))]),
]
# the 1 x 1 matrix [[1]] is a unit of the matrix product; transposes
T.GROUPS['sc1'] = [
    T.A([_a], z3.Implies(T.rows(_a) == 1, T.mm(T.sc(1), _a) == _a), [T.mm(T.sc(1), _a)]),
    T.A([_a], z3.Implies(T.cols(_a) == 1, T.mm(_a, T.sc(1)) == _a), [T.mm(_a, T.sc(1))]),
    T.A([_x], T.tr(T.sc(_x)) == T.sc(_x), [T.tr(T.sc(_x))]),
    T.A([_a, _b], z3.Implies(T.cols(_a) == T.rows(_b), T.mm(T.tr(_b), T.tr(_a)) == T.tr(T.mm(_a, _b))), [T.mm(T.tr(_b), T.tr(_a))]),
]
# norms and positive scalars (products / quotients of scalars stay abstract: rmul, divf)
T.GROUPS['cnorm'] = [
    T.A([_a], cnorm(_a) >= 0, [cnorm(_a)]),
    T.A([_x, _a], z3.Implies(_x > 0, (cnorm(T.smul(_x, _a)) > 0) == (cnorm(_a) > 0)), [cnorm(T.smul(_x, _a))]),
    T.A([_a], cnorm(T.tr(_a)) == cnorm(_a), [cnorm(T.tr(_a))]),
    T.A([_a], z3.Implies(cnorm(_a) > 0, cnorm(T.smul(T.divf(1, cnorm(_a)), _a)) == 1), [T.smul(T.divf(1, cnorm(_a)), _a)]),
    T.A([_x, _y], z3.Implies(z3.And(_x > 0, _y > 0), T.rmul(_x, _y) > 0), [T.rmul(_x, _y)]),
    T.A([_x, _y], z3.Implies(z3.And(_x > 0, _y > 0), T.divf(_x, _y) > 0), [T.divf(_x, _y)]),
]
# associativity of the matrix product (lemmas/TTAlg.lean: ax_assoc); NOT for e-matching axiom sets - instances are passed as hints
T.GROUPS['mmassoc'] = [
    T.A([_a, _b, _c3], z3.Implies(z3.And(T.cols(_a) == T.rows(_b), T.cols(_b) == T.rows(_c3)),
                                  T.mm(T.mm(_a, _b), _c3) == T.mm(_a, T.mm(_b, _c3))), [T.mm(T.mm(_a, _b), _c3)]),
]


def assoc(a, b, c):
    """Instance of 'mmassoc' (a hint)."""
    return z3.Implies(z3.And(T.cols(a) == T.rows(b), T.cols(b) == T.rows(c)), T.mm(T.mm(a, b), c) == T.mm(a, T.mm(b, c)))


# ----------------------------------------------------------------------------------------------
# act_one.interface   (gate: ex.core_iface)
#
# Value kinds:
#   'cvec'    1-D float array of length n whose denotation `t` is the n x 1 matrix with the same entries (a COLUMN; the tag 'vec' of
#             models.py is the 1 x n row view).  `A @ v` for a matrix A and a column v is mm(A, v).
#   'optvec'  list of symbolic length whose elements are None or 1-D float arrays: z3 array Int -> OptMat with
#             OptMat = none | some(mat)  (an algebraic datatype: `[None] * n` is the constant array `none`).
# A cvec that is the result of divisions by numbers carries `.scal`, the list of the scalar factors (proof hint for the sidecar).

OptMat = z3.Datatype('OptMat')
OptMat.declare('none')
OptMat.declare('some', ('mat', T.Mat))
OptMat = OptMat.create()
PHI = z3.ArraySort(I, OptMat)


def _iface(ex):
    return getattr(ex, 'core_iface', False)


def mk_cvec(t, scal=()):
    v = VArr((T.rows(t),), t, 'cvec')
    v.scal = list(scal)
    return v


def is_cvec(v):
    return isinstance(v, VArr) and v.ndim == 1 and v.tag == 'cvec' and v.t is not None


def _phi_wrap(t):
    return VOpt(OptMat.is_none(t), mk_cvec(OptMat.mat(t)))


def _phi_unwrap(ex, st, v, node):
    v = st.deref(v)
    if v is NONE:
        return OptMat.none
    if is_cvec(v):
        st.ghost['iface_last'] = v
        return OptMat.some(v.t)
    if isinstance(v, VArr) and v.ndim == 1 and v.tag == 'rvec' and v.t is not None and not callable(v.t) and z3.is_K(v.t) \
            and z3.is_true(z3.simplify(Z(v.shape[0]) == 1)):
        used('the 1-D array [c] (np.ones(1)) seen as a column -> the 1 x 1 matrix sc(c)')
        return OptMat.some(T.sc(v.t.arg(0)))
    raise Unsupported('storing this value into a list of optional vectors')


def mk_optvec(arr, n):
    return VSeq(arr, n, _phi_wrap, 'optvec', unwrap=_phi_unwrap)


_orig_list_repeat = M.list_repeat


def list_repeat(ex, st, lst, n, node):
    if _iface(ex) and len(lst.items) == 1 and lst.items[0] is NONE:
        used('[None] * n -> list of n entries None (requires n >= 0)')
        ex.oblige(st, 'call-pre', 'list-repeat-count-non-negative', Z(n) >= 0, node)
        return st.alloc(mk_optvec(z3.K(I, OptMat.none), Z(n)))
    return _orig_list_repeat(ex, st, lst, n, node)


M.list_repeat = list_repeat


def _is_rev(sl_):
    return isinstance(sl_, ast.Slice) and sl_.lower is None and sl_.upper is None and isinstance(sl_.step, ast.UnaryOp) \
        and isinstance(sl_.step.op, ast.USub) and isinstance(sl_.step.operand, ast.Constant) and sl_.step.operand.value == 1 \
        and not isinstance(sl_.step.operand.value, bool)


_orig_subscript = M.subscript
_kr = z3.Int('k!rv')


def subscript(ex, st, base, sl_, node):
    if _iface(ex) and _is_rev(sl_):
        b = st.deref(base)
        if isinstance(b, VSeq) and b.tag in ('core', 'optvec', 'wvec'):
            used('list[::-1] -> NEW list with the elements in reverse order (the original list is untouched)')
            arr = ex.fresh('rev', b.arr.sort())
            st.assume(z3.ForAll([_kr], arr[_kr] == b.arr[b.n - 1 - _kr], patterns=[arr[_kr]]))
            out = b.copy()
            out.arr = arr
            if hasattr(b, 'lens'):               # mx_act.WSeq: the lengths of the weight vectors travel with them
                lens = ex.fresh('revlen', b.lens.sort())
                st.assume(z3.ForAll([_kr], lens[_kr] == b.lens[b.n - 1 - _kr], patterns=[lens[_kr]]))
                out.lens = lens
            return st.alloc(out)
        if isinstance(b, VArr) and b.ndim == 1 and b.tag == 'ivec' and b.t is not None and not callable(b.t):
            used('v[::-1] of a 1-D integer array -> the reversed vector')
            arr = ex.fresh('revi', b.t.sort())
            st.assume(z3.ForAll([_kr], arr[_kr] == b.t[Z(b.shape[0]) - 1 - _kr], patterns=[arr[_kr]]))
            return VArr(b.shape, arr, 'ivec', b.dtype)
    return _orig_subscript(ex, st, base, sl_, node)


M.subscript = subscript


def _unopt(ex, st, v, node):
    """An optional column used as an array operand: None would raise TypeError -> safety obligation."""
    if isinstance(v, VOpt) and is_cvec(v.val):
        ex.oblige(st, 'safety', 'array-operand-not-None', z3.Not(v.isnone), node)
        return v.val
    return v


_orig_exec_binop = symex.Exec.binop


def _exec_binop(self, st, op, l, r, node):
    if _iface(self):
        l, r = _unopt(self, st, l, node), _unopt(self, st, r, node)
    return _orig_exec_binop(self, st, op, l, r, node)


symex.Exec.binop = _exec_binop
_orig_binop = M.arr_binop


def arr_binop(ex, st, op, l, r, node):
    if _iface(ex):
        if isinstance(op, ast.MatMult) and isinstance(l, VArr) and l.ndim == 2 and l.tag == 'mat' and l.t is not None and is_cvec(r):
            used('A @ v for a matrix A and a 1-D array v -> the 1-D array with the entries of mm(A, column(v)); requires cols(A) = len(v)')
            ex.oblige(st, 'call-pre', 'matmul-inner-dims-agree', Z(l.shape[1]) == Z(r.shape[0]), node)
            out = mk_cvec(T.mm(l.t, r.t))
            out.shape = (l.shape[0],)
            return out
        if isinstance(op, ast.Div) and is_cvec(l) and not isinstance(r, VArr):
            c = ex.need_num(st, r, node)
            ex.oblige(st, 'safety', 'division-by-nonzero', Z(c) != 0, node)
            used('v / c for a 1-D array v and a number c -> smul(1 / c, v), the quotient 1 / c kept abstract (divf)   [A-REAL]')
            x = T.divf(z3.RealVal(1), to_real(c))
            out = mk_cvec(T.smul(x, l.t), list(getattr(l, 'scal', [])) + [x])
            out.shape = l.shape
            return out
        if is_cvec(l) or is_cvec(r):
            raise Unsupported(f'operation {type(op).__name__} on a column vector at line {node.lineno}')
    return _orig_binop(ex, st, op, l, r, node)


M.arr_binop = arr_binop
_orig_norm = M.FUNCS['np.linalg.norm']


@model('np.linalg.norm')
def m_norm_cvec(ex, st, args, kwargs, node):
    if _iface(ex) and len(args) == 1 and not kwargs:
        v = _unopt(ex, st, st.deref(args[0]), node)
        if is_cvec(v):
            used('np.linalg.norm(v) of a 1-D float array -> cnorm(column(v)), the Euclidean norm (>= 0)   [A-REAL]')
            return cnorm(v.t)
    return _orig_norm(ex, st, args, kwargs, node)
