"""Model-table entries and spec symbols for the TT <-> QTT conversions (C17; units in contracts/qtt.py).

Integer index arrays with an element-level denotation (all handlers follow the wrapping pattern of kr.py and are only
active for the value classes defined here, or - where an existing handler would answer differently - for executors
that carry the flag `ex.qtt = True`):

  IMat   2-D integer array (R, C): `ent(s, c)` is the z3 term of the entry [s, c]; `rowarr(s)` / `colarr(c)` give a row /
         a column as a z3 array Int -> Int when one is at hand.
  IBlk   2-D integer array (m, nblk*bw) in BLOCK VIEW: `ent(s, k, b)` is the entry [s, bw*k + b] for 0 <= k < nblk,
         0 <= b < bw.  The only accesses that are modelled are whole blocks `A[:, w*i:w*(i+1)]` (recognised syntactically;
         the obligation `block-slice-width-is-the-block-width` ties w to bw) and whole rows - so no reasoning about the
         product bw*k + b is ever needed and all integer arithmetic stays linear.
  IBVec  1-D integer array (nblk*bw,) in block view (a row of an IBlk): `ent(k, b)` is the entry [bw*k + b].
  BSeq   a Python list of nblk*bw TT-cores in block view: `blk[k][b]` is the element [bw*k + b].

Spec symbols:
  shr(x, k) = x div 2^k, bit(x, k) = shr(x, k) mod 2   (declared as in contracts/utils.py, same z3 symbol)
  hval(a, k, q) = sum_{b=k}^{q-1} a[b] * 2^(b-k)       Horner form of the little-endian binary value: hval(a,q,q) = 0,
                                                       hval(a,k,q) = a[k] + 2*hval(a,k+1,q); hval(a,0,q) = sum_b a[b] 2^b.
Theory groups added here (exercised by lemmas/spotcheck.py through lemmas/spotcheck_ext_qtt.py):
  'hval'     the recursive definition above (two-variable pattern, no matching loop)
  'mulpow2'  mulI(a, 2^(k+1)) = 2 mulI(a, 2^k)  (both orientations of the canonical product);  mulI(a, 2) = mulI(2, a) = 2a
  'mulIdef'  mulI(a, b) = a*b  - NEVER put into an e-matching axiom set; single instances are passed as hints to
             quantifier-free arithmetic lemmas (int(len / q) = d).
"""
import ast
import copy as _copy
import z3
from ttvc.symex import Unsupported, ContractMismatch, NONE, VStr, VOpt, VTuple, VRef, VList, VSeq, VArr, VOpaque, Z, is_num, \
    is_intsort, quick_unsat
from ttvc import models as M, theory as T
from ttvc.models import used, model

I = z3.IntSort()
IA = z3.ArraySort(I, I)
IM = z3.ArraySort(I, IA)
IB = z3.ArraySort(I, IM)
TTB = z3.ArraySort(I, T.TT)          # blocks of a list of cores: blk[k][b]

shr = z3.Function('shr', I, I, I)     # the same symbol as contracts.utils.shr


def bit(x, k):
    return shr(x, k) % 2


hval = z3.Function('hval', IA, I, I, I)
_a = z3.Const('a!q', IA)
_k, _j, _q, _m = z3.Ints('k!q j!q q!q m!q')

T.GROUPS['hval'] = [
    T.A([_a, _q], hval(_a, _q, _q) == 0, [hval(_a, _q, _q)]),
    T.A([_a, _k, _j, _q], z3.Implies(z3.And(_k >= 0, _j == _k + 1, _j <= _q), hval(_a, _k, _q) == _a[_k] + 2 * hval(_a, _j, _q)),
        [z3.MultiPattern(hval(_a, _k, _q), hval(_a, _j, _q))]),
]
T.GROUPS['mulpow2'] = [
    T.A([_m, _k, _j], z3.Implies(z3.And(_k >= 0, _j == _k + 1), T.mulI(_m, T.pow2(_j)) == 2 * T.mulI(_m, T.pow2(_k))),
        [z3.MultiPattern(T.mulI(_m, T.pow2(_j)), T.mulI(_m, T.pow2(_k)))]),
    T.A([_m, _k, _j], z3.Implies(z3.And(_k >= 0, _j == _k + 1), T.mulI(T.pow2(_j), _m) == 2 * T.mulI(T.pow2(_k), _m)),
        [z3.MultiPattern(T.mulI(T.pow2(_j), _m), T.mulI(T.pow2(_k), _m))]),
    T.A([_m], z3.And(T.mulI(_m, 2) == 2 * _m, T.mulI(2, _m) == 2 * _m), [T.mulI(_m, 2), T.mulI(2, _m)]),
]
T.GROUPS['mulIdef'] = [
    T.A([_m, _k], T.mulI(_m, _k) == _m * _k, [T.mulI(_m, _k)]),
]


def mulI_instance(term):
    """The instance of 'mulIdef' for a canonical product term (hint for quantifier-free lemmas)."""
    if z3.is_app(term) and term.decl().eq(T.mulI):
        a, b = term.children()
        return term == a * b
    return z3.BoolVal(True)


def pats(*terms):
    """[MultiPattern(terms)] if every term is built from uninterpreted symbols and selects only (a usable trigger), else []
    (for quantified GOALS, where the trigger is irrelevant, over denotations that contain if-then-else)."""
    def ok(t):
        if z3.is_var(t) or z3.is_const(t) and t.decl().kind() == z3.Z3_OP_UNINTERPRETED:
            return True
        if z3.is_app(t) and t.decl().kind() in (z3.Z3_OP_UNINTERPRETED, z3.Z3_OP_SELECT):
            return all(ok(c) or z3.is_int_value(c) for c in t.children())
        return False
    if not all(ok(t) for t in terms):
        return []
    return [terms[0] if len(terms) == 1 else z3.MultiPattern(*terms)]


def on(ex):
    return getattr(ex, 'qtt', False)


# ----------------------------------------------------------------------------------------------
# value classes

class IMat(VArr):
    def __init__(self, shape, ent, rowarr=None, colarr=None):
        super().__init__(shape, None, 'imat', 'i')
        self.ent, self.rowarr, self.colarr = ent, rowarr, colarr


class IBlk(VArr):
    """`blkarr(s, k)`: block k of row s as a z3 array Int -> Int (None when the blocks are not at hand as arrays)."""
    def __init__(self, shape, ent, nblk=None, bw=None, blkarr=None, fac=None):
        super().__init__(shape, None, 'iblk', 'i')
        self.ent, self.nblk, self.bw, self.blkarr, self.fac = ent, nblk, bw, blkarr, fac


class IBVec(VArr):
    def __init__(self, shape, ent, nblk, bw, blkarr=None):
        super().__init__(shape, None, 'ibvec', 'i')
        self.ent, self.nblk, self.bw, self.blkarr = ent, nblk, bw, blkarr


class VUnr:
    """The tuple returned by np.unravel_index(v, [2]*q, order): q index vectors of the length of v."""
    def __init__(self, v, q, order):
        self.v, self.q, self.order = v, q, order


def rows_fn(name):
    """Uninterpreted family of integer rows: f(s) is a z3 array Int -> Int."""
    return z3.Function(name, I, IA)


def blocks_fn(name):
    """Uninterpreted family of blocks: f(s, k) is a z3 array Int -> Int (block k of row s)."""
    return z3.Function(name, I, I, IA)


def imat_of(f, rows, cols):
    """IMat whose rows are f(s) (f from rows_fn)."""
    return IMat((rows, cols), lambda s, c: f(s)[c], rowarr=lambda s: f(s))


def iblk_of(f, rows, nblk, bw, ncols=None):
    """IBlk whose blocks are f(s, k) (f from blocks_fn)."""
    return IBlk((rows, ncols if ncols is not None else T.mul_canon(nblk, bw)), lambda s, k, b: f(s, k)[b], nblk, bw,
                blkarr=lambda s, k: f(s, k))


def ibvec_of(f, nblk, bw, n=None):
    """IBVec whose blocks are f(k) (f from rows_fn)."""
    return IBVec((n if n is not None else T.mul_canon(nblk, bw),), lambda k, b: f(k)[b], nblk, bw, blkarr=lambda k: f(k))


class FnArr:
    """Denotation of an integer vector by an uninterpreted function Int -> Int, subscriptable like a z3 array.  (A z3 array
    would make the array theory enumerate `v[x]` for every index term x of every other integer array, and each of these
    selects instantiates the pointwise definition of v - a matching loop through the theory.)"""
    def __init__(self, f):
        self.f = f

    def __getitem__(self, i):
        return self.f(Z(i))

    def sort(self):
        return IA


def ivec_of(ex, st, n, f, name='iv'):
    """1-D integer vector with entries f(s): a fresh function with its pointwise definition."""
    s = z3.Int('s!q')
    ex.cnt += 1
    g = z3.Function(f'{name}!{ex.cnt}', I, I)
    st.assume(z3.ForAll([s], g(s) == f(s), patterns=[g(s)]))
    return VArr((n,), FnArr(g), 'ivec', 'i')


def is_ivec(v):
    return isinstance(v, VArr) and v.ndim == 1 and v.tag == 'ivec' and v.t is not None and not callable(v.t) and v.dtype == 'i'


# ----------------------------------------------------------------------------------------------
# block slices  A[:, w*i : w*(i+1)]

def _full(e):
    return isinstance(e, ast.Slice) and e.lower is None and e.upper is None and e.step is None


def _same_ast(a, b):
    return ast.dump(a) == ast.dump(b)


def _is_plus1(e, base):
    if isinstance(e, ast.BinOp) and isinstance(e.op, ast.Add):
        one = lambda x: isinstance(x, ast.Constant) and x.value == 1 and not isinstance(x.value, bool)
        return (one(e.right) and _same_ast(e.left, base)) or (one(e.left) and _same_ast(e.right, base))
    return False


def block_slice(e):
    """(width node, index node) if `e` is the slice  w*i : w*(i+1)  (factors in any order), else None."""
    if not (isinstance(e, ast.Slice) and e.step is None and e.lower is not None and e.upper is not None):
        return None
    lo, hi = e.lower, e.upper
    if not (isinstance(lo, ast.BinOp) and isinstance(lo.op, ast.Mult) and isinstance(hi, ast.BinOp) and isinstance(hi.op, ast.Mult)):
        return None
    for w, i in ((lo.left, lo.right), (lo.right, lo.left)):
        for w2, i2 in ((hi.left, hi.right), (hi.right, hi.left)):
            if _same_ast(w, w2) and _is_plus1(i2, i):
                return w, i
    return None


def _resolve(ex, st, blk, w, node):
    """Fix the block structure of an array created as np.zeros((m, a*b)) at its first block access, and tie the width of
    the accessed slice to the block width."""
    if blk.bw is None:
        a, b = blk.fac
        if quick_unsat(list(st.pc) + [Z(w) != Z(b)]):
            blk.nblk, blk.bw = a, b
        elif quick_unsat(list(st.pc) + [Z(w) != Z(a)]):
            blk.nblk, blk.bw = b, a
        else:
            raise Unsupported(f'block slice of width {w} on an array whose column count is the product {a}*{b} (line {node.lineno})')
    ex.oblige(st, 'call-pre', 'block-slice-width-is-the-block-width', Z(w) == Z(blk.bw), node)


def _block_access(ex, st, blk, e, node):
    """Evaluate the block slice `e` on the block-view array: returns the block index (range obligation included)."""
    wn, inode = block_slice(e)
    w = ex.need_num(st, ex.ev(wn, st), node)
    i = ex.need_num(st, ex.ev(inode, st), node)
    if not (is_intsort(w) and is_intsort(i)):
        raise Unsupported('block slice with non-integer bounds')
    _resolve(ex, st, blk, w, node)
    used('A[:, w*i:w*(i+1)] on an (m, nblk*w) array -> the i-th block of w columns (requires 0 <= i < nblk, w >= 0)')
    ex.oblige(st, 'safety', 'block-index-in-range', z3.And(Z(i) >= 0, Z(i) < Z(blk.nblk), Z(w) >= 0), node)
    return Z(i)


_orig_index = M.arr_index


def arr_index(ex, st, a, sl_, node):
    elts = sl_.elts if isinstance(sl_, ast.Tuple) else [sl_]
    if isinstance(a, IMat) and len(elts) == 2:
        e0, e1 = elts
        if _full(e0) and not isinstance(e1, ast.Slice):
            iv = ex.ev(e1, st)
            if is_num(iv) and is_intsort(iv):
                i = Z(M.norm_index(ex, st, iv, a.shape[1], node, 'column-index'))
                used('A[:, i] of an integer matrix -> its i-th column')
                if a.colarr is not None:
                    return VArr((a.shape[0],), a.colarr(i), 'ivec', 'i')
                return ivec_of(ex, st, a.shape[0], lambda s: a.ent(s, i), 'col')
        if _full(e1) and not isinstance(e0, ast.Slice):
            iv = ex.ev(e0, st)
            if is_num(iv) and is_intsort(iv):
                i = Z(M.norm_index(ex, st, iv, a.shape[0], node, 'row-index'))
                used('A[i, :] of an integer matrix -> its i-th row')
                if a.rowarr is not None:
                    return VArr((a.shape[1],), a.rowarr(i), 'ivec', 'i')
                return ivec_of(ex, st, a.shape[1], lambda c: a.ent(i, c), 'row')
    if isinstance(a, IBlk) and len(elts) == 2:
        e0, e1 = elts
        if _full(e0) and block_slice(e1) is not None:
            i = _block_access(ex, st, a, e1, node)
            return IMat((a.shape[0], a.bw), lambda s, b: a.ent(s, i, b),
                        rowarr=(lambda s: a.blkarr(s, i)) if a.blkarr is not None else None)
        if _full(e1) and not isinstance(e0, ast.Slice) and a.bw is not None:
            iv = ex.ev(e0, st)
            if is_num(iv) and is_intsort(iv):
                i = Z(M.norm_index(ex, st, iv, a.shape[0], node, 'row-index'))
                used('A[i, :] of an integer matrix in block view -> its i-th row in block view')
                return IBVec((a.shape[1],), lambda k, b: a.ent(i, k, b), a.nblk, a.bw,
                             blkarr=(lambda k: a.blkarr(i, k)) if a.blkarr is not None else None)
    return _orig_index(ex, st, a, sl_, node)


M.arr_index = arr_index
_orig_setitem = M.arr_setitem


def arr_setitem(ex, st, b, sl_, v, node):
    elts = sl_.elts if isinstance(sl_, ast.Tuple) else [sl_]
    val = st.deref(v)
    if isinstance(b, IBlk) and len(elts) == 2 and _full(elts[0]) and block_slice(elts[1]) is not None and isinstance(val, IMat):
        i = _block_access(ex, st, b, elts[1], node)
        used('A[:, w*i:w*(i+1)] = X -> block i replaced by X, the other blocks unchanged (requires X of shape (m, w))')
        ex.oblige(st, 'call-pre', 'block-assignment-shape-matches',
                  z3.And(Z(val.shape[0]) == Z(b.shape[0]), Z(val.shape[1]) == Z(b.bw)), node)
        old = b.ent
        return IBlk(b.shape, lambda s, k, o: z3.If(k == i, val.ent(s, o), old(s, k, o)), b.nblk, b.bw)
    if isinstance(b, IMat) and len(elts) == 2 and _full(elts[0]) and not isinstance(elts[1], ast.Slice) and is_ivec(val):
        iv = ex.ev(elts[1], st)
        if is_num(iv) and is_intsort(iv):
            i = Z(M.norm_index(ex, st, iv, b.shape[1], node, 'column-index'))
            used('A[:, i] = v -> column i replaced by the vector v, the other columns unchanged (requires len v = number of rows)')
            ex.oblige(st, 'call-pre', 'column-assignment-length-matches', Z(val.shape[0]) == Z(b.shape[0]), node)
            old = b.ent
            return IMat(b.shape, lambda s, c: z3.If(c == i, val.t[s], old(s, c)))
    return _orig_setitem(ex, st, b, sl_, v, node)


M.arr_setitem = arr_setitem
_orig_method = M.method


def method(ex, st, recv, name, args, kwargs, node):
    r = st.deref(recv)
    if name == 'reshape' and len(args) == 2 and isinstance(args[0], int) and args[0] == 1 and isinstance(args[1], int) and args[1] == -1 \
            and not kwargs:
        if isinstance(r, IBVec):
            used('v.reshape(1, -1) -> the 1 x len(v) matrix whose only row is v')
            return IBlk((1, r.shape[0]), lambda s, k, b: r.ent(k, b), r.nblk, r.bw,
                        blkarr=(lambda s, k: r.blkarr(k)) if r.blkarr is not None else None)
        if on(ex) and is_ivec(r):
            used('v.reshape(1, -1) -> the 1 x len(v) matrix whose only row is v')
            return IMat((1, r.shape[0]), lambda s, c: r.t[c], rowarr=lambda s: r.t)
    if name == 'copy' and on(ex) and isinstance(r, VArr) and not args and not kwargs:
        used('ndarray.copy() -> same value, fresh buffer')
        out = _copy.copy(r)
        out.shared = False
        out.fresh_buffer = True
        return out
    return _orig_method(ex, st, recv, name, args, kwargs, node)


M.method = method
_orig_attribute = M.attribute


def attribute(ex, st, v, attr, node):
    if isinstance(v, IMat) and attr == 'T':
        used('A.T of an integer matrix -> transpose')
        return IMat((v.shape[1], v.shape[0]), lambda s, c: v.ent(c, s), rowarr=v.colarr, colarr=v.rowarr)
    return _orig_attribute(ex, st, v, attr, node)


M.attribute = attribute


# ----------------------------------------------------------------------------------------------
# np.zeros((m, a*b), dtype=int) / np.zeros((m, d), dtype=int)

_orig_zeros = M.FUNCS['np.zeros']


@model('np.zeros')
def m_zeros_int(ex, st, args, kwargs, node):
    dt = kwargs.get('dtype')
    if on(ex) and isinstance(dt, M.TypeVal) and dt.name == 'int' and node.args and isinstance(node.args[0], (ast.Tuple, ast.List)) \
            and len(node.args[0].elts) == 2:
        shp = M.shape_arg(ex, st, args[0], node)
        for s_ in shp:
            ex.oblige(st, 'call-pre', 'non-negative-dimension', Z(s_) >= 0, node)
        used('np.zeros((m, c), dtype=int) -> integer matrix of zeros')
        zero = z3.IntVal(0)
        c = node.args[0].elts[1]
        if isinstance(c, ast.BinOp) and isinstance(c.op, ast.Mult) and isinstance(c.left, ast.Name) and isinstance(c.right, ast.Name):
            a, b = ex.ev(c.left, st), ex.ev(c.right, st)
            if is_num(a) and is_num(b) and is_intsort(a) and is_intsort(b):
                used('np.zeros((m, a*b), dtype=int) -> zeros; block view with a blocks of width b (or b blocks of width a)')
                ex.oblige(st, 'call-pre', 'non-negative-dimension', z3.And(Z(a) >= 0, Z(b) >= 0), node)
                return IBlk(tuple(shp), lambda s, k, o: zero, fac=(a, b))
        return IMat(tuple(shp), lambda s, c_: zero)
    return _orig_zeros(ex, st, args, kwargs, node)


# ----------------------------------------------------------------------------------------------
# np.unravel_index / np.ravel_multi_index over binary digits

def _dims_all_two(ex, st, dims, node, what):
    """Length of `dims` with the obligation that every entry is 2."""
    dims = st.deref(dims)
    if isinstance(dims, (VList, VTuple)):
        if not all(isinstance(x, int) and x == 2 for x in dims.items):
            raise Unsupported(f'{what}: only binary digits (dims = [2]*q) are modelled')
        return len(dims.items)
    if isinstance(dims, VSeq) and dims.tag == 'int':
        k = z3.Int('k!dq')
        if not (z3.is_K(dims.arr) and z3.is_int_value(dims.arr.arg(0)) and dims.arr.arg(0).as_long() == 2):
            ex.oblige(st, 'call-pre', f'{what}: every dimension is 2',
                      z3.ForAll([k], z3.Implies(z3.And(0 <= k, k < dims.n), dims.arr[k] == 2)), node, assume=False)
        return dims.n
    raise Unsupported(f'{what}: dims argument')


def _order(kwargs, what):
    o = kwargs.get('order', VStr('C'))
    o = o.concrete() if isinstance(o, VStr) else None
    if o not in ('C', 'F'):
        raise Unsupported(f'{what}: order must be a literal')
    return o


@model('np.unravel_index')
def m_unravel(ex, st, args, kwargs, node):
    if len(args) != 2:
        raise Unsupported('np.unravel_index calling pattern')
    v = st.deref(args[0])
    if not is_ivec(v):
        raise Unsupported('np.unravel_index of other than an integer vector')
    q = _dims_all_two(ex, st, args[1], node, 'unravel_index')
    o = _order(kwargs, 'unravel_index')
    used("np.unravel_index(v, [2]*q, order='F')[j][s] = bit j of v[s] (order='C': bit q-1-j); requires 0 <= v[s] < 2^q")
    s = z3.Int('s!u')
    ex.oblige(st, 'call-pre', 'unravel_index: every index lies in [0, 2^q)',
              z3.ForAll([s], z3.Implies(z3.And(0 <= s, s < Z(v.shape[0])), z3.And(v.t[s] >= 0, v.t[s] < T.pow2(Z(q))))), node, assume=False)
    return VUnr(v, Z(q), o)


_orig_array = {n: M.FUNCS[n] for n in ('np.array', 'np.asanyarray', 'np.asarray')}


def _mk_array(name):
    def m_array(ex, st, args, kwargs, node):
        v = st.deref(args[0]) if args else None
        if isinstance(v, VUnr) and len(args) == 1 and not kwargs:
            used('np.array(np.unravel_index(v, [2]*q, order)) -> integer matrix (q, len v) of the digits')
            q, w = v.q, v.v
            if v.order == 'F':
                return IMat((q, w.shape[0]), lambda b, s: bit(w.t[s], b))
            return IMat((q, w.shape[0]), lambda b, s: bit(w.t[s], q - 1 - b))
        return _orig_array[name](ex, st, args, kwargs, node)
    return m_array


for _n in _orig_array:
    M.FUNCS[_n] = _mk_array(_n)


@model('np.ravel_multi_index')
def m_ravel(ex, st, args, kwargs, node):
    if len(args) != 2:
        raise Unsupported('np.ravel_multi_index calling pattern')
    X = st.deref(args[0])
    if not isinstance(X, IMat):
        raise Unsupported('np.ravel_multi_index of other than an integer matrix with a denotation')
    q = _dims_all_two(ex, st, args[1], node, 'ravel_multi_index')
    o = _order(kwargs, 'ravel_multi_index')
    if 'mode' in kwargs:
        raise Unsupported('np.ravel_multi_index with mode=')
    used("np.ravel_multi_index(X, [2]*q, order='F')[c] = sum_b X[b, c] 2^b = hval(X[:, c], 0, q) (order='C': digits reversed); "
         "requires q rows and every digit in {0, 1}")
    R, C = Z(X.shape[0]), Z(X.shape[1])
    ex.oblige(st, 'call-pre', 'ravel_multi_index: one row of digits per dimension', R == Z(q), node)
    b, c = z3.Ints('b!r c!r')
    ex.oblige(st, 'call-pre', 'ravel_multi_index: every digit is 0 or 1',
              z3.ForAll([b, c], z3.Implies(z3.And(0 <= b, b < R, 0 <= c, c < C), z3.And(X.ent(b, c) >= 0, X.ent(b, c) <= 1))), node, assume=False)
    if o == 'F' and X.colarr is not None:
        col = X.colarr
    else:
        ex.cnt += 1
        fam = rows_fn(f'digits!{ex.cnt}')
        f = (lambda b_, c_: X.ent(b_, c_)) if o == 'F' else (lambda b_, c_: X.ent(R - 1 - b_, c_))
        st.assume(z3.ForAll([c, b], fam(c)[b] == f(b, c), patterns=[fam(c)[b]]))
        col = lambda c_: fam(c_)
    return ivec_of(ex, st, X.shape[1], lambda c_: hval(col(c_), 0, R), 'ravel')


# ----------------------------------------------------------------------------------------------
# reshapes with one inferred dimension (shape level)

_orig_reshape = M.reshape


def _eq(ex, st, a, b):
    return quick_unsat(list(ex.axioms) + list(st.pc) + [Z(a) != Z(b)])


def _is_m1(x):
    return isinstance(x, int) and x == -1


def reshape(ex, st, a, shp, order, node):
    if on(ex) and isinstance(a, VArr) and a.tag != 'kcprod':
        dims = M.shape_arg(ex, st, shp, node)
        pos = lambda *xs: ex.oblige(st, 'call-pre', 'reshape-with-an-inferred-dimension-needs-positive-given-dimensions',
                                    z3.And([Z(x) >= 1 for x in xs]), node)
        if a.ndim == 4 and len(dims) == 3 and _is_m1(dims[1]) and not _is_m1(dims[0]) and not _is_m1(dims[2]) \
                and _eq(ex, st, dims[0], a.shape[0]) and _eq(ex, st, dims[2], a.shape[3]):
            used('reshape of an (a, b, c, e) array to (a, -1, e) -> (a, b*c, e)')
            pos(dims[0], dims[2])
            return VArr((dims[0], T.mul_canon(a.shape[1], a.shape[2]), dims[2]), None, None)
        if a.ndim == 3 and len(dims) == 2 and _is_m1(dims[0]) and not _is_m1(dims[1]) and _eq(ex, st, dims[1], a.shape[2]):
            used('reshape of an (a, b, c) array to (-1, c) -> (a*b, c)')
            pos(dims[1])
            return VArr((T.mul_canon(a.shape[0], a.shape[1]), dims[1]), None, None)
        if a.ndim == 2 and len(dims) == 3 and _is_m1(dims[0]) and not _is_m1(dims[1]) and not _is_m1(dims[2]) \
                and _eq(ex, st, a.shape[1], T.mul_canon(dims[1], dims[2])):
            used('reshape of an (a, b*c) array to (-1, b, c) -> (a, b, c)')
            pos(dims[1], dims[2])
            return VArr((a.shape[0], dims[1], dims[2]), None, None)
        if a.ndim == 2 and len(dims) == 3 and _is_m1(dims[2]) and not _is_m1(dims[0]) and not _is_m1(dims[1]) \
                and _eq(ex, st, a.shape[0], T.mul_canon(dims[0], dims[1])):
            used('reshape of an (a*b, c) array to (a, b, -1) -> (a, b, c)')
            pos(dims[0], dims[1])
            return VArr((dims[0], dims[1], a.shape[1]), None, None)
    return _orig_reshape(ex, st, a, shp, order, node)


M.reshape = reshape


# ----------------------------------------------------------------------------------------------
# lists of cores in block view:  Y[k*q:(k+1)*q]

_NOARR = z3.Const('blockview!no-flat-array', T.TT)


class BSeq(VSeq):
    """List of nblk*bw TT-cores in block view: `blk(k)` is the z3 array (Int -> Core) of the cores [bw*k, bw*(k+1)).
    The length is the canonical product nblk*bw.  There is no flat array (`arr` is a placeholder that nothing reads)."""
    def __init__(self, blk, nblk, bw, n=None):
        super().__init__(_NOARR, n if n is not None else T.mul_canon(nblk, bw), M.mk_core, tag='core')
        self.blk, self.nblk, self.bw = blk, nblk, bw

    def get(self, k):
        raise Unsupported('element access by flat position on a list of cores in block view')

    def copy(self):
        return BSeq(self.blk, self.nblk, self.bw, self.n)


def bseq_of_array(barr, nblk, bw):
    """BSeq whose blocks are the elements of the z3 array `barr` (sort TTB)."""
    return BSeq(lambda k: barr[k], nblk, bw)


def core_blocks_fn(name):
    return z3.Function(name, I, T.TT)


_orig_subscript = M.subscript


def subscript(ex, st, base, sl_, node):
    b = st.deref(base)
    if isinstance(b, BSeq):
        if block_slice(sl_) is None:
            raise Unsupported(f'access `{ast.unparse(sl_)}` to a list of cores in block view (only whole blocks Y[w*k:w*(k+1)])')
        wn, inode = block_slice(sl_)
        w = ex.need_num(st, ex.ev(wn, st), node)
        i = ex.need_num(st, ex.ev(inode, st), node)
        used('Y[w*k:w*(k+1)] on a list of nblk*w elements -> new list with the k-th block of w elements (requires 0 <= k < nblk)')
        ex.oblige(st, 'call-pre', 'block-slice-width-is-the-block-width', Z(w) == Z(b.bw), node)
        ex.oblige(st, 'safety', 'block-index-in-range', z3.And(Z(i) >= 0, Z(i) < Z(b.nblk), Z(w) >= 0), node)
        return st.alloc(VSeq(b.blk(Z(i)), Z(b.bw), M.mk_core, tag='core'))
    if isinstance(b, VSeq) and not isinstance(b, BSeq) and on(ex) and isinstance(sl_, ast.Slice) and sl_.lower is None and sl_.upper is None \
            and isinstance(sl_.step, ast.UnaryOp) and isinstance(sl_.step.op, ast.USub) and isinstance(sl_.step.operand, ast.Constant) \
            and sl_.step.operand.value == 1:
        used('list[::-1] -> new list with the elements in reverse order')
        k = z3.Int('k!rv')
        arr = ex.fresh('rev', b.arr.sort())
        st.assume(z3.ForAll([k], arr[k] == b.arr[b.n - 1 - k], patterns=[arr[k]]))
        return st.alloc(VSeq(arr, b.n, b.wrap, b.tag))
    return _orig_subscript(ex, st, base, sl_, node)


M.subscript = subscript


_orig_empty_seq = M.empty_seq


def empty_seq(ex, st, kind):
    if kind == 'ttblocks':
        bw = getattr(ex, 'qtt_q', None)
        if bw is None:
            raise Unsupported('type hint ttblocks needs the block width (ex.qtt_q)')
        ex.cnt += 1
        return st.alloc(BSeq(core_blocks_fn(f'empty!{ex.cnt}'), z3.IntVal(0), bw))
    return _orig_empty_seq(ex, st, kind)


M.empty_seq = empty_seq
_orig_method2 = M.method


def method2(ex, st, recv, name, args, kwargs, node):
    r = st.deref(recv)
    if isinstance(r, BSeq):
        if name == 'extend' and len(args) == 1 and not kwargs:
            o = st.deref(args[0])
            if isinstance(o, VSeq) and not isinstance(o, BSeq) and o.tag == 'core':
                used('list.extend(other) on a list held as blocks of w elements -> one more block (requires len(other) = w)')
                ex.oblige(st, 'call-pre', 'list-in-block-view-is-extended-by-exactly-one-block', o.n == Z(r.bw), node)
                old, nb = r.blk, r.nblk
                nw = ex.fresh('blk', T.TT)
                st.assume(nw == o.arr)
                r.blk = lambda k: z3.If(k == nb, nw, old(k))
                r.nblk = nb + 1
                r.n = T.mul_canon(r.nblk, r.bw)
                return NONE
        raise Unsupported(f'method .{name} on a list of cores in block view')
    return _orig_method2(ex, st, recv, name, args, kwargs, node)


M.method = method2
_orig_einsum = M.FUNCS['np.einsum']


@model('np.einsum')
def m_einsum_qtt(ex, st, args, kwargs, node):
    sub = args[0].concrete() if args and isinstance(args[0], VStr) else None
    if on(ex) and (sub or '').replace(' ', '') == 'ijk,kl' and len(args) == 3 and not kwargs:
        G, Um = st.deref(args[1]), st.deref(args[2])
        if isinstance(G, VArr) and G.ndim == 3 and isinstance(Um, VArr) and Um.ndim == 2:
            used("np.einsum('ijk,kl', G, U) -> core times matrix on the right bond, shape (r1, n, cols U); requires r2(G) = rows(U)")
            ex.oblige(st, 'call-pre', 'einsum-contracted-dimensions-agree', Z(G.shape[2]) == Z(Um.shape[0]), node)
            t = T.cmulR(G.t, Um.t) if (G.tag == 'core' and G.t is not None and Um.tag == 'mat' and Um.t is not None) else None
            return VArr((G.shape[0], G.shape[1], Um.shape[1]), t, 'core' if t is not None else None)
    return _orig_einsum(ex, st, args, kwargs, node)
