"""SMT back ends of ttvc: z3 (Python API) first, /usr/bin/cvc5 on the SMT-LIB dump for what z3 leaves open."""
import os, subprocess, tempfile, time
import z3

Z3_TIMEOUT_MS = int(os.environ.get('TTVC_Z3_MS', '20000'))
CVC5_TIMEOUT_S = int(os.environ.get('TTVC_CVC5_S', '60'))
SEED = int(os.environ.get('TTVC_Z3_SEED', '0') or 0)      # proof-stability testing (tools/stability.py)


def _load_factor():
    """Solver time limits are wall-clock limits; when the machine is oversubscribed (several checks started at once) a proof that needs
    2 s of CPU may need 10 s of wall time.  The limits are stretched by the 1-minute load average per core (between 1x and 4x) so that
    a verdict does not flip to `timeout` merely because twenty checks run side by side."""
    try:
        return min(4.0, max(1.0, os.getloadavg()[0] / max(1, os.cpu_count() or 1)))
    except OSError:
        return 1.0


def _solver(mode, timeout_ms):
    s = z3.Solver()
    s.set('timeout', int(timeout_ms * _load_factor()))
    if SEED:
        s.set('random_seed', SEED)
    if mode == 'ematch':
        s.set('auto_config', False)
        s.set('smt.mbqi', False)
    return s


def model_text(m, limit=1500):
    try:
        items = []
        for d in m.decls():
            if '!' in d.name() and not d.name().startswith(('j!', 'i!')):
                continue
            items.append(f'{d.name()} = {m[d]}')
        return '; '.join(sorted(items))[:limit]
    except Exception:
        return str(m)[:limit]


def run_cvc5(smt2, timeout_s):
    with tempfile.NamedTemporaryFile('w', suffix='.smt2', delete=False) as fh:
        fh.write('(set-logic ALL)\n' + smt2 + '\n(check-sat)\n' if '(check-sat)' not in smt2 else '(set-logic ALL)\n' + smt2)
        path = fh.name
    try:
        t0 = time.time()
        p = subprocess.run(['/usr/bin/cvc5', '--tlimit=%d' % (timeout_s * 1000), '--full-saturate-quant', path],
                           capture_output=True, text=True, timeout=timeout_s + 10)
        out = (p.stdout + p.stderr).strip().splitlines()
        return (out[0].strip() if out else 'unknown'), time.time() - t0
    except Exception as e:
        return 'error:' + repr(e)[:100], 0.0
    finally:
        os.unlink(path)


def discharge(hyps, goal, axioms=(), mode='default', both=False, timeout_ms=None, cvc5=True):
    """Try to prove  axioms /\\ hyps  =>  goal.
    Returns dict(status, backend, seconds, detail, model).
      proved   - unsat (z3 or cvc5)
      refuted  - sat with a counter-model
      failed   - the e-matching proof search terminated (saturated) without a proof and neither z3's default
                 strategy nor cvc5 found one within their budgets; no model
      timeout  - resource limits only (undecided)"""
    timeout_ms = timeout_ms or Z3_TIMEOUT_MS
    t0 = time.time()
    quantified = bool(axioms) or any(_has_quant(h) for h in hyps) or _has_quant(goal)
    saturated, notes = False, []
    s = None
    if quantified or mode == 'ematch':
        s = _solver('ematch', min(timeout_ms, 8000))
        s.add(*axioms)
        s.add(*hyps)
        s.add(z3.Not(goal))
        r = s.check()
        if r == z3.unsat:
            res = {'status': 'proved', 'backend': 'z3', 'seconds': time.time() - t0, 'model': None, 'detail': ''}
            if both:
                c, cs = run_cvc5(s.to_smt2(), CVC5_TIMEOUT_S)
                res['detail'] = f'cvc5: {c} ({cs:.2f}s)'
                if c == 'sat':
                    res.update(status='failed', detail='back ends disagree: z3 unsat, cvc5 sat')
            return res
        if r == z3.sat:
            return {'status': 'refuted', 'backend': 'z3', 'seconds': time.time() - t0, 'model': model_text(s.model()),
                    'detail': 'z3 (e-matching): sat (counter-model)'}
        reason = s.reason_unknown()
        saturated = not ('timeout' in reason or 'canceled' in reason or 'resource' in reason)
        notes.append(f'z3 e-matching: unknown ({reason})')
    if mode != 'ematch' or not quantified:
        s = _solver('default', min(timeout_ms, 5000) if quantified else timeout_ms)
        s.add(*axioms)
        s.add(*hyps)
        s.add(z3.Not(goal))
        r = s.check()
        if r == z3.unsat:
            res = {'status': 'proved', 'backend': 'z3', 'seconds': time.time() - t0, 'model': None, 'detail': ''}
            if both:
                c, cs = run_cvc5(s.to_smt2(), CVC5_TIMEOUT_S)
                res['detail'] = f'cvc5: {c} ({cs:.2f}s)'
                if c == 'sat':
                    res.update(status='failed', detail='back ends disagree: z3 unsat, cvc5 sat')
            return res
        if r == z3.sat:
            return {'status': 'refuted', 'backend': 'z3', 'seconds': time.time() - t0, 'model': model_text(s.model()),
                    'detail': 'z3: sat (counter-model)'}
        notes.append(f'z3 default: unknown ({s.reason_unknown()})')
        if not quantified:
            saturated = False
    secs = time.time() - t0
    if cvc5:
        c, cs = run_cvc5(s.to_smt2(), 5 if saturated else CVC5_TIMEOUT_S)
        secs += cs
        notes.append(f'cvc5: {c}')
        if c == 'unsat':
            return {'status': 'proved', 'backend': 'cvc5', 'seconds': secs, 'model': None, 'detail': '; '.join(notes)}
        if c == 'sat':
            return {'status': 'refuted', 'backend': 'cvc5', 'seconds': secs, 'model': None, 'detail': '; '.join(notes)}
    return {'status': 'failed' if saturated else 'timeout', 'backend': 'z3', 'seconds': secs, 'model': None,
            'detail': '; '.join(notes)}


def _has_quant(f):
    stack, seen = [f], set()
    while stack:
        t = stack.pop()
        if t.get_id() in seen:
            continue
        seen.add(t.get_id())
        if z3.is_quantifier(t):
            return True
        if z3.is_app(t):
            stack.extend(t.children())
    return False


def satisfiable(hyps, axioms=(), mode='default', timeout_ms=2000):
    """For covers / vacuity guards: is the context satisfiable (reachable)?  'unknown' counts as reachable
    for e-matching contexts (no contradiction derivable)."""
    s = _solver(mode, timeout_ms)
    for a in axioms:
        s.add(a)
    for h in hyps:
        s.add(h)
    r = s.check()
    return r != z3.unsat, str(r)
