"""SMT back ends of ttvc: z3 (Python API) first, /usr/bin/cvc5 on the SMT-LIB dump for what z3 leaves open."""
import os, subprocess, tempfile, time
import z3

Z3_TIMEOUT_MS = int(os.environ.get('TTVC_Z3_MS', '20000'))
CVC5_TIMEOUT_S = int(os.environ.get('TTVC_CVC5_S', '60'))


def _solver(mode, timeout_ms):
    s = z3.Solver()
    s.set('timeout', timeout_ms)
    if mode == 'ematch':
        s.set('auto_config', False)
        s.set('smt.mbqi', False)
    return s


def model_text(m, limit=1500):
    try:
        items = []
        for d in m.decls():
            if '!' in d.name() and not d.name().startswith(('j!', 'i!')):
                continue
            items.append(f'{d.name()} = {m[d]}')
        return '; '.join(sorted(items))[:limit]
    except Exception:
        return str(m)[:limit]


def run_cvc5(smt2, timeout_s):
    with tempfile.NamedTemporaryFile('w', suffix='.smt2', delete=False) as fh:
        fh.write('(set-logic ALL)\n' + smt2 + '\n(check-sat)\n' if '(check-sat)' not in smt2 else '(set-logic ALL)\n' + smt2)
        path = fh.name
    try:
        t0 = time.time()
        p = subprocess.run(['/usr/bin/cvc5', '--tlimit=%d' % (timeout_s * 1000), '--full-saturate-quant', path],
                           capture_output=True, text=True, timeout=timeout_s + 10)
        out = (p.stdout + p.stderr).strip().splitlines()
        return (out[0].strip() if out else 'unknown'), time.time() - t0
    except Exception as e:
        return 'error:' + repr(e)[:100], 0.0
    finally:
        os.unlink(path)


def discharge(hyps, goal, axioms=(), mode='default', both=False, timeout_ms=None, cvc5=True):
    """Try to prove  axioms /\\ hyps  =>  goal.
    Returns dict(status, backend, seconds, detail, model).
      proved   - unsat
      refuted  - sat with a model (default mode only: complete for the quantifier-free integer/record tier)
      failed   - e-matching saturated without a proof (`unknown (incomplete quantifiers)`), no model
      timeout  - resource limit in both back ends (undecided)"""
    timeout_ms = timeout_ms or Z3_TIMEOUT_MS
    s = _solver(mode, timeout_ms)
    for a in axioms:
        s.add(a)
    for h in hyps:
        s.add(h)
    s.add(z3.Not(goal))
    t0 = time.time()
    r = s.check()
    secs = time.time() - t0
    res = {'backend': 'z3', 'seconds': secs, 'model': None, 'detail': ''}
    if r == z3.unsat:
        res['status'] = 'proved'
        if both:
            c, cs = run_cvc5(s.to_smt2(), CVC5_TIMEOUT_S)
            res['detail'] = f'cvc5: {c} ({cs:.2f}s)'
            if c == 'sat':
                res['status'] = 'failed'
                res['detail'] = 'back ends disagree: z3 unsat, cvc5 sat'
        return res
    if r == z3.sat:
        res['status'] = 'refuted'
        res['model'] = model_text(s.model())
        res['detail'] = 'z3: sat (counter-model)'
        return res
    reason = s.reason_unknown()
    if not cvc5:
        res['status'] = 'timeout' if ('timeout' in reason or 'canceled' in reason) else 'failed'
        res['detail'] = f'z3: unknown ({reason})'
        return res
    # second back end
    c, cs = run_cvc5(s.to_smt2(), CVC5_TIMEOUT_S if 'timeout' in reason or 'cancel' in reason else 20)
    if c == 'unsat':
        return {'status': 'proved', 'backend': 'cvc5', 'seconds': secs + cs, 'model': None,
                'detail': f'z3: unknown ({reason}); cvc5: unsat'}
    res['seconds'] = secs + cs
    res['detail'] = f'z3: unknown ({reason}); cvc5: {c}'
    if 'timeout' in reason or 'canceled' in reason or 'max. resource' in reason:
        res['status'] = 'timeout' if c != 'sat' else 'refuted'
    else:
        res['status'] = 'failed'
    return res


def satisfiable(hyps, axioms=(), mode='default', timeout_ms=2000):
    """For covers / vacuity guards: is the context satisfiable (reachable)?  'unknown' counts as reachable
    for e-matching contexts (no contradiction derivable)."""
    s = _solver(mode, timeout_ms)
    for a in axioms:
        s.add(a)
    for h in hyps:
        s.add(h)
    r = s.check()
    return r != z3.unsat, str(r)
