class Unsupported(Exception):
    pass
