"""ttvc — verification-condition generator for the real teneva source (tier T1 of DESIGN.md).

The engine reads a function of /repo/teneva/<module>.py with `ast` on every run and executes its body
symbolically: numbers become z3 Int/Real terms, optional arguments (is-None flag, value) pairs, dicts with
literal keys records, lists concrete or symbolic sequences, ndarrays abstract values with a symbolic shape
and (optionally) a denotation in the abstract matrix/core theory of ttvc/theory.py.  Branches split paths
(with pruning of infeasible ones), loops are cut by the invariant supplied by the sidecar contract, calls
to other teneva functions use the callee's *contract* (never its body), calls to NumPy/SciPy/builtins use
the model table ttvc/models.py.  Everything the body *needs* (index ranges, shape agreement, non-None
operands, callee preconditions) and everything the contract *promises* becomes a named obligation that is
discharged by z3 (cvc5 as second back end, ttvc/prove.py).

Python semantics assumed (A-PY): left-to-right evaluation; ints are mathematical integers; floats are real
numbers (A-REAL); no monkey-patching; docstrings, `print`, f-strings and `if log:` branches are dropped.
Constructs outside the supported subset raise `Unsupported` -> the unit is *undecided*, never a violation.
"""
import ast, hashlib, os
import z3

REPO = os.environ.get('VERIF_REPO', '/repo')


class Unsupported(Exception):
    """The (possibly modified) source uses a construct or library call outside the supported subset."""


class ContractMismatch(Unsupported):
    """The sidecar contract no longer matches the structure of the function (e.g. loop ordinals)."""


# ----------------------------------------------------------------------------------------------
# source extraction

_SRC_CACHE = {}


def module_ast(module):
    path = os.path.join(REPO, 'teneva', module + '.py')
    if path not in _SRC_CACHE:
        src = open(path).read()
        import warnings
        with warnings.catch_warnings():
            warnings.simplefilter('ignore')
            _SRC_CACHE[path] = (src, ast.parse(src))
    return _SRC_CACHE[path]


class FuncSrc:
    def __init__(self, module, qual, node, text):
        self.module, self.qual, self.node, self.text = module, qual, node, text
        self.lines = (node.lineno, node.end_lineno)
        self.sha = hashlib.sha256(text.encode()).hexdigest()[:16]
        body = list(node.body)
        self.dropped = []
        if body and isinstance(body[0], ast.Expr) and isinstance(body[0].value, ast.Constant) \
                and isinstance(body[0].value.value, str):
            body = body[1:]
            self.dropped.append('docstring')
        self.body = body
        self.params = [a.arg for a in node.args.args]
        defaults = node.args.defaults
        self.defaults = dict(zip(self.params[len(self.params) - len(defaults):], defaults))

    def describe(self):
        return {'function': f'teneva/{self.module}.py:{self.qual}', 'lines': list(self.lines), 'sha256_16': self.sha,
                'dropped': sorted(set(self.dropped))}


def load_func(module, qual):
    """qual: 'name' or 'Class.method'."""
    src, tree = module_ast(module)
    scope = tree.body
    node = None
    for part in qual.split('.'):
        node = None
        for n in scope:
            if isinstance(n, (ast.FunctionDef, ast.ClassDef)) and n.name == part:
                node = n
                break
        if node is None:
            raise ContractMismatch(f'function {module}.{qual} not found in /repo')
        scope = node.body
    if not isinstance(node, ast.FunctionDef):
        raise ContractMismatch(f'{module}.{qual} is not a function')
    return FuncSrc(module, qual, node, ast.get_source_segment(src, node))


def export_table():
    """teneva.<name> -> (module, name), read mechanically from /repo/teneva/__init__.py."""
    src, tree = module_ast('__init__')
    tab = {}
    for n in tree.body:
        if isinstance(n, ast.ImportFrom) and n.level == 1 and n.module:
            for a in n.names:
                tab[a.asname or a.name] = (n.module, a.name)
    return tab


# ----------------------------------------------------------------------------------------------
# values

class _None:
    def __repr__(self):
        return 'NONE'


NONE = _None()

_STR = {}


def strcode(s):
    if s not in _STR:
        _STR[s] = len(_STR) + 1
    return _STR[s]


def strname(code):
    for k, v in _STR.items():
        if v == code:
            return k
    return f'<str#{code}>'


class VStr:
    """String value: an interned code (z3 Int).  Literal strings have concrete codes."""
    def __init__(self, code):
        self.code = z3.IntVal(strcode(code)) if isinstance(code, str) else code

    def concrete(self):
        c = z3.simplify(self.code)
        return strname(c.as_long()) if z3.is_int_value(c) else None

    def __repr__(self):
        return f'VStr({self.concrete() or self.code})'


class VOpt:
    """Optional value: None (isnone) or `val` (z3 arithmetic term, VStr, or other value)."""
    def __init__(self, isnone, val):
        self.isnone, self.val = isnone, val

    def __repr__(self):
        return f'VOpt({self.isnone}, {self.val})'


class VTuple:
    def __init__(self, items):
        self.items = list(items)

    def __repr__(self):
        return f'VTuple({self.items})'


class VRef:
    """Reference to a mutable heap object (VList / VRec / VSeq cell)."""
    def __init__(self, oid):
        self.oid = oid

    def __repr__(self):
        return f'VRef({self.oid})'


class VList:
    """Python list of concrete length."""
    def __init__(self, items):
        self.items = list(items)

    def copy(self):
        return VList(self.items)


class VRec:
    """dict with literal string keys."""
    def __init__(self, fields):
        self.fields = dict(fields)

    def copy(self):
        return VRec(self.fields)


class VSeq:
    """List of symbolic length n whose k-th element is elem(k) (a value built from a z3 array select)."""
    def __init__(self, arr, n, wrap, tag='', unwrap=None):
        self.arr, self.n, self.wrap, self.tag = arr, n, wrap, tag
        self.unwrap = unwrap          # sidecar-defined element encoder (value -> z3 term), see models.unwrap_elem

    def get(self, k):
        v = self.wrap(self.arr[k])
        if isinstance(v, VArr):
            v.shared = True          # the array object lives in the list: in-place operators on it are visible through the list
        return v

    def copy(self):
        return VSeq(self.arr, self.n, self.wrap, self.tag, self.unwrap)


class VArr:
    """Abstract ndarray: concrete ndim, symbolic shape, optional denotation `t` in a theory sort
    (tag says which: 'mat', 'core', 'vec' = 1-D view of a 1 x n matrix, 'ivec', 'imat', None)."""
    def __init__(self, shape, t=None, tag=None, dtype='f', note=''):
        self.shape, self.t, self.tag, self.dtype, self.note = tuple(shape), t, tag, dtype, note

    @property
    def ndim(self):
        return len(self.shape)

    def __repr__(self):
        return f'VArr{self.shape}<{self.tag}:{self.t}>'


class VFunc:
    """Callable value: handler(ex, st, args, kwargs, node) -> value."""
    def __init__(self, name, handler):
        self.name, self.handler = name, handler


class VSym:
    """A value identified only by a z3 term of an uninterpreted sort (multi-indices, whole tensors in the control tier)."""
    def __init__(self, term, what=''):
        self.term, self.what = term, what

    def __repr__(self):
        return f'VSym({self.term})'


class VOpaque:
    """A value the engine does not interpret (only passed around)."""
    def __init__(self, what):
        self.what = what

    def __repr__(self):
        return f'VOpaque({self.what})'


def is_z3num(v):
    return isinstance(v, z3.ArithRef)


def is_num(v):
    return isinstance(v, (int, float)) and not isinstance(v, bool) or is_z3num(v)


def is_boolv(v):
    return isinstance(v, bool) or isinstance(v, z3.BoolRef)


def Z(v):
    """Lift a Python number / bool to z3."""
    if isinstance(v, bool):
        return z3.BoolVal(v)
    if isinstance(v, int):
        return z3.IntVal(v)
    if isinstance(v, float):
        if v != v or v in (float('inf'), float('-inf')):
            raise Unsupported('non-finite float literal')
        if v == int(v) and abs(v) < 1e18:
            return z3.RealVal(int(v))
        from fractions import Fraction
        fr = Fraction(v)                      # the exact binary value of the literal
        return z3.RealVal(f'{fr.numerator}/{fr.denominator}')
    return v


def is_intsort(v):
    return isinstance(v, int) and not isinstance(v, bool) or (is_z3num(v) and v.sort() == z3.IntSort())


# ----------------------------------------------------------------------------------------------
# state

class Outcome:
    def __init__(self, kind, value=None, exc=None, node=None):
        self.kind, self.value, self.exc, self.node = kind, value, exc, node   # normal|return|raise|break|continue

    def __repr__(self):
        return f'<{self.kind} {self.exc or ""}>'


NORMAL = Outcome('normal')


class NeedDecision(Exception):
    def __init__(self, cond):
        self.cond = cond


class State:
    def __init__(self):
        self.vars, self.heap, self.pc, self.ghost = {}, {}, [], {}
        self.assumed = set()     # ids of path-condition entries that are assumed obligations (only valid on this path)
        self.obl = []            # shared list (not copied): (kind, label, hyps, goal, lineno, trace)
        self.trace = []          # branch decisions, for reporting
        self.decisions, self.dpos = [], 0
        self.next_oid = [1]

    def copy(self):
        t = State()
        t.vars = dict(self.vars)
        t.heap = {k: v.copy() for k, v in self.heap.items()}
        t.pc = list(self.pc)
        t.ghost = dict(self.ghost)
        t.obl = self.obl
        t.trace = list(self.trace)
        t.decisions, t.dpos = list(self.decisions), self.dpos
        t.next_oid = self.next_oid
        t.assumed = set(self.assumed)
        return t

    def alloc(self, obj):
        oid = self.next_oid[0]
        self.next_oid[0] += 1
        self.heap[oid] = obj
        return VRef(oid)

    def deref(self, v):
        return self.heap[v.oid] if isinstance(v, VRef) else v

    def assume(self, *facts):
        for f in facts:
            if f is True:
                continue
            self.pc.append(Z(f))


# ----------------------------------------------------------------------------------------------
# executor

_FEAS = {}


def quick_unsat(facts, timeout_ms=1000):
    """Cheap validity helper for path pruning and pattern selection: e-matching only, short timeout.
    True only if the facts are certainly contradictory."""
    s = z3.Solver()
    s.set('timeout', timeout_ms)
    s.set('auto_config', False)
    s.set('smt.mbqi', False)
    s.add(*facts)
    return s.check() == z3.unsat


class Exec:
    def __init__(self, unit, func, models, callees=None, loops=None, axioms=(), timeout_ms=20000, prune=True,
                 type_hints=None, lenient=False, stop_at=None):
        self.unit, self.func, self.models = unit, func, models
        self.callees = callees or {}
        self.loops = loops or {}
        self.axioms = list(axioms)
        self.cnt = 0
        self.loop_ord = {}
        self.prune = prune
        self.type_hints = type_hints or {}
        self.lenient, self.stop_at = lenient, stop_at
        self._number_loops(func.body)
        self.exports = export_table()
        self.dropped = set(func.dropped)
        self.imports = self._import_table(func.module)

    def _import_table(self, module):
        """local name -> dotted library path for `from scipy.linalg import lu`-style imports of the module."""
        _, tree = module_ast(module)
        tab = {}
        for n in tree.body:
            if isinstance(n, ast.ImportFrom) and n.level == 0 and n.module and n.module.split('.')[0] in ('numpy', 'scipy', 'opt_einsum'):
                for a in n.names:
                    tab[a.asname or a.name] = f'{n.module}.{a.name}'
        return tab

    # ---- helpers
    def fresh(self, name, sort=None):
        self.cnt += 1
        return z3.Const(f'{name}!{self.cnt}', sort if sort is not None else z3.IntSort())

    def fresh_int(self, name='i'):
        return self.fresh(name, z3.IntSort())

    def fresh_real(self, name='x'):
        return self.fresh(name, z3.RealSort())

    def fresh_bool(self, name='b'):
        return self.fresh(name, z3.BoolSort())

    def _number_loops(self, body):
        k = 0
        for n in ast.walk(ast.Module(body=body, type_ignores=[])):
            if isinstance(n, (ast.For, ast.While)):
                pass
        # ordinal = order of appearance in source (pre-order)
        def visit(stmts):
            nonlocal k
            for s in stmts:
                if isinstance(s, (ast.For, ast.While)):
                    self.loop_ord[id(s)] = k
                    k += 1
                for fld in ('body', 'orelse', 'finalbody'):
                    if hasattr(s, fld) and isinstance(getattr(s, fld), list):
                        visit(getattr(s, fld))
                if isinstance(s, ast.Try):
                    for h in s.handlers:
                        visit(h.body)
        visit(body)
        self.nloops = k

    def oblige(self, st, kind, label, goal, node=None, assume=True):
        goal = Z(goal)
        g = z3.simplify(goal)
        if not z3.is_true(g):
            st.obl.append((kind, label, list(st.pc), goal, getattr(node, 'lineno', 0), list(st.trace)))
        if assume:
            st.pc.append(goal)
            st.assumed.add(goal.get_id())

    def feasible(self, st, cond):
        if not self.prune:
            return True
        return not quick_unsat(list(self.axioms) + list(st.pc) + [Z(cond)])

    def decide(self, st, cond, node=None):
        """Branch on a symbolic condition inside expression/statement evaluation (replay-with-decisions)."""
        if isinstance(cond, bool):
            return cond
        c = z3.simplify(cond)
        if z3.is_true(c):
            return True
        if z3.is_false(c):
            return False
        if st.dpos < len(st.decisions):
            d = st.decisions[st.dpos]
            st.dpos += 1
            st.pc.append(c if d else z3.Not(c))
            st.trace.append(f'L{getattr(node, "lineno", "?")}:{"T" if d else "F"}')
            return d
        raise NeedDecision(c)

    # ---- truthiness / coercions
    def truth(self, st, v, node=None):
        """z3 Bool (or Python bool) for the truthiness of a value."""
        if isinstance(v, bool):
            return v
        if isinstance(v, z3.BoolRef):
            return v
        if v is NONE:
            return False
        if isinstance(v, (int, float)):
            return v != 0
        if is_z3num(v):
            return v != 0
        if isinstance(v, VOpt):
            inner = self.truth(st, v.val, node)
            return z3.And(z3.Not(v.isnone), Z(inner))
        if isinstance(v, VStr):
            return v.code != strcode('')
        if isinstance(v, VRef):
            o = st.deref(v)
            if isinstance(o, VList):
                return len(o.items) > 0
            if isinstance(o, VSeq):
                return o.n > 0
            if isinstance(o, VRec):
                return len(o.fields) > 0
        if isinstance(v, VTuple):
            return len(v.items) > 0
        if isinstance(v, (VFunc, VOpaque)) or type(v).__name__ == 'VGen':
            return True
        if isinstance(v, VArr):
            raise Unsupported('truth value of an array')
        raise Unsupported(f'truthiness of {type(v).__name__}')

    def need_num(self, st, v, node, what='operand'):
        """Arithmetic use of a value: unwrap optionals with a safety obligation."""
        if isinstance(v, VOpt):
            self.oblige(st, 'safety', f'{what}-not-None', z3.Not(v.isnone), node)
            return self.need_num(st, v.val, node, what)
        if isinstance(v, bool):
            return int(v)
        if isinstance(v, z3.BoolRef):
            return z3.If(v, 1, 0)
        if is_num(v):
            return v
        if v is NONE:
            self.oblige(st, 'safety', f'{what}-not-None', False, node)
            return self.fresh_real('undef')
        raise Unsupported(f'numeric use of {type(v).__name__} at line {getattr(node, "lineno", "?")}')

    def merge(self, st, c, a, b, node=None):
        """Value of `a if c else b` without forking when both sides are simple."""
        if isinstance(c, bool):
            return a if c else b
        if a is NONE and b is NONE:
            return NONE
        if a is NONE:
            b2 = b if isinstance(b, VOpt) else VOpt(z3.BoolVal(False), b)
            return VOpt(z3.Or(c, b2.isnone), b2.val)
        if b is NONE:
            a2 = a if isinstance(a, VOpt) else VOpt(z3.BoolVal(False), a)
            return VOpt(z3.Or(z3.Not(c), a2.isnone), a2.val)
        if isinstance(a, VOpt) or isinstance(b, VOpt):
            a2 = a if isinstance(a, VOpt) else VOpt(z3.BoolVal(False), a)
            b2 = b if isinstance(b, VOpt) else VOpt(z3.BoolVal(False), b)
            return VOpt(z3.If(c, a2.isnone, b2.isnone), self.merge(st, c, a2.val, b2.val, node))
        if isinstance(a, VStr) and isinstance(b, VStr):
            return VStr(z3.If(c, a.code, b.code))
        if is_boolv(a) and is_boolv(b):
            return z3.If(c, Z(a), Z(b))
        if is_num(a) and is_num(b):
            za, zb = Z(a), Z(b)
            if za.sort() != zb.sort():
                za, zb = z3.ToReal(za) if za.sort() == z3.IntSort() else za, \
                    z3.ToReal(zb) if zb.sort() == z3.IntSort() else zb
            return z3.If(c, za, zb)
        if isinstance(a, VTuple) and isinstance(b, VTuple) and len(a.items) == len(b.items):
            return VTuple([self.merge(st, c, x, y, node) for x, y in zip(a.items, b.items)])
        # anything else: fork
        return a if self.decide(st, c, node) else b

    # ---- expressions
    def ev(self, e, st):
        m = getattr(self, 'ev_' + type(e).__name__, None)
        if m is None:
            raise Unsupported(f'expression {type(e).__name__} at line {e.lineno}')
        return m(e, st)

    def ev_Constant(self, e, st):
        v = e.value
        if v is None:
            return NONE
        if isinstance(v, (bool, int, float)):
            return v
        if isinstance(v, str):
            return VStr(v)
        if v is Ellipsis:
            return VOpaque('...')
        raise Unsupported(f'constant {v!r}')

    def ev_Name(self, e, st):
        if e.id in st.vars:
            return st.vars[e.id]
        if e.id in self.models.GLOBAL_NAMES:
            return self.models.GLOBAL_NAMES[e.id]
        if e.id in ('True', 'False'):
            return e.id == 'True'
        if self.models.module_has(self.func.module, e.id):
            qual = f'{self.func.module}.{e.id}'
            h = self.callees.get(qual) or self.models.CALLEES.get(qual)
            if h is not None:
                self.models.CALLEES_USED.add(qual)
                return VFunc(qual, h)
        raise Unsupported(f'unbound name {e.id} at line {e.lineno}')

    def ev_Tuple(self, e, st):
        return VTuple([self.ev(x, st) for x in e.elts])

    def ev_List(self, e, st):
        return st.alloc(VList([self.ev(x, st) for x in e.elts]))

    def ev_Dict(self, e, st):
        f = {}
        for k, v in zip(e.keys, e.values):
            if not (isinstance(k, ast.Constant) and isinstance(k.value, str)):
                raise Unsupported('dict literal with non-literal key')
            f[k.value] = self.ev(v, st)
        return st.alloc(VRec(f))

    def ev_JoinedStr(self, e, st):
        self.dropped.add('f-string')
        return VOpaque('fstring')

    def ev_IfExp(self, e, st):
        c = self.truth(st, self.ev(e.test, st), e)
        if isinstance(c, bool):
            return self.ev(e.body if c else e.orelse, st)
        cs = z3.simplify(c)
        if z3.is_true(cs):
            return self.ev(e.body, st)
        if z3.is_false(cs):
            return self.ev(e.orelse, st)
        # evaluate both sides under their guard (obligations must carry the guard): fork
        if self.decide(st, c, e):
            return self.ev(e.body, st)
        return self.ev(e.orelse, st)

    def ev_BoolOp(self, e, st):
        # value semantics of and/or with short circuit; fork only if a later operand has effects we cannot guard
        vals = e.values
        cur = self.ev(vals[0], st)
        for nxt in vals[1:]:
            t = self.truth(st, cur, e)
            if isinstance(t, bool):
                stop = (not t) if isinstance(e.op, ast.And) else t
                if stop:
                    return cur
                cur = self.ev(nxt, st)
                continue
            ts = z3.simplify(t)
            if z3.is_true(ts) or z3.is_false(ts):
                tv = z3.is_true(ts)
                stop = (not tv) if isinstance(e.op, ast.And) else tv
                if stop:
                    return cur
                cur = self.ev(nxt, st)
                continue
            if self._pure(nxt):
                # guard the evaluation of the right operand by the short-circuit condition
                guard = t if isinstance(e.op, ast.And) else z3.Not(t)
                mark = len(st.pc)
                st.pc.append(guard)
                try:
                    rhs = self.ev(nxt, st)
                finally:
                    added = st.pc[mark + 1:]
                    del st.pc[mark:]
                    for a in added:          # facts learnt under the guard stay guarded
                        st.pc.append(z3.Implies(guard, a))
                if is_boolv(cur) and is_boolv(rhs) or isinstance(cur, z3.BoolRef):
                    r = self.truth(st, rhs, e)
                    cur = z3.And(t, Z(r)) if isinstance(e.op, ast.And) else z3.Or(t, Z(r))
                else:
                    cur = self.merge(st, t, rhs, cur, e) if isinstance(e.op, ast.And) else self.merge(st, t, cur, rhs, e)
            else:
                d = self.decide(st, t, e)
                stop = (not d) if isinstance(e.op, ast.And) else d
                if stop:
                    return cur
                cur = self.ev(nxt, st)
        return cur

    def _pure(self, e):
        for n in ast.walk(e):
            if isinstance(n, ast.Call):
                nm = ast.unparse(n.func)
                if not self.models.is_pure_call(nm):
                    return False
            if isinstance(n, (ast.NamedExpr, ast.Await, ast.Yield)):
                return False
        return True

    def ev_UnaryOp(self, e, st):
        v = self.ev(e.operand, st)
        if isinstance(e.op, ast.Not):
            t = self.truth(st, v, e)
            return (not t) if isinstance(t, bool) else z3.Not(t)
        if isinstance(v, VArr):
            return self.models.arr_unary(self, st, e.op, v, e)
        if isinstance(v, VOpaque):
            return VOpaque('neg')
        v = self.need_num(st, v, e)
        if isinstance(e.op, ast.USub):
            return -v
        if isinstance(e.op, ast.UAdd):
            return v
        raise Unsupported('unary ' + type(e.op).__name__)

    def ev_BinOp(self, e, st):
        l, r = self.ev(e.left, st), self.ev(e.right, st)
        return self.binop(st, e.op, l, r, e)

    def binop(self, st, op, l, r, node):
        ld, rd = st.deref(l), st.deref(r)
        if isinstance(ld, VOpaque) or isinstance(rd, VOpaque):
            return VOpaque('arith')
        if isinstance(ld, VArr) or isinstance(rd, VArr):
            return self.models.arr_binop(self, st, op, ld, rd, node)
        if isinstance(ld, VList) and isinstance(op, ast.Mult):
            n = self.need_num(st, r, node)
            if isinstance(n, int):
                return st.alloc(VList(ld.items * n))
            return self.models.list_repeat(self, st, ld, n, node)
        if isinstance(ld, VList) and isinstance(rd, VList) and isinstance(op, ast.Add):
            return st.alloc(VList(ld.items + rd.items))
        if isinstance(ld, VTuple) and isinstance(rd, VTuple) and isinstance(op, ast.Add):
            return VTuple(ld.items + rd.items)
        if isinstance(ld, (VList, VSeq)) and isinstance(rd, (VList, VSeq)) and isinstance(op, ast.Add):
            return self.models.seq_concat(self, st, ld, rd, node)
        if isinstance(l, VStr) or isinstance(r, VStr):
            self.dropped.add('string arithmetic')
            return VOpaque('str')
        if isinstance(ld, VOpaque) or isinstance(rd, VOpaque):
            return VOpaque('arith')
        a, b = self.need_num(st, l, node), self.need_num(st, r, node)
        return self.arith(st, op, a, b, node)

    def arith(self, st, op, a, b, node):
        conc = isinstance(a, (int, float)) and isinstance(b, (int, float))
        if isinstance(op, ast.Add):
            return a + b
        if isinstance(op, ast.Sub):
            return a - b
        if isinstance(op, ast.Mult):
            if conc or isinstance(a, (int, float)) or isinstance(b, (int, float)):
                return a * b
            return self.models.nl_mul(self, st, a, b, node)
        if isinstance(op, ast.Div):
            self.oblige(st, 'safety', 'division-by-nonzero', Z(b) != 0, node)
            if conc:
                return a / b
            za, zb = Z(a), Z(b)
            za = z3.ToReal(za) if za.sort() == z3.IntSort() else za
            zb = z3.ToReal(zb) if zb.sort() == z3.IntSort() else zb
            if isinstance(b, (int, float)):
                return za / zb
            return self.models.nl_div(self, st, za, zb, node)
        if isinstance(op, ast.FloorDiv):
            self.oblige(st, 'safety', 'division-by-nonzero', Z(b) != 0, node)
            if conc:
                return a // b
            if is_intsort(a) and is_intsort(b):
                if isinstance(b, int) and b > 0:
                    return Z(a) / Z(b)          # z3 int division = floor for positive divisor
                return self.models.nl_floordiv(self, st, Z(a), Z(b), node)
            raise Unsupported('float floor division')
        if isinstance(op, ast.Mod):
            self.oblige(st, 'safety', 'division-by-nonzero', Z(b) != 0, node)
            if conc:
                return a % b
            if is_intsort(a) and isinstance(b, int) and b > 0:
                return Z(a) % Z(b)
            if is_intsort(a) and is_intsort(b):
                return self.models.nl_mod(self, st, Z(a), Z(b), node)
            raise Unsupported('float modulo')
        if isinstance(op, ast.Pow):
            return self.models.power(self, st, a, b, node)
        if isinstance(op, ast.LShift):
            if isinstance(a, int) and isinstance(b, int):
                return a << b
            return self.models.nl_mul(self, st, a, self.models.power(self, st, 2, b, node), node)
        if isinstance(op, ast.MatMult):
            raise Unsupported('@ on numbers')
        raise Unsupported('binary ' + type(op).__name__)

    def ev_Compare(self, e, st):
        left = self.ev(e.left, st)
        res = None
        for op, rn in zip(e.ops, e.comparators):
            right = self.ev(rn, st)
            c = self.compare(st, op, left, right, e)
            res = c if res is None else (z3.And(Z(res), Z(c)))
            left = right
        return res

    def compare(self, st, op, l, r, node):
        if isinstance(op, (ast.Is, ast.IsNot)):
            neg = isinstance(op, ast.IsNot)
            if r is NONE:
                if l is NONE:
                    v = True
                elif isinstance(l, VOpt):
                    v = l.isnone
                else:
                    v = False
            elif isinstance(r, bool) or l is NONE:
                # `x is True`: identity with the bool singleton
                if l is NONE:
                    v = r.isnone if isinstance(r, VOpt) else (r is NONE)
                elif isinstance(l, bool):
                    v = l == r
                elif isinstance(l, z3.BoolRef):
                    v = l if r else z3.Not(l)
                elif isinstance(l, VOpt) and is_boolv(l.val):
                    v = z3.And(z3.Not(l.isnone), Z(l.val) if r else z3.Not(Z(l.val)))
                elif isinstance(l, VOpt):
                    v = False      # a non-bool value is never the singleton True/False
                else:
                    v = False
            else:
                raise Unsupported('`is` on non-None operands')
            return (not v if isinstance(v, bool) else z3.Not(v)) if neg else v
        if isinstance(op, (ast.In, ast.NotIn)):
            rd = st.deref(r)
            if isinstance(rd, VRec) and isinstance(l, VStr) and l.concrete() is not None:
                v = l.concrete() in rd.fields
                return (not v) if isinstance(op, ast.NotIn) else v
            return self.models.contains(self, st, l, rd, isinstance(op, ast.NotIn), node)
        ld, rd = st.deref(l), st.deref(r)
        if isinstance(ld, VArr) or isinstance(rd, VArr):
            return self.models.arr_compare(self, st, op, ld, rd, node)
        if isinstance(l, VStr) or isinstance(r, VStr):
            ls = l.val if isinstance(l, VOpt) else l
            rs = r.val if isinstance(r, VOpt) else r
            if not (isinstance(ls, VStr) and isinstance(rs, VStr)):
                v = False
            else:
                v = ls.code == rs.code
                for o in (l, r):
                    if isinstance(o, VOpt):
                        v = z3.And(z3.Not(o.isnone), v)
            if isinstance(op, ast.Eq):
                return v
            if isinstance(op, ast.NotEq):
                return (not v) if isinstance(v, bool) else z3.Not(v)
            raise Unsupported('string ordering')
        if isinstance(op, (ast.Eq, ast.NotEq)) and (l is NONE or r is NONE):
            o = r if l is NONE else l
            v = True if o is NONE else (o.isnone if isinstance(o, VOpt) else False)
            if isinstance(op, ast.NotEq):
                v = (not v) if isinstance(v, bool) else z3.Not(v)
            return v
        a, b = self.need_num(st, l, node, 'comparison'), self.need_num(st, r, node, 'comparison')
        f = {ast.Lt: lambda x, y: x < y, ast.LtE: lambda x, y: x <= y, ast.Gt: lambda x, y: x > y,
             ast.GtE: lambda x, y: x >= y, ast.Eq: lambda x, y: x == y, ast.NotEq: lambda x, y: x != y}[type(op)]
        if isinstance(a, (int, float)) and isinstance(b, (int, float)):
            return f(a, b)
        return f(Z(a), Z(b))

    def ev_Attribute(self, e, st):
        nm = ast.unparse(e)
        if nm in self.models.GLOBAL_NAMES:
            return self.models.GLOBAL_NAMES[nm]
        v = st.deref(self.ev(e.value, st))
        if isinstance(v, VOpaque):
            return VOpaque('attr')
        return self.models.attribute(self, st, v, e.attr, e)

    def ev_Subscript(self, e, st):
        base = self.ev(e.value, st)
        if isinstance(base, VOpaque):
            if not isinstance(e.slice, (ast.Slice, ast.Tuple)):
                self.ev(e.slice, st)
            return VOpaque('item')
        return self.models.subscript(self, st, base, e.slice, e)

    def ev_Slice(self, e, st):
        raise Unsupported('bare slice')

    def ev_ListComp(self, e, st):
        return self.models.listcomp(self, st, e)

    def ev_Lambda(self, e, st):
        return VOpaque('lambda')

    def ev_Call(self, e, st):
        name = ast.unparse(e.func)
        # local callable values (parameters such as f, cb, func)
        if isinstance(e.func, ast.Name) and e.func.id in st.vars:
            fv = st.vars[e.func.id]
            return self.call_value(st, fv, e)
        if isinstance(e.func, (ast.BoolOp, ast.IfExp)):
            fv = self.ev(e.func, st)
            return self.call_value(st, fv, e)
        args = None
        # teneva functions by contract
        qual = None
        if name.startswith('teneva.') and name.count('.') == 1:
            short = name.split('.')[1]
            if short in self.exports:
                qual = '%s.%s' % self.exports[short]
        elif isinstance(e.func, ast.Name):
            if self.models.module_has(self.func.module, name):
                qual = f'{self.func.module}.{name}'
        if qual is not None:
            h = self.callees.get(qual) or self.models.CALLEES.get(qual) or self.models.FUNCS.get(name)
            if h is None:
                raise Unsupported(f'call of {qual} at line {e.lineno}: no contract available')
            self.models.CALLEES_USED.add(qual)
            args = [self.ev(a, st) for a in e.args]
            kwargs = {k.arg: self.ev(k.value, st) for k in e.keywords}
            return h(self, st, args, kwargs, e)
        # method calls on values
        if isinstance(e.func, ast.Attribute) and name not in self.models.FUNCS:
            root = e.func.value
            base = root
            while isinstance(base, ast.Attribute):
                base = base.value
            rootname = base.id if isinstance(base, ast.Name) else None       # None: receiver is an expression value
            if not (rootname in ('np', 'sp', 'scipy', 'numpy', 'teneva', 'itertools') and rootname not in st.vars):
                recv = self.ev(root, st)
                args = [self.ev(a, st) for a in e.args]
                kwargs = {k.arg: self.ev(k.value, st) for k in e.keywords}
                if isinstance(st.deref(recv), VOpaque):
                    return VOpaque('method')
                return self.models.method(self, st, recv, e.func.attr, args, kwargs, e)
        if isinstance(e.func, ast.Name) and name in self.imports:
            name = self.imports[name]
        h = self.callees.get(name) or self.models.FUNCS.get(name)      # a unit may override a model-table entry by its dotted name
        if h is not None and self.lenient and name.split('.')[0] in ('np', 'sp', 'scipy', 'numpy'):
            args = [self.ev(a, st) for a in e.args]
            kwargs = {k.arg: self.ev(k.value, st) for k in e.keywords}
            try:
                return h(self, st, args, kwargs, e)
            except ContractMismatch:
                raise
            except Unsupported:
                self.models.used(f'{name}(...) calling pattern not modelled -> opaque array (lenient tier)')
                return VOpaque(name)
        if h is None:
            if self.lenient and name.split('.')[0] in ('np', 'sp', 'scipy', 'numpy'):
                args = [self.ev(a, st) for a in e.args] + [self.ev(k.value, st) for k in e.keywords]
                for a in args:
                    if isinstance(a, VRef) and isinstance(st.heap.get(a.oid), VRec):
                        raise Unsupported(f'unmodelled call {name} receives a dict at line {e.lineno}')
                self.models.used(f'{name}(...) -> opaque array (lenient tier: value not interpreted, no effect on lists/dicts)')
                return VOpaque(name)
            raise Unsupported(f'call of {name} at line {e.lineno}: not in the model table')
        args = [self.ev(a, st) for a in e.args]
        kwargs = {k.arg: self.ev(k.value, st) for k in e.keywords}
        return h(self, st, args, kwargs, e)

    def call_value(self, st, fv, e):
        if isinstance(fv, VOpt):
            self.oblige(st, 'safety', 'callee-not-None', z3.Not(fv.isnone), e)
            fv = fv.val
        if not isinstance(fv, VFunc):
            raise Unsupported(f'call of non-callable value at line {e.lineno}')
        args = [self.ev(a, st) for a in e.args]
        kwargs = {k.arg: self.ev(k.value, st) for k in e.keywords}
        return fv.handler(self, st, args, kwargs, e)

    # ---- statements
    def exec_block(self, stmts, st):
        states = [(st, NORMAL)]
        for s in stmts:
            nxt = []
            for s0, o in states:
                if o.kind != 'normal':
                    nxt.append((s0, o))
                else:
                    nxt.extend(self.exec_stmt(s, s0))
            states = nxt
        return states

    def exec_stmt(self, s, st):
        """Run one statement; forks are handled by replaying the statement with recorded decisions."""
        work, out = [[]], []
        while work:
            dec = work.pop()
            t = st.copy()
            t.decisions, t.dpos = dec, 0
            nobl = len(st.obl)
            try:
                res = self._stmt(s, t)
            except NeedDecision as nd:
                del st.obl[nobl:]             # obligations of the aborted attempt are regenerated by the replays
                for choice in (True, False):
                    c = nd.cond if choice else z3.Not(nd.cond)
                    probe = st.copy()
                    probe.decisions, probe.dpos = dec, 0
                    # feasibility is judged on the path condition of the aborted attempt
                    if self.feasible(t, c):
                        work.append(dec + [choice])
                continue
            for r in res:
                r[0].decisions, r[0].dpos = [], 0
            out.extend(res)
        return out

    def _stmt(self, s, st):
        if self.stop_at is not None and self.stop_at(s):
            return [(st, Outcome('stop', node=s))]
        m = getattr(self, 'st_' + type(s).__name__, None)
        if m is None:
            raise Unsupported(f'statement {type(s).__name__} at line {s.lineno}')
        return m(s, st)

    def st_Pass(self, s, st):
        return [(st, NORMAL)]

    def st_Expr(self, s, st):
        v = s.value
        if isinstance(v, ast.Constant):
            return [(st, NORMAL)]
        if isinstance(v, ast.Call) and ast.unparse(v.func) == 'print':
            self.dropped.add('print')
            return [(st, NORMAL)]
        self.ev(v, st)
        return [(st, NORMAL)]

    def st_Assign(self, s, st):
        v = self.ev(s.value, st)
        if isinstance(s.value, ast.List) and not s.value.elts and len(s.targets) == 1 \
                and isinstance(s.targets[0], ast.Name) and s.targets[0].id in self.type_hints:
            v = self.models.empty_seq(self, st, self.type_hints[s.targets[0].id])
        for t in s.targets:
            self.assign(t, v, st)
        return [(st, NORMAL)]

    def st_AugAssign(self, s, st):
        cur = self.ev(s.target, st)
        rhs = self.ev(s.value, st)
        if isinstance(s.target, ast.Name) and isinstance(cur, VArr) and getattr(cur, 'shared', False):
            # `x = container[k]; x += ...` writes through to the element of the container (NumPy in-place operator on an
            # alias); ttvc treats arrays as immutable values, so this is outside the subset
            raise Unsupported(f'in-place operator on an array that also lives in a container / attribute (line {s.lineno}): '
                              f'aliasing is not modelled by ttvc')
        if isinstance(cur, VOpaque) or isinstance(rhs, VOpaque):
            v = VOpaque('aug')
        else:
            v = self.binop(st, s.op, cur, rhs, s)
        self.assign(s.target, v, st, aug=True)
        return [(st, NORMAL)]

    def assign(self, t, v, st, aug=False):
        if isinstance(t, ast.Name):
            if t.id in self.type_hints and isinstance(v, VRef) and isinstance(st.heap.get(v.oid), VList):
                items = st.heap[v.oid].items
                v = self.models.empty_seq(self, st, self.type_hints[t.id])
                for it_ in items:                 # `x = [a, b]` for a list that grows later: symbolic sequence from the start
                    self.models.method(self, st, v, 'append', [it_], {}, t)
            st.vars[t.id] = v
            return
        if isinstance(t, (ast.Tuple, ast.List)):
            items = self.models.unpack(self, st, v, len(t.elts), t)
            for a, b in zip(t.elts, items):
                self.assign(a, b, st)
            return
        if isinstance(t, ast.Subscript):
            base = self.ev(t.value, st)
            new = self.models.arr_setitem(self, st, st.deref(base), t.slice, v, t)
            if new is not None:               # functional update of an array value, written back to where it came from
                if isinstance(t.value, ast.Name) and getattr(st.deref(base), 'shared', False) and not getattr(self, 'allow_shared_store', False):
                    # `x = container[k]; x[...] = v` writes through to the element of the container (NumPy view semantics); the
                    # functional update would only rebind the local name, so this is outside the subset
                    raise Unsupported(f'element assignment into an array that also lives in a container / attribute (line {t.lineno}): '
                                      f'aliasing is not modelled by ttvc')
                self.assign(t.value, new, st)
                return
            self.models.store(self, st, base, t.slice, v, t, t.value)
            return
        raise Unsupported(f'assignment target {type(t).__name__} at line {t.lineno}')

    def st_If(self, s, st):
        test_src = ast.unparse(s.test)
        if test_src == 'log':
            self.dropped.add('if log: branch')
            lv = st.vars.get('log')
            if lv is False or lv is None or 'log' not in st.vars:
                return self.exec_block(s.orelse, st)
        c = self.truth(st, self.ev(s.test, st), s)
        d = self.decide(st, c, s)
        return self.exec_block(s.body if d else s.orelse, st)

    def st_Return(self, s, st):
        v = self.ev(s.value, st) if s.value is not None else NONE
        return [(st, Outcome('return', value=v, node=s))]

    def st_Raise(self, s, st):
        exc = 'Exception'
        if s.exc is not None:
            exc = ast.unparse(s.exc.func) if isinstance(s.exc, ast.Call) else ast.unparse(s.exc)
        return [(st, Outcome('raise', exc=exc, node=s))]

    def st_Break(self, s, st):
        return [(st, Outcome('break', node=s))]

    def st_Continue(self, s, st):
        return [(st, Outcome('continue', node=s))]

    def st_Assert(self, s, st):
        if not getattr(self, 'asserts', False):
            self.dropped.add('assert')              # default: as under `python -O`
            return [(st, NORMAL)]
        # `ex.asserts = True`: an assert statement is `if not test: raise AssertionError`
        d = self.decide(st, self.truth(st, self.ev(s.test, st), s), s)
        if d:
            return [(st, NORMAL)]
        return [(st, Outcome('raise', exc='AssertionError', node=s))]

    def st_Try(self, s, st):
        return self.models.try_stmt(self, st, s)

    def st_While(self, s, st):
        return self.loop(s, st, None)

    def st_For(self, s, st):
        it = self.models.iteration(self, st, s.iter, s)
        return self.loop(s, st, it)

    # ---- loops
    def assigned_names(self, stmts):
        names, muts = set(), set()
        for n in ast.walk(ast.Module(body=list(stmts), type_ignores=[])):
            if isinstance(n, (ast.Assign, ast.AugAssign, ast.For)):
                tg = n.targets if isinstance(n, ast.Assign) else [n.target]
                for t in tg:
                    for x in ast.walk(t):
                        if isinstance(x, ast.Name) and isinstance(x.ctx, ast.Store):
                            names.add(x.id)
                    # the container that a subscript / attribute target writes into (not names that merely occur in indices)
                    for x in ([t] if not isinstance(t, (ast.Tuple, ast.List)) else list(t.elts)):
                        b = x
                        while isinstance(b, (ast.Subscript, ast.Attribute, ast.Starred)):
                            b = b.value
                        if isinstance(b, ast.Name) and b is not x:
                            muts.add(b.id)
            if isinstance(n, ast.Call) and isinstance(n.func, ast.Attribute) and \
                    n.func.attr in ('append', 'extend', 'update', 'insert', 'pop', 'sort'):
                b = n.func.value
                if isinstance(b, ast.Name):
                    muts.add(b.id)
        return names, muts

    def loop(self, s, st, it):
        ordn = self.loop_ord[id(s)]
        # concrete iteration: unroll
        if it is not None and it.concrete is not None:
            states, done = [(st, NORMAL)], []
            for binding in it.concrete:
                nxt = []
                for s0, o in states:
                    if o.kind != 'normal':
                        done.append((s0, o))
                        continue
                    self.assign(s.target, binding, s0)
                    for s1, o1 in self.exec_block(s.body, s0):
                        if o1.kind in ('normal', 'continue'):
                            nxt.append((s1, NORMAL))
                        elif o1.kind == 'break':
                            done.append((s1, NORMAL))
                        else:
                            done.append((s1, o1))
                states = nxt
            return states + done
        spec = self.loops.get(ordn)
        if spec is None:
            raise ContractMismatch(f'loop #{ordn} at line {s.lineno} of {self.func.qual} needs an invariant '
                                   f'(the sidecar contract has none)')
        if 'header' in spec:
            # optional fingerprint: an invariant written for `for k in range(1, d)` says nothing about a loop that runs the other
            # way round; a contract may pin the iterable it was written for, any other header is "contract does not fit" (undecided)
            want = spec['header'] if isinstance(spec['header'], (list, tuple)) else [spec['header']]
            have = ast.unparse(s.iter) if isinstance(s, ast.For) else ast.unparse(s.test)
            if have not in want:
                raise ContractMismatch(f'loop #{ordn} of {self.func.qual} iterates over `{have}`; the invariant was written for `{want[0]}`')
        # `peel`: the first iteration(s) are executed as they are (code that special-cases `i == 0`, e.g. a variable that
        # is None before the first pass); the invariant cuts the loop from iteration `peel` on
        peel = spec.get('peel', 0) if it is not None else 0
        if peel:
            states, out = [st], []
            for t in range(peel):
                nxt = []
                for s0 in states:
                    e0 = s0.copy()
                    e0.assume(it.n <= t)
                    e0.trace.append(f'loop{ordn}:exit')
                    if self.feasible(e0, True):
                        out.append((e0, NORMAL))
                    s0.assume(it.n > t)
                    if not self.feasible(s0, True):
                        continue
                    s0.trace.append(f'loop{ordn}:peeled{t}')
                    s0.ghost['_j'] = s0.ghost[f'_j{ordn}'] = z3.IntVal(t)
                    s0.ghost['_n'] = it.n
                    self.assign(s.target, it.bind(self, s0, z3.IntVal(t)), s0)
                    for s1, o1 in self.exec_block(s.body, s0):
                        if 'body_end' in spec and spec.get('peel_body_end', False):      # opt-in: hooks written for the cut loop
                            spec['body_end'](self, s1, o1, z3.IntVal(t))                  # may rely on its havoc state
                        if o1.kind in ('normal', 'continue'):
                            nxt.append(s1)
                        elif o1.kind == 'break':
                            out.append((s1, NORMAL))
                        else:
                            out.append((s1, o1))
                states = nxt
            for s0 in states:
                out.extend(self._loop_cut(s, s0, it, ordn, spec, z3.IntVal(peel)))
            return out
        return self._loop_cut(s, st, it, ordn, spec, z3.IntVal(0))

    def _loop_cut(self, s, st, it, ordn, spec, j0):
        inv, extra_havoc = spec['inv'], spec.get('havoc', ())
        out = []
        st.ghost['_j'] = j0
        st.ghost[f'_j{ordn}'] = j0
        if it is not None:
            st.ghost['_n'] = it.n
        pre = st.copy()
        for lbl, g in inv(self, st, j0):
            if z3.is_false(z3.simplify(Z(g))):
                # a clause that is literally False is a type guard of the contract ("Q is not a row vector"): the contract does not
                # fit the values the restructured code produces - undecided, not a violation
                raise ContractMismatch(f'loop #{ordn} of {self.func.qual}: invariant clause {lbl!r} cannot be stated for the values of the current source')
            self.oblige(st, 'inv-init', f'loop{ordn}.{lbl}', g, s, assume=False)
        # havoc
        names, muts = self.assigned_names(s.body)
        h = st.copy()
        j = self.fresh_int('j')
        h.ghost['_j'] = j
        h.ghost[f'_j{ordn}'] = j
        for nm in sorted(names | muts | set(extra_havoc)):
            if nm in h.vars:
                h.vars[nm] = self.models.havoc(self, h, h.vars[nm], nm, nm in muts)
        h.assume(j >= j0)
        if it is not None:
            h.assume(j <= it.n)
        if 'havoc_hook' in spec:
            spec['havoc_hook'](self, h, pre, j)
        for lbl, g in inv(self, h, j):
            h.assume(g)
        # exit path
        if it is not None:
            ex = h.copy()
            ex.assume(j == it.n)
            ex.trace.append(f'loop{ordn}:exit')
            if self.feasible(ex, True):
                out.append((ex, NORMAL))
        else:
            test = s.test
            if not (isinstance(test, ast.Constant) and test.value is True):
                ex = h.copy()
                c = self.truth(ex, self.ev(test, ex), s)
                ex.assume(z3.Not(Z(c)))
                ex.trace.append(f'loop{ordn}:exit')
                out.append((ex, NORMAL))
        # body path
        b = h.copy()
        b.trace.append(f'loop{ordn}:body')
        if it is not None:
            b.assume(j < it.n)
            self.assign(s.target, it.bind(self, b, j), b)
        else:
            test = s.test
            if not (isinstance(test, ast.Constant) and test.value is True):
                c = self.truth(b, self.ev(test, b), s)
                b.assume(Z(c))
        for s1, o1 in self.exec_block(s.body, b):
            if 'body_end' in spec:
                spec['body_end'](self, s1, o1, j)
            if o1.kind in ('normal', 'continue'):
                s1.ghost['_j'] = s1.ghost[f'_j{ordn}'] = j + 1
                for lbl, g in inv(self, s1, j + 1):
                    if z3.is_false(z3.simplify(Z(g))):
                        raise ContractMismatch(f'loop #{ordn} of {self.func.qual}: invariant clause {lbl!r} cannot be stated for the values of the current source')
                    self.oblige(s1, 'inv-keep', f'loop{ordn}.{lbl}', g, s, assume=False)
            elif o1.kind == 'break':
                out.append((s1, NORMAL))
            else:
                out.append((s1, o1))
        return out

    # ---- entry
    def run(self, st):
        """Execute the function body; returns list of (state, outcome) with outcome return/raise."""
        res = []
        for s1, o in self.exec_block(self.func.body, st):
            if o.kind == 'normal':
                o = Outcome('return', value=NONE)
            if o.kind in ('break', 'continue'):
                raise Unsupported('break/continue outside loop')
            if o.kind == 'stop':
                res.append((s1, o))
                continue
            res.append((s1, o))
        return res
