"""Spec symbols, theory groups and model-table entries for the ANOVA units of contracts/anova_more.py (C13, partly C10 / C11).

Spec symbols (every axiom group below is exercised by lemmas/spotcheck.py through lemmas/spotcheck_ext_anova.py):
  dotp(A, i, B, j, c) = sum_{t<c} A[i, t] * B[t, j]          partial dot product of row i of A with column j of B
                        (recursive definition with a two-variable pattern; the products stay abstract: rmul)
  asum(F, ix, k)      = sum_{t<k} F[t][ix[t]]                 the sum of the per-mode terms of an additive model
  ccnt(c, x, n)       = #{s < n : c[s] == x}                  number of samples whose entry in the column c is x
  csum(y, c, x, n)    = sum_{s<n, c[s]==x} y[s]               sum of the sample values over these samples
  rsum(y, n)          = sum_{s<n} y[s]
  cmean(y, c, x, n)   = csum / ccnt  (for ccnt > 0)           conditional sample mean = np.mean(y[c == x])
  rmean(y, n)         = rsum / n     (for n > 0)              sample mean = np.mean(y)
Theory groups:
  'dotp'   the recursive definition, the two-term closed form is DERIVED in the unit (lemma), and the link
           ent(mm(A, B), i, j) = dotp(A, i, B, j, cols(A))    for cols(A) = rows(B) and an entry in range
  'slent'  ent(sl(G, m), a, b) = centry(G, a, m, b)           entries of a mode slice are entries of the core
  'asum', 'csum'  recursive definitions;  'cmean'  the defining equations of the two means (non-linear: only ever handed to
           quantifier-free obligations, never to an e-matching axiom set)

Value kinds and hooks (all follow the wrapping pattern of kr.py - the previous hook is kept and everything that is not recognised
falls through to it - and are active only for executors that carry the flag `ex.anova = True`): see the second half of this file.
"""
import ast
import z3
from ttvc import symex
from ttvc.symex import (Unsupported, ContractMismatch, NONE, VStr, VOpt, VTuple, VRef, VList, VRec, VSeq, VArr, VFunc, VOpaque, Z,
                        is_num, is_intsort)
from ttvc import models as M, theory as T
from ttvc.models import used, model, to_real

I, R, B = z3.IntSort(), z3.RealSort(), z3.BoolSort()
IA = z3.ArraySort(I, I)
RA = z3.ArraySort(I, R)
BA = z3.ArraySort(I, B)
RAA = z3.ArraySort(I, RA)

# ----------------------------------------------------------------------------------------------
# theory

dotp = z3.Function('dotp', T.Mat, I, T.Mat, I, I, R)
asum = z3.Function('asum', RAA, T.IDX, I, R)
ccnt = z3.Function('ccnt', IA, I, I, I)
csum = z3.Function('csum', RA, IA, I, I, R)
rsum = z3.Function('rsum', RA, I, R)
cmean = z3.Function('cmean', RA, IA, I, I, R)
rmean = z3.Function('rmean', RA, I, R)

_A, _B = z3.Consts('A!v B!v', T.Mat)
_G = z3.Const('G!v', T.Core)
_i, _j, _c, _e, _m, _a, _b, _k, _x, _n = z3.Ints('i!v j!v c!v e!v m!v a!v b!v k!v x!v n!v')
_F = z3.Const('F!v', RAA)
_ix = z3.Const('ix!v', T.IDX)
_y = z3.Const('y!v', RA)
_col = z3.Const('c!w', IA)

T.GROUPS['dotp'] = [
    T.A([_A, _i, _B, _j], dotp(_A, _i, _B, _j, 0) == 0, [dotp(_A, _i, _B, _j, 0)]),
    T.A([_A, _i, _B, _j, _c, _e], z3.Implies(z3.And(_c >= 0, _e == _c + 1),
                                             dotp(_A, _i, _B, _j, _e) == dotp(_A, _i, _B, _j, _c) + T.rmul(T.ent(_A, _i, _c), T.ent(_B, _c, _j))),
        [z3.MultiPattern(dotp(_A, _i, _B, _j, _c), dotp(_A, _i, _B, _j, _e))]),
    T.A([_A, _B, _i, _j], z3.Implies(z3.And(T.cols(_A) == T.rows(_B), 0 <= _i, _i < T.rows(_A), 0 <= _j, _j < T.cols(_B)),
                                     T.ent(T.mm(_A, _B), _i, _j) == dotp(_A, _i, _B, _j, T.cols(_A))),
        [T.ent(T.mm(_A, _B), _i, _j)]),
]
T.GROUPS['slent'] = [
    T.A([_G, _m, _a, _b], T.ent(T.sl(_G, _m), _a, _b) == T.centry(_G, _a, _m, _b), [T.ent(T.sl(_G, _m), _a, _b)]),
]
T.GROUPS['asum'] = [
    T.A([_F, _ix], asum(_F, _ix, 0) == 0, [asum(_F, _ix, 0)]),
    T.A([_F, _ix, _k, _j], z3.Implies(z3.And(_k >= 0, _j == _k + 1), asum(_F, _ix, _j) == asum(_F, _ix, _k) + _F[_k][_ix[_k]]),
        [z3.MultiPattern(asum(_F, _ix, _k), asum(_F, _ix, _j))]),
]
T.GROUPS['csum'] = [
    T.A([_col, _x], ccnt(_col, _x, 0) == 0, [ccnt(_col, _x, 0)]),
    T.A([_col, _x, _k, _j], z3.Implies(z3.And(_k >= 0, _j == _k + 1), ccnt(_col, _x, _j) == ccnt(_col, _x, _k) + z3.If(_col[_k] == _x, 1, 0)),
        [z3.MultiPattern(ccnt(_col, _x, _k), ccnt(_col, _x, _j))]),
    T.A([_y, _col, _x], csum(_y, _col, _x, 0) == 0, [csum(_y, _col, _x, 0)]),
    T.A([_y, _col, _x, _k, _j], z3.Implies(z3.And(_k >= 0, _j == _k + 1),
                                           csum(_y, _col, _x, _j) == csum(_y, _col, _x, _k) + z3.If(_col[_k] == _x, _y[_k], 0)),
        [z3.MultiPattern(csum(_y, _col, _x, _k), csum(_y, _col, _x, _j))]),
    T.A([_y], rsum(_y, 0) == 0, [rsum(_y, 0)]),
    T.A([_y, _k, _j], z3.Implies(z3.And(_k >= 0, _j == _k + 1), rsum(_y, _j) == rsum(_y, _k) + _y[_k]),
        [z3.MultiPattern(rsum(_y, _k), rsum(_y, _j))]),
]
# the two means: defining equations (products of two symbolic numbers - for quantifier-free obligations only)
T.GROUPS['cmean'] = [
    T.A([_y, _col, _x, _n], z3.Implies(ccnt(_col, _x, _n) >= 1, cmean(_y, _col, _x, _n) * z3.ToReal(ccnt(_col, _x, _n)) == csum(_y, _col, _x, _n)),
        [cmean(_y, _col, _x, _n)]),
    T.A([_y, _n], z3.Implies(_n >= 1, rmean(_y, _n) * z3.ToReal(_n) == rsum(_y, _n)), [rmean(_y, _n)]),
]
