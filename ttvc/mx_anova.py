"""Spec symbols, theory groups and model-table entries for the ANOVA units of contracts/anova_more.py (C13, partly C10 / C11).

Spec symbols (every axiom group below is exercised by lemmas/spotcheck.py through lemmas/spotcheck_ext_anova.py):
  dotp(A, i, B, j, c) = sum_{t<c} A[i, t] * B[t, j]          partial dot product of row i of A with column j of B
                        (recursive definition with a two-variable pattern; the products stay abstract: rmul)
  asum(F, ix, k)      = sum_{t<k} F[t][ix[t]]                 the sum of the per-mode terms of an additive model
  ccnt(c, x, n)       = #{s < n : c[s] == x}                  number of samples whose entry in the column c is x
  csum(y, c, x, n)    = sum_{s<n, c[s]==x} y[s]               sum of the sample values over these samples
  rsum(y, n)          = sum_{s<n} y[s]
  unq(c, n), unqlen(c, n), upos(c, n, s)   np.unique(c[:n]): sorted distinct values, their number, where c[s] sits (group 'unique')
  p2in(W, ix, i1, m)  = sum_{i2=i1+1}^{m-1} W[i1][i2][ix[i1]][ix[i2]]        pair terms of one first mode (group 'psum2')
  fsum_in / fsum_out  formal sums of delta tensors for anova_func (group 'fsum'; dterm / dzero are uninterpreted valuations)
  p2out(W, ix, n, m)  = sum_{i1<m} p2in(W, ix, i1, n)                        all pair terms with first mode < m of an index of length n
  cmean(y, c, x, n)   = csum / ccnt  (for ccnt > 0)           conditional sample mean = np.mean(y[c == x])
  rmean(y, n)         = rsum / n     (for n > 0)              sample mean = np.mean(y)
Theory groups:
  'dotp'   the recursive definition, the two-term closed form is DERIVED in the unit (lemma), and the link
           ent(mm(A, B), i, j) = dotp(A, i, B, j, cols(A))    for cols(A) = rows(B) and an entry in range
  'slent'  ent(sl(G, m), a, b) = centry(G, a, m, b)           entries of a mode slice are entries of the core
  'asum', 'csum'  recursive definitions;  'cmean'  the defining equations of the two means (non-linear: only ever handed to
           quantifier-free obligations, never to an e-matching axiom set)

Value kinds and hooks (all follow the wrapping pattern of kr.py - the previous hook is kept and everything that is not recognised
falls through to it - and are active only for the value classes defined here or for executors that carry the flag `ex.anova = True`):
see the second half of this file (KMap / KMap2 dicts, IMat2 / IRows integer matrices, MaskedSel, CfsList, attribute stores with the
`attr_havoc` declaration, methods of `self` as VFunc fields, list comprehension over a method of `self`, tokens for whole tensors).
Handlers that must not depend on the import order of the mx_ modules (np.mean, np.sum, np.unique, np.zeros(dtype=int), np.array,
np.asanyarray) are plain functions handed to the units through `callees={...}`.
"""
import ast
import z3
from ttvc import symex
from ttvc.symex import (Unsupported, ContractMismatch, NONE, VStr, VOpt, VTuple, VRef, VList, VRec, VSeq, VArr, VFunc, VOpaque, Z,
                        is_num, is_intsort)
from ttvc import models as M, theory as T
from ttvc.models import used, model, to_real

I, R, B = z3.IntSort(), z3.RealSort(), z3.BoolSort()
IA = z3.ArraySort(I, I)
RA = z3.ArraySort(I, R)
BA = z3.ArraySort(I, B)
RAA = z3.ArraySort(I, RA)

# ----------------------------------------------------------------------------------------------
# theory

dotp = z3.Function('dotp', T.Mat, I, T.Mat, I, I, R)
asum = z3.Function('asum', RAA, T.IDX, I, R)
ccnt = z3.Function('ccnt', IA, I, I, I)
csum = z3.Function('csum', RA, IA, I, I, R)
rsum = z3.Function('rsum', RA, I, R)
cmean = z3.Function('cmean', RA, IA, I, I, R)
rmean = z3.Function('rmean', RA, I, R)

_A, _B = z3.Consts('A!v B!v', T.Mat)
_G = z3.Const('G!v', T.Core)
_i, _j, _c, _e, _m, _a, _b, _k, _x, _n = z3.Ints('i!v j!v c!v e!v m!v a!v b!v k!v x!v n!v')
_F = z3.Const('F!v', RAA)
_ix = z3.Const('ix!v', T.IDX)
_y = z3.Const('y!v', RA)
_col = z3.Const('c!w', IA)

T.GROUPS['dotp'] = [
    T.A([_A, _i, _B, _j], dotp(_A, _i, _B, _j, 0) == 0, [dotp(_A, _i, _B, _j, 0)]),
    T.A([_A, _i, _B, _j, _c, _e], z3.Implies(z3.And(_c >= 0, _e == _c + 1),
                                             dotp(_A, _i, _B, _j, _e) == dotp(_A, _i, _B, _j, _c) + T.rmul(T.ent(_A, _i, _c), T.ent(_B, _c, _j))),
        [z3.MultiPattern(dotp(_A, _i, _B, _j, _c), dotp(_A, _i, _B, _j, _e))]),
    T.A([_A, _B, _i, _j], z3.Implies(z3.And(T.cols(_A) == T.rows(_B), 0 <= _i, _i < T.rows(_A), 0 <= _j, _j < T.cols(_B)),
                                     T.ent(T.mm(_A, _B), _i, _j) == dotp(_A, _i, _B, _j, T.cols(_A))),
        [T.ent(T.mm(_A, _B), _i, _j)]),
]
T.GROUPS['slent'] = [
    T.A([_G, _m, _a, _b], T.ent(T.sl(_G, _m), _a, _b) == T.centry(_G, _a, _m, _b), [T.ent(T.sl(_G, _m), _a, _b)]),
]
T.GROUPS['asum'] = [
    T.A([_F, _ix], asum(_F, _ix, 0) == 0, [asum(_F, _ix, 0)]),
    T.A([_F, _ix, _k, _j], z3.Implies(z3.And(_k >= 0, _j == _k + 1), asum(_F, _ix, _j) == asum(_F, _ix, _k) + _F[_k][_ix[_k]]),
        [z3.MultiPattern(asum(_F, _ix, _k), asum(_F, _ix, _j))]),
]
T.GROUPS['csum'] = [
    T.A([_col, _x], ccnt(_col, _x, 0) == 0, [ccnt(_col, _x, 0)]),
    T.A([_col, _x, _k, _j], z3.Implies(z3.And(_k >= 0, _j == _k + 1), ccnt(_col, _x, _j) == ccnt(_col, _x, _k) + z3.If(_col[_k] == _x, 1, 0)),
        [z3.MultiPattern(ccnt(_col, _x, _k), ccnt(_col, _x, _j))]),
    T.A([_y, _col, _x], csum(_y, _col, _x, 0) == 0, [csum(_y, _col, _x, 0)]),
    T.A([_y, _col, _x, _k, _j], z3.Implies(z3.And(_k >= 0, _j == _k + 1),
                                           csum(_y, _col, _x, _j) == csum(_y, _col, _x, _k) + z3.If(_col[_k] == _x, _y[_k], 0)),
        [z3.MultiPattern(csum(_y, _col, _x, _k), csum(_y, _col, _x, _j))]),
    T.A([_y], rsum(_y, 0) == 0, [rsum(_y, 0)]),
    T.A([_y, _k, _j], z3.Implies(z3.And(_k >= 0, _j == _k + 1), rsum(_y, _j) == rsum(_y, _k) + _y[_k]),
        [z3.MultiPattern(rsum(_y, _k), rsum(_y, _j))]),
]
# pair terms of the second-order model: W[i1][i2] is the table of the pair of modes i1 < i2
RAAAA = z3.ArraySort(I, z3.ArraySort(I, RAA))
p2in = z3.Function('p2in', RAAAA, T.IDX, I, I, R)       # sum_{i2 = i1+1}^{m-1} W[i1][i2][ix[i1]][ix[i2]]
p2out = z3.Function('p2out', RAAAA, T.IDX, I, I, R)     # sum_{i1 < m} p2in(W, ix, i1, n)            (arguments: W, ix, n, m)
_W = z3.Const('W!v', RAAAA)
T.GROUPS['psum2'] = [
    T.A([_W, _ix, _i, _m], z3.Implies(_m <= _i + 1, p2in(_W, _ix, _i, _m) == 0), [p2in(_W, _ix, _i, _m)]),
    T.A([_W, _ix, _i, _m, _j], z3.Implies(z3.And(_i >= 0, _m > _i, _j == _m + 1), p2in(_W, _ix, _i, _j) == p2in(_W, _ix, _i, _m) + _W[_i][_m][_ix[_i]][_ix[_m]]),
        [z3.MultiPattern(p2in(_W, _ix, _i, _m), p2in(_W, _ix, _i, _j))]),
    T.A([_W, _ix, _n], p2out(_W, _ix, _n, 0) == 0, [p2out(_W, _ix, _n, 0)]),
    T.A([_W, _ix, _n, _m, _j], z3.Implies(z3.And(_m >= 0, _j == _m + 1), p2out(_W, _ix, _n, _j) == p2out(_W, _ix, _n, _m) + p2in(_W, _ix, _m, _n)),
        [z3.MultiPattern(p2out(_W, _ix, _n, _m), p2out(_W, _ix, _n, _j))]),
]
# formal sum of delta tensors (functional variant): dterm(i, q, v) stands for the contribution of the tensor  v * delta(q e_i)  and
# dzero(v) for that of  v * delta(0, .., 0)  to an arbitrary additive valuation of tensors (both uninterpreted)
dterm = z3.Function('dterm', I, I, R, R)
dzero = z3.Function('dzero', R, R)
fsum_in = z3.Function('fsum_in', RAA, I, I, R)          # sum_{t<q} dterm(i, t+1, C[i][t])
fsum_out = z3.Function('fsum_out', RAA, IA, I, R)       # sum_{i<k} fsum_in(C, i, L[i])
_L = z3.Const('L!v', IA)
T.GROUPS['fsum'] = [
    T.A([_F, _i], fsum_in(_F, _i, 0) == 0, [fsum_in(_F, _i, 0)]),
    T.A([_F, _i, _k, _j], z3.Implies(z3.And(_k >= 0, _j == _k + 1), fsum_in(_F, _i, _j) == fsum_in(_F, _i, _k) + dterm(_i, _j, _F[_i][_k])),
        [z3.MultiPattern(fsum_in(_F, _i, _k), fsum_in(_F, _i, _j))]),
    T.A([_F, _L], fsum_out(_F, _L, 0) == 0, [fsum_out(_F, _L, 0)]),
    T.A([_F, _L, _k, _j], z3.Implies(z3.And(_k >= 0, _j == _k + 1), fsum_out(_F, _L, _j) == fsum_out(_F, _L, _k) + fsum_in(_F, _k, _L[_k])),
        [z3.MultiPattern(fsum_out(_F, _L, _k), fsum_out(_F, _L, _j))]),
]
# np.unique of the first n entries of an integer vector: the sorted distinct values (a function of the data)
unq = z3.Function('unq', IA, I, IA)                     # np.unique(c[:n])
unqlen = z3.Function('unqlen', IA, I, I)                # len(np.unique(c[:n]))
upos = z3.Function('upos', IA, I, I, I)                 # position of c[s] in np.unique(c[:n])
T.GROUPS['unique'] = [
    T.A([_col, _n], z3.And(0 <= unqlen(_col, _n), z3.Implies(_n >= 0, unqlen(_col, _n) <= _n), z3.Implies(_n >= 1, unqlen(_col, _n) >= 1)), [unqlen(_col, _n)]),
    T.A([_col, _n, _a, _b], z3.Implies(z3.And(0 <= _a, _a < _b, _b < unqlen(_col, _n)), unq(_col, _n)[_a] < unq(_col, _n)[_b]),
        [z3.MultiPattern(unq(_col, _n)[_a], unq(_col, _n)[_b])]),
    T.A([_col, _n, _k], z3.Implies(z3.And(0 <= _k, _k < unqlen(_col, _n)), ccnt(_col, unq(_col, _n)[_k], _n) >= 1), [unq(_col, _n)[_k]]),
    T.A([_col, _n, _k], z3.Implies(z3.And(0 <= _k, _k < _n), z3.And(0 <= upos(_col, _n, _k), upos(_col, _n, _k) < unqlen(_col, _n),
                                                                   unq(_col, _n)[upos(_col, _n, _k)] == _col[_k])), [upos(_col, _n, _k)]),
]
# the two means: defining equations (products of two symbolic numbers - for quantifier-free obligations only)
T.GROUPS['cmean'] = [
    T.A([_y, _col, _x, _n], z3.Implies(ccnt(_col, _x, _n) >= 1, cmean(_y, _col, _x, _n) * z3.ToReal(ccnt(_col, _x, _n)) == csum(_y, _col, _x, _n)),
        [cmean(_y, _col, _x, _n)]),
    T.A([_y, _n], z3.Implies(_n >= 1, rmean(_y, _n) * z3.ToReal(_n) == rsum(_y, _n)), [rmean(_y, _n)]),
]


# ==============================================================================================
# value kinds and hooks (active only for executors with `ex.anova = True`)
#
#   KMap      a Python dict from integers to reals (`f1_curr = {}; f1_curr[x] = value; f1[num][x1]`): two z3 arrays, `val` (Int -> Real) and
#             `dom` (Int -> Bool, the key set).  `{}` is the map with the empty key set; a store adds the key; a lookup obliges
#             `key-present` (KeyError otherwise).  Inside a list of tables an element is a code c with TVAL(c) / TDOM(c) (helper
#             `table_seq`); a map that has been appended to a list is frozen - a later store would be visible through the list
#             (aliasing), which this model does not follow, so it raises Unsupported.
#   IMat2     2-D integer array (samples x modes) given by its columns: `cols[k][s]` is the entry [s, k]; `I[:, k]` is the 1-D
#             integer vector cols[k].
#   `c == x`  on an integer vector remembers what was compared (`eq_src`), `y[mask]` with such a mask is a MaskedSel (the selected
#             sub-vector, never materialised), np.mean of it is cmean(y, c, x, n) and obliges a non-empty selection; np.mean of a real
#             vector is rmean(y, n) and obliges n >= 1.  (NumPy returns nan with a warning for an empty mean: outside A-REAL.)
#   self.m()  a method of the object under contract = a field of the record `self` that holds a callee contract (VFunc).
#   self.a = v / self.a.append(v)   attribute stores on a record.  The loop machinery of symex havocs NAMES only; attributes
#             mutated in a loop body must be declared by the unit (`ex.attr_havoc = {'self.f1'}`, havocked by the unit's havoc_hook
#             through `havoc_attr`) - an undeclared attribute mutation in a loop body is a ContractMismatch.
#   x in [a, b]   for numbers -> disjunction of equalities.

TVAL = z3.Function('tval', I, RA)           # the values of the table behind a code
TDOM = z3.Function('tdom', I, BA)           # its key set


T2VAL = z3.Function('t2val', I, RAA)        # the same for a table of pairs
T2DOM = z3.Function('t2dom', I, z3.ArraySort(I, BA))


def _on(ex):
    return getattr(ex, 'anova', False)


class KMap:
    def __init__(self, val, dom, frozen=False):
        self.val, self.dom, self.frozen = val, dom, frozen

    def copy(self):
        return KMap(self.val, self.dom, self.frozen)


class KMap2:
    """dict from pairs of integers to reals (read-only here): val[x1][x2], dom[x1][x2]."""
    def __init__(self, val, dom):
        self.val, self.dom = val, dom

    def copy(self):
        return KMap2(self.val, self.dom)


def table_seq(ex, st, arr=None, n=None):
    """A Python list of KMaps (symbolic length): element k is the table with code arr[k]."""
    seq = VSeq(arr if arr is not None else ex.fresh('tables', IA), n if n is not None else z3.IntVal(0),
               lambda c: KMap(TVAL(c), TDOM(c), frozen=True), tag='tables')

    def unwrap(ex_, st_, v, node):
        o = st_.deref(v)
        if not isinstance(o, KMap):
            raise ContractMismatch('what is appended to the list of tables is not a dict from indices to reals')
        if isinstance(v, VRef):
            st_.heap[v.oid].frozen = True
        c = ex_.fresh_int('table')
        st_.assume(TVAL(c) == o.val, TDOM(c) == o.dom)
        return c
    seq.unwrap = unwrap
    return st.alloc(seq)


class IMat2(VArr):
    def __init__(self, shape, cols, dtype='i'):
        super().__init__(shape, None, 'imat2', dtype)
        self.cols = cols


class MaskedSel(VArr):
    """y[c == x]: the sub-vector of the real vector y (length n) at the positions where the integer vector c holds x."""
    def __init__(self, nsel, y, col, x, n):
        super().__init__((nsel,), None, 'masked', 'f')
        self.y, self.col, self.x, self.n = y, col, x, n


# ---- dict literal, stores, lookups

_orig_ev_Dict = symex.Exec.ev_Dict


def _ev_Dict(self, e, st):
    if _on(self) and not e.keys:
        used('{} -> empty dict from integers to reals (key set empty)')
        return st.alloc(KMap(self.fresh('dictval', RA), z3.K(I, z3.BoolVal(False))))
    return _orig_ev_Dict(self, e, st)


symex.Exec.ev_Dict = _ev_Dict

_orig_store = M.store


def store(ex, st, base, sl_, v, node, base_node):
    b = st.deref(base)
    if isinstance(b, KMap):
        if b.frozen:
            raise Unsupported(f'store into a dict that already lives in a list (line {node.lineno}): aliasing is not modelled')
        key = ex.ev(sl_, st)
        if not is_intsort(key):
            raise Unsupported('dict store with a key that is not an integer')
        val = ex.need_num(st, v, node, 'dict-value')
        used('d[x] = v -> key x added, value stored')
        b.val, b.dom = z3.Store(b.val, Z(key), to_real(val)), z3.Store(b.dom, Z(key), z3.BoolVal(True))
        return
    return _orig_store(ex, st, base, sl_, v, node, base_node)


M.store = store

_orig_subscript = M.subscript


def subscript(ex, st, base, sl_, node):
    b = st.deref(base)
    if isinstance(b, KMap):
        key = ex.ev(sl_, st)
        if not is_intsort(key):
            raise Unsupported('dict lookup with a key that is not an integer')
        used('d[x] -> the stored value; KeyError unless x is a key')
        ex.oblige(st, 'safety', 'key-present', b.dom[Z(key)], node)
        return b.val[Z(key)]
    if isinstance(b, KMap2):
        key = ex.ev(sl_, st)
        if not (isinstance(key, VTuple) and len(key.items) == 2 and all(is_intsort(x) for x in key.items)):
            raise Unsupported('lookup in a dict of pairs with a key that is not a pair of integers')
        used('d[x1, x2] -> the stored value; KeyError unless (x1, x2) is a key')
        k1, k2 = Z(key.items[0]), Z(key.items[1])
        ex.oblige(st, 'safety', 'key-present', b.dom[k1][k2], node)
        return b.val[k1][k2]
    return _orig_subscript(ex, st, base, sl_, node)


M.subscript = subscript

_orig_havoc = M.havoc


def havoc(ex, st, v, name, mutated):
    if isinstance(v, VRef) and isinstance(st.heap.get(v.oid), KMap):
        st.heap[v.oid] = KMap(ex.fresh(name + '_val', RA), ex.fresh(name + '_dom', BA))
        return v
    return _orig_havoc(ex, st, v, name, mutated)


M.havoc = havoc


# ---- attribute stores and attribute mutation in loops

_orig_assign = symex.Exec.assign


def _assign(self, t, v, st, aug=False):
    if _on(self) and isinstance(t, ast.Attribute) and isinstance(t.value, ast.Name):
        obj = st.deref(self.ev(t.value, st))
        if not isinstance(obj, VRec):
            raise Unsupported(f'attribute store on {type(obj).__name__} at line {t.lineno}')
        key = f'{t.value.id}.{t.attr}'
        if key in self.type_hints and isinstance(v, VRef) and isinstance(st.heap.get(v.oid), VList) and not st.heap[v.oid].items:
            v = M.empty_seq(self, st, self.type_hints[key])
        used('self.attr = value -> field of the record that stands for the object')
        obj.fields[t.attr] = v
        return
    return _orig_assign(self, t, v, st, aug)


symex.Exec.assign = _assign

_MUTATORS = ('append', 'extend', 'update', 'insert', 'pop', 'sort', 'clear', 'remove', 'setdefault')


def attr_mutations(stmts):
    """'root.attr' for every attribute that a block of statements assigns, stores into or mutates through a list / dict method."""
    out = set()

    def root_attr(x):
        while isinstance(x, (ast.Subscript, ast.Starred)):
            x = x.value
        chain = []
        while isinstance(x, ast.Attribute):
            chain.append(x.attr)
            x = x.value
        if chain and isinstance(x, ast.Name):
            return f'{x.id}.{chain[-1]}'
        return None
    for n in ast.walk(ast.Module(body=list(stmts), type_ignores=[])):
        if isinstance(n, (ast.Assign, ast.AugAssign, ast.For)):
            for tg in (n.targets if isinstance(n, ast.Assign) else [n.target]):
                for x in ([tg] if not isinstance(tg, (ast.Tuple, ast.List)) else list(tg.elts)):
                    r = root_attr(x)
                    if r:
                        out.add(r)
        if isinstance(n, ast.Call) and isinstance(n.func, ast.Attribute) and n.func.attr in _MUTATORS:
            r = root_attr(n.func.value)
            if r:
                out.add(r)
    return out


_orig_assigned_names = symex.Exec.assigned_names


def _assigned_names(self, stmts):
    names, muts = _orig_assigned_names(self, stmts)
    if _on(self):
        found = attr_mutations(stmts)
        extra = found - set(getattr(self, 'attr_havoc', ()))
        if extra:
            raise ContractMismatch(f'the loop body mutates {sorted(extra)}: not declared by the contract (attr_havoc)')
        # `obj.attr[k] = v` makes symex list `obj` itself as mutated (it would havoc the whole record); the declared attributes are
        # havocked one by one by the unit's havoc_hook instead
        muts = muts - {a.split('.')[0] for a in found}
    return names, muts


symex.Exec.assigned_names = _assigned_names


def havoc_attr(ex, st, obj_name, attr):
    """Loop havoc of `obj.attr` (a list that grows in the loop): same kind, fresh contents and length."""
    rec = st.deref(st.vars[obj_name])
    ref = rec.fields[attr]
    o = st.deref(ref)
    if isinstance(o, VArr) and o.ndim == 1 and o.tag == 'ivec' and o.t is not None:      # an integer vector written element by element
        rec.fields[attr] = VArr(o.shape, ex.fresh(attr + '_arr', IA), 'ivec', o.dtype)
        return rec.fields[attr]
    if not (isinstance(ref, VRef) and isinstance(o, VSeq)):
        raise ContractMismatch(f'{obj_name}.{attr} is not a list of the expected kind')
    st.heap[ref.oid] = VSeq(ex.fresh(attr + '_arr', o.arr.sort()), ex.fresh_int(attr + '_len'), o.wrap, o.tag, getattr(o, 'unwrap', None))
    st.assume(st.heap[ref.oid].n >= 0)
    return st.heap[ref.oid]


# ---- methods of the object under contract

_orig_method = M.method


def method(ex, st, recv, name, args, kwargs, node):
    r = st.deref(recv)
    if _on(ex) and isinstance(r, VRec) and isinstance(r.fields.get(name), VFunc):
        return r.fields[name].handler(ex, st, args, kwargs, node)
    if _on(ex) and isinstance(r, VArr) and name in ('mean', 'sum') and (isinstance(r, MaskedSel) or (r.ndim == 1 and r.tag in ('rvec', 'bvec'))):
        # y.mean() / y.sum(): the same statements as np.mean(y) / np.sum(y) (the generic model would answer "some real")
        return (np_mean if name == 'mean' else np_sum)(ex, st, [r] + list(args), kwargs, node)
    return _orig_method(ex, st, recv, name, args, kwargs, node)


M.method = method


# ---- columns, masks, means

_orig_index = M.arr_index


def _full(e):
    return isinstance(e, ast.Slice) and e.lower is None and e.upper is None and e.step is None


def arr_index(ex, st, a, sl_, node):
    elts = sl_.elts if isinstance(sl_, ast.Tuple) else [sl_]
    if isinstance(a, IMat2):
        if len(elts) == 2 and _full(elts[0]) and not isinstance(elts[1], ast.Slice):
            k = M.norm_index(ex, st, ex.need_num(st, ex.ev(elts[1], st), node), a.shape[1], node, 'col-index')
            used('I[:, k] of a 2-D integer array -> its k-th column (1-D integer vector)')
            return VArr((a.shape[0],), a.cols[Z(k)], 'ivec', a.dtype)
        raise Unsupported(f'indexing pattern `{ast.unparse(sl_)}` on the sample matrix at line {node.lineno}')
    if _on(ex) and isinstance(a, VArr) and a.ndim == 1 and a.tag == 'rvec' and a.t is not None and len(elts) == 1 and isinstance(elts[0], ast.Name):
        mk = st.deref(ex.ev(elts[0], st))
        if isinstance(mk, VArr) and mk.ndim == 1 and mk.tag == 'bvec':
            src = getattr(mk, 'eq_src', None)
            if src is None:
                raise Unsupported('boolean mask of unknown origin')
            used('y[c == x] -> the sub-vector of y at the positions where c holds x (requires equal lengths)')
            ex.oblige(st, 'call-pre', 'mask-length-is-the-vector-length', Z(mk.shape[0]) == Z(a.shape[0]), node)
            nsel = ex.fresh_int('nsel')
            st.assume(nsel == ccnt(src[0], src[1], Z(a.shape[0])))
            return MaskedSel(nsel, a.t, src[0], src[1], Z(a.shape[0]))
    return _orig_index(ex, st, a, sl_, node)


M.arr_index = arr_index

_orig_compare = M.arr_compare


def arr_compare(ex, st, op, l, r, node):
    out = _orig_compare(ex, st, op, l, r, node)
    if _on(ex) and isinstance(op, ast.Eq) and isinstance(l, VArr) and l.ndim == 1 and l.tag == 'ivec' and l.t is not None \
            and not isinstance(r, VArr) and isinstance(out, VArr) and out.tag == 'bvec' and is_intsort(r):
        out.eq_src = (l.t, Z(r))
    return out


M.arr_compare = arr_compare


def np_mean(ex, st, args, kwargs, node):
    """np.mean for the two patterns of teneva/anova.py (handed to the units through `callees`)."""
    if len(args) != 1 or kwargs:
        raise Unsupported('np.mean with axis / dtype')
    v = st.deref(args[0])
    if isinstance(v, MaskedSel):
        used('np.mean(y[c == x]) -> cmean(y, c, x, n): conditional mean; requires a non-empty selection (nan + warning otherwise)')
        ex.oblige(st, 'safety', 'mean-of-a-non-empty-selection', ccnt(v.col, v.x, v.n) >= 1, node)
        return cmean(v.y, v.col, v.x, v.n)
    if isinstance(v, VArr) and v.ndim == 1 and v.tag == 'rvec' and v.t is not None:
        used('np.mean(y) of a real vector -> rmean(y, n); requires n >= 1 (nan + warning otherwise)')
        ex.oblige(st, 'safety', 'mean-of-a-non-empty-array', Z(v.shape[0]) >= 1, node)
        return rmean(v.t, Z(v.shape[0]))
    raise Unsupported(f'np.mean pattern at line {node.lineno}')


def np_sum(ex, st, args, kwargs, node):
    if len(args) != 1 or kwargs:
        raise Unsupported('np.sum with axis / dtype')
    v = st.deref(args[0])
    if isinstance(v, VArr) and not isinstance(v, MaskedSel) and v.ndim == 1 and v.tag == 'rvec' and v.t is not None:
        used('np.sum(y) of a real vector -> rsum(y, n)')
        return rsum(v.t, Z(v.shape[0]))
    raise Unsupported(f'np.sum pattern at line {node.lineno}')


# ---- membership of a number in a literal list

_orig_contains = M.contains


def contains(ex, st, l, r, neg, node):
    if _on(ex) and isinstance(r, (VList, VTuple)) and r.items and all(is_num(x) for x in r.items):
        lo = l
        pre = []
        if isinstance(lo, VOpt):
            pre, lo = [z3.Not(lo.isnone)], lo.val
        if is_num(lo) or isinstance(lo, (bool, z3.BoolRef)):
            lo = ex.need_num(st, lo, node)
            used('x in [a, b, ..] for numbers -> x == a or x == b or ..')
            c = z3.And(pre + [z3.Or([to_real(lo) == to_real(x) for x in r.items])])
            return z3.Not(c) if neg else c
    return _orig_contains(ex, st, l, r, neg, node)


M.contains = contains


# ---- batches of multi-indices:  np.array([self.calc(i) for i in I])
#
#   IRows     2-D integer array (K x d) given by its rows: `rows[s]` is the multi-index number s; iterating over it yields the rows as
#             1-D integer vectors.
#   [self.m(i) for i in I]   where self.m is a callee contract that returns a real number built from its argument alone: the list of
#             reals `out` with out[s] = m(rows[s]) for every s (the generic model of list comprehensions keeps no facts about real
#             elements).  Everything the contract obliges is obliged for a generic row 0 <= s < K.
#   real_array(seq)          np.array of such a list: the real vector with the same elements (handed to units through `callees`).

class IRows(VArr):
    def __init__(self, shape, rows, dtype='i'):
        super().__init__(shape, None, 'irows', dtype)
        self.rows = rows


_orig_iter_of_value = M._iter_of_value


def _iter_of_value(ex, st, v, node):
    w = st.deref(v)
    if isinstance(w, IRows):
        used('iteration over a 2-D integer array -> its rows')
        return Z(w.shape[0]), (lambda j, w=w: VArr((w.shape[1],), w.rows[j], 'ivec', w.dtype)), False
    return _orig_iter_of_value(ex, st, v, node)


M._iter_of_value = _iter_of_value

_orig_listcomp = M.listcomp


def listcomp(ex, st, e):
    g = e.generators[0] if len(e.generators) == 1 else None
    if _on(ex) and g is not None and not g.ifs and isinstance(e.elt, ast.Call) and isinstance(e.elt.func, ast.Attribute) \
            and isinstance(e.elt.func.value, ast.Name) and e.elt.func.value.id in st.vars and isinstance(g.target, ast.Name):
        rec = st.deref(st.vars[e.elt.func.value.id])
        fn = rec.fields.get(e.elt.func.attr) if isinstance(rec, VRec) else None
        if isinstance(fn, VFunc) and getattr(fn, 'real_of_argument', False):
            it = M.iteration(ex, st, g.iter, e)
            if it.concrete is None:
                saved = dict(st.vars)
                try:
                    j = ex.fresh_int('lc')
                    mark = len(st.pc)
                    guard = z3.And(j >= 0, j < it.n)
                    st.pc.append(guard)
                    ex.assign(g.target, it.bind(ex, st, j), st)
                    cnt0 = ex.cnt
                    elt = ex.ev(e.elt, st)
                    added = st.pc[mark + 1:]
                    del st.pc[mark:]
                    for f in added:                       # everything learnt for the generic row stays guarded by 0 <= j < K
                        st.pc.append(z3.Implies(guard, f))
                    if not (is_num(elt) and not is_intsort(elt)) or ex.cnt != cnt0:
                        raise Unsupported('list comprehension over a method of the object: the element is not a real number built from the argument alone')
                    used('[self.m(i) for i in I] -> list of reals, element s = m(row s) (contract of m applied to a generic row)')
                    arr = ex.fresh('lc', RA)
                    st.assume(z3.ForAll([j], z3.Implies(guard, arr[j] == to_real(elt)), patterns=[arr[j]]))
                    return st.alloc(VSeq(arr, it.n, lambda t: t, tag='real'))
                finally:
                    for k in list(st.vars):
                        if k not in saved:
                            del st.vars[k]
                        else:
                            st.vars[k] = saved[k]
    return _orig_listcomp(ex, st, e)


M.listcomp = listcomp


def real_array(ex, st, args, kwargs, node):
    v = st.deref(args[0]) if len(args) == 1 and not kwargs else None
    if isinstance(v, VSeq) and v.tag == 'real':
        used('np.array(list of reals) -> real vector with the same elements')
        return VArr((v.n,), v.arr, 'rvec', 'f')
    raise Unsupported(f'np.array pattern at line {node.lineno}')


def same_int_array(ex, st, args, kwargs, node):
    """np.asanyarray(I) / np.asanyarray(I, dtype=<integer dtype of the object>) of an integer array: the array itself."""
    v = st.deref(args[0]) if len(args) == 1 else None
    dt = kwargs.get('dtype')
    if isinstance(v, VArr) and v.dtype == 'i' and set(kwargs) <= {'dtype'} and (dt is None or (isinstance(dt, M.TypeVal) and dt.name == 'int')):
        used('np.asanyarray(I, dtype=int) of an integer array -> the same array')
        return v
    raise Unsupported(f'np.asanyarray pattern at line {node.lineno}')


# ---- lists of whole tensors (control tier): a tensor is a token VSym(Int term); `[Y] + many` prepends to a symbolic list of tokens

_orig_seq_concat = M.seq_concat


def seq_concat(ex, st, a, b, node):
    if _on(ex) and isinstance(a, VList) and isinstance(b, VSeq) and b.tag == 'tts' and a.items \
            and all(isinstance(x, symex.VSym) and x.term.sort() == I for x in a.items):
        used('[Y, ..] + list of tensors -> concatenated list (tokens)')
        k = z3.Int('k!c')
        m = len(a.items)
        arr = ex.fresh('cat', IA)
        for i, x in enumerate(a.items):
            st.assume(arr[i] == x.term)
        st.assume(z3.ForAll([k], z3.Implies(k >= m, arr[k] == b.arr[k - m]), patterns=[arr[k]]))
        return st.alloc(VSeq(arr, b.n + m, b.wrap, 'tts', getattr(b, 'unwrap', None)))
    return _orig_seq_concat(ex, st, a, b, node)


M.seq_concat = seq_concat


# ---- anova_func.ANOVA_func.cores (control tier)
#
#   CfsList   the list `self.coeffs` = [c0, cf_1, .., cf_d]: a number followed by d real vectors.  `cfs[0]` is the number, `cfs[1:]` the
#             list of the vectors (a VSeq whose k-th element is the real vector C[k] of length L[k]).
#   iteration over a real vector yields its elements C[k][t] (the generic model yields unrelated reals).
#   idx = np.zeros(d, dtype=int); idx[:] = c; idx[i] = v   on a NAMED integer vector: constant vector / functional update.

class CfsList:
    def __init__(self, head, tail_ref):
        self.head, self.tail_ref = head, tail_ref

    def copy(self):
        return CfsList(self.head, self.tail_ref)


_orig_subscript2 = M.subscript


def subscript2(ex, st, base, sl_, node):
    b = st.deref(base)
    if isinstance(b, CfsList):
        if isinstance(sl_, ast.Slice):
            if sl_.step is None and sl_.upper is None and sl_.lower is not None and ex.ev(sl_.lower, st) == 1:
                used('cfs[1:] -> the list of the per-mode coefficient vectors')
                return b.tail_ref
            raise Unsupported('slice of the coefficient list other than [1:]')
        if ex.ev(sl_, st) == 0:
            used('cfs[0] -> the constant term')
            return b.head
        raise Unsupported('index into the coefficient list other than 0')
    return _orig_subscript2(ex, st, base, sl_, node)


M.subscript = subscript2

_orig_iter_of_value2 = M._iter_of_value


def _iter_of_value2(ex, st, v, node):
    w = st.deref(v)
    if _on(ex) and isinstance(w, VArr) and w.ndim == 1 and w.tag == 'rvec' and w.t is not None and not isinstance(w, MaskedSel):
        used('iteration over a real vector -> its elements')
        return Z(w.shape[0]), (lambda j, w=w: w.t[j]), False
    return _orig_iter_of_value2(ex, st, v, node)


M._iter_of_value = _iter_of_value2

_orig_store2 = M.store


def store2(ex, st, base, sl_, v, node, base_node):
    b = st.deref(base)
    if _on(ex) and isinstance(b, VArr) and b.ndim == 1 and b.tag == 'ivec' and b.t is not None and isinstance(base_node, ast.Attribute) \
            and isinstance(base_node.value, ast.Name) and not isinstance(sl_, (ast.Slice, ast.Tuple)):
        rec = st.deref(ex.ev(base_node.value, st))
        val = st.deref(v)
        if isinstance(rec, VRec) and rec.fields.get(base_node.attr) is b and is_intsort(val) and not isinstance(val, bool):
            k = ex.need_num(st, ex.ev(sl_, st), node)
            if is_intsort(k):
                k = M.norm_index(ex, st, k, b.shape[0], node, 'array-index')
                used('self.v[k] = c on an integer vector attribute -> functional update of the attribute')
                rec.fields[base_node.attr] = VArr(b.shape, z3.Store(b.t, Z(k), Z(val)), 'ivec', b.dtype)
                return
    if _on(ex) and isinstance(b, VArr) and b.ndim == 1 and b.tag == 'ivec' and b.t is not None and isinstance(base_node, ast.Name) \
            and not getattr(b, 'shared', False):
        val = st.deref(v)
        if is_intsort(val) and not isinstance(val, bool):
            if _full(sl_):
                used('v[:] = c on an integer vector -> the constant vector')
                st.vars[base_node.id] = VArr(b.shape, z3.K(I, Z(val)), 'ivec', b.dtype)
                return
            if not isinstance(sl_, (ast.Slice, ast.Tuple)):
                k = ex.need_num(st, ex.ev(sl_, st), node)
                if is_intsort(k):
                    k = M.norm_index(ex, st, k, b.shape[0], node, 'array-index')
                    used('v[k] = c on an integer vector -> functional update')
                    st.vars[base_node.id] = VArr(b.shape, z3.Store(b.t, Z(k), Z(val)), 'ivec', b.dtype)
                    return
    return _orig_store2(ex, st, base, sl_, v, node, base_node)


M.store = store2


def int_zeros(ex, st, args, kwargs, node):
    """np.zeros(n, dtype=int) -> the integer zero vector with an element-level denotation (handed to units through `callees`)."""
    dt = kwargs.get('dtype')
    if len(args) == 1 and set(kwargs) == {'dtype'} and isinstance(dt, M.TypeVal) and dt.name == 'int' and is_intsort(st.deref(args[0])):
        n = ex.need_num(st, args[0], node)
        ex.oblige(st, 'call-pre', 'non-negative-dimension', Z(n) >= 0, node)
        used('np.zeros(n, dtype=int) -> integer zero vector of length n')
        return VArr((n,), z3.K(I, z3.IntVal(0)), 'ivec', 'i')
    raise Unsupported(f'np.zeros pattern at line {node.lineno}')


# ---- np.unique of a column; lists of integer vectors of different lengths

DARR = z3.Function('darr', I, IA)           # the integer vector behind a code
DLEN = z3.Function('dlen', I, I)            # its length


def ivec_seq(ex, st, arr=None, n=None):
    """A Python list of 1-D integer arrays (symbolic length): element k is the vector DARR(arr[k]) of length DLEN(arr[k])."""
    seq = VSeq(arr if arr is not None else ex.fresh('ivecs', IA), n if n is not None else z3.IntVal(0),
               lambda c: VArr((DLEN(c),), DARR(c), 'ivec', 'i'), tag='ivecs')

    def unwrap(ex_, st_, v, node):
        o = st_.deref(v)
        if not (isinstance(o, VArr) and o.ndim == 1 and o.tag == 'ivec' and o.t is not None):
            raise ContractMismatch('what is appended to the list of integer vectors is not an integer vector with known entries')
        c = ex_.fresh_int('ivec')
        st_.assume(DARR(c) == o.t, DLEN(c) == Z(o.shape[0]))
        return c
    seq.unwrap = unwrap
    return st.alloc(seq)


def np_unique(ex, st, args, kwargs, node):
    v = st.deref(args[0]) if len(args) == 1 and not kwargs else None
    if isinstance(v, VArr) and v.ndim == 1 and v.tag == 'ivec' and v.t is not None:
        used('np.unique(c) of a 1-D integer array -> unq(c, n): the sorted distinct values (strictly increasing, each occurs in c, every entry of c '
             'is among them; 1 <= their number <= n for n >= 1)   [axiom group unique, spot-checked]')
        n = Z(v.shape[0])
        return VArr((unqlen(v.t, n),), unq(v.t, n), 'ivec', v.dtype)
    raise Unsupported(f'np.unique pattern at line {node.lineno}')


def same_array(ex, st, args, kwargs, node):
    """np.asanyarray(x) / np.asanyarray(x, dtype=<the dtype x has>): the array itself."""
    v = st.deref(args[0]) if len(args) == 1 else None
    dt = kwargs.get('dtype')
    if isinstance(v, VArr) and set(kwargs) <= {'dtype'} and (dt is None or (isinstance(dt, M.TypeVal) and dt.name == {'i': 'int', 'f': 'float'}.get(v.dtype))):
        used('np.asanyarray(x, dtype) of an array that has this dtype -> the same array')
        return v
    raise Unsupported(f'np.asanyarray pattern at line {node.lineno}')
