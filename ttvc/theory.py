"""Abstract theory of matrices and TT-cores over the reals used by the algebra tier of ttvc.

Sorts `Mat`, `Core` are uninterpreted; the function symbols below stand for the NumPy operations named in
the comments (this correspondence is part of the trusted base A-NP and is spot-checked against the installed
NumPy on every run by lemmas/spotcheck.py: every axiom is evaluated on random small instances).  The purely
algebraic axioms are additionally proved from Mathlib in lemmas/TTAlg.lean (thorough tier).

Every quantified axiom carries explicit patterns so that obligations can be run with e-matching only
(`smt.mbqi=false`): a failed proof then saturates in milliseconds instead of diverging.
"""
import z3

I, R, B = z3.IntSort(), z3.RealSort(), z3.BoolSort()
Mat = z3.DeclareSort('Mat')
Core = z3.DeclareSort('Core')
TT = z3.ArraySort(I, Core)
IDX = z3.ArraySort(I, I)

rows = z3.Function('rows', Mat, I)
cols = z3.Function('cols', Mat, I)
d0 = z3.Function('d0', Core, I)
d1 = z3.Function('d1', Core, I)
d2 = z3.Function('d2', Core, I)
sl = z3.Function('sl', Core, I, Mat)                 # G[:, j, :]
mm = z3.Function('mm', Mat, Mat, Mat)                # A @ B
hcat = z3.Function('hcat', Mat, Mat, Mat)            # np.concatenate([A, B], axis=1)
vcat = z3.Function('vcat', Mat, Mat, Mat)            # np.concatenate([A, B], axis=0)
madd = z3.Function('madd', Mat, Mat, Mat)            # A + B
smul = z3.Function('smul', R, Mat, Mat)              # c * A
kron = z3.Function('kron', Mat, Mat, Mat)            # np.kron(A, B)
tr = z3.Function('tr', Mat, Mat)                     # A.T
zeros = z3.Function('zeros', I, I, Mat)              # np.zeros((m, n))
eye = z3.Function('eye', I, Mat)                     # np.eye(n)
ent = z3.Function('ent', Mat, I, I, R)               # A[i, j]
row = z3.Function('row', Mat, I, Mat)                # A[i:i+1, :]  (1 x n)
cat0 = z3.Function('cat0', Core, Core, Core)         # np.concatenate([G, H], axis=0)
cat2 = z3.Function('cat2', Core, Core, Core)         # np.concatenate([G, H], axis=2)
zc = z3.Function('zc', I, I, I, Core)                # np.zeros([a, b, c])
cscale = z3.Function('cscale', R, Core, Core)        # c * G
kc = z3.Function('kc', Core, Core, Core)             # Kronecker core of mul: (G1[:,None,:,:,None]*G2[None,:,:,None,:]).reshape(r1*s1,-1,r2*s2)
unfL = z3.Function('unfL', Core, Mat)                # reshape(G, (r1*n, r2), order='F')
unfR = z3.Function('unfR', Core, Mat)                # reshape(G, (r1, n*r2), order='F')
foldL = z3.Function('foldL', Mat, I, I, Core)        # reshape(A, (r1, n, cols(A)), order='F')
foldR = z3.Function('foldR', Mat, I, I, Core)        # reshape(A, (rows(A), n, r2), order='F')
rowblk = z3.Function('rowblk', Mat, I, I, Mat)       # A[j*r:(j+1)*r, :]
colsel = z3.Function('colsel', Mat, I, I, Mat)       # A[:, j::n]
cmulR = z3.Function('cmulR', Core, Mat, Core)        # np.einsum('ijq,ql', G, U)  (core times matrix on the right bond)
fro = z3.Function('fro', Core, R)                    # np.linalg.norm(G)  (Frobenius norm of a core)
foldLC = z3.Function('foldLC', Mat, I, I, Core)      # A.reshape(r1, n, cols(A))  (C order: a row permutation of foldL)
rmul = z3.Function('rmul', R, R, R)                  # product of two reals, kept abstract inside e-matching proofs (unit / zero laws only)
sc = z3.Function('sc', R, Mat)                       # the 1 x 1 matrix [[x]]
onesc = z3.Function('onesc', I, I, I, Core)           # np.ones([a, b, c])
cset = z3.Function('cset', Core, I, R, Core)          # G with G[0, j, 0] = x   (for cores with r1 = r2 = 1)
centry = z3.Function('centry', Core, I, I, I, R)       # G[a, m, b]
cput = z3.Function('cput', Core, I, I, z3.ArraySort(I, R), Core)   # G with G[a, :, b] = w
msum = z3.Function('msum', Core, Mat)                # np.sum(G, axis=1)
wsum = z3.Function('wsum', Core, z3.ArraySort(I, R), Mat)   # np.einsum('rmq,m->rq', G, p)
chain = z3.Function('chain', TT, IDX, I, Mat)        # sl(Y[0],i0) @ ... @ sl(Y[k],ik)
mulI = z3.Function('mulI', I, I, I)                  # product of two symbolic dimensions
pow2 = z3.Function('pow2', I, I)                     # 2 ** q for integer q >= 0
schain = z3.Function('schain', TT, TT, I, Mat)       # msum(kc(Y1[0],Y2[0])) @ ... @ msum(kc(Y1[k],Y2[k]))  (scalar-product chain)
pow2r = z3.Function('pow2r', R, R)                   # 2.0 ** x for real x
sqrt = z3.Function('sqrt', R, R)
absr = z3.Function('absr', R, R)
floor = z3.Function('floor', R, I)
log2 = z3.Function('log2', R, R)
sqf = z3.Function('sqf', R, R)                       # x ** 2 (kept abstract: only sqf(x) >= 0 is used)
divf = z3.Function('divf', R, R, R)                  # x / c  (kept abstract: sign and monotonicity for c > 0)


def A(vs, body, pats):
    return z3.ForAll(vs, body, patterns=pats)


a_, b_, c_, e_ = z3.Consts('a_ b_ c_ e_', Mat)
P_, Q_ = z3.Consts('P_ Q_', Mat)
G_, H_ = z3.Consts('G_ H_', Core)
m_, n_, k_, j_, p_, q_ = z3.Ints('m_ n_ k_ j_ p_ q_')
x_, y_, z_ = z3.Reals('x_ y_ z_')
Y_ = z3.Const('Y_', TT)
ix_ = z3.Const('ix_', IDX)

class _Groups(dict):
    """Axiom groups by name; a name can be defined once (extension modules ttvc/mx_*.py add their own groups - a silent
    override by a second module would change the theory under another unit's proofs)."""
    def __setitem__(self, key, value):
        if key in self:
            raise KeyError(f'axiom group {key!r} is already defined')
        super().__setitem__(key, value)


GROUPS = _Groups()

# ---- shapes of the matrix operations
GROUPS['shape'] = [
    A([G_, j_], z3.And(rows(sl(G_, j_)) == d0(G_), cols(sl(G_, j_)) == d2(G_)), [sl(G_, j_)]),
    A([a_, b_], z3.And(rows(mm(a_, b_)) == rows(a_), cols(mm(a_, b_)) == cols(b_)), [mm(a_, b_)]),
    A([a_, b_], z3.And(rows(hcat(a_, b_)) == rows(a_), cols(hcat(a_, b_)) == cols(a_) + cols(b_)), [hcat(a_, b_)]),
    A([a_, b_], z3.And(cols(vcat(a_, b_)) == cols(a_), rows(vcat(a_, b_)) == rows(a_) + rows(b_)), [vcat(a_, b_)]),
    A([a_, b_], z3.And(rows(madd(a_, b_)) == rows(a_), cols(madd(a_, b_)) == cols(a_)), [madd(a_, b_)]),
    A([x_, a_], z3.And(rows(smul(x_, a_)) == rows(a_), cols(smul(x_, a_)) == cols(a_)), [smul(x_, a_)]),
    A([a_], z3.And(rows(tr(a_)) == cols(a_), cols(tr(a_)) == rows(a_)), [tr(a_)]),
    A([m_, n_], z3.And(rows(zeros(m_, n_)) == m_, cols(zeros(m_, n_)) == n_), [zeros(m_, n_)]),
    A([n_], z3.And(rows(eye(n_)) == n_, cols(eye(n_)) == n_), [eye(n_)]),
    A([a_, j_], z3.And(rows(row(a_, j_)) == 1, cols(row(a_, j_)) == cols(a_)), [row(a_, j_)]),
    A([a_, b_], z3.And(rows(kron(a_, b_)) == mulI(rows(a_), rows(b_)), cols(kron(a_, b_)) == mulI(cols(a_), cols(b_))),
      [kron(a_, b_)]),
    A([G_, H_], z3.And(d0(cat0(G_, H_)) == d0(G_) + d0(H_), d1(cat0(G_, H_)) == d1(G_), d2(cat0(G_, H_)) == d2(G_)),
      [cat0(G_, H_)]),
    A([G_, H_], z3.And(d2(cat2(G_, H_)) == d2(G_) + d2(H_), d1(cat2(G_, H_)) == d1(G_), d0(cat2(G_, H_)) == d0(G_)),
      [cat2(G_, H_)]),
    A([m_, n_, k_], z3.And(d0(zc(m_, n_, k_)) == m_, d1(zc(m_, n_, k_)) == n_, d2(zc(m_, n_, k_)) == k_),
      [zc(m_, n_, k_)]),
    A([x_, G_], z3.And(d0(cscale(x_, G_)) == d0(G_), d1(cscale(x_, G_)) == d1(G_), d2(cscale(x_, G_)) == d2(G_)),
      [cscale(x_, G_)]),
    A([G_, H_], z3.And(d0(kc(G_, H_)) == mulI(d0(G_), d0(H_)), d1(kc(G_, H_)) == d1(G_),
                       d2(kc(G_, H_)) == mulI(d2(G_), d2(H_))), [kc(G_, H_)]),
    A([G_], z3.And(rows(unfL(G_)) == mulI(d0(G_), d1(G_)), cols(unfL(G_)) == d2(G_)), [unfL(G_)]),
    A([G_], z3.And(rows(unfR(G_)) == d0(G_), cols(unfR(G_)) == mulI(d1(G_), d2(G_))), [unfR(G_)]),
    A([a_, m_, n_], z3.And(d0(foldL(a_, m_, n_)) == m_, d1(foldL(a_, m_, n_)) == n_, d2(foldL(a_, m_, n_)) == cols(a_)),
      [foldL(a_, m_, n_)]),
    A([a_, m_, n_], z3.And(d0(foldR(a_, m_, n_)) == rows(a_), d1(foldR(a_, m_, n_)) == m_, d2(foldR(a_, m_, n_)) == n_),
      [foldR(a_, m_, n_)]),
    A([G_], z3.And(rows(msum(G_)) == d0(G_), cols(msum(G_)) == d2(G_)), [msum(G_)]),
    A([G_, a_], z3.And(d0(cmulR(G_, a_)) == d0(G_), d1(cmulR(G_, a_)) == d1(G_), d2(cmulR(G_, a_)) == cols(a_)), [cmulR(G_, a_)]),
    A([G_], fro(G_) >= 0, [fro(G_)]),
]

# ---- products of symbolic dimensions
GROUPS['mulI'] = [
    A([m_, n_], mulI(m_, n_) == mulI(n_, m_), [mulI(m_, n_)]),
    A([m_, n_], z3.Implies(z3.And(m_ >= 1, n_ >= 1), z3.And(mulI(m_, n_) >= m_, mulI(m_, n_) >= n_)), [mulI(m_, n_)]),
    A([n_], z3.And(mulI(1, n_) == n_, mulI(n_, 1) == n_), [mulI(1, n_), mulI(n_, 1)]),
    A([n_], z3.And(mulI(0, n_) == 0, mulI(n_, 0) == 0), [mulI(0, n_), mulI(n_, 0)]),
    A([m_, n_], z3.Implies(z3.And(m_ >= 0, n_ >= 0), mulI(m_, n_) >= 0), [mulI(m_, n_)]),
]


def mul_canon(*factors):
    """Canonical product of integer dimension terms: nested mulI applications are flattened, literal factors are
    multiplied out, the symbolic factors are sorted - so associativity / commutativity of products of dimensions hold
    syntactically and need no axioms (which would be AC matching loops)."""
    lits, syms = 1, []
    stack = list(factors)
    while stack:
        f = stack.pop()
        if isinstance(f, int):
            lits *= f
            continue
        f = z3.simplify(f) if not z3.is_int_value(f) else f
        if z3.is_int_value(f):
            lits *= f.as_long()
        elif z3.is_app(f) and f.decl().eq(mulI):
            stack.extend(f.children())
        else:
            syms.append(f)
    if lits == 0:
        return z3.IntVal(0)
    syms.sort(key=lambda t: t.sexpr())
    if not syms:
        return z3.IntVal(lits)
    out = syms[0]
    for t in syms[1:]:
        out = mulI(out, t)
    return out if lits == 1 else lits * out

# ---- block algebra (proved in Lean: lemmas/TTAlg.lean)
GROUPS['block'] = [
    # [a b] [c; e] = a c + b e
    A([a_, b_, c_, e_], z3.Implies(z3.And(rows(a_) == rows(b_), cols(c_) == cols(e_), cols(a_) == rows(c_),
                                          cols(b_) == rows(e_)),
                                   mm(hcat(a_, b_), vcat(c_, e_)) == madd(mm(a_, c_), mm(b_, e_))),
      [mm(hcat(a_, b_), vcat(c_, e_))]),
    # a [c e] = [a c, a e]
    A([a_, c_, e_], z3.Implies(z3.And(rows(c_) == rows(e_), cols(a_) == rows(c_)),
                               mm(a_, hcat(c_, e_)) == hcat(mm(a_, c_), mm(a_, e_))), [mm(a_, hcat(c_, e_))]),
    # [[a b];[c e]] row/column interchange
    A([a_, b_, c_, e_], z3.Implies(z3.And(rows(a_) == rows(b_), rows(c_) == rows(e_), cols(a_) == cols(c_),
                                          cols(b_) == cols(e_)),
                                   vcat(hcat(a_, b_), hcat(c_, e_)) == hcat(vcat(a_, c_), vcat(b_, e_))),
      [vcat(hcat(a_, b_), hcat(c_, e_))]),
    A([a_, m_, n_], z3.Implies(cols(a_) == m_, mm(a_, zeros(m_, n_)) == zeros(rows(a_), n_)), [mm(a_, zeros(m_, n_))]),
    A([a_, m_, n_], z3.Implies(z3.And(rows(a_) == m_, cols(a_) == n_),
                               z3.And(madd(a_, zeros(m_, n_)) == a_, madd(zeros(m_, n_), a_) == a_)),
      [madd(a_, zeros(m_, n_)), madd(zeros(m_, n_), a_)]),
]

# ---- slices of concatenated / zero / scaled cores
GROUPS['core'] = [
    A([G_, H_, j_], sl(cat0(G_, H_), j_) == vcat(sl(G_, j_), sl(H_, j_)), [sl(cat0(G_, H_), j_)]),
    A([G_, H_, j_], sl(cat2(G_, H_), j_) == hcat(sl(G_, j_), sl(H_, j_)), [sl(cat2(G_, H_), j_)]),
    A([m_, n_, k_, j_], sl(zc(m_, n_, k_), j_) == zeros(m_, k_), [sl(zc(m_, n_, k_), j_)]),
    A([x_, G_, j_], sl(cscale(x_, G_), j_) == smul(x_, sl(G_, j_)), [sl(cscale(x_, G_), j_)]),
    A([G_, H_, j_], sl(kc(G_, H_), j_) == kron(sl(G_, j_), sl(H_, j_)), [sl(kc(G_, H_), j_)]),
]

# ---- scalar multiples
GROUPS['smul'] = [
    A([x_, a_, b_], mm(smul(x_, a_), b_) == smul(x_, mm(a_, b_)), [mm(smul(x_, a_), b_)]),
    A([x_, a_, b_], mm(a_, smul(x_, b_)) == smul(x_, mm(a_, b_)), [mm(a_, smul(x_, b_))]),
    A([a_], smul(1, a_) == a_, [smul(1, a_)]),
    # a 1 x 1 matrix acts as a scalar
    A([a_, b_], z3.Implies(z3.And(rows(a_) == 1, cols(a_) == 1, rows(b_) == 1), mm(a_, b_) == smul(ent(a_, 0, 0), b_)), [mm(a_, b_)]),
    A([x_, y_, a_], smul(x_, smul(y_, a_)) == smul(x_ * y_, a_), [smul(x_, smul(y_, a_))]),
    A([x_, a_, m_, n_], ent(smul(x_, a_), m_, n_) == x_ * ent(a_, m_, n_), [ent(smul(x_, a_), m_, n_)]),
    A([a_, b_, m_, n_], ent(madd(a_, b_), m_, n_) == ent(a_, m_, n_) + ent(b_, m_, n_), [ent(madd(a_, b_), m_, n_)]),
]

# ---- Kronecker mixed product (proved in Lean) and 1x1 collapse
GROUPS['kron'] = [
    A([a_, b_, c_, e_], z3.Implies(z3.And(cols(a_) == rows(c_), cols(b_) == rows(e_)),
                                   mm(kron(a_, b_), kron(c_, e_)) == kron(mm(a_, c_), mm(b_, e_))),
      [mm(kron(a_, b_), kron(c_, e_))]),
    A([a_, b_], z3.Implies(z3.And(rows(a_) == 1, cols(a_) == 1, rows(b_) == 1, cols(b_) == 1),
                           ent(kron(a_, b_), 0, 0) == ent(a_, 0, 0) * ent(b_, 0, 0)), [kron(a_, b_)]),
]

# ---- rank-one cores, element by element (1 x 1 slices)
GROUPS['elem'] = [
    A([x_], z3.And(rows(sc(x_)) == 1, cols(sc(x_)) == 1, ent(sc(x_), 0, 0) == x_), [sc(x_)]),
    A([x_, y_], mm(sc(x_), sc(y_)) == sc(rmul(x_, y_)), [mm(sc(x_), sc(y_))]),
    A([x_, y_], smul(x_, sc(y_)) == sc(rmul(x_, y_)), [smul(x_, sc(y_))]),
    A([x_], z3.And(rmul(x_, 0) == 0, rmul(0, x_) == 0, rmul(x_, 1) == x_, rmul(1, x_) == x_),
      [rmul(x_, 0), rmul(0, x_), rmul(x_, 1), rmul(1, x_)]),
    zeros(1, 1) == sc(0),
    A([m_, n_, k_], z3.And(d0(onesc(m_, n_, k_)) == m_, d1(onesc(m_, n_, k_)) == n_, d2(onesc(m_, n_, k_)) == k_), [onesc(m_, n_, k_)]),
    A([n_, j_], sl(onesc(1, n_, 1), j_) == sc(1), [sl(onesc(1, n_, 1), j_)]),
    A([G_, j_, x_], z3.And(d0(cset(G_, j_, x_)) == d0(G_), d1(cset(G_, j_, x_)) == d1(G_), d2(cset(G_, j_, x_)) == d2(G_)),
      [cset(G_, j_, x_)]),
    A([G_, j_, x_, k_], z3.Implies(z3.And(d0(G_) == 1, d2(G_) == 1), sl(cset(G_, j_, x_), k_) == z3.If(k_ == j_, sc(x_), sl(G_, k_))),
      [sl(cset(G_, j_, x_), k_)]),
]

# ---- entries of cores (pattern cores built by fibre assignments  G[a, :, b] = w)
_w = z3.Const('w_', z3.ArraySort(I, R))
GROUPS['centry'] = [
    A([G_, m_, n_, _w], z3.And(d0(cput(G_, m_, n_, _w)) == d0(G_), d1(cput(G_, m_, n_, _w)) == d1(G_), d2(cput(G_, m_, n_, _w)) == d2(G_)),
      [cput(G_, m_, n_, _w)]),
    A([G_, m_, n_, _w, k_, j_, p_], centry(cput(G_, m_, n_, _w), k_, j_, p_) == z3.If(z3.And(k_ == m_, p_ == n_), _w[j_], centry(G_, k_, j_, p_)),
      [centry(cput(G_, m_, n_, _w), k_, j_, p_)]),
    A([x_, G_, k_, j_, p_], centry(cscale(x_, G_), k_, j_, p_) == rmul(x_, centry(G_, k_, j_, p_)), [centry(cscale(x_, G_), k_, j_, p_)]),
    A([x_], z3.And(rmul(x_, 0) == 0, rmul(0, x_) == 0, rmul(x_, 1) == x_, rmul(1, x_) == x_),
      [rmul(x_, 0), rmul(0, x_), rmul(x_, 1), rmul(1, x_)]),
]

# ---- the chain: val(Y, i) = chain(Y, i, d-1)[0, 0]
GROUPS['chain'] = [
    A([Y_, ix_], chain(Y_, ix_, 0) == sl(Y_[0], ix_[0]), [chain(Y_, ix_, 0)]),
    A([Y_, ix_, k_], z3.Implies(k_ >= 1, chain(Y_, ix_, k_) == mm(chain(Y_, ix_, k_ - 1), sl(Y_[k_], ix_[k_]))),
      [chain(Y_, ix_, k_)]),
]

# ---- rows of a one-row matrix
GROUPS['row'] = [
    A([a_], z3.Implies(rows(a_) == 1, row(a_, 0) == a_), [row(a_, 0)]),
    A([a_, b_, j_], row(mm(a_, b_), j_) == mm(row(a_, j_), b_), [row(mm(a_, b_), j_)]),
]

# ---- Fortran-order unfoldings of a core (statements about np.reshape(order='F'); spot-checked, not in Lean)
GROUPS['unfold'] = [
    A([G_, j_], z3.Implies(z3.And(0 <= j_, j_ < d1(G_)), sl(G_, j_) == rowblk(unfL(G_), j_, d0(G_))), [sl(G_, j_)]),
    A([G_, j_], z3.Implies(z3.And(0 <= j_, j_ < d1(G_)), sl(G_, j_) == colsel(unfR(G_), j_, d1(G_))), [sl(G_, j_)]),
    A([a_, m_, n_], z3.Implies(z3.And(m_ >= 1, n_ >= 1, rows(a_) == mulI(m_, n_)), unfL(foldL(a_, m_, n_)) == a_),
      [foldL(a_, m_, n_)]),
    A([a_, m_, n_], z3.Implies(z3.And(m_ >= 1, n_ >= 1, cols(a_) == mulI(m_, n_)), unfR(foldR(a_, m_, n_)) == a_),
      [foldR(a_, m_, n_)]),
    A([a_, b_, j_, m_], z3.Implies(cols(a_) == rows(b_), rowblk(mm(a_, b_), j_, m_) == mm(rowblk(a_, j_, m_), b_)),
      [rowblk(mm(a_, b_), j_, m_)]),
    A([a_, b_, j_, n_], z3.Implies(cols(a_) == rows(b_), colsel(mm(a_, b_), j_, n_) == mm(a_, colsel(b_, j_, n_))),
      [colsel(mm(a_, b_), j_, n_)]),
    A([a_, j_, m_], z3.And(rows(rowblk(a_, j_, m_)) == m_, cols(rowblk(a_, j_, m_)) == cols(a_)), [rowblk(a_, j_, m_)]),
    A([a_, j_, n_], rows(colsel(a_, j_, n_)) == rows(a_), [colsel(a_, j_, n_)]),
    A([G_, a_], unfL(cmulR(G_, a_)) == mm(unfL(G_), a_), [cmulR(G_, a_)]),
    # C-order fold: the left unfolding is a row permutation of A, so its Gram matrix is that of A
    A([a_, m_, n_], z3.And(d0(foldLC(a_, m_, n_)) == m_, d1(foldLC(a_, m_, n_)) == n_, d2(foldLC(a_, m_, n_)) == cols(a_)),
      [foldLC(a_, m_, n_)]),
    A([a_, m_, n_], z3.Implies(z3.And(m_ >= 1, n_ >= 1, rows(a_) == mulI(m_, n_)),
                               mm(tr(unfL(foldLC(a_, m_, n_))), unfL(foldLC(a_, m_, n_))) == mm(tr(a_), a_)), [foldLC(a_, m_, n_)]),
    A([G_, a_, j_], sl(cmulR(G_, a_), j_) == mm(sl(G_, j_), a_), [sl(cmulR(G_, a_), j_)]),
]

# ---- integer / real helper functions
# NB: every axiom must be free of matching loops (its instances must not create new terms that match its own
# pattern); recursive definitions therefore use two-variable multi-patterns that only relate existing terms.
GROUPS['pow2'] = [
    pow2(0) == 1,
    A([q_], z3.Implies(q_ >= 0, pow2(q_) >= 1), [pow2(q_)]),
    A([q_, p_], z3.Implies(z3.And(q_ >= 0, p_ == q_ + 1), pow2(p_) == 2 * pow2(q_)), [z3.MultiPattern(pow2(q_), pow2(p_))]),
]
GROUPS['pow2r'] = [
    A([x_], pow2r(x_) > 0, [pow2r(x_)]),
    A([x_, y_], z3.Implies(y_ == x_ + 1, pow2r(y_) == 2 * pow2r(x_)), [z3.MultiPattern(pow2r(x_), pow2r(y_))]),
    pow2r(0) == 1,
    # characterisation of log2 against integer powers of two: k <= log2 x  <=>  2^k <= x   (x > 0)
    A([x_, k_], z3.Implies(x_ > 0, (z3.ToReal(k_) <= log2(x_)) == (pow2r(z3.ToReal(k_)) <= x_)),
      [z3.MultiPattern(log2(x_), pow2r(z3.ToReal(k_)))]),
]
GROUPS['pow2link'] = [
    # integer and real powers of two agree on non-negative integer exponents
    A([q_], z3.Implies(q_ >= 0, pow2r(z3.ToReal(q_)) == z3.ToReal(pow2(q_))), [pow2(q_)]),
]
GROUPS['cscale'] = [
    A([x_, y_, G_], cscale(x_, cscale(y_, G_)) == cscale(x_ * y_, G_), [cscale(x_, cscale(y_, G_))]),
    A([G_], cscale(1, G_) == G_, [cscale(1, G_)]),
]
GROUPS['sq'] = [
    A([x_], sqf(x_) >= 0, [sqf(x_)]),
    A([x_, y_], z3.Implies(z3.And(y_ > 0, x_ >= 0), divf(x_, y_) >= 0), [divf(x_, y_)]),
]
GROUPS['real'] = [
    A([x_], z3.Implies(x_ >= 0, z3.And(sqrt(x_) >= 0, sqrt(x_) * sqrt(x_) == x_)), [sqrt(x_)]),
    A([x_], z3.And(absr(x_) >= 0, z3.Or(absr(x_) == x_, absr(x_) == -x_), absr(x_) >= x_, absr(x_) >= -x_), [absr(x_)]),
    A([x_], z3.And(z3.ToReal(floor(x_)) <= x_, x_ < z3.ToReal(floor(x_)) + 1), [floor(x_)]),
]


# ---- scalar multiples without real multiplication: products of scalars stay abstract (rmul) so that e-matching proofs never
# see a nonlinear term; the link rmul(x, y) = x * y is used only in separate quantifier-free obligations
GROUPS['smulr'] = [
    A([x_, a_, b_], mm(smul(x_, a_), b_) == smul(x_, mm(a_, b_)), [mm(smul(x_, a_), b_)]),
    A([x_, a_, b_], mm(a_, smul(x_, b_)) == smul(x_, mm(a_, b_)), [mm(a_, smul(x_, b_))]),
    A([a_], smul(1, a_) == a_, [smul(1, a_)]),
    A([x_, y_, a_], smul(x_, smul(y_, a_)) == smul(rmul(x_, y_), a_), [smul(x_, smul(y_, a_))]),
]

# ---- scalar-product chain of two tensors (mul_scalar): recursive definition with a two-variable pattern (no matching loop)
Y2_ = z3.Const('Y2_', TT)
GROUPS['schain'] = [
    A([Y_, Y2_], schain(Y_, Y2_, 0) == msum(kc(Y_[0], Y2_[0])), [schain(Y_, Y2_, 0)]),
    A([Y_, Y2_, k_, j_], z3.Implies(z3.And(k_ >= 1, j_ == k_ - 1),
                                    schain(Y_, Y2_, k_) == mm(schain(Y_, Y2_, j_), msum(kc(Y_[k_], Y2_[k_])))),
      [z3.MultiPattern(schain(Y_, Y2_, k_), schain(Y_, Y2_, j_))]),
]
# ---- 2^(x+y) = 2^x 2^y, instantiated only for exponents that already occur (three-variable pattern)
GROUPS['pow2add'] = [
    A([x_, y_, z_], z3.Implies(z_ == x_ + y_, pow2r(z_) == pow2r(x_) * pow2r(y_)),
      [z3.MultiPattern(pow2r(x_), pow2r(y_), pow2r(z_))]),
]


def wf(Y, d):
    """Well-formedness of a TT given as (z3 array of Core, length d): the spec predicate wf(Y) of DESIGN section 2."""
    return z3.And(
        d >= 2, d0(Y[0]) == 1, d2(Y[d - 1]) == 1,
        A([k_], z3.Implies(z3.And(0 <= k_, k_ < d), z3.And(d0(Y[k_]) >= 1, d1(Y[k_]) >= 1, d2(Y[k_]) >= 1)), [Y[k_]]),
        A([k_, j_], z3.Implies(z3.And(0 <= k_, j_ == k_ + 1, j_ < d), d2(Y[k_]) == d0(Y[j_])),
          [z3.MultiPattern(Y[k_], Y[j_])]))


def index_ok(ix, Y, d):
    return A([k_], z3.Implies(z3.And(0 <= k_, k_ < d), z3.And(0 <= ix[k_], ix[k_] < d1(Y[k_]))), [ix[k_]])


def axioms(*groups):
    out = []
    for g in groups:
        out.extend(GROUPS[g])
    return out
